# Single source of truth for MANIFEST.json (bin/mkmanifest regenerates it).
HOOK_COMMITS = ['ba9d497', '86002f7', 'df75f69', '4299eec']
NOTES = 'see DESIGN.md §9 (as built)'
NOT_APPLICABLE = {}
CLAIMS = {}
CLAIMS['C01'] = dict(
    text='BSP.tla (one action per critical section of the batch span processor) is checked exhaustively by TLC for a family of small configurations against the contract; TLC -simulate behaviours are replayed on the real processor through hook/exporter/call gates; every real execution (replayed, directed, seeded random with perturbation and slow/failing/timing-out exporters) is validated by TLC against the total contract monitor BSPContract.tla.',
    ref='DESIGN.md §4 C01, App. A.1',
    note="exhaustive only for small constants; callers' contexts never expire; timer-triggered exports only by perturbation; Dropped/Ignored/FFEarly events rely on the verif hooks; known deviations D1/D4 are listed in known_findings/C01.json",
    technique='TLA+ implementation-shaped spec + TLC exhaustive; gate replay of TLC behaviours; TLC trace validation against a contract monitor',
)
CLAIMS['C04'] = dict(
    text='SpanModel.tla is explored exhaustively by TLC for small domains under many limit combinations; every edge of the state graph is replayed on a real span and the exported span compared with the spec successor; seeded random span programs on the real SDK are validated by TLC against the same model.',
    ref='DESIGN.md §4 C04',
    note='trusts TLC, the symbol-class concretization table and the projection of ReadOnlySpan onto the model state; non-string attribute values are represented by one witness per type',
    technique='TLA+ reference model, TLC edge replay on real spans + TLC trace validation of random programs',
)
CLAIMS['C05'] = dict(
    text='AttrSet.tla over the pure model AttrModel.tla (Canon = last value per key sorted by key, leftovers, Filter, Merge, a StreamTable keyed by the canonical form) is explored exhaustively by TLC for several small configurations and by -simulate across the 10/11 fixed-array/reflect boundary; every edge is replayed on the real attribute package and every projected component (ToSlice, caller slice, filtered items, Len, Value/HasValue, Iter, merge order, Equals, Equivalent() as a real Go map key) compared with the spec successor; seeded random programs on the real package are validated by TLC against the same operators (Trace_AttrSet.tla).',
    ref='DESIGN.md §4 C05',
    note='exhaustive only for small key/value domains; value equality is bit-level except where the statement is silent (+0/-0 inside slices); the NaN-in-FLOAT64SLICE identity defect is listed in known_findings/C05.json',
    technique='TLA+ reference model, TLC edge replay on the real attribute package + TLC trace validation of random programs',
)
CLAIMS['C07'] = dict(
    text='ExpoHistogram.tla carries the accumulator of exponential_histogram.go step for step and TLC proves for every short operation sequence over representative values that it computes the declarative reference point of ExpoModel.tla (exact index floor(b20/2^(20-s)), count conservation, size and scale bounds); Histogram.tla does the same for explicit buckets. Every TLC edge is replayed through the public metrics API with several concretizations per abstract value and compared with the spec successor; seeded random real scenarios are abstracted with exact big-float arithmetic and every collected point validated by TLC against the contract (Trace_Hist.tla).',
    ref='DESIGN.md §4 C07',
    note='TLC decides the integer bucket-index algebra; placement of float values within ulps of irrational boundaries is sampled with an exact projection (ambiguous values accept either neighbour); int64 values above 2^53 sampled only',
    technique='TLA+ transcription of the accumulator + declarative contract; TLC edge replay via the public API; TLC validation of random real data points',
)
CLAIMS['C09'] = dict(
    text='Sampling.tla (span forests x sampler terms x parent contexts x trace-ID classes) is explored exhaustively by TLC for small constants; every edge is replayed on a real TracerProvider with scripted ID generator and scripted custom samplers and the projection (SpanContext, IsRecording, processors, exporters) compared with the spec successor; recorded real forests, ratio-sampler decisions for random IDs x ratios, ID statistics of 10^5..10^6 spans and sampled shares are validated by TLC against SamplingModel/RatioBits (Trace_Sampling.tla).',
    ref='DESIGN.md §4 C09',
    note='ratio arithmetic for non-dyadic ratios is checked relationally (deterministic, monotone in ratio and in ID, share within a 6-sigma binomial bound), not against an exact oracle; ID uniqueness is sampled',
    technique='TLA+ reference model, TLC edge replay on a real TracerProvider + TLC trace validation of recorded decisions',
)
CLAIMS['C12'] = dict(
    text='CardinalityH.tla: TLC checks for every history up to a bound that the operational model (views -> streams -> aggregators, filter, limiter, delta/cumulative collection) equals the declarative statement (first L-1 sets keep identity, one overflow point, counts and sums conserved, at most L points). Cardinality.tla is explored exhaustively, every edge replayed through the public API on a fresh provider and every collection compared with the spec; seeded random pipelines (7 instrument kinds, views, limits to 16, 20-200 sets, 5 cycles) are validated by TLC against CardModel (Trace_Cardinality.tla).',
    ref='DESIGN.md §4 C12',
    note='exhaustive for small constants only; the cardinality limit is configured through OTEL_GO_X_CARDINALITY_LIMIT before each provider is built; sequential driver (concurrency of recording is C02\'s subject)',
    technique='TLA+ operational model proved equal to a declarative statement by TLC; TLC edge replay via the public API; TLC trace validation of random pipelines',
)
CLAIMS['C17'] = dict(
    text='LogRecord.tla over LogModel.tla/Truncate.tla is explored exhaustively by TLC for several small families (de-duplication x count limit, truncation x overwrite at every nesting depth, clone independence, the 5-slot inline array boundary, every symbol string x every length limit); every edge is replayed on a real sdk/log Record obtained through Logger.Emit and the projections before/after validated; seeded random edit programs (duplicate keys, nested values, invalid UTF-8) are validated by TLC against the conformance relation (Trace_LogRecord.tla).',
    ref='DESIGN.md §4 C17',
    note='strings are sequences over a symbol-class alphabet with a concretization table; the documented-vs-actual meaning of count limit 0 is listed in known_findings/C17.json; two earlier findings were repaired (377ab79, 06a8fa4)',
    technique='TLA+ reference model, TLC edge replay on real log records + TLC trace validation of random edit programs',
)
CLAIMS['C19'] = dict(
    text='ResourceMerge.tla over ResModel.tla enumerates every tuple of 1..3 operands (2 keys x 2 values x 3 schemas, nil, empty), attribute lists, scripted detector sequences and (ResourceEnv.tla over EnvModel.tla) every token string up to a bound as OTEL_RESOURCE_ATTRIBUTES; the statement\'s laws are TLC invariants over all of them. Every edge is executed on the real sdk/resource package and the projection compared with the successor (membership where the statement leaves a choice); seeded random resources, detector sequences and environment strings on the real code are validated by TLC (Trace_ResourceMerge.tla).',
    ref='DESIGN.md §4 C19',
    note='exhaustive for small domains; environment parsing is modelled over symbol classes; the NaN-in-FLOAT64SLICE identity defect (same root cause as C05) is listed in known_findings/C19.json',
    technique='TLA+ reference model with the laws as TLC invariants; TLC edge replay on sdk/resource + TLC trace validation',
)

CLAIMS['C03'] = dict(
    text='W3CTraceContext.tla/TraceState.tla/TraceContext.tla: the traceparent/tracestate grammar over symbol classes and the tracestate edit state machine (insert = move-to-front, evict right-most, delete), transcribed from the W3C text; TLC enumerates every abstract header up to a bound, every edit sequence, and proves the round-trip theorems (MC_W3CTheorems). Every enumerated header/edit edge is concretized (several byte representatives per class, boundary lengths) and executed on the real ParseTraceState / TraceContext propagator / TraceState edit API; accept/reject, members, re-injected headers and copy-on-write are compared with the spec; seeded random byte strings and edit sequences at the real cap (32) are abstracted by a lexer and validated by TLC (Trace_TraceContext.tla).',
    ref='DESIGN.md §4 C03',
    note='grammar over symbol classes with a concretization table reviewed against the W3C grammar; exhaustive for short headers only; the multi-byte-rune key defect was repaired in /repo (668ba81) and is re-detected if the repair is reverted',
    technique='TLA+ grammar + edit state machine, TLC enumeration with edge replay on the real parser/propagator + TLC trace validation',
)
CLAIMS['C08'] = dict(
    text='Temporality.tla over TemporalityModel.tla: one instrument of each of the 7 kinds x applicable aggregations observed by a delta and a cumulative reader over a logical clock; TLC explores every short history (records, callback tables, collection points) for 25 (quick) / 54 (thorough) configurations; every Collect edge is replayed on a real MeterProvider with a delta and a cumulative ManualReader collecting back to back and each reported point is validated by TLC (Trace_Temporality.tla: cumulative = running delta, adjacency via structural timestamp relations, async set equality, gauge last value); seeded random long multi-instrument histories are validated the same way.',
    ref='DESIGN.md §4 C08',
    note='timestamps are compared structurally only (equality with the reader\'s previous time, fixed start, <=), never against wall clock; tolerant where the statement is silent (cumulative gauge without recording, all-zero delta points); one defect repaired in /repo (f2dc3c2), one listed in known_findings/C08.json',
    technique='TLA+ per-aggregator temporality model, TLC edge replay through the public metrics API + TLC trace validation',
)
CLAIMS['C10'] = dict(
    text='SpanEnd.tla models recordingSpan.End lock-step by lock-step (check, task-end window or mark-first shape, mark, snapshot, fan-out), mutators, child starters, readers and a registrar, with the contract as monitor variables; TLC exhaustive for a family of configurations (deadlock freedom, exactly-once OnEnd per processor, single end time, snapshot atomicity, liveness); every gate-level interleaving of two enders (and, thorough, enders + mutator/registrar) is generated by TLC (-simulate over SpanEndSim.tla) and replayed deterministically on real spans through the verif hook gates with runtime/trace on and off; every real execution (replayed, directed, seeded random with perturbation) is validated by TLC against the total contract monitor SpanEndContract.tla.',
    ref='DESIGN.md §4 C10, App. A.2',
    note='the calling goroutine is identified by goroutine id in the harness only; data-race freedom is an auxiliary -race rerun in the thorough tier, not model checking; the double-delivery defect was repaired in /repo (0a6ac4a); without the verif hooks the check degrades to exit 2',
    technique='TLA+ implementation-shaped spec + TLC exhaustive; gate replay of all TLC interleavings through hooks; TLC trace validation against a contract monitor',
)
CLAIMS['C11'] = dict(
    text='BaggageCodec.tla (escape/unescape, serialise, parse over character classes with abstract byte lengths), BaggageRT.tla (grammar-directed enumeration of headers and constructor inputs with scaled limits and boundary families at the real limits) and BaggageStore.tla/BaggageEdit.tla (handles, contexts, returned slices; immutability as an action property) are explored by TLC; every codec edge is concretized and executed on baggage.New/NewMember(Raw)/Parse/String and the propagator, every store edge re-reads all live handles, contexts and previously returned slices after each step; seeded random members, raw byte headers and the 179/180/181, 4095/6/7, 8191/2/3 families are validated by TLC at the real constants (Trace_Baggage.tla).',
    ref='DESIGN.md §4 C11',
    note='character classes with a concretization table; byte identity within one class is covered only by real-vs-real round-trip comparison; three defects were repaired in /repo (b3e47ab, 06d724d, 7e6e811); TLC -coverage is unusable on the nested codec operators, action coverage is taken from the printed edges',
    technique='TLA+ codec + store model, TLC enumeration with edge replay on the real baggage package + TLC trace validation at the real limits',
)
CLAIMS['C13'] = dict(
    text='OtlpModel.tla defines resource/scope keys, Group(batch) and the field-presence vocabulary from the OTLP data model; OtlpGrouping.tla enumerates every batch up to 4 items over equal-but-distinct resources and scopes (incl. schema URLs, empty scope) and field-vector classes with pairwise-distinct markers, and TLC proves Group consistent with the declarative statement (exactly once, one group per key, order kept, sensitivity). For every edge the harness builds real spans / ResourceMetrics / log records, runs the six real OTLP exporters against in-process gRPC and HTTP collectors and the Zipkin exporter against a loopback server, projects the decoded protobuf/JSON back to the abstract vocabulary, and TLC (Trace_OtlpGrouping.tla) compares it with Group(batch) and checks gRPC = HTTP (projection and bytes); seeded random batches with boundary-value classes are validated the same way.',
    ref='DESIGN.md §4 C13',
    note='technique boundary: TLC decides grouping / exactly-once / order / field-presence / gRPC=HTTP; fidelity for extreme concrete values is only sampled through the concretization table and the projection functions are trusted Go; three defects repaired in /repo (ef06720, 85abb1b, fcf026a), two listed in known_findings/C13.json (their repair would need edits to the repository\'s own tests)',
    technique='TLA+ grouping/field-presence model, TLC enumeration with edge replay through the real exporters and loopback collectors + TLC trace validation',
)
CLAIMS['C14'] = dict(
    text='OtlpRetry.tla transcribes retry.RequestFunc (attempt, evaluate, elapsed checks, delay = max(throttle, backoff), wait vs ctx.Done) with the per-protocol retryable sets taken from the statement, a discrete clock, collector outcome sequences, Cancel and Shutdown at any point; TLC exhaustive over outcome sequences <= 4 (5 thorough) x throttles x MaxElapsed x stop points, eight seeded model deviations each violate the contract. TLC behaviours are scripts for in-process HTTP and gRPC collectors driving all six real exporters with real (small) times; collector-side arrival times, payload hashes, returned errors and error-handler calls are recorded and validated by TLC against the total contract monitor (Trace_OtlpRetry.tla); plus directed and seeded random scripts.',
    ref='DESIGN.md §4 C14',
    note='real time: lower bounds (gap >= throttle, no attempt past the limit) are checked with zero tolerance on the favourable side of the clock, upper bounds with 1 s tolerance and only believed if repeated; temporary network errors only as client timeouts; Retry-After-as-nanoseconds is listed in known_findings/C14.json (its repair needs edits to the repository\'s tests); otlploghttp shutdown defect repaired (3f36591)',
    technique='TLA+ transcription of the retry loop + contract monitor; TLC behaviours replayed as collector scripts on the six real exporters; TLC trace validation',
)
CLAIMS['C16'] = dict(
    text='GlobalDelegate.tla is a lock-level model of internal/global (provider.mtx, meter.mtx, registration.unregMu, the once) with installer, creators, recorders and registrars, one action per critical section; TLC exhaustive for a family of configurations (Stuck = deadlock freedom, exactly-once callback delegation, no measurement lost after Set returned, liveness); a NoKnown config makes TLC find the lock-order inversion of the pre-repair code and the Patched variant is proved clean. TLC -simulate behaviours (gate passages) are replayed on the real package without hooks: the installed delegate wraps the real SDK and its methods are natural gates called under the package\'s locks; every scenario runs in a fresh subprocess (once-only global state), is recorded and validated by TLC against the total contract monitor (Trace_GlobalDelegate.tla).',
    ref='DESIGN.md §4 C16, App. A.4',
    note='lock acquisitions themselves are not gated (no hooks): replay fidelity is the order of gate passages; a blocked scenario is a violation only when two consecutive stop-the-world goroutine dumps show every unfinished goroutine parked in sync.Mutex.Lock inside internal/global; data races only by a -race rerun in the thorough tier; the deadlock was repaired in /repo (83af4eb)',
    technique='TLA+ lock-level spec + TLC exhaustive (deadlock, liveness); gate replay of TLC behaviours through natural gates in fresh subprocesses; TLC trace validation against a contract monitor',
)
CLAIMS['C20'] = dict(
    text='ConfigPrecedence.tla: per setting and component a record of sources (option, signal variable, generic variable) each absent / valid_i / ill-formed kind, Resolve = highest-precedence providing source else default, with endpoint/path rules and the documented meaning of special values; TLC enumerates the full cross product for the six OTLP exporters, BSP, log batch processor, span limits, log record limits and sampler (6.5k cases), checks the precedence theorems (Inv, Monotone, SignalsAgree) and prints the set of admissible outcomes per case. The harness replays every case on the real components observing behaviour only (which loopback collector got the request, path, headers, encoding, deadline; batch lengths, overflow, timer; exported spans/records; sampling decisions) and checks membership; seeded random multi-setting configurations with ugly concrete values are validated by TLC (Trace_ConfigPrecedence.tla).',
    ref='DESIGN.md §4 C20',
    note='observations are behavioural; watchdog expiry and unobservable settings are inconclusive, never a violation; huge-but-parseable sizes are not exercised; six defects repaired in /repo (58648b0, 45994e6, ec793b1, f619716), the count-limit-0 documentation mismatch (shared with C17) is listed in known_findings/C20.json',
    technique='TLA+ precedence model with admissible-outcome sets, TLC enumeration with case replay on the real exporters/SDK + TLC trace validation of random configurations',
)

CLAIMS['C15'] = dict(
    text='LifecycleModel.tla is a pure relational model of the trace, metric and log provider lifecycles (register/unregister, shutdown exactly once per component, no-op handles and documented errors after Shutdown, nil-exporter configurations; several successors admitted where the statement is silent); TPLifecycle/MPLifecycle/LPLifecycle.tla explore every operation sequence up to a bound and export edges; TPConc.tla is a lock-level spec of concurrent Register/Unregister/Shutdown callers (TLC exhaustive incl. liveness, a NoKnown config finds the pre-repair deviation). Every edge is replayed on the three real providers with recording processors/readers/exporters (nil-exporter configurations one subprocess per edge so a background crash is an exit status); seeded random concurrent scenarios and directed gate schedules (BSP hooks) are validated by TLC against the total contract LifecycleContract.tla; C01\'s BSP.tla Stuck property covers blocking forever at model level.',
    ref='DESIGN.md §4 C15',
    note='a call counts as blocked forever only if every call in flight is parked in identical SDK frames for 5 s across >= 20 goroutine dumps; re-registration of a processor is not modelled; stock log components get cancelled contexts only under the tolerant contract; seven defects were repaired in /repo (2b20e86, c611340, 8f1b35e, ada0bc0, b340635, cbb61d5)',
    technique='TLA+ relational lifecycle model + lock-level concurrent spec, TLC edge replay on the three real providers (subprocess isolation) + TLC trace validation of concurrent scenarios',
)

CLAIMS['C18'] = dict(
    text='PromModel.tla states the OTel->Prometheus rules over token classes (name escaping, unit suffix once, _total once and last, namespace, label sanitisation with deterministic collision merge, family cache with type-conflict drop and first-help-wins, target/scope info per options) and admits every answer where the statement leaves a choice (TLC proves each admitted naming alternative satisfies the name clauses); PromExport.tla explores instrument-name token sequences x units x kinds x option subsets x colliding attribute keys x 1-2 instruments x 2 scrapes and prints self-contained scrape edges. Each edge is executed on the real exporter (collector captured through a custom Registerer, Collect under recover, then a real Registry.Gather; one subprocess per validation scheme) and judged by TLC (Trace_PromExport.tla: names, labels, validity, values equal to the same exporter\'s Reader.Collect); seeded random instruments and concurrent scrape/record scenarios are validated the same way.',
    ref='DESIGN.md §4 C18',
    note='race freedom is an auxiliary -race run of the concurrent scenarios (both tiers), not model checking; scope attributes, exemplars, WithProducer are not modelled; five defects were repaired in /repo (cd08668, 3014c3f, bd6d39e, f4d6e42, 0acaf2b)',
    technique='TLA+ naming/label/family model with admissible alternatives, TLC edge replay on the real Prometheus exporter + TLC trace validation',
)

CLAIMS['C02'] = dict(
    text='MetricSum.tla is an implementation-shaped model of synchronous sums (per-reader pipeline mutex, per-stream valueMap mutex, Add = per-pipeline lock/add/unlock steps, produce = one critical section per stream with delta copy+clear+start move, periodic reader run loop / flush handshake / Shutdown with sync.Once) whose monitor is the contract\'s own Step operator; TLC exhaustive for a family of configurations (five deliberately broken variants each violate the contract, liveness under fairness). Measurement i of an attribute set has value 4^i so the base-4 digits of every reported sum give each measurement\'s multiplicity; every real execution (TLC behaviours replayed through natural gates: exemplar filter, observable callback, exporter; directed schedules; seeded random scenarios and add/collect storms with manual delta + cumulative readers and periodic readers, ForceFlush, Shutdown) is decoded into id sets and validated by TLC against the total contract MetricSumContract.tla (exactly once, window bounds, cumulative = running total, every reader sees all, monotone).',
    ref='DESIGN.md §4 C02',
    note='no hooks: a mutation that splits a critical section is caught by volume only; interval ticks cannot be gated; multiplicities 0..3 decode exactly; asynchronous sums, views and cardinality limits are C08/C12\'s subject; the callback-error interval loss of delta periodic readers is listed in known_findings/C02.json',
    technique='TLA+ implementation-shaped spec + TLC exhaustive; natural-gate replay of TLC behaviours; TLC trace validation against a contract monitor (base-4 multiplicity encoding)',
)
CLAIMS['C06'] = dict(
    text='BatchLP.tla models the log BatchProcessor one action per critical section (ring queue Enqueue/TryDequeue/Flush, poll goroutine, bufferExporter channel and exportSync consumer, chunking, ForceFlush retry loop and marker, Shutdown) with named deviations; TLC exhaustive for a family of configurations (each deviation found by its NoKnown run, liveness under fairness); TLC -simulate behaviours are replayed on the real processor through the sdk/log verif hook gates, exporter gates and call gates; every real execution (replayed, 12 directed schedules, seeded random scenarios with slow/failing/blocking exporters and caller-side record mutation) is validated by TLC against the total contract monitor BatchLPContract.tla (exactly once modulo overwritten-oldest, per-emitter order, chunk bound, export exclusivity, nothing after Shutdown, clone isolation by content digest).',
    ref='DESIGN.md §4 C06, App. A.3',
    note='queue events are logged under the queue lock and never block; on a tree without the sdk/log hooks the check degrades to exit 2; six shutdown-race deviations (D1, D1b, D3-D6) need a design decision and are listed in known_findings/C06.json with narrow kinds, D2 was repaired (c97476e); internal-event traces are validated against the contract only, not against BatchLP.tla itself',
    technique='TLA+ implementation-shaped spec + TLC exhaustive; gate replay of TLC behaviours through hooks; TLC trace validation against a contract monitor',
)
