# Single source of truth for MANIFEST.json (bin/mkmanifest regenerates it).
HOOK_COMMITS = ['ba9d497']
NOTES = 'see DESIGN.md §9 (as built)'
NOT_APPLICABLE = {}
CLAIMS = {}
CLAIMS['C01'] = dict(
    text='BSP.tla (one action per critical section of the batch span processor) is checked exhaustively by TLC for a family of small configurations against the contract; TLC -simulate behaviours are replayed on the real processor through hook/exporter/call gates; every real execution (replayed, directed, seeded random with perturbation and slow/failing/timing-out exporters) is validated by TLC against the total contract monitor BSPContract.tla.',
    ref='DESIGN.md §4 C01, App. A.1',
    note="exhaustive only for small constants; callers' contexts never expire; timer-triggered exports only by perturbation; Dropped/Ignored/FFEarly events rely on the verif hooks; known deviations D1/D4 are listed in known_findings/C01.json",
    technique='TLA+ implementation-shaped spec + TLC exhaustive; gate replay of TLC behaviours; TLC trace validation against a contract monitor',
)
CLAIMS['C04'] = dict(
    text='SpanModel.tla is explored exhaustively by TLC for small domains under many limit combinations; every edge of the state graph is replayed on a real span and the exported span compared with the spec successor; seeded random span programs on the real SDK are validated by TLC against the same model.',
    ref='DESIGN.md §4 C04',
    note='trusts TLC, the symbol-class concretization table and the projection of ReadOnlySpan onto the model state; non-string attribute values are represented by one witness per type',
    technique='TLA+ reference model, TLC edge replay on real spans + TLC trace validation of random programs',
)
CLAIMS['C05'] = dict(
    text='AttrSet.tla over the pure model AttrModel.tla (Canon = last value per key sorted by key, leftovers, Filter, Merge, a StreamTable keyed by the canonical form) is explored exhaustively by TLC for several small configurations and by -simulate across the 10/11 fixed-array/reflect boundary; every edge is replayed on the real attribute package and every projected component (ToSlice, caller slice, filtered items, Len, Value/HasValue, Iter, merge order, Equals, Equivalent() as a real Go map key) compared with the spec successor; seeded random programs on the real package are validated by TLC against the same operators (Trace_AttrSet.tla).',
    ref='DESIGN.md §4 C05',
    note='exhaustive only for small key/value domains; value equality is bit-level except where the statement is silent (+0/-0 inside slices); the NaN-in-FLOAT64SLICE identity defect is listed in known_findings/C05.json',
    technique='TLA+ reference model, TLC edge replay on the real attribute package + TLC trace validation of random programs',
)
CLAIMS['C07'] = dict(
    text='ExpoHistogram.tla carries the accumulator of exponential_histogram.go step for step and TLC proves for every short operation sequence over representative values that it computes the declarative reference point of ExpoModel.tla (exact index floor(b20/2^(20-s)), count conservation, size and scale bounds); Histogram.tla does the same for explicit buckets. Every TLC edge is replayed through the public metrics API with several concretizations per abstract value and compared with the spec successor; seeded random real scenarios are abstracted with exact big-float arithmetic and every collected point validated by TLC against the contract (Trace_Hist.tla).',
    ref='DESIGN.md §4 C07',
    note='TLC decides the integer bucket-index algebra; placement of float values within ulps of irrational boundaries is sampled with an exact projection (ambiguous values accept either neighbour); int64 values above 2^53 sampled only',
    technique='TLA+ transcription of the accumulator + declarative contract; TLC edge replay via the public API; TLC validation of random real data points',
)
CLAIMS['C09'] = dict(
    text='Sampling.tla (span forests x sampler terms x parent contexts x trace-ID classes) is explored exhaustively by TLC for small constants; every edge is replayed on a real TracerProvider with scripted ID generator and scripted custom samplers and the projection (SpanContext, IsRecording, processors, exporters) compared with the spec successor; recorded real forests, ratio-sampler decisions for random IDs x ratios, ID statistics of 10^5..10^6 spans and sampled shares are validated by TLC against SamplingModel/RatioBits (Trace_Sampling.tla).',
    ref='DESIGN.md §4 C09',
    note='ratio arithmetic for non-dyadic ratios is checked relationally (deterministic, monotone in ratio and in ID, share within a 6-sigma binomial bound), not against an exact oracle; ID uniqueness is sampled',
    technique='TLA+ reference model, TLC edge replay on a real TracerProvider + TLC trace validation of recorded decisions',
)
CLAIMS['C12'] = dict(
    text='CardinalityH.tla: TLC checks for every history up to a bound that the operational model (views -> streams -> aggregators, filter, limiter, delta/cumulative collection) equals the declarative statement (first L-1 sets keep identity, one overflow point, counts and sums conserved, at most L points). Cardinality.tla is explored exhaustively, every edge replayed through the public API on a fresh provider and every collection compared with the spec; seeded random pipelines (7 instrument kinds, views, limits to 16, 20-200 sets, 5 cycles) are validated by TLC against CardModel (Trace_Cardinality.tla).',
    ref='DESIGN.md §4 C12',
    note='exhaustive for small constants only; the cardinality limit is configured through OTEL_GO_X_CARDINALITY_LIMIT before each provider is built; sequential driver (concurrency of recording is C02\'s subject)',
    technique='TLA+ operational model proved equal to a declarative statement by TLC; TLC edge replay via the public API; TLC trace validation of random pipelines',
)
CLAIMS['C17'] = dict(
    text='LogRecord.tla over LogModel.tla/Truncate.tla is explored exhaustively by TLC for several small families (de-duplication x count limit, truncation x overwrite at every nesting depth, clone independence, the 5-slot inline array boundary, every symbol string x every length limit); every edge is replayed on a real sdk/log Record obtained through Logger.Emit and the projections before/after validated; seeded random edit programs (duplicate keys, nested values, invalid UTF-8) are validated by TLC against the conformance relation (Trace_LogRecord.tla).',
    ref='DESIGN.md §4 C17',
    note='strings are sequences over a symbol-class alphabet with a concretization table; the documented-vs-actual meaning of count limit 0 is listed in known_findings/C17.json; two earlier findings were repaired (377ab79, 06a8fa4)',
    technique='TLA+ reference model, TLC edge replay on real log records + TLC trace validation of random edit programs',
)
CLAIMS['C19'] = dict(
    text='ResourceMerge.tla over ResModel.tla enumerates every tuple of 1..3 operands (2 keys x 2 values x 3 schemas, nil, empty), attribute lists, scripted detector sequences and (ResourceEnv.tla over EnvModel.tla) every token string up to a bound as OTEL_RESOURCE_ATTRIBUTES; the statement\'s laws are TLC invariants over all of them. Every edge is executed on the real sdk/resource package and the projection compared with the successor (membership where the statement leaves a choice); seeded random resources, detector sequences and environment strings on the real code are validated by TLC (Trace_ResourceMerge.tla).',
    ref='DESIGN.md §4 C19',
    note='exhaustive for small domains; environment parsing is modelled over symbol classes; the NaN-in-FLOAT64SLICE identity defect (same root cause as C05) is listed in known_findings/C19.json',
    technique='TLA+ reference model with the laws as TLC invariants; TLC edge replay on sdk/resource + TLC trace validation',
)
