"""C04 -- exported span equals the reference model (SpanModel.tla).

spec -> code : TLC explores SpanState.tla exhaustively for small domains under several limit
               combinations, prints every edge; harness/c04 replays each edge on a real span
               (path to the source state + the operation) and compares the exported span's
               projection with the spec's successor state.
               Spans are created by an explicit Start(attrs, links) step in the start-* configs
               (trace.WithAttributes / trace.WithLinks = the same bounded steps as later calls) and
               RecordError / AddEvent carry their options (WithStackTrace, WithTimestamp, attribute
               lists with duplicates) in the recerr-* configs.
code -> spec : harness/c04 runs seeded random span programs (up to 13 keys, limits up to 8,
               arbitrary valid/invalid UTF-8 symbol strings) on real spans; TLC validates the
               recorded observations against SpanModel via Trace_SpanState.tla.
"""
import json
import os

S = "SpanState"

V_A1 = '[t |-> "s", x |-> <<<<"a1">>>>]'
V_LONG = '[t |-> "s", x |-> <<<<"m2","fffd","a1">>>>]'
V_BAD = '[t |-> "s", x |-> <<<<"a1","bad","m3">>>>]'
V_INT = '[t |-> "i", x |-> <<<<"1">>>>]'
V_SS = '[t |-> "ss", x |-> <<<<"a1","a1","m4">>, <<"bad">>>>]'


# link classes [valid ctx, trace state, #attrs]; L_I0 is the ignorable (empty) link
def lk(valid, tst, n):
    return '[valid |-> %s, tst |-> %s, n |-> %d]' % ("TRUE" if valid else "FALSE", "TRUE" if tst else "FALSE", n)


L_V0, L_V1, L_V2 = lk(1, 0, 0), lk(1, 0, 1), lk(1, 0, 2)
L_I0, L_I1, L_I2 = lk(0, 0, 0), lk(0, 0, 1), lk(0, 0, 2)
L_IT, L_VT1 = lk(0, 1, 0), lk(1, 1, 1)
DEFAULTS = dict(EVKEYS='{<<>>, <<"ea0">>, <<"ea0","ea1">>}', ERRKEYS='{<<>>, <<"ea0">>}', EVTS='{""}', STACKS='{FALSE}',
                LINKS="{%s}" % ", ".join([L_V0, L_V1, L_V2, L_I0, L_I1, L_I2, L_IT, L_VT1]),
                USESTART="FALSE", STARTATTRMAX=0, STARTLINKMAX=0)


def lim(ac=-1, vl=-1, ec=-1, lc=-1, pe=-1, pl=-1):
    return dict(ac=ac, vl=vl, ec=ec, lc=lc, pe=pe, pl=pl)


def tla_lim(L):
    return "[" + ", ".join("%s |-> %d" % (k, v) for k, v in L.items()) + "]"


def all_strings(maxlen):
    syms = ["a1", "m2", "m3", "m4", "fffd", "bad"]
    out = [[]]
    frontier = [[]]
    for _ in range(maxlen):
        frontier = [s + [c] for s in frontier for c in syms]
        out += frontier
    return out


def configs(tier):
    ALL = '{"SetAttributes","AddEvent","RecordError","AddLink","SetStatus","SetName","End","Peek"}'
    cfgs = []
    attr_lims = [lim(ac=2, vl=2), lim(ac=0), lim(ac=-1, vl=0), lim(ac=1, vl=1), lim(ac=3, vl=3)]
    vals = "{%s}" % ", ".join([V_A1, V_LONG, V_INT])
    if tier == "thorough":
        attr_lims += [lim(ac=2, vl=-1), lim(ac=1, vl=0), lim(ac=3, vl=1), lim(ac=-1, vl=2), lim(ac=2, vl=1)]
        vals = "{%s}" % ", ".join([V_A1, V_LONG, V_BAD, V_INT, V_SS])
    for L in attr_lims:
        cfgs.append(dict(name="attrs-ac%d-vl%d" % (L["ac"], L["vl"]), lim=L, OPS='{"SetAttributes","End","Peek"}',
                         KEYS='{"k1","k2","k3",""}', VALS=vals, MAXLIST=2,
                         MAXSTEPS=3))
    ev_lims = [lim(ec=1, lc=1, pe=1, pl=1), lim(ec=0, lc=0, pe=0, pl=0), lim(ec=2, lc=2, pe=-1, pl=0),
               lim(ec=-1, lc=-1, pe=2, pl=1)]
    if tier == "thorough":
        ev_lims += [lim(ec=2, lc=1, pe=0, pl=2), lim(ec=1, lc=0, pe=2, pl=-1), lim(ec=3, lc=3, pe=1, pl=1)]
    for L in ev_lims:
        cfgs.append(dict(name="events-ec%d-lc%d-pe%d-pl%d" % (L["ec"], L["lc"], L["pe"], L["pl"]), lim=L,
                         OPS='{"AddEvent","RecordError","AddLink","End"}', KEYS='{"k1"}', VALS="{%s}" % V_A1,
                         MAXLIST=1, MAXSTEPS=4 if tier == "thorough" else 3))
    cfgs.append(dict(name="status", lim=lim(), OPS='{"SetStatus","SetName","End"}', KEYS='{"k1"}',
                     VALS="{%s}" % V_A1, MAXLIST=1, MAXSTEPS=4))
    cfgs.append(dict(name="mixed", lim=lim(ac=1, vl=1, ec=1, lc=1, pe=1, pl=1), OPS=ALL, KEYS='{"k1","k2",""}',
                     VALS="{%s}" % ", ".join([V_A1, V_LONG]), MAXLIST=1, MAXSTEPS=4 if tier == "thorough" else 3))
    # ---- Start options: links / attributes given at Start are the same bounded steps as later calls
    sl_lims = [lim(lc=2, pl=1), lim(lc=1, pl=0), lim(lc=0, pl=-1)]
    if tier == "thorough":
        sl_lims += [lim(lc=-1, pl=2), lim(lc=3, pl=1), lim(lc=2, pl=-1)]
    for L in sl_lims:
        cfgs.append(dict(name="start-links-lc%d-pl%d" % (L["lc"], L["pl"]), lim=L, OPS='{"AddLink","End"}', KEYS='{"k1"}',
                         VALS="{%s}" % V_A1, MAXLIST=1, MAXSTEPS=2, USESTART="TRUE", STARTLINKMAX=3,
                         LINKS="{%s}" % ", ".join([L_V0, L_I0, L_I1, L_V2, L_IT])))
    sa_lims = [lim(ac=2, vl=2), lim(ac=1, vl=1)]
    if tier == "thorough":
        sa_lims += [lim(ac=0), lim(ac=-1, vl=0), lim(ac=3, vl=3)]
    for L in sa_lims:
        cfgs.append(dict(name="start-attrs-ac%d-vl%d" % (L["ac"], L["vl"]), lim=L, OPS='{"SetAttributes","End","Peek"}',
                         KEYS='{"k1","k2","k3",""}', VALS="{%s}" % ", ".join([V_A1, V_LONG, V_INT]), MAXLIST=1, MAXSTEPS=2,
                         USESTART="TRUE", STARTATTRMAX=3 if tier == "thorough" else 2))
    # any negative limit means "no limit" (SpanLimits doc), not only -1
    cfgs.append(dict(name="neg-limits", lim=dict(ac=-2, vl=-3, ec=-2, lc=-5, pe=-2, pl=-7), OPS=ALL, KEYS='{"k1","k2",""}',
                     VALS="{%s}" % ", ".join([V_A1, V_LONG]), MAXLIST=1, MAXSTEPS=2, USESTART="TRUE", STARTATTRMAX=1,
                     STARTLINKMAX=1, LINKS="{%s}" % ", ".join([L_V2, L_I0])))
    cfgs.append(dict(name="start-mixed", lim=lim(ac=1, vl=1, ec=1, lc=1, pe=1, pl=1), OPS=ALL, KEYS='{"k1","k2",""}',
                     VALS="{%s}" % ", ".join([V_A1, V_LONG]), MAXLIST=1, MAXSTEPS=2 if tier == "thorough" else 1,
                     USESTART="TRUE", STARTATTRMAX=1, STARTLINKMAX=2, LINKS="{%s}" % ", ".join([L_V1, L_I0, L_I2])))
    # ---- RecordError / AddEvent options: generated exception.* attributes (+ stack trace) and the
    # caller's list (duplicates allowed) under the per-event cap, explicit timestamps, nil error
    re_lims = [lim(pe=-1, ec=2), lim(pe=0, ec=1), lim(pe=1, ec=-1), lim(pe=2, ec=2), lim(pe=3, ec=1)]
    if tier == "thorough":
        re_lims += [lim(pe=4, ec=2), lim(pe=2, ec=0), lim(pe=5, ec=-1)]
    for L in re_lims:
        cfgs.append(dict(name="recerr-pe%d-ec%d" % (L["pe"], L["ec"]), lim=L, OPS='{"AddEvent","RecordError","End"}',
                         KEYS='{"k1"}', VALS="{%s}" % V_A1, MAXLIST=1, MAXSTEPS=3 if tier == "thorough" else 2,
                         EVKEYS='{<<>>, <<"ea0">>, <<"ea0","ea1">>, <<"ea0","ea0">>, <<"ea0","ea1","ea0">>}',
                         ERRKEYS='{<<>>, <<"ea0">>, <<"ea0","ea1">>, <<"ea0","ea0">>}', EVTS='{"", "t1"}', STACKS="BOOLEAN"))
    # truncation: every symbol string up to length 3 (4 in thorough) as a value, every limit 0..4
    n = 4 if tier == "thorough" else 3
    strs = all_strings(n)
    tvals = "{%s}" % ", ".join('[t |-> "s", x |-> <<<<%s>>>>]' % ",".join('"%s"' % c for c in s) for s in strs)
    for vl in range(0, n + 2):
        cfgs.append(dict(name="trunc-vl%d" % vl, lim=lim(vl=vl), OPS='{"SetAttributes"}', KEYS='{"k1"}', VALS=tvals,
                         MAXLIST=1, MAXSTEPS=1))
    return cfgs


def events_equal(want, got):
    if len(want) != len(got):
        return False
    for w, g in zip(want, got):
        if (w["name"], w["ts"], w["d"]) != (g.get("name"), g.get("ts"), g.get("d")):
            return False
        if g.get("ks") != w["ks"] and g.get("ks") != w.get("ks2"):
            return False
    return True


def classify(want, got):
    """which component of the projection differs (for known-finding matching and reports)"""
    for k in ("dropped", "evDropped", "lkDropped", "events", "links", "code", "desc", "name", "ended"):
        if k == "events":
            if not events_equal(want.get(k) or [], got.get(k) or []):
                return k
        elif want.get(k) != got.get(k):
            return k
    wa = {a["k"]: a for a in want.get("attrs", [])}
    ga = {a["k"]: a for a in got.get("attrs", [])}
    if set(wa) != set(ga) or len(got.get("attrs", [])) != len(ga):
        return "attr-keys"
    for k in wa:
        if ga[k]["t"] != wa[k]["t"]:
            return "attr-type"
        if ga[k]["x"] != wa[k]["x"] and ga[k]["x"] != wa[k].get("y"):
            syms = {c for a in (wa[k]["x"], ga[k]["x"]) for s in a for c in s}
            if "fffd" in syms:
                return "attr-value-fffd"
            return "attr-value"
    return "other"


def run(ctx):
    thorough = ctx.tier == "thorough"
    binp = ctx.go_build("c04")
    # ---- model-level theorem about truncation
    ctx.tlc(S, "MC_Truncate", "MC_Truncate.cfg", defines={"MAXLEN": 4 if thorough else 3}, name="truncate-theorem")
    # ---- spec -> code
    reps = range(4) if thorough else [ctx.seed % 4]
    edges_total = 0
    for c in configs(ctx.tier):
        d = dict(DEFAULTS)
        d.update({"LIM": tla_lim(c["lim"]), "OPS": c["OPS"], "KEYS": c["KEYS"], "VALS": c["VALS"],
                  "MAXLIST": c["MAXLIST"], "MAXSTEPS": c["MAXSTEPS"]})
        d.update({k: v for k, v in c.items() if k in DEFAULTS})
        r = ctx.tlc(S, "MC_SpanState", "MC_SpanState.cfg", defines=d, want_edges=True, name=c["name"], timeout=1800)
        for rep in reps:
            out = os.path.join(ctx.work, "replay-%s-%d.json" % (c["name"], rep))
            # second, peek-interleaved replay of every 3rd edge (thorough: four reps -> every 6th per rep)
            ctx.run([binp, "replay", "-edges", r["edges_file"], "-lim", json.dumps(c["lim"]), "-rep", str(rep),
                     "-peek", "6" if thorough else "3", "-out", out], timeout=1800)
            res = json.load(open(out))
            edges_total += res["executed"]
            ctx.traces_validated += res["executed"]
            ctx.evaluations += res["evaluations"]
            for k, v in res["counters"].items():
                ctx.extra.setdefault("counters", {}).setdefault(k, 0)
                ctx.extra["counters"][k] += v
            ctx.add_samples(res["samples"][:1])
            for m in res["mismatches"]:
                why = "panic" if m["kind"] == "panic" else classify(m.get("want") or {}, m.get("got") or {})
                sig = {"dir": "replay", "why": why, "cfg": c["name"], "lim": c["lim"]}
                ctx.violation(sig, replay={"ops": (m.get("path") or []) + ([m["act"]] if m.get("act") else []),
                                           "lim": c["lim"], "rep": rep, "want": m.get("want"), "got": m.get("got"),
                                           "detail": m.get("detail")})
            for s in res["inconclusive"]:
                ctx.note_inconclusive(s)
    ctx.extra["edges_replayed"] = edges_total
    # ---- caller-owned buffers travelling through several calls (SpanBuf.tla; checks/c04_buf.py)
    import importlib.util
    bspec = importlib.util.spec_from_file_location("c04_buf", os.path.join(os.path.dirname(os.path.abspath(__file__)), "c04_buf.py"))
    bmod = importlib.util.module_from_spec(bspec)
    bspec.loader.exec_module(bmod)
    bmod.run(ctx, binp)
    # ---- code -> spec
    n = 4000 if thorough else 400
    trace = os.path.join(ctx.work, "trace.ndjson")
    resf = os.path.join(ctx.work, "random.json")
    ctx.run([binp, "random", "-n", str(n), "-out", trace, "-res", resf], timeout=1800)
    res = json.load(open(resf))
    for m in res["mismatches"]:
        ctx.violation({"dir": "random", "why": "panic"}, replay=m)
    viols, accepted = ctx.validate_trace(S, "Trace_SpanState", "Trace_SpanState.cfg", trace, timeout=3600)
    ctx.traces_validated += n
    ctx.evaluations += res["executed"]
    ctx.extra["random_programs"] = n
    ctx.extra["random_counters"] = res.get("counters", {})
    ctx.extra["trace_lines_validated"] = accepted
    ctx.add_samples(res["samples"][:1])
    lines = None
    for v in viols:
        why = classify(v.get("want", {}), v.get("got", {}))
        if lines is None:
            lines = open(trace).read().splitlines()
        # scenario = New line + every Ops line of that scenario up to the failing line
        scen = []
        i = v["line"] - 1
        while i >= 0:
            rec = json.loads(lines[i])
            scen.append(rec)
            if rec["ev"] == "New":
                break
            i -= 1
        scen.reverse()
        ctx.violation({"dir": "random", "why": why, "lim": scen[0].get("lim")},
                      replay={"scenario": scen, "want": v.get("want"), "got": v.get("got")})
    ctx.assumptions += [
        "symbol classes a1/m2/m3/m4/fffd/bad stand for their representatives in harness/vh/sym.go",
        "non-string attribute values are represented by one witness value per type",
        "link attributes are identified by position (ea0..), kept attributes must be the first n offered",
        "event attributes are identified by (key, position in the caller's list); the per-event cap keeps a prefix of "
        "the list; RecordError may place its generated exception.* attributes before or after the caller's",
        "exception.stacktrace is projected by presence (non-empty string), explicit event timestamps by equality",
        "links with an invalid span context are ignored only if they have neither attributes nor trace state "
        "(OTel spec, CHANGELOG #5315; the older sentence on trace.WithLinks is read in that sense)",
    ]
    ctx.extra["rule"] = ("edges: every transition of SpanState.tla for the listed configs; random: seeded span programs; "
                         "a case is distinct by (limits, operation sequence)")
    # X02: inductive proof (Apalache, symbolic constants) of the parameterised core C this spec generalises -- thorough tier,
    # evidence only: nothing in here can change the verdict or the exit code of this check (see checks/inductive.py)
    if thorough:
        try:
            import importlib.util as _ilu
            _s = _ilu.spec_from_file_location("verif_inductive", os.path.join(os.path.dirname(os.path.abspath(__file__)), "inductive.py"))
            _m = _ilu.module_from_spec(_s)
            _s.loader.exec_module(_m)
            ctx.extra["inductive"] = _m.run_inductive(ctx, ["C"], budget_s=600)
        except Exception as _e:  # never a verdict
            ctx.extra["inductive"] = {"_error": repr(_e)}
