"""C06 -- log batch processor: once, in order, bounded chunks, one export at a time, clone isolation.

model      : BatchLP.tla (implementation-shaped: ring queue Enqueue/TryDequeue/Flush, poll goroutine,
             bufferExporter channel + exportSync consumer with chunking, ForceFlush, Shutdown; one action per
             critical section) checked exhaustively by TLC for a family of small configurations against the
             contract carried by its monitor variables; one run per named deviation (Admit = Known \\ {D})
             demonstrates that TLC finds each of them; a no-clone config that it finds a missing Clone;
             liveness (every call returns) under fairness.
spec->code : TLC -simulate behaviours of BatchLPSim.tla (BatchLP + history of gate releases / arrivals) are
             replayed on the real processor: vh.Sched holds every goroutine at its verif hook / exporter /
             call gate until the behaviour says it is its turn; hand-written directed schedules (the TLC
             counterexamples of the named deviations and the hand-over windows) use the same vocabulary.
code->spec : every real execution (replayed behaviours, directed schedules, seeded random scenarios with
             schedule perturbation and slow / failing / blocking / timing-out exporters, a downstream
             processor and the caller mutating the record after Emit) is recorded as ndjson and validated by
             TLC against the total contract monitor BatchLPContract.tla (Trace_BatchLP.tla).
impl-trace : Trace_BatchLPImpl.tla: a sample of the same recorded executions (every replayed behaviour / directed
             schedule and the first random scenarios, which also record one Pt line per verif point passed) must be
             explainable by the ACTIONS of BatchLP.tla itself, TLC inferring the unlogged internal steps (depth
             first, high-water mark). A trace the contract accepts but the implementation-shaped spec cannot
             explain is model drift: counted with its first offending line in the evidence, never a verdict.
pipeline   : SLP.tla (SimpleProcessor, LoggerProvider fan-out in registration order, the view rule of the
             Processor interface, Emit after Shutdown, Logger.Enabled; abstract batch processor) checked by TLC;
             `c06 pipeline` scenarios (mixed Simple + Batch processors, modifying processors in front / behind,
             filters) validated against the total monitor SLPContract.tla.
repairs    : BatchLP.tla carries two sketched repairs of the shutdown races as constant switches (FixStopDone,
             FixClosed); TLC decides which named deviations each removes and whether every call still returns
             (evidence only).
hooks      : sdk/log needs proposed_fixes/C06-hooks.diff (verif_on/off pair + points). On a tree without it
             the harness is built without the c06hooks tag, the monitor uses its hook-free
             over-approximations, nothing is gate-replayed and the run ends inconclusive (exit 2) unless the
             real code broke a clause that needs no hook to judge (exit 1).
"""
import json
import os
import random
from concurrent.futures import ThreadPoolExecutor

import vlib

S = "BatchLP"

KNOWN_MODEL = ["D1-flush-during-shutdown", "D1-shutdown-during-shutdown", "D1-export-after-early-shutdown-return",
               "D2-chunk-aborted", "D3-flush-exporter-stopped", "D4-enqueue-after-final-flush",
               "D5-flush-overtakes-final-flush", "D6-final-flush-overtaken"]


def tla_set(xs):
    return "{" + ", ".join('"%s"' % x for x in xs) + "}"


def mc_defs(e, k, q, b, buf, f, s, faults=False, ticker=True, clone=True, admit="Known", abort=False, fixa=False, fixb=False, cancels=()):
    t = lambda x: "TRUE" if x else "FALSE"
    return {"EMITTERS": tla_set(["g%d" % (i + 1) for i in range(e)]),
            "FLUSHERS": tla_set(["f%d" % (i + 1) for i in range(f)]),
            "STOPPERS": tla_set(["s%d" % (i + 1) for i in range(s)]),
            "RECSPER": k, "QCAP": q, "BATCH": b, "BUFSIZE": buf, "FAULTS": t(faults), "TICKER": t(ticker),
            "CLONE": t(clone), "ADMIT": admit, "ABORT": t(abort), "FIXA": t(fixa), "FIXB": t(fixb), "CANCELS": tla_set(cancels)}


def slp_defs(e, k, kinds, f, s, mutation="none", admit="Observed", thresh=None):
    return {"EMITTERS": tla_set(["g%d" % (i + 1) for i in range(e)]),
            "FLUSHERS": tla_set(["f%d" % (i + 1) for i in range(f)]),
            "STOPPERS": tla_set(["s%d" % (i + 1) for i in range(s)]),
            "KINDS": "<<" + ", ".join('"%s"' % x for x in kinds) + ">>",
            "THRESH": "<<" + ", ".join(str(x) for x in (thresh or [0] * len(kinds))) + ">>",
            "RECSPER": k, "MUTATION": mutation, "ADMIT": admit}


def cfg_name(e, k, q, b, buf, f, s, faults=False, ticker=True):
    return "g%dx%d-q%d-b%d-buf%d-f%d-s%d%s%s" % (e, k, q, b, buf, f, s, "-faults" if faults else "", "" if ticker else "-notick")


def E(g, k):
    p = "g%d:%d" % (g, k)
    return [p + "@call", p + "@blp.onemit.checked", p + "@blp.onemit.enqueued", p + "@ret"]


POLL = ["poll@blp.poll.woke", "poll@blp.poll.dequeued"]
THOROUGH_EXTRA = [(2, 1, 3, 2, 2, 1, 1, True, False), (1, 3, 3, 2, 1, 1, 1, True, True)]

DIRECTED = [
    # vocabulary: "<proc>@<point>" = the goroutine passes that gate now; "<...>+" = it has arrived there
    # (see BatchLPSim.tla). The first seven are TLC counterexamples of the named deviations.
    # D1: ForceFlush while Shutdown has swapped `stopped` but record 2 still sits in the export buffer
    dict(name="D1-flush-during-shutdown", emitters=1, recsPer=2, qcap=4, maxbatch=1, bufsize=1, flushers=1, stoppers=1,
         script=E(1, 1) + POLL + ["x@exp.begin+"] + E(1, 2) + POLL +
         ["s1@call", "s1@blp.sd.swapped+", "f1@call", "f1@blp.ff.stopped", "f1@ret", "x@exp.begin", "s1@blp.sd.swapped"]),
    # D1: a second Shutdown returns nil at once; the first one exports afterwards
    dict(name="D1-second-shutdown", emitters=1, recsPer=2, qcap=4, maxbatch=1, bufsize=1, flushers=0, stoppers=2,
         script=E(1, 1) + POLL + ["x@exp.begin+"] + E(1, 2) + POLL +
         ["s1@call", "s1@blp.sd.swapped+", "s2@call", "s2@blp.sd.already", "s2@ret", "x@exp.begin", "s1@blp.sd.swapped"]),
    # D2: ForceFlush hands 3 records over as one request, batch size 2, first chunk fails: record 3 never exported
    dict(name="D2-chunk-aborted", emitters=1, recsPer=3, qcap=4, maxbatch=2, bufsize=1, flushers=1, stoppers=1, xres=["err"],
         script=E(1, 1) + E(1, 2) + ["poll@blp.poll.woke+"] + E(1, 3) +
         ["f1@call", "f1@blp.ff.checked", "f1@blp.ff.dequeued", "x@exp.begin", "f1@exp.flush", "f1@ret",
          "poll@blp.poll.woke", "s1@call"]),
    # D3: ForceFlush (past the stopped check) meets bufferExporter.stopped between its swap and the drain
    dict(name="D3-flush-exporter-stopped", emitters=1, recsPer=2, qcap=4, maxbatch=1, bufsize=1, flushers=1, stoppers=1,
         script=E(1, 1) + POLL + ["x@exp.begin+"] + E(1, 2) + POLL +
         ["f1@call", "f1@blp.ff.checked", "f1@blp.ff.dequeued+", "s1@call", "s1@blp.sd.swapped", "s1@blp.sd.polldone",
          "s1@blp.sd.flushed", "s1@blp.xsd.swapped+", "f1@blp.ff.dequeued", "f1@blp.xff.stopped", "f1@ret",
          "s1@blp.xsd.swapped", "x@exp.begin"]),
    # D4: OnEmit passes the stopped check, Shutdown runs to completion, then the record is enqueued
    dict(name="D4-enqueue-after-final-flush", emitters=1, recsPer=1, qcap=2, maxbatch=2, bufsize=1, flushers=0, stoppers=2,
         script=["g1:1@call", "g1:1@blp.onemit.checked+", "s1@call", "s1@blp.sd.swapped", "s1@blp.sd.polldone",
                 "s1@blp.sd.flushed", "s1@blp.xsd.swapped", "s1@exp.shutdown", "s1@ret", "g1:1@blp.onemit.checked",
                 "g1:1@blp.onemit.enqueued", "g1:1@ret", "s2@call", "s2@blp.sd.already", "s2@ret"]),
    # D5: Shutdown has taken the record out with q.Flush() but not yet enqueued it; ForceFlush's marker overtakes
    dict(name="D5-flush-overtakes-final-flush", emitters=1, recsPer=1, qcap=4, maxbatch=2, bufsize=1, flushers=1, stoppers=1,
         script=E(1, 1) + ["f1@call", "f1@blp.ff.checked+", "s1@call", "s1@blp.sd.swapped", "s1@blp.sd.polldone",
                           "s1@blp.xexp.called+", "f1@blp.ff.checked", "f1@blp.ff.dequeued", "f1@exp.flush", "f1@ret",
                           "s1@blp.xexp.called"]),
    # D6: same window; record 2 (OnEmit past the check) is enqueued after q.Flush() and handed over first
    dict(name="D6-final-flush-overtaken", emitters=1, recsPer=2, qcap=4, maxbatch=4, bufsize=1, flushers=1, stoppers=1,
         script=E(1, 1) + ["g1:2@call", "g1:2@blp.onemit.checked+", "f1@call", "f1@blp.ff.checked+", "s1@call",
                           "s1@blp.sd.swapped", "s1@blp.sd.polldone", "s1@blp.xexp.called+", "g1:2@blp.onemit.checked",
                           "g1:2@blp.onemit.enqueued", "g1:2@ret", "f1@blp.ff.checked", "f1@blp.ff.dequeued",
                           "x@exp.begin", "f1@exp.flush", "f1@ret", "s1@blp.xexp.called"]),
    # ring overflow while the exporter is held: records 3 and 4 are overwritten (oldest first), 5 and 6 survive
    dict(name="overflow-held-exporter", emitters=1, recsPer=6, qcap=2, maxbatch=1, bufsize=1, flushers=1, stoppers=1,
         script=E(1, 1) + POLL + ["x@exp.begin+"] + E(1, 2) + POLL + E(1, 3) + E(1, 4) + E(1, 5) + E(1, 6) +
         ["x@exp.begin", "f1@call", "f1@ret", "s1@call"]),
    # stopped flag swapped between the check and the enqueue while the final flush has not run: it must export it
    dict(name="check-then-swap-then-enqueue", emitters=2, recsPer=1, qcap=2, maxbatch=2, bufsize=1, flushers=0, stoppers=1,
         script=E(1, 1) + ["g2:1@call", "g2:1@blp.onemit.checked+", "s1@call", "s1@blp.sd.swapped+", "g2:1@blp.onemit.checked",
                           "g2:1@blp.onemit.enqueued", "g2:1@ret", "s1@blp.sd.swapped"]),
    # poll goroutine and ForceFlush compete for the same queue contents
    dict(name="poll-vs-flush-dequeue", emitters=2, recsPer=2, qcap=4, maxbatch=2, bufsize=2, flushers=1, stoppers=1,
         script=E(1, 1) + E(2, 1) + ["poll@blp.poll.woke+", "f1@call", "f1@blp.ff.checked", "poll@blp.poll.woke"] +
         E(1, 2) + E(2, 2) + ["f1@ret", "s1@call"]),
    # export buffer full: ForceFlush's EnqueueExport fails, read pointer restored, it retries until there is room
    dict(name="buffer-full-restore", emitters=1, recsPer=3, qcap=4, maxbatch=1, bufsize=1, flushers=1, stoppers=1,
         script=E(1, 1) + POLL + ["x@exp.begin+"] + E(1, 2) + POLL + E(1, 3) +
         ["f1@call", "f1@blp.ff.checked", "s1@call+", "x@exp.begin", "f1@ret", "s1@call"]),
    # failing exports on the poll path: every record is still passed exactly once
    dict(name="failing-poll-exports", emitters=2, recsPer=2, qcap=4, maxbatch=1, bufsize=2, flushers=1, stoppers=1,
         xres=["err", "ok", "err", "err"],
         script=E(1, 1) + E(2, 1) + E(1, 2) + E(2, 2) + ["f1@call", "f1@ret", "s1@call"]),
]

DIRECTED += [
    # caller contexts that end ("<proc>@cancel" = the harness cancels that call's context now). TLC: no new deviation arises.
    # A ForceFlush whose context is done parks record 3 in the export buffer (the export goroutine is held inside Export) and gives
    # up at the marker; a second one cannot hand record 4 over (buffer full: errPartialFlush); the exporter is released and a third
    # ForceFlush returns nil: 1..4 each exactly once, in order, and the parked batch is exported as it was handed over.
    dict(name="C1-abandoned-flush-parks-a-batch", emitters=1, recsPer=4, qcap=8, maxbatch=2, bufsize=1, flushers=3, stoppers=1,
         script=E(1, 1) + E(1, 2) + POLL + ["x@exp.begin+", "f1@cancel", "f2@cancel"] + E(1, 3) +
         ["f1@call", "f1@blp.ff.checked", "f1@blp.ff.dequeued", "f1@ret"] + E(1, 4) +
         ["f2@call", "f2@blp.ff.checked", "f2@blp.ff.dequeued", "f2@ret", "x@exp.begin", "f3@call", "f3@ret", "s1@call"]),
    # Shutdown's context ends while the poll goroutine is still busy: the final flush is skipped, the exporter chain is shut down
    # all the same, Shutdown returns an error (no promise); a second Shutdown returns nil at once (the listed D1 shape)
    dict(name="C2-shutdown-context-ended-skips-final-flush", emitters=1, recsPer=2, qcap=4, maxbatch=1, bufsize=1, flushers=0, stoppers=2,
         script=E(1, 1) + ["poll@blp.poll.woke", "poll@blp.poll.dequeued+"] + E(1, 2) +
         ["s1@cancel", "s1@call", "s1@blp.sd.swapped", "s1@blp.xsd.swapped", "s1@exp.shutdown", "s1@ret", "poll@blp.poll.dequeued",
          "s2@call", "s2@blp.sd.already", "s2@ret"]),
    # the final flush cannot be handed over (buffer full, exporter held) and Shutdown's context ends: "dropping 1 records" with an
    # error, the exporter is shut down while an Export is still running (allowed: Shutdown did not wait because its context ended)
    dict(name="C3-final-flush-abandoned", emitters=1, recsPer=3, qcap=4, maxbatch=1, bufsize=1, flushers=0, stoppers=2,
         script=E(1, 1) + POLL + ["x@exp.begin+"] + E(1, 2) + POLL + E(1, 3) +
         ["s1@call", "s1@blp.sd.swapped", "s1@blp.sd.polldone", "s1@blp.xexp.called", "s1@cancel", "s1@blp.sd.flushed",
          "s1@blp.xsd.swapped", "s1@exp.shutdown", "s1@ret", "x@exp.begin", "s2@call", "s2@blp.sd.already", "s2@ret"]),
]

# which directed schedule is expected to reproduce which contract violation kinds (binding check, evidence only)
EXPECT = {
    "D1-flush-during-shutdown": "flush-missed-during-shutdown",
    "D1-second-shutdown": "shutdown-missed-during-shutdown",
    "D2-chunk-aborted": "missed-chunk-aborted",
    "D3-flush-exporter-stopped": "flush-missed-exporter-stopped",
    "D4-enqueue-after-final-flush": "shutdown-missed-raced",
    "D5-flush-overtakes-final-flush": "flush-missed-held-by-shutdown",
    "D6-final-flush-overtaken": "final-flush-overtaken",
    "C3-final-flush-abandoned": "obs-exporter-shutdown-during-export-context-ended",
}


def scenario(d):
    sc = dict(emitters=1, recsPer=1, qcap=2, maxbatch=2, bufsize=1, flushers=0, flushesPer=1, stoppers=1, intervalUs=0,
              exportTimeoutMs=30000, expMode="ok", phased=False, nattrs=7, perturb=0.0)
    sc.update(d)
    return sc


# directed schedules for `c06 pipeline` (SLP.tla): natural gates only -- "<g>:<k>@mut<pos>" = the modifying processor at
# <pos> is entered with that record, "x<pos>@exp.begin" = the exporter behind position <pos> is inside Export,
# "<s>@exp<pos>.shutdown" = that exporter's Shutdown, call / ret sites
PIPE_DIRECTED = [
    # O1: Emit passed the provider's stopped check, Shutdown runs to completion, then the SimpleProcessor exports
    dict(name="P1-raced-emit-reaches-simple-after-shutdown", kinds=["mut", "simple"], emitters=1, recsPer=1, stoppers=1,
         script=["g1:1@call", "g1:1@mut1+", "s1@call", "s1@exp2.shutdown", "s1@ret", "g1:1@mut1", "x2@exp.begin", "g1:1@ret"]),
    # fix b340635: an Emit called after Shutdown returned is not processed by anybody
    dict(name="P2-emit-after-shutdown-ignored", kinds=["mut", "simple", "batch"], emitters=1, recsPer=1, lateEmits=2, stoppers=1,
         script=["g1:1@call", "g1:1@ret", "s1@call", "s1@ret", "g1:2@call", "g1:2@ret", "g1:3@call", "g1:3@ret"]),
    # the view rule: modifications in front are visible, modifications behind and by the caller are not
    dict(name="P3-view-rule", kinds=["mut", "batch", "mut", "simple", "mut", "batch"], emitters=2, recsPer=3, flushers=1, stoppers=1, phased=True),
    # two emitters meet at one SimpleProcessor: the second waits for the mutex while the first is inside Export
    # ("g2:1@ret+" cannot be reached in order on the real code: a 150 ms pause during which g2 reaches the mutex)
    dict(name="P4-simple-mutex", kinds=["simple"], emitters=2, recsPer=1, stoppers=1,
         script=["g1:1@call", "x1@exp.begin+", "g2:1@call", "g2:1@ret+", "x1@exp.begin", "g1:1@ret", "g2:1@ret", "s1@call"]),
    # O3: SimpleProcessor.Shutdown reaches the exporter while an Export is running
    dict(name="P5-shutdown-during-simple-export", kinds=["simple"], emitters=1, recsPer=1, stoppers=1,
         script=["g1:1@call", "x1@exp.begin+", "s1@call", "s1@exp1.shutdown", "s1@ret", "x1@exp.begin", "g1:1@ret"]),
    # the batch processor exports its clone while the Emit is still held in a LATER modifying processor
    dict(name="P6-batch-exports-before-later-mutator", kinds=["mut", "simple", "batch", "mut"], emitters=1, recsPer=1, flushers=1, stoppers=1,
         script=["g1:1@call", "g1:1@mut1", "x2@exp.begin", "g1:1@mut4+", "f1@call", "x3@exp.begin", "f1@ret", "g1:1@mut4", "g1:1@ret", "s1@call"]),
    # only FilterProcessors: Enabled consults them; Emit reaches them regardless
    dict(name="P7-filters-only", kinds=["filter", "filter"], thresh=[2, 4], emitters=1, recsPer=2, probes=6, stoppers=1, phased=True),
]
PIPE_EXPECT = {"P1-raced-emit-reaches-simple-after-shutdown": "obs-simple-export-after-shutdown-raced",
               "P5-shutdown-during-simple-export": "obs-exporter-shutdown-during-export"}


def pscenario(d):
    sc = dict(kinds=["simple"], thresh=None, emitters=1, recsPer=1, lateEmits=0, flushers=0, stoppers=1, probes=2, maxbatch=2,
              expMode="ok", phased=False, nattrs=7, perturb=0.0)
    sc.update(d)
    if sc["thresh"] is None:
        sc["thresh"] = [0] * len(sc["kinds"])
    return sc


# model kind (BatchLP.tla mon.bad) -> contract kind (BatchLPContract.tla) for the agreement statistics
MODEL2CONTRACT = {"D1-flush-during-shutdown": "flush-missed-during-shutdown", "D1-shutdown-during-shutdown": "shutdown-missed-during-shutdown",
                  "D1-export-after-early-shutdown-return": "export-after-early-shutdown-return", "D2-chunk-aborted": "missed-chunk-aborted",
                  "D3-flush-exporter-stopped": "flush-missed-exporter-stopped", "D4-enqueue-after-final-flush": "shutdown-missed-raced",
                  "D5-flush-overtakes-final-flush": "flush-missed-held-by-shutdown", "D6-final-flush-overtaken": "final-flush-overtaken"}
MODEL_KINDS = set(MODEL2CONTRACT.values()) | {"flush-missed", "shutdown-missed", "out-of-order", "content-changed", "concurrent-export",
                                              "batch-too-large", "export-after-shutdown"}


def impl_validate(ctx, trace_file, label, limit, contract_kinds):
    """Trace_BatchLPImpl.tla: a sample of the recorded scenarios must be explainable by BatchLP.tla's own actions.
    Scenarios are grouped by their constants (one TLC start per group, reset between scenarios). Returns a dict of
    statistics; drift (a scenario no sequence of model actions explains) is evidence, never a verdict."""
    scen, order, cfgs = {}, [], {}
    for ln in open(trace_file):
        r = json.loads(ln)
        sc = r["sc"]
        if r["ev"] == "Cfg":
            cfgs[sc] = r
            order.append(sc)
            scen[sc] = []
        if sc in scen:
            scen[sc].append((ln, r))
    elig = []
    for sc in order:
        c, last = cfgs[sc], scen[sc][-1][1]
        if (c.get("kind") == "batch" and c.get("hooks") and c.get("pts") and c.get("untainted") and last["ev"] == "EndScenario"
                and last.get("quiescent") and len(scen[sc]) <= 4000):
            elig.append(sc)
    rnd = random.Random(ctx.seed * 7919 + len(elig))
    rnd.shuffle(elig)
    chosen = sorted(elig[:limit])
    groups = {}
    for sc in chosen:
        c = cfgs[sc]
        key = (c["emitters"], c["recsPer"], c["qcap"], c["maxbatch"], c["bufsize"], tuple(c["flushers"]), tuple(c["stoppers"]))
        groups.setdefault(key, []).append(sc)
    stats = {"eligible": len(elig), "scenarios": len(chosen), "groups": len(groups), "explained": 0, "lines": 0, "states": 0,
             "tlc_starts": 0, "drift": [], "errors": [], "agree": 0, "disagree": []}

    def one(gi, scs):
        out = {"explained": [], "drift": [], "errors": [], "lines": 0, "states": 0, "starts": 0, "bad": {}}
        rest = list(scs)
        while rest:
            f = os.path.join(ctx.work, "impl-%s-%d.ndjson" % (label, gi))
            spans = []
            with open(f, "w") as w:
                n = 0
                for sc in rest:
                    w.writelines(ln for ln, _ in scen[sc])
                    spans.append((sc, n + 1, n + len(scen[sc])))
                    n += len(scen[sc])
            r = ctx.tlc(S, "Trace_BatchLPImpl", "Trace_BatchLPImpl.cfg", workers=1, deque=True, timeout=240, heap="2g",
                        extra_files={"trace.ndjson": f}, name="impl-%s-%d" % (label, gi), must_pass=False, count=False)
            out["starts"] += 1
            out["states"] += r["distinct"]
            acc = hwm = None
            for pr in r["prints"]:
                if isinstance(pr, str) and pr.startswith("ACCEPTED "):
                    acc = int(pr.split()[1])
                elif isinstance(pr, str) and pr.startswith("HWM "):
                    hwm = int(pr.split()[1])
                elif isinstance(pr, str) and pr.startswith("IMPLEND "):
                    d = json.loads(pr[8:])
                    out["bad"].setdefault(d["sc"], []).append(sorted(d["bad"]))
            if acc == n:
                out["explained"] += [sc for sc, _, _ in spans]
                out["lines"] += n
                break
            if r["timed_out"] or r["error"] or r["violated"] or hwm is None:
                out["errors"].append({"group": gi, "scenarios": rest, "error": r["error"] or r["violated"] or "timeout", "out": r["out"]})
                break
            # stuck: the scenario holding line `hwm` is the first one no explanation gets through
            k = next((i for i, (_, a, b) in enumerate(spans) if a <= hwm <= b), len(spans) - 1)
            sc, a, b = spans[k]
            out["explained"] += [x for x, _, _ in spans[:k]]
            out["lines"] += a - 1
            ev = scen[sc][min(hwm - a, len(scen[sc]) - 1)][1]
            out["drift"].append({"scenario": sc, "name": cfgs[sc].get("name", ""), "line_in_scenario": hwm - a + 1,
                                 "first_offending_line": {x: y for x, y in ev.items() if x not in ("digests", "digest")},
                                 "cfg": {x: cfgs[sc][x] for x in ("emitters", "recsPer", "qcap", "maxbatch", "bufsize", "flushers", "stoppers")}})
            rest = [x for x, _, _ in spans[k + 1:]]
        return out

    with ThreadPoolExecutor(max_workers=4) as ex:
        outs = list(ex.map(lambda kv: one(kv[0], kv[1]), list(enumerate(groups.values()))))
    for o in outs:
        stats["explained"] += len(o["explained"])
        stats["lines"] += o["lines"]
        stats["states"] += o["states"]
        stats["tlc_starts"] += o["starts"]
        stats["drift"] += o["drift"]
        stats["errors"] += o["errors"]
        # second opinion: the clauses the implementation-shaped spec's own monitor sees broken on this real trace against
        # what the contract monitor reported for the same scenario (some explanation of the trace must agree)
        for sc in o["explained"]:
            want = sorted(k for k in contract_kinds.get(sc, ()) if k in MODEL_KINDS)
            got = [sorted({MODEL2CONTRACT.get(b, b) for b in bad}) for bad in o["bad"].get(sc, [])]
            if want in got:
                stats["agree"] += 1
            elif len(stats["disagree"]) < 5:
                stats["disagree"].append({"scenario": sc, "name": cfgs[sc].get("name", ""), "contract": want, "model": got[:3]})
    stats["drift_count"] = len(stats["drift"])
    stats["drift"] = stats["drift"][:5]
    stats["errors"] = stats["errors"][:3]
    return stats


def run(ctx):
    thorough = ctx.tier == "thorough"
    hooks = os.path.exists(os.path.join(vlib.REPO, "sdk", "log", "verif_on.go"))
    ctx.extra["sdk_log_hooks_present"] = hooks
    binp = ctx.go_build("c06", tags="verif,c06hooks" if hooks else "verif")
    skip_mc = bool(os.environ.get("VERIF_C06_SKIP_MC"))  # mutation experiments only: the model does not change with the tree
    if skip_mc:
        ctx.extra["model_checking_skipped"] = True
    # ------------------------------------------------------------ exhaustive model checking (jobs run side by side)
    #      e  k  q  b buf f  s  faults ticker
    fam = [(1, 3, 2, 1, 2, 1, 1, True, True),     # ring overflow, buffer of two, multi-chunk requests (coverage run)
           (2, 1, 2, 2, 1, 1, 2, False, False),   # two stoppers, batch of two
           (1, 2, 2, 1, 1, 1, 1, True, True)]     # multi-chunk requests + failing exports
    # caller contexts that end: (config, Cancels)
    canc = [((1, 2, 2, 1, 1, 1, 1, False, False), ("f1",)), ((1, 2, 2, 1, 1, 1, 1, False, False), ("s1",))]
    if thorough:
        # (run once, too large for the tier: 1x2 q2 b1 f1 s2 {f1,s1} 17 190 566 states, 1x2 q2 b1 f2 s1 faults {f1,f2} 22 989 166: both hold)
        canc += [((2, 1, 2, 2, 1, 1, 1, False, True), ("f1", "s1"))]
        fam += [(2, 1, 1, 1, 1, 1, 1, False, True), (2, 2, 2, 2, 1, 1, 1, False, False), (3, 1, 2, 1, 1, 0, 1, False, True), (2, 1, 1, 1, 1, 2, 1, False, False),
                (1, 2, 2, 1, 1, 1, 2, True, True), (2, 1, 2, 2, 1, 1, 2, False, True)] + THOROUGH_EXTRA
    cov_cfg = fam[0]
    # TLC jobs run 5 wide: cap every heap (default = a quarter of the RAM each; the kernel's OOM killer took a run on a loaded machine)
    HEAP_BIG = "8g" if thorough else "3g"

    def mc(c, cancels=()):
        return ctx.tlc(S, "MC_BatchLP", "MC_BatchLP.cfg", defines=mc_defs(*c, cancels=cancels),
                       name="mc-" + cfg_name(*c) + ("-ctx-" + "-".join(cancels) if cancels else ""), timeout=6000,
                       coverage=(c == cov_cfg and not cancels), workers=4, must_pass=False, count=False, heap=HEAP_BIG)

    # Small TLC jobs: (a) TLC must find every named deviation when it alone is not admitted (guards against a vacuous
    # contract), and a missing Clone (content-changed) in the no-clone variant of the model; (b) liveness under fairness:
    # every call that was made returns; (c) -simulate behaviours; (d) the sketched repairs; (e) the pipeline model SLP.tla.
    tiny = (1, 1, 1, 1, 1, 1, 2, False, False)
    nk_cfg = {"D2-chunk-aborted": (1, 2, 2, 1, 1, 1, 1, True, False), "D6-final-flush-overtaken": (1, 2, 2, 2, 1, 1, 1, False, False),
              "no-clone": (1, 1, 1, 1, 1, 0, 1, False, False)}

    def noknown(d, fixa=False, fixb=False, tag=""):
        admit = 'Known \\ {"%s"}' % d if d != "no-clone" else "Known"
        return ctx.tlc(S, "MC_BatchLP", "MC_BatchLP.cfg",
                       defines=mc_defs(*nk_cfg.get(d, tiny), clone=(d != "no-clone"), admit=admit, abort=(d == "D2-chunk-aborted"), fixa=fixa, fixb=fixb),
                       name="mc-noknown-" + d + tag, must_pass=False, count=False, timeout=1200, workers=2, heap="2g")

    live = [(1, 2, 2, 1, 1, 1, 1, False, False)] + ([(2, 1, 2, 1, 1, 1, 1, False, False), (1, 1, 2, 1, 1, 1, 2, True, True)] if thorough else [])

    def liveness(c, fixa=False, fixb=False, tag=""):
        return ctx.tlc(S, "MC_BatchLP", "MC_BatchLP_live.cfg", defines=mc_defs(*c, fixa=fixa, fixb=fixb), name="live-" + cfg_name(*c) + tag,
                       timeout=6000, workers=2 if tag and not thorough else 4, must_pass=False, count=False, heap="4g")

    sims = [(2, 2, 2, 2, 1, 1, 1, True), (2, 1, 1, 1, 1, 1, 2, False), (1, 3, 2, 1, 1, 1, 1, True),
            (3, 2, 2, 1, 2, 2, 0, False), (2, 2, 4, 2, 1, 1, 0, True)] if hooks else []
    nsim = 400 if thorough else 40

    SIM_CANCELS = {(1, 3, 4, 2, 1, 2, 1, False): ("f1", "f2", "s1"), (2, 2, 2, 1, 1, 2, 2, False): ("f1", "s1")}
    sims += list(SIM_CANCELS) if hooks else []

    def simulate(c):
        e, k, q, b, buf, f, s, faults = c
        cs = SIM_CANCELS.get(c, ())
        return ctx.tlc(S, "MC_BatchLPSim", "MC_BatchLPSim.cfg", defines=mc_defs(e, k, q, b, buf, f, s, faults, cancels=cs), workers=1,
                       simulate="num=%d" % nsim, depth=400, name="sim-" + cfg_name(e, k, q, b, buf, f, s, faults) + ("-ctx" if cs else ""),
                       timeout=1800, must_pass=False, count=False, heap="2g")

    # (d) the two sketched repairs of the shutdown races. Claimed effect of each (TLC decides): with the switch on, the
    # model with Admit = Known \ removed must satisfy Contract (exhaustive), every deviation NOT claimed removed must
    # still be found, and every call must still return under fairness.
    REPAIRS = {"A-stopDone": dict(fixa=True, fixb=False, removed=["D1-flush-during-shutdown", "D1-shutdown-during-shutdown",
                                                                   "D1-export-after-early-shutdown-return", "D3-flush-exporter-stopped",
                                                                   "D5-flush-overtakes-final-flush"]),
               "B-closedQueue": dict(fixa=False, fixb=True, removed=["D4-enqueue-after-final-flush", "D6-final-flush-overtaken"]),
               "A+B": dict(fixa=True, fixb=True, removed=[d for d in KNOWN_MODEL if d != "D2-chunk-aborted"])}
    rep_cfgs = [(1, 2, 2, 2, 1, 1, 2, False, False)] + ([(2, 1, 2, 1, 1, 1, 2, False, True), (1, 2, 2, 1, 1, 2, 1, True, True)] if thorough else [])

    def repair_holds(name, c):
        r = REPAIRS[name]
        admit = "Known \\ " + tla_set(r["removed"] + ["D2-chunk-aborted"])
        return ctx.tlc(S, "MC_BatchLP", "MC_BatchLP.cfg", defines=mc_defs(*c, admit=admit, fixa=r["fixa"], fixb=r["fixb"]),
                       name="repair-%s-%s" % (name, cfg_name(*c)), must_pass=False, count=False, timeout=3000, workers=3, heap=HEAP_BIG)

    # (e) the pipeline around the batch processor
    slp_fam = [(2, 1, ["mut", "simple", "batch", "mut"], 1, 1), (2, 2, ["simple"], 0, 2)]
    if thorough:
        slp_fam += [(2, 2, ["simple", "simple"], 0, 2), (2, 1, ["batch", "mut", "simple"], 1, 2), (3, 1, ["mut", "simple"], 1, 1),
                    (2, 1, ["mut", "batch", "mut", "batch"], 1, 1), (1, 2, ["mut", "batch", "mut", "batch"], 1, 1)]
    slp_live = [(1, 2, ["simple", "batch"], 1, 1)] + ([(2, 1, ["simple", "batch"], 1, 1)] if thorough else [])
    slp_mut = {"nomutex": "concurrent-export", "skipsecond": "simple-not-exported-at-return", "nostopcheck": "processed-after-shutdown",
               "noclone": "content-mismatch"}

    def slp(c, mutation="none", admit="Observed", live_=False, tag=""):
        e, k, kinds, f, s = c
        return ctx.tlc(S, "MC_SLP", "MC_SLP_live.cfg" if live_ else "MC_SLP.cfg", defines=slp_defs(e, k, kinds, f, s, mutation, admit, thresh=[0] * len(kinds)),
                       name="slp-%dx%d-%s-f%d-s%d%s" % (e, k, "".join(x[0] for x in kinds), f, s, tag), must_pass=False,
                       count=False, timeout=3000, workers=3, heap="3g")

    with ThreadPoolExecutor(max_workers=5) as ex:
        f_mc = [(c, ex.submit(mc, c)) for c in ([] if skip_mc else fam)]
        f_mc += [(None, ex.submit(mc, c, cs)) for c, cs in ([] if skip_mc else canc)]
        # quick tier: the exhaustive "nothing is left" run for A+B only; that A alone / B alone remove exactly their share is shown
        # there by the small runs below (each leaves the other's deviations) and exhaustively in the thorough tier
        f_rep = {(n, c): ex.submit(repair_holds, n, c) for n in ([] if skip_mc else REPAIRS) for c in rep_cfgs if thorough or n == "A+B"}
        f_sim = [(c, ex.submit(simulate, c)) for c in sims]
        f_live = [(c, ex.submit(liveness, c)) for c in ([] if skip_mc else live)]
        f_slp = [(c, ex.submit(slp, c)) for c in ([] if skip_mc else slp_fam)]
        f_nk = {d: ex.submit(noknown, d) for d in ([] if skip_mc else KNOWN_MODEL + ["no-clone"])}
        # liveness under a repair: tiny (a flusher and TWO stoppers: everybody who may wait for stopDone); thorough also live[0]
        f_rep_live = {n: ex.submit(liveness, tiny, REPAIRS[n]["fixa"], REPAIRS[n]["fixb"], "-repair-" + n)
                      for n in ([] if skip_mc else REPAIRS) if thorough or n == "A+B"}
        f_rep_live2 = {n: ex.submit(liveness, live[0], REPAIRS[n]["fixa"], REPAIRS[n]["fixb"], "-repair-" + n)
                       for n in ([] if skip_mc or not thorough else REPAIRS)}
        f_rep_left = {(n, d): ex.submit(noknown, d, REPAIRS[n]["fixa"], REPAIRS[n]["fixb"], "-repair-" + n)
                      for n in ([] if skip_mc else REPAIRS) for d in KNOWN_MODEL if d not in REPAIRS[n]["removed"] and d != "D2-chunk-aborted"}
        f_slp_mut = {mu: ex.submit(slp, slp_fam[0], mu, "Observed", False, "-" + mu) for mu in ([] if skip_mc else slp_mut)}
        f_slp_obs = {o: ex.submit(slp, (2, 1, ["mut", "simple", "batch"], 1, 2), "none", 'Observed \\ {"%s"}' % o, False, "-no-" + o[:2])
                     for o in ([] if skip_mc else ["O1-simple-export-after-shutdown-raced", "O2-provider-flush-during-shutdown",
                                                   "O3-exporter-shutdown-during-export", "O4-second-shutdown-returns-early"])}
        f_slp_live = [(c, ex.submit(slp, c, "none", "Observed", True, "-live")) for c in ([] if skip_mc else slp_live)]
    # (parallel jobs do not touch the shared counters: exhaustive runs that passed are added here)
    for c, f in f_mc + f_slp:
        r = f.result()
        if r["timed_out"] or r["violated"] or r["rc"] != 0 or r["error"]:
            raise vlib.Inconclusive("TLC %s: %s (model only, not a verdict on the code); see %s"
                                    % (r["name"], r["violated"] or r["error"] or ("timeout" if r["timed_out"] else "rc=%s" % r["rc"]), r["out"]))
        ctx.states += r["distinct"]
        ctx.transitions += r["generated"]
        if c == cov_cfg:
            # FWaitDone / SWaitDone exist only under the sketched repair A (FixStopDone), which is off in this run
            # the context-ended exits need Cancels # {}: exercised by the -ctx- configurations (no coverage pass there)
            zero = sorted(set(r["zero_cov"]) - {"FWaitDone", "SWaitDone", "Cancel", "FGiveUp", "FMSendCancel", "FMWaitCancel",
                                                "SWaitPollCancel", "SESendCancel", "SEWaitCancel", "SXWaitCancel"})
            ctx.extra["zero_coverage_actions"] = zero
            if zero:
                ctx.note_inconclusive("vacuity: actions never taken in the coverage run: %s" % zero)
    found = {d: f.result()["violated"] for d, f in f_nk.items()}
    ctx.extra["tlc_finds_each_named_deviation"] = found
    for d, v in found.items():
        if v != "Contract":
            ctx.note_inconclusive("model drift: TLC does not find %s when it is not admitted (violated=%s)" % (d, v))
    for c, f in f_live + f_slp_live:
        r = f.result()
        if r["timed_out"] or r["violated"] or r["rc"] != 0 or r["error"]:
            raise vlib.Inconclusive("TLC liveness run %s failed (model only, not a verdict): violated=%s error=%s timed_out=%s; see %s"
                                    % (r["name"], r["violated"], r["error"], r["timed_out"], r["out"]))
        ctx.states += r["distinct"]
        ctx.transitions += r["generated"]
    # the pipeline model: TLC must find each seeded defect and each admitted observation
    slp_found = {mu: f.result()["violated"] for mu, f in f_slp_mut.items()}
    slp_obs = {o: f.result()["violated"] for o, f in f_slp_obs.items()}
    if not skip_mc:
        ctx.extra["slp_tlc_finds_each_seeded_defect"] = slp_found
        ctx.extra["slp_tlc_reaches_each_observation"] = slp_obs
        for k_, v in list(slp_found.items()) + list(slp_obs.items()):
            if v not in ("Contract", "Exclusive"):
                ctx.note_inconclusive("SLP.tla: TLC does not find %s (violated=%s)" % (k_, v))
    # the sketched repairs: evidence only (a repair that does not do what the notes claim is reported, not a verdict)
    if not skip_mc:
        matrix = {}
        for n, rp in REPAIRS.items():
            holds = {cfg_name(*c): (f_rep[(n, c)].result()["violated"] or f_rep[(n, c)].result()["error"] or
                                     ("timeout" if f_rep[(n, c)].result()["timed_out"] else "holds")) for c in rep_cfgs if (n, c) in f_rep}
            left = {d: f_rep_left[(n, d)].result()["violated"] == "Contract" for d in KNOWN_MODEL if (n, d) in f_rep_left}
            lv = f_rep_live[n].result() if n in f_rep_live else None
            lv2 = f_rep_live2[n].result() if n in f_rep_live2 else None
            if lv is not None and lv2 is not None and (lv2["violated"] or lv2["error"] or lv2["timed_out"]):
                lv = lv2
            matrix[n] = {"removes": rp["removed"], "contract_without_them": holds or "thorough tier only",
                         "still_found": sorted(d for d, v in left.items() if v), "not_found_although_not_claimed": sorted(d for d, v in left.items() if not v and d != "D2-chunk-aborted"),
                         "every_call_returns": ("thorough tier only" if lv is None else "yes" if not (lv["violated"] or lv["error"] or lv["timed_out"])
                                                else (lv["violated"] or lv["error"] or "timeout")),
                         "states": {cfg_name(*c): f_rep[(n, c)].result()["distinct"] for c in rep_cfgs if (n, c) in f_rep}}
        ctx.extra["sketched_repairs"] = matrix

    # ------------------------------------------------------------ spec -> code: behaviours as gate scripts
    scenarios = []
    seen = set()
    for c, f in f_sim:
        e, k, q, b, buf, fl, s, faults = c
        r = f.result()
        if r["timed_out"] or r["rc"] != 0 or r["error"] or r["violated"]:
            raise vlib.Inconclusive("TLC simulation %s failed: %s; see %s" % (r["name"], r["error"] or r["violated"], r["out"]))
        for line in r["prints"]:
            if isinstance(line, str) and line.startswith("BEHAVIOUR "):
                if line in seen:
                    continue
                seen.add(line)
                beh = json.loads(line[len("BEHAVIOUR "):])
                scenarios.append(scenario(dict(name="sim-" + cfg_name(e, k, q, b, buf, fl, s, faults) + ("-ctx" if c in SIM_CANCELS else ""), emitters=e, recsPer=k,
                                               qcap=q, maxbatch=b, bufsize=buf, flushers=fl, stoppers=s,
                                               script=beh["script"], xres=beh["xres"])))
    nbeh = len(scenarios)
    for d in DIRECTED:
        for rep in range(6 if thorough else 3):
            scenarios.append(scenario(d))
    sfile = os.path.join(ctx.work, "scripts.json")
    json.dump(scenarios, open(sfile, "w"))
    t1 = os.path.join(ctx.work, "trace-scripts.ndjson")
    r1 = os.path.join(ctx.work, "res-scripts.json")
    ctx.run([binp, "scripts", "-in", sfile, "-out", t1, "-res", r1], timeout=3000)
    res1 = json.load(open(r1))
    # ------------------------------------------------------------ code -> spec: random scenarios
    n = 6000 if thorough else 500
    npt = 400 if thorough else 60      # the first scenarios also record Pt lines (input of the implementation-level validation)
    t2 = os.path.join(ctx.work, "trace-random.ndjson")
    r2 = os.path.join(ctx.work, "res-random.json")
    ctx.run([binp, "random", "-n", str(n), "-pt", str(npt), "-out", t2, "-res", r2], timeout=3000)
    res2 = json.load(open(r2))
    # ------------------------------------------------------------ the pipeline around it (SLP.tla)
    pfile = os.path.join(ctx.work, "pipeline-directed.json")
    pdir = [pscenario(d) for d in PIPE_DIRECTED for _ in range(4 if thorough else 2)]
    json.dump(pdir, open(pfile, "w"))
    npipe = 2500 if thorough else 250
    t3 = os.path.join(ctx.work, "trace-pipeline.ndjson")
    r3 = os.path.join(ctx.work, "res-pipeline.json")
    ctx.run([binp, "pipeline", "-in", pfile, "-n", str(npipe), "-out", t3, "-res", r3], timeout=3000)
    res3 = json.load(open(r3))
    counters = {}
    for res in (res1, res2, res3):
        for k, v in res["counters"].items():
            counters[k] = counters.get(k, 0) + v
    ctx.extra["counters"] = counters
    ctx.extra["tlc_behaviours_replayed"] = nbeh
    ctx.extra["directed_schedules"] = len(scenarios) - nbeh
    ctx.extra["random_scenarios"] = n
    ctx.extra["pipeline_scenarios"] = {"directed": len(pdir), "random": npipe}
    ctx.add_samples([{"behaviour_script": scenarios[0]["script"][:40]}] if scenarios else [])
    ctx.add_samples(res2["samples"][:1])
    ctx.add_samples(res3["samples"][:1])
    if hooks and bool(counters.get("hooks")) is False:
        ctx.note_inconclusive("harness was built without the c06hooks tag although the tree has the hooks")
    kinds = {}
    batch_obs = {}
    by_scenario = {}
    kinds_of = {"scripts": {}, "random": {}}    # label -> scenario number -> contract kinds (for the agreement statistics)
    hookfree_unclassified = {}
    for tf, label in ((t1, "scripts"), (t2, "random")):
        viols, accepted = ctx.validate_trace(S, "Trace_BatchLP", "Trace_BatchLP.cfg", tf, name="trace-" + label, timeout=3000)
        ctx.extra["trace_lines_" + label] = accepted
        lines = None
        for v in viols:
            kind = v["v"]["kind"]
            kinds[kind] = kinds.get(kind, 0) + 1
            kinds_of[label].setdefault(v["sc"], set()).add(kind)
            if lines is None:
                lines = open(tf).read().splitlines()
            scen = []
            cfg = {}
            for ln in lines[:v["line"]][::-1]:
                rec = json.loads(ln)
                if rec.get("sc") != v["sc"]:
                    break
                if rec["ev"] != "Pt":
                    scen.append(rec)
                if rec["ev"] == "Cfg":
                    cfg = rec
            scen.reverse()
            name = cfg.get("name", "")
            by_scenario.setdefault(name, set()).add(kind)
            if kind.startswith("obs-"):
                # allowed by the statement (a call whose context ended returned an error and promises nothing): counted only
                batch_obs[kind] = batch_obs.get(kind, 0) + 1
                continue
            if kind.startswith("hookfree-"):
                # without the hooks the monitor cannot tell the listed deviations from anything else that loses
                # a record next to a Shutdown / a failed export: recorded, not a verdict
                hookfree_unclassified[kind] = hookfree_unclassified.get(kind, 0) + 1
                continue
            ctx.violation({"kind": kind, "source": label},
                          replay={"violation": v, "scenario_name": name, "cfg": cfg, "events": scen[-400:]})
    ctx.extra["violation_kinds_seen"] = kinds
    ctx.extra["batch_observations"] = batch_obs
    if hookfree_unclassified:
        ctx.extra["hookfree_unclassified"] = hookfree_unclassified
    # pipeline scenarios against the total monitor SLPContract.tla; kinds "obs-*" are observations (the documentation is silent)
    pviols, paccepted = ctx.validate_trace(S, "Trace_SLP", "Trace_SLP.cfg", t3, name="trace-pipeline", timeout=3000)
    ctx.extra["trace_lines_pipeline"] = paccepted
    pkinds, pobs, p_by_scenario = {}, {}, {}
    plines = None
    for v in pviols:
        kind = v["v"]["kind"]
        if plines is None:
            plines = open(t3).read().splitlines()
        scen, cfg = [], {}
        for ln in plines[:v["line"]][::-1]:
            rec = json.loads(ln)
            if rec.get("sc") != v["sc"]:
                break
            scen.append(rec)
            if rec["ev"] == "Cfg":
                cfg = rec
        scen.reverse()
        p_by_scenario.setdefault(cfg.get("name", ""), set()).add(kind)
        if kind.startswith("obs-"):
            pobs[kind] = pobs.get(kind, 0) + 1
            continue
        pkinds[kind] = pkinds.get(kind, 0) + 1
        ctx.violation({"kind": kind, "source": "pipeline", "processor": (cfg.get("kinds") or ["?"])[v["v"]["exp"] - 1] if isinstance(v["v"].get("exp"), int) and 0 < v["v"]["exp"] <= len(cfg.get("kinds") or []) else "-"},
                      replay={"violation": v, "scenario_name": cfg.get("name", ""), "cfg": cfg, "events": scen[-400:]})
    ctx.extra["pipeline_violation_kinds_seen"] = pkinds
    ctx.extra["pipeline_observations"] = pobs
    ctx.extra["pipeline_directed_reproduced"] = {n_: (k_ in p_by_scenario.get(n_, ())) for n_, k_ in PIPE_EXPECT.items()}
    ctx.traces_validated += res1["executed"] + res2["executed"] + res3["executed"]
    ctx.evaluations += res1["executed"] + res2["executed"] + res3["executed"]
    # ------------------------------------------------------------ code -> spec, second level: the implementation-shaped spec itself
    if hooks:
        lim = (400, 200) if thorough else (28, 14)
        iv = {"scripts": impl_validate(ctx, t1, "scripts", lim[0], kinds_of["scripts"]),
              "random": impl_validate(ctx, t2, "random", lim[1], kinds_of["random"])}
        ctx.extra["impl_trace_validation"] = iv
        ndrift = sum(x["drift_count"] for x in iv.values())
        nexpl = sum(x["explained"] for x in iv.values())
        ctx.extra["impl_trace_validation_summary"] = {
            "scenarios": sum(x["scenarios"] for x in iv.values()), "explained_by_BatchLP_actions": nexpl, "model_drift": ndrift,
            "tlc_errors": sum(len(x["errors"]) for x in iv.values()), "states": sum(x["states"] for x in iv.values()),
            "contract_and_model_monitor_agree": sum(x["agree"] for x in iv.values())}
        ctx.traces_validated += nexpl
    # the directed schedules should actually reproduce the deviations they were written for (binding check)
    if hooks:
        repro = {name: (kind in by_scenario.get(name, ())) for name, kind in EXPECT.items()}
        ctx.extra["directed_reproduced"] = repro
        known_open = {k["id"] for k in ctx._known if k.get("status") == "known"}
        # (D2 is repaired in /repo: its schedule is kept as a regression schedule and is expected NOT to reproduce any more)
        missing = [n_ for n_, ok in repro.items() if not ok and not (n_ == "D2-chunk-aborted" and "C06-D2-chunk-aborted" not in known_open)]
        if missing and known_open:
            ctx.extra["note"] = "directed schedules that did not reproduce their deviation in this run: %s" % missing
    else:
        ctx.note_inconclusive("sdk/log has no verif hooks in %s (apply proposed_fixes/C06-hooks.diff): only the hook-free "
                              "parts ran (model checking, %d real scenarios validated against the hook-free contract, "
                              "no gate replay); unclassifiable near-shutdown observations: %s"
                              % (vlib.REPO, res1["executed"] + res2["executed"], hookfree_unclassified))
    # auxiliary monitor (thorough): the replayed schedules and the random / pipeline drivers under the Go race detector.
    # Data-race freedom is not a clause of C06 (a missing Clone would also show up as content-changed), so reports are
    # evidence, not verdicts.
    if thorough:
        try:
            rbin = ctx.go_build("c06", tags="verif,c06hooks" if hooks else "verif", race=True)
            rsample = scenarios[:150] + scenarios[nbeh:]
            rfile = os.path.join(ctx.work, "scripts-race.json")
            json.dump(rsample, open(rfile, "w"))
            reports = {}
            for label, args in (("replayed_schedules", ["scripts", "-in", rfile]), ("random", ["random", "-n", "600"]),
                                ("pipeline", ["pipeline", "-in", pfile, "-n", "300"])):
                p = ctx.run([rbin] + args + ["-out", os.path.join(ctx.work, "trace-race-%s.ndjson" % label),
                                             "-res", os.path.join(ctx.work, "res-race-%s.json" % label)], timeout=3000, ok_codes=(0, 66),
                            env={"GORACE": "halt_on_error=0"})
                reports[label] = p.stderr.count("WARNING: DATA RACE")
            ctx.extra["race_detector_reports"] = reports
            ctx.extra["race_detector_schedules_rerun"] = len(rsample)
        except vlib.Inconclusive as e:
            ctx.extra["race_detector_run"] = "not available: %s" % str(e)[:200]
    ctx.exhaustive = False
    ctx.assumptions += [
        "callers' contexts never expire (the quantifier ranges over exporter behaviours, not caller cancellation)",
        "ticker-triggered polls are exercised by perturbation only (Go's select cannot be gated); the model has them (Ticker)",
        "Enq/Deq/QFlushed/Ignored/Early events come from the verif hooks in sdk/log (logged under the queue lock, never blocking)",
        "the export timeout is modelled as an exporter error; exporter panics are out of scope",
        "content digest covers timestamp, event name, severity, severity text, body and all attributes; values the API "
        "documents as 'must not be changed after passed' (slice/map/bytes backing arrays) are not mutated",
        "pipeline scenarios: what overlaps a LoggerProvider.Shutdown call (ForceFlush / second Shutdown returning at once, a raced "
        "Emit reaching a SimpleProcessor afterwards, exporter.Shutdown during a SimpleProcessor's Export) is only observed: the "
        "documentation promises nothing there and C06's statement is about the batch processor",
        "implementation-level trace validation covers a seeded sample of the recorded scenarios; model drift is evidence only",
    ]
    # X02: inductive proof (Apalache, symbolic constants) of the parameterised core B this spec generalises -- thorough tier,
    # evidence only: nothing in here can change the verdict or the exit code of this check (see checks/inductive.py)
    if thorough:
        try:
            import importlib.util as _ilu
            _s = _ilu.spec_from_file_location("verif_inductive", os.path.join(os.path.dirname(os.path.abspath(__file__)), "inductive.py"))
            _m = _ilu.module_from_spec(_s)
            _s.loader.exec_module(_m)
            ctx.extra["inductive"] = _m.run_inductive(ctx, ["B"], budget_s=600)
        except Exception as _e:  # never a verdict
            ctx.extra["inductive"] = {"_error": repr(_e)}
