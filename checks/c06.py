"""C06 -- log batch processor: once, in order, bounded chunks, one export at a time, clone isolation.

model      : BatchLP.tla (implementation-shaped: ring queue Enqueue/TryDequeue/Flush, poll goroutine,
             bufferExporter channel + exportSync consumer with chunking, ForceFlush, Shutdown; one action per
             critical section) checked exhaustively by TLC for a family of small configurations against the
             contract carried by its monitor variables; one run per named deviation (Admit = Known \\ {D})
             demonstrates that TLC finds each of them; a no-clone config that it finds a missing Clone;
             liveness (every call returns) under fairness.
spec->code : TLC -simulate behaviours of BatchLPSim.tla (BatchLP + history of gate releases / arrivals) are
             replayed on the real processor: vh.Sched holds every goroutine at its verif hook / exporter /
             call gate until the behaviour says it is its turn; hand-written directed schedules (the TLC
             counterexamples of the named deviations and the hand-over windows) use the same vocabulary.
code->spec : every real execution (replayed behaviours, directed schedules, seeded random scenarios with
             schedule perturbation and slow / failing / blocking / timing-out exporters, a downstream
             processor and the caller mutating the record after Emit) is recorded as ndjson and validated by
             TLC against the total contract monitor BatchLPContract.tla (Trace_BatchLP.tla).
hooks      : sdk/log needs proposed_fixes/C06-hooks.diff (verif_on/off pair + points). On a tree without it
             the harness is built without the c06hooks tag, the monitor uses its hook-free
             over-approximations, nothing is gate-replayed and the run ends inconclusive (exit 2) unless the
             real code broke a clause that needs no hook to judge (exit 1).
"""
import json
import os
from concurrent.futures import ThreadPoolExecutor

import vlib

S = "BatchLP"

KNOWN_MODEL = ["D1-flush-during-shutdown", "D1-shutdown-during-shutdown", "D1-export-after-early-shutdown-return",
               "D2-chunk-aborted", "D3-flush-exporter-stopped", "D4-enqueue-after-final-flush",
               "D5-flush-overtakes-final-flush", "D6-final-flush-overtaken"]


def tla_set(xs):
    return "{" + ", ".join('"%s"' % x for x in xs) + "}"


def mc_defs(e, k, q, b, buf, f, s, faults=False, ticker=True, clone=True, admit="Known"):
    t = lambda x: "TRUE" if x else "FALSE"
    return {"EMITTERS": tla_set(["g%d" % (i + 1) for i in range(e)]),
            "FLUSHERS": tla_set(["f%d" % (i + 1) for i in range(f)]),
            "STOPPERS": tla_set(["s%d" % (i + 1) for i in range(s)]),
            "RECSPER": k, "QCAP": q, "BATCH": b, "BUFSIZE": buf, "FAULTS": t(faults), "TICKER": t(ticker),
            "CLONE": t(clone), "ADMIT": admit}


def cfg_name(e, k, q, b, buf, f, s, faults=False, ticker=True):
    return "g%dx%d-q%d-b%d-buf%d-f%d-s%d%s%s" % (e, k, q, b, buf, f, s, "-faults" if faults else "", "" if ticker else "-notick")


def E(g, k):
    p = "g%d:%d" % (g, k)
    return [p + "@call", p + "@blp.onemit.checked", p + "@blp.onemit.enqueued", p + "@ret"]


POLL = ["poll@blp.poll.woke", "poll@blp.poll.dequeued"]
THOROUGH_EXTRA = [(2, 1, 3, 2, 2, 1, 1, True, False), (1, 3, 3, 2, 1, 1, 1, True, True)]

DIRECTED = [
    # vocabulary: "<proc>@<point>" = the goroutine passes that gate now; "<...>+" = it has arrived there
    # (see BatchLPSim.tla). The first seven are TLC counterexamples of the named deviations.
    # D1: ForceFlush while Shutdown has swapped `stopped` but record 2 still sits in the export buffer
    dict(name="D1-flush-during-shutdown", emitters=1, recsPer=2, qcap=4, maxbatch=1, bufsize=1, flushers=1, stoppers=1,
         script=E(1, 1) + POLL + ["x@exp.begin+"] + E(1, 2) + POLL +
         ["s1@call", "s1@blp.sd.swapped+", "f1@call", "f1@blp.ff.stopped", "f1@ret", "x@exp.begin", "s1@blp.sd.swapped"]),
    # D1: a second Shutdown returns nil at once; the first one exports afterwards
    dict(name="D1-second-shutdown", emitters=1, recsPer=2, qcap=4, maxbatch=1, bufsize=1, flushers=0, stoppers=2,
         script=E(1, 1) + POLL + ["x@exp.begin+"] + E(1, 2) + POLL +
         ["s1@call", "s1@blp.sd.swapped+", "s2@call", "s2@blp.sd.already", "s2@ret", "x@exp.begin", "s1@blp.sd.swapped"]),
    # D2: ForceFlush hands 3 records over as one request, batch size 2, first chunk fails: record 3 never exported
    dict(name="D2-chunk-aborted", emitters=1, recsPer=3, qcap=4, maxbatch=2, bufsize=1, flushers=1, stoppers=1, xres=["err"],
         script=E(1, 1) + E(1, 2) + ["poll@blp.poll.woke+"] + E(1, 3) +
         ["f1@call", "f1@blp.ff.checked", "f1@blp.ff.dequeued", "x@exp.begin", "f1@exp.flush", "f1@ret",
          "poll@blp.poll.woke", "s1@call"]),
    # D3: ForceFlush (past the stopped check) meets bufferExporter.stopped between its swap and the drain
    dict(name="D3-flush-exporter-stopped", emitters=1, recsPer=2, qcap=4, maxbatch=1, bufsize=1, flushers=1, stoppers=1,
         script=E(1, 1) + POLL + ["x@exp.begin+"] + E(1, 2) + POLL +
         ["f1@call", "f1@blp.ff.checked", "f1@blp.ff.dequeued+", "s1@call", "s1@blp.sd.swapped", "s1@blp.sd.polldone",
          "s1@blp.sd.flushed", "s1@blp.xsd.swapped+", "f1@blp.ff.dequeued", "f1@blp.xff.stopped", "f1@ret",
          "s1@blp.xsd.swapped", "x@exp.begin"]),
    # D4: OnEmit passes the stopped check, Shutdown runs to completion, then the record is enqueued
    dict(name="D4-enqueue-after-final-flush", emitters=1, recsPer=1, qcap=2, maxbatch=2, bufsize=1, flushers=0, stoppers=2,
         script=["g1:1@call", "g1:1@blp.onemit.checked+", "s1@call", "s1@blp.sd.swapped", "s1@blp.sd.polldone",
                 "s1@blp.sd.flushed", "s1@blp.xsd.swapped", "s1@exp.shutdown", "s1@ret", "g1:1@blp.onemit.checked",
                 "g1:1@blp.onemit.enqueued", "g1:1@ret", "s2@call", "s2@blp.sd.already", "s2@ret"]),
    # D5: Shutdown has taken the record out with q.Flush() but not yet enqueued it; ForceFlush's marker overtakes
    dict(name="D5-flush-overtakes-final-flush", emitters=1, recsPer=1, qcap=4, maxbatch=2, bufsize=1, flushers=1, stoppers=1,
         script=E(1, 1) + ["f1@call", "f1@blp.ff.checked+", "s1@call", "s1@blp.sd.swapped", "s1@blp.sd.polldone",
                           "s1@blp.xexp.called+", "f1@blp.ff.checked", "f1@blp.ff.dequeued", "f1@exp.flush", "f1@ret",
                           "s1@blp.xexp.called"]),
    # D6: same window; record 2 (OnEmit past the check) is enqueued after q.Flush() and handed over first
    dict(name="D6-final-flush-overtaken", emitters=1, recsPer=2, qcap=4, maxbatch=4, bufsize=1, flushers=1, stoppers=1,
         script=E(1, 1) + ["g1:2@call", "g1:2@blp.onemit.checked+", "f1@call", "f1@blp.ff.checked+", "s1@call",
                           "s1@blp.sd.swapped", "s1@blp.sd.polldone", "s1@blp.xexp.called+", "g1:2@blp.onemit.checked",
                           "g1:2@blp.onemit.enqueued", "g1:2@ret", "f1@blp.ff.checked", "f1@blp.ff.dequeued",
                           "x@exp.begin", "f1@exp.flush", "f1@ret", "s1@blp.xexp.called"]),
    # ring overflow while the exporter is held: records 3 and 4 are overwritten (oldest first), 5 and 6 survive
    dict(name="overflow-held-exporter", emitters=1, recsPer=6, qcap=2, maxbatch=1, bufsize=1, flushers=1, stoppers=1,
         script=E(1, 1) + POLL + ["x@exp.begin+"] + E(1, 2) + POLL + E(1, 3) + E(1, 4) + E(1, 5) + E(1, 6) +
         ["x@exp.begin", "f1@call", "f1@ret", "s1@call"]),
    # stopped flag swapped between the check and the enqueue while the final flush has not run: it must export it
    dict(name="check-then-swap-then-enqueue", emitters=2, recsPer=1, qcap=2, maxbatch=2, bufsize=1, flushers=0, stoppers=1,
         script=E(1, 1) + ["g2:1@call", "g2:1@blp.onemit.checked+", "s1@call", "s1@blp.sd.swapped+", "g2:1@blp.onemit.checked",
                           "g2:1@blp.onemit.enqueued", "g2:1@ret", "s1@blp.sd.swapped"]),
    # poll goroutine and ForceFlush compete for the same queue contents
    dict(name="poll-vs-flush-dequeue", emitters=2, recsPer=2, qcap=4, maxbatch=2, bufsize=2, flushers=1, stoppers=1,
         script=E(1, 1) + E(2, 1) + ["poll@blp.poll.woke+", "f1@call", "f1@blp.ff.checked", "poll@blp.poll.woke"] +
         E(1, 2) + E(2, 2) + ["f1@ret", "s1@call"]),
    # export buffer full: ForceFlush's EnqueueExport fails, read pointer restored, it retries until there is room
    dict(name="buffer-full-restore", emitters=1, recsPer=3, qcap=4, maxbatch=1, bufsize=1, flushers=1, stoppers=1,
         script=E(1, 1) + POLL + ["x@exp.begin+"] + E(1, 2) + POLL + E(1, 3) +
         ["f1@call", "f1@blp.ff.checked", "s1@call+", "x@exp.begin", "f1@ret", "s1@call"]),
    # failing exports on the poll path: every record is still passed exactly once
    dict(name="failing-poll-exports", emitters=2, recsPer=2, qcap=4, maxbatch=1, bufsize=2, flushers=1, stoppers=1,
         xres=["err", "ok", "err", "err"],
         script=E(1, 1) + E(2, 1) + E(1, 2) + E(2, 2) + ["f1@call", "f1@ret", "s1@call"]),
]

# which directed schedule is expected to reproduce which contract violation kinds (binding check, evidence only)
EXPECT = {
    "D1-flush-during-shutdown": "flush-missed-during-shutdown",
    "D1-second-shutdown": "shutdown-missed-during-shutdown",
    "D2-chunk-aborted": "missed-chunk-aborted",
    "D3-flush-exporter-stopped": "flush-missed-exporter-stopped",
    "D4-enqueue-after-final-flush": "shutdown-missed-raced",
    "D5-flush-overtakes-final-flush": "flush-missed-held-by-shutdown",
    "D6-final-flush-overtaken": "final-flush-overtaken",
}


def scenario(d):
    sc = dict(emitters=1, recsPer=1, qcap=2, maxbatch=2, bufsize=1, flushers=0, flushesPer=1, stoppers=1, intervalUs=0,
              exportTimeoutMs=30000, expMode="ok", phased=False, nattrs=7, perturb=0.0)
    sc.update(d)
    return sc


def run(ctx):
    thorough = ctx.tier == "thorough"
    hooks = os.path.exists(os.path.join(vlib.REPO, "sdk", "log", "verif_on.go"))
    ctx.extra["sdk_log_hooks_present"] = hooks
    binp = ctx.go_build("c06", tags="verif,c06hooks" if hooks else "verif")
    # ------------------------------------------------------------ exhaustive model checking
    #      e  k  q  b buf f  s  faults ticker
    fam = [(2, 1, 1, 1, 1, 1, 1, False, True),    # two emitters, everything of size one
           (1, 2, 2, 1, 1, 1, 1, True, True),     # multi-chunk requests + failing exports
           (1, 3, 2, 1, 2, 1, 1, True, True),     # ring overflow, buffer of two (coverage run)
           (2, 1, 2, 2, 1, 1, 2, False, False)]   # two stoppers, batch of two
    if thorough:
        fam += [(2, 2, 2, 2, 1, 1, 1, False, False), (3, 1, 2, 1, 1, 0, 1, False, True), (2, 1, 1, 1, 1, 2, 1, False, False),
                (1, 2, 2, 1, 1, 1, 2, True, True), (2, 1, 2, 2, 1, 1, 2, False, True)] + THOROUGH_EXTRA
    skip_mc = bool(os.environ.get("VERIF_C06_SKIP_MC"))  # mutation experiments only: the model does not change with the tree
    if skip_mc:
        fam = []
        ctx.extra["model_checking_skipped"] = True
    for c in fam:
        r = ctx.tlc(S, "MC_BatchLP", "MC_BatchLP.cfg", defines=mc_defs(*c), name="mc-" + cfg_name(*c), timeout=6000,
                    coverage=(c == fam[2]))
        if c == fam[2]:
            ctx.extra["zero_coverage_actions"] = sorted(set(r["zero_cov"]))
            if r["zero_cov"]:
                ctx.note_inconclusive("vacuity: actions never taken in the coverage run: %s" % sorted(set(r["zero_cov"])))

    # Small TLC jobs run side by side: (a) TLC must find every named deviation when it alone is not admitted
    # (guards against a vacuous contract), and a missing Clone (content-changed) in the no-clone variant of the
    # model; (b) liveness under fairness: every call that was made returns; (c) -simulate behaviours.
    tiny = (1, 1, 1, 1, 1, 1, 2, False, False)
    nk_cfg = {"D2-chunk-aborted": (1, 2, 2, 1, 1, 1, 1, True, False), "D6-final-flush-overtaken": (1, 2, 2, 2, 1, 1, 1, False, False),
              "no-clone": (1, 1, 1, 1, 1, 0, 1, False, False)}

    def noknown(d):
        admit = 'Known \\ {"%s"}' % d if d != "no-clone" else "Known"
        return ctx.tlc(S, "MC_BatchLP", "MC_BatchLP.cfg", defines=mc_defs(*nk_cfg.get(d, tiny), clone=(d != "no-clone"), admit=admit),
                       name="mc-noknown-" + d, must_pass=False, count=False, timeout=1200, workers=2)

    live = [(1, 2, 2, 1, 1, 1, 1, False, False)] + ([(2, 1, 2, 1, 1, 1, 1, False, False), (1, 1, 2, 1, 1, 1, 2, True, True)] if thorough else [])

    def liveness(c):
        return ctx.tlc(S, "MC_BatchLP", "MC_BatchLP_live.cfg", defines=mc_defs(*c), name="live-" + cfg_name(*c), timeout=6000,
                       workers=4, must_pass=False)

    sims = [(2, 2, 2, 2, 1, 1, 1, True), (2, 1, 1, 1, 1, 1, 2, False), (1, 3, 2, 1, 1, 1, 1, True),
            (3, 2, 2, 1, 2, 2, 0, False), (2, 2, 4, 2, 1, 1, 0, True)] if hooks else []
    nsim = 400 if thorough else 40

    def simulate(c):
        e, k, q, b, buf, f, s, faults = c
        return ctx.tlc(S, "MC_BatchLPSim", "MC_BatchLPSim.cfg", defines=mc_defs(e, k, q, b, buf, f, s, faults), workers=1,
                       simulate="num=%d" % nsim, depth=400, name="sim-" + cfg_name(e, k, q, b, buf, f, s, faults), timeout=1800,
                       must_pass=False, count=False)

    with ThreadPoolExecutor(max_workers=6) as ex:
        f_nk = {d: ex.submit(noknown, d) for d in ([] if skip_mc else KNOWN_MODEL + ["no-clone"])}
        f_live = [(c, ex.submit(liveness, c)) for c in ([] if skip_mc else live)]
        f_sim = [(c, ex.submit(simulate, c)) for c in sims]
    found = {d: f.result()["violated"] for d, f in f_nk.items()}
    ctx.extra["tlc_finds_each_named_deviation"] = found
    for d, v in found.items():
        if v != "Contract":
            ctx.note_inconclusive("model drift: TLC does not find %s when it is not admitted (violated=%s)" % (d, v))
    for c, f in f_live:
        r = f.result()
        if r["timed_out"] or r["violated"] or r["rc"] != 0 or r["error"]:
            raise vlib.Inconclusive("TLC liveness run %s failed (model only, not a verdict): violated=%s error=%s timed_out=%s; see %s"
                                    % (r["name"], r["violated"], r["error"], r["timed_out"], r["out"]))

    # ------------------------------------------------------------ spec -> code: behaviours as gate scripts
    scenarios = []
    seen = set()
    for c, f in f_sim:
        e, k, q, b, buf, fl, s, faults = c
        r = f.result()
        if r["timed_out"] or r["rc"] != 0 or r["error"] or r["violated"]:
            raise vlib.Inconclusive("TLC simulation %s failed: %s; see %s" % (r["name"], r["error"] or r["violated"], r["out"]))
        for line in r["prints"]:
            if isinstance(line, str) and line.startswith("BEHAVIOUR "):
                if line in seen:
                    continue
                seen.add(line)
                beh = json.loads(line[len("BEHAVIOUR "):])
                scenarios.append(scenario(dict(name="sim-" + cfg_name(e, k, q, b, buf, fl, s, faults), emitters=e, recsPer=k,
                                               qcap=q, maxbatch=b, bufsize=buf, flushers=fl, stoppers=s,
                                               script=beh["script"], xres=beh["xres"])))
    nbeh = len(scenarios)
    for d in DIRECTED:
        for rep in range(6 if thorough else 3):
            scenarios.append(scenario(d))
    sfile = os.path.join(ctx.work, "scripts.json")
    json.dump(scenarios, open(sfile, "w"))
    t1 = os.path.join(ctx.work, "trace-scripts.ndjson")
    r1 = os.path.join(ctx.work, "res-scripts.json")
    ctx.run([binp, "scripts", "-in", sfile, "-out", t1, "-res", r1], timeout=3000)
    res1 = json.load(open(r1))
    # ------------------------------------------------------------ code -> spec: random scenarios
    n = 6000 if thorough else 500
    t2 = os.path.join(ctx.work, "trace-random.ndjson")
    r2 = os.path.join(ctx.work, "res-random.json")
    ctx.run([binp, "random", "-n", str(n), "-out", t2, "-res", r2], timeout=3000)
    res2 = json.load(open(r2))
    counters = {}
    for res in (res1, res2):
        for k, v in res["counters"].items():
            counters[k] = counters.get(k, 0) + v
    ctx.extra["counters"] = counters
    ctx.extra["tlc_behaviours_replayed"] = nbeh
    ctx.extra["directed_schedules"] = len(scenarios) - nbeh
    ctx.extra["random_scenarios"] = n
    ctx.add_samples([{"behaviour_script": scenarios[0]["script"][:40]}] if scenarios else [])
    ctx.add_samples(res2["samples"][:1])
    if hooks and bool(counters.get("hooks")) is False:
        ctx.note_inconclusive("harness was built without the c06hooks tag although the tree has the hooks")
    kinds = {}
    by_scenario = {}
    hookfree_unclassified = {}
    for tf, label in ((t1, "scripts"), (t2, "random")):
        viols, accepted = ctx.validate_trace(S, "Trace_BatchLP", "Trace_BatchLP.cfg", tf, name="trace-" + label, timeout=3000)
        ctx.extra["trace_lines_" + label] = accepted
        lines = None
        for v in viols:
            kind = v["v"]["kind"]
            kinds[kind] = kinds.get(kind, 0) + 1
            if lines is None:
                lines = open(tf).read().splitlines()
            scen = []
            cfg = {}
            for ln in lines[:v["line"]][::-1]:
                rec = json.loads(ln)
                if rec.get("sc") != v["sc"]:
                    break
                scen.append(rec)
                if rec["ev"] == "Cfg":
                    cfg = rec
            scen.reverse()
            name = cfg.get("name", "")
            by_scenario.setdefault(name, set()).add(kind)
            if kind.startswith("hookfree-"):
                # without the hooks the monitor cannot tell the listed deviations from anything else that loses
                # a record next to a Shutdown / a failed export: recorded, not a verdict
                hookfree_unclassified[kind] = hookfree_unclassified.get(kind, 0) + 1
                continue
            ctx.violation({"kind": kind, "source": label},
                          replay={"violation": v, "scenario_name": name, "cfg": cfg, "events": scen[-400:]})
    ctx.extra["violation_kinds_seen"] = kinds
    if hookfree_unclassified:
        ctx.extra["hookfree_unclassified"] = hookfree_unclassified
    ctx.traces_validated += res1["executed"] + res2["executed"]
    ctx.evaluations += res1["executed"] + res2["executed"]
    # the directed schedules should actually reproduce the deviations they were written for (binding check)
    if hooks:
        repro = {name: (kind in by_scenario.get(name, ())) for name, kind in EXPECT.items()}
        ctx.extra["directed_reproduced"] = repro
        known_open = {k["id"] for k in ctx._known if k.get("status") == "known"}
        missing = [n_ for n_, ok in repro.items() if not ok]
        if missing and known_open:
            ctx.extra["note"] = "directed schedules that did not reproduce their deviation in this run: %s" % missing
    else:
        ctx.note_inconclusive("sdk/log has no verif hooks in %s (apply proposed_fixes/C06-hooks.diff): only the hook-free "
                              "parts ran (model checking, %d real scenarios validated against the hook-free contract, "
                              "no gate replay); unclassifiable near-shutdown observations: %s"
                              % (vlib.REPO, res1["executed"] + res2["executed"], hookfree_unclassified))
    # auxiliary monitor (thorough): the same random driver under the Go race detector. Data-race freedom is not a
    # clause of C06 (a missing Clone would also show up as content-changed), so reports are evidence, not verdicts.
    if thorough:
        try:
            rbin = ctx.go_build("c06", tags="verif,c06hooks" if hooks else "verif", race=True)
            p = ctx.run([rbin, "random", "-n", "600", "-out", os.path.join(ctx.work, "trace-race.ndjson"),
                         "-res", os.path.join(ctx.work, "res-race.json")], timeout=3000, ok_codes=(0, 66),
                        env={"GORACE": "halt_on_error=0"})
            ctx.extra["race_detector_reports"] = p.stderr.count("WARNING: DATA RACE")
        except vlib.Inconclusive as e:
            ctx.extra["race_detector_run"] = "not available: %s" % str(e)[:200]
    ctx.exhaustive = False
    ctx.assumptions += [
        "callers' contexts never expire (the quantifier ranges over exporter behaviours, not caller cancellation)",
        "ticker-triggered polls are exercised by perturbation only (Go's select cannot be gated); the model has them (Ticker)",
        "Enq/Deq/QFlushed/Ignored/Early events come from the verif hooks in sdk/log (logged under the queue lock, never blocking)",
        "the export timeout is modelled as an exporter error; exporter panics are out of scope",
        "content digest covers timestamp, event name, severity, severity text, body and all attributes; values the API "
        "documents as 'must not be changed after passed' (slice/map/bytes backing arrays) are not mutated",
    ]
