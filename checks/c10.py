"""C10 -- a span ends exactly once; the tracing API is safe under concurrent use.

model      : SpanEnd.tla (implementation-shaped: one action per lock operation / critical-section step of
             span.End incl. the unlock/relock window around executionTracerTaskEnd, the mutators, addChild,
             IsRecording, snapshot) checked exhaustively by TLC for a family of small configurations, with
             and without execution tracing, against the contract carried by its monitor variables; a NoKnown
             config demonstrates that TLC finds the known deviation D1 (double End through the window);
             the repaired shape ("markfirst") is checked with nothing admitted; liveness under fairness.
spec->code : TLC -simulate behaviours of SpanEndSim.tla (SpanEnd + history of gate arrivals/releases) are
             replayed on a real shared span: vh.Sched holds every goroutine at its hook in End / processor
             OnEnd entry / call gate until the behaviour says it is its turn.  Hand-written directed
             schedules (TLC counterexamples, race windows) use the same vocabulary.
code->spec : every real execution (replayed behaviours, directed schedules, seeded random scenarios with
             schedule perturbation, with and without runtime/trace started) is recorded as ndjson and
             validated by TLC against the total contract monitor SpanEndContract.tla (Trace_SpanEnd.tla).
thorough   : additionally the same scenarios under -race (auxiliary monitor for the data-race clause).
impl-trace : Trace_SpanEndImpl.tla: a sample of the same recorded executions (replayed behaviours, directed
             schedules, the first random scenarios) must also be explainable by the ACTIONS of SpanEnd.tla itself:
             one line per verif point of End passed (confirmation lines), per natural gate passed (user code the
             SDK calls: exact lines) and per Call/Ret/OnEnd; TLC infers the unlogged lock/check/apply/snapshot
             steps, every invariant of SpanEnd.tla stays on.  A trace the contract accepts but SpanEnd.tla cannot
             explain is MODEL DRIFT: counted, reported (evidence + NOTE), never a verdict.
"""
import glob
import json
import os
import random
import re
import time
from concurrent.futures import ThreadPoolExecutor

import vlib

S = "SpanEnd"
WINDOW = ["span.end.checked", "span.end.taskended", "span.end.marked"]
MARKFIRST = ["span.end.marked", "span.end.taskended"]


START_ACTIONS = {"StartNext", "TCall", "TOnStartDone", "TRTLock", "TRTCheck", "TRTUnlock"}
PROVIDER_ACTIONS = {"SCall", "SLock", "SSet", "SProc", "Reent", "SWait", "SClear", "SUnlock", "SRet", "UCall", "ULock", "UCheck",
                    "UShut", "URemove", "UUnlock", "URet", "GLock", "GCheck", "GUnlock"}


def tla_set(prefix, n):
    return "{" + ", ".join('"%s%d"' % (prefix, i + 1) for i in range(n)) + "}"


def udefs(user=0, evm=0, lim=0, pan=0, mshape="locked", pshape="locked", shares=True):
    """User-code dimension: the first `user` mutators are RecordError calls with a gate error, the first `evm`
    mutators append one event to the FIFO (limit `lim`, `lim` events recorded beforehand), the first `pan` enders
    call End deferred during a panic."""
    return {"SAMPLED": "TRUE", "CHILDGUARD": "recording", "STOPPERS": "{}", "UNREGS": "{}", "WAITFOR": "{}", "PRECHECK": "TRUE",
            "REENTREG": "FALSE", "UNREGSHAPE": "locked", "WITHSTART": "FALSE", "STARTENDER": "none", "RTSHAPE": "plain",
            "ZEROMUT": "{}", "ZSHAPE": "locked",
            "USERMUT": tla_set("m", user), "EVMUT": tla_set("m", evm), "EVLIMIT": lim,
            "EVINIT": "<<" + ", ".join('"i%d"' % (i + 1) for i in range(lim)) + ">>", "PANICKERS": tla_set("e", pan),
            "MSHAPE": mshape, "PSHAPE": pshape, "SNAPSHARES": "TRUE" if shares else "FALSE"}


def mc_defs(e, m, c, r, p, rt, g, shape, known, shared=1, u=None, pv=None):
    d = udefs() if u is None else u
    if u is not None:
        shared = 0
    d.update(_mc_defs(e, m, c, r, p, rt, g, shape, known, shared))
    d.update(pv or {})
    return d


def pdefs(sampled=True, guard="recording", stoppers=0, unregs=0, waitfor=(), precheck=True, reent=False, unreg="locked"):
    """Sampling decision of the span and the provider-level processes (TracerProvider.Shutdown / Unregister callers,
    re-entrant Register from a processor's Shutdown, workers that Shutdown waits for)."""
    return {"SAMPLED": "TRUE" if sampled else "FALSE", "CHILDGUARD": guard, "STOPPERS": tla_set("s", stoppers),
            "UNREGS": tla_set("u", unregs), "WAITFOR": "{" + ", ".join('"g%d"' % i for i in waitfor) + "}",
            "PRECHECK": "TRUE" if precheck else "FALSE", "REENTREG": "TRUE" if reent else "FALSE", "UNREGSHAPE": unreg}


def _mc_defs(e, m, c, r, p, rt, g, shape, known, shared=1):
    return {"REGISTRARS": "<<" + ", ".join('"g%d"' % (i + 1) for i in range(g)) + ">>", "ENDERS": tla_set("e", e), "MUTATORS": tla_set("m", m), "CHILDREN": tla_set("c", c),
            "READERS": tla_set("r", r), "PROCESSORS": "<<" + ", ".join('"p%d"' % (i + 1) for i in range(p)) + ">>",
            "SHARED": tla_set("m", min(shared, m)), "EXECTRACER": "TRUE" if rt else "FALSE", "SHAPE": shape,
            "ALLOWKNOWN": "TRUE" if known else "FALSE"}


def cfg_name(e, m, c, r, p, rt, g, shape=""):
    return "e%d-m%d-c%d-r%d-p%d-g%d-%s%s" % (e, m, c, r, p, g, "rt" if rt else "nort", ("-" + shape) if shape else "")


def sdefs(n, ends_in_onstart=True, rtshape="plain"):
    """tracer.Start as a process of its own; with ends_in_onstart ender e0 is the End a processor makes inside OnStart."""
    return {"ENDERS": "{" + ", ".join(['"e0"'] * ends_in_onstart + ['"e%d"' % (i + 1) for i in range(n)]) + "}",
            "WITHSTART": "TRUE", "STARTENDER": "e0" if ends_in_onstart else "none", "RTSHAPE": rtshape}


def sc(name, script=None, **kw):
    d = dict(name=name, rt=True, nprocs=1, enders=2, endsPer=1, ts=True, muts=[], mutsPer=1, children=0, readers=0,
             readsPer=1, etimers=0, regs=0, lim=0, panickers=0, recordOnly=False, stoppers=0, unregs=0, reentReg=False,
             waitFor=0, zero=False, endInOnStart=False, perturb=0.0)
    d.update(kw)
    if script is not None:
        d["script"] = script
    return d


def directed(shape):
    """Hand-written schedules; an entry "x@g+" waits until x has arrived at g, "x@g" releases x from g."""
    out = []
    if shape in ("window", "recheck"):
        # D1 (TLC counterexample of the NoKnown config): both enders pass the recording check, then both mark
        out.append(sc("D1-two-enders-in-window", ["e1@call", "e1@span.end.checked+", "e2@call", "e2@span.end.checked+",
                                                  "e1@span.end.checked", "e1@ret+", "e2@span.end.checked", "e2@ret+"],
                      nprocs=2, muts=["attrs"], etimers=1))
        if shape == "window":
            out.append(sc("D1-three-enders-mutator-between", ["m1@call", "m1@ret+", "e1@call", "e1@span.end.taskended+", "e2@call",
                                                              "e2@span.end.checked+", "e3@call", "e3@span.end.checked+", "m2@call", "m2@ret+",
                                                              "e1@span.end.taskended", "e1@onend:p1+", "e3@span.end.checked",
                                                              "e3@span.end.marked+", "e1@onend:p1", "e1@ret+", "e3@span.end.marked",
                                                              "e3@ret+", "c1@call", "c1@ret+", "e2@span.end.checked", "e2@ret+"],
                          enders=3, muts=["attrs", "event"], children=1, ts=False))
        # second ender arrives while the first is inside the window but checks only after the mark: ignored
        out.append(sc("window-then-late-check", ["e1@call", "e1@span.end.checked+", "m1@call", "m1@ret+", "e1@span.end.checked",
                                                 "e1@span.end.marked+", "e2@call", "e2@span.end.ignored+", "r1@call", "r1@ret+",
                                                 "e1@span.end.marked", "e1@ret+", "e2@span.end.ignored", "e2@ret+"],
                      muts=["event"], readers=1, nprocs=2))
        # mutation and child start inside the window of the only ender: must be in the snapshot
        out.append(sc("mutate-inside-window", ["e1@call", "e1@span.end.taskended+", "m1@call", "m1@ret+", "c1@call", "c1@ret+",
                                               "r1@call", "r1@ret+", "e1@span.end.taskended", "e1@ret+", "m2@call", "m2@ret+"],
                      enders=1, muts=["status", "link"], children=1, readers=1))
    else:
        out.append(sc("two-enders-after-mark", ["e1@call", "e1@span.end.marked+", "e2@call", "e2@span.end.ignored+",
                                                "e1@span.end.marked", "e1@ret+", "e2@span.end.ignored", "e2@ret+"],
                      nprocs=2, muts=["attrs"], etimers=1))
    # user code inside span methods (natural gates, no hooks). Only the essential gates are scripted, everything
    # else runs as far as span.mu lets it: under the lock the other call simply blocks until the holder is released,
    # without it the End overtakes -- which must still be harmless.
    for lim in (1, 3):
        out.append(sc("recorderror-in-Error-while-End-lim%d" % lim,
                      ["m1@call", "m1@err.Error+", "e1@call", "m1@err.Error", "m1@ret+", "e1@ret+"],
                      enders=1, muts=["uerror"], lim=lim, nprocs=2, rt=(lim == 1)))
        out.append(sc("panic-format-while-second-End-lim%d" % lim,
                      ["m1@call", "m1@ret+", "e1@call", "e1@panic.Format+", "e2@call", "e1@panic.Format", "e1@ret+", "e2@ret+"],
                      enders=2, panickers=1, muts=["event"], lim=lim, nprocs=2, rt=(lim == 1)))
    out.append(sc("panic-format-and-recorderror", ["e1@call", "e1@panic.Format+", "m1@call", "e2@call", "e1@panic.Format",
                                                   "e1@ret+", "m1@ret+", "e2@ret+"],
                  enders=2, panickers=1, muts=["uerror"], lim=2, nprocs=1, rt=False))
    # the provider's Shutdown runs the processors' Shutdown (user code: natural gate s@proc.Shutdown) while it holds
    # p.mu: a re-entrant RegisterSpanProcessor from there, or a worker it waits for, must return (isShutdown pre-check)
    out.append(sc("shutdown-reentrant-register-while-End", ["e1@call", "e1@span.end.marked+", "s1@call", "s1@proc.Shutdown+",
                                                            "e1@span.end.marked", "s1@proc.Shutdown", "s1@ret+", "e1@ret+", "e2@call", "e2@ret+"],
                  enders=2, stoppers=1, reentReg=True, nprocs=2))
    out.append(sc("shutdown-waits-for-register-worker", ["s1@call", "s1@proc.Shutdown+", "s1@proc.Shutdown", "g1@call", "g1@ret+",
                                                         "s1@ret+", "e1@call", "e1@ret+"],
                  enders=1, stoppers=1, regs=1, waitFor=1, nprocs=1, recordOnly=True))
    for rt in (True, False):
        tag = "rt" if rt else "nort"
        # plain sequential double End: second call must do nothing
        out.append(sc("sequential-double-end-" + tag, ["m1@call", "m1@ret+", "e1@call", "e1@ret+", "e2@call", "e2@ret+",
                                                        "m2@call", "m2@ret+", "r1@call", "r1@ret+"],
                      rt=rt, nprocs=2, muts=["attrs", "event"], readers=1, etimers=1))
        # first ender held between marking and snapshot / between two processors while a second End returns and
        # a mutator, a child start and IsRecording are called after that return: all must find the span ended
        out.append(sc("held-after-mark-" + tag, ["c1@call", "c1@ret+", "m1@call", "m1@ret+", "e1@call", "e1@span.end.marked+",
                                                 "e2@call", "e2@ret+", "m2@call", "m2@ret+", "c2@call", "c2@ret+", "r1@call",
                                                 "r1@ret+", "e1@span.end.marked", "e1@onend:p1+", "m3@call", "m3@ret+",
                                                 "e1@onend:p1", "e1@onend:p2+", "e1@onend:p2", "e1@ret+"],
                      rt=rt, nprocs=2, muts=["event", "attrs", "attrs"], children=2, readers=1))
        # a processor registered before End is called gets the span; one registered after the list was read does not
        out.append(sc("register-around-end-" + tag, ["g1@call", "g1@ret+", "e1@call", "e1@span.end.marked+", "e1@span.end.marked",
                                                     "e1@onend:p1+", "g2@call", "g2@ret+", "e1@onend:p1", "e1@ret+", "e2@call", "e2@ret+"],
                      rt=rt, nprocs=1, regs=2, muts=[]))
        out.append(sc("mutators-before-end-" + tag, ["m1@call", "m1@ret+", "m2@call", "m2@ret+", "m3@call", "m3@ret+", "c1@call",
                                                     "c1@ret+", "r1@call", "r1@ret+", "e1@call", "e1@ret+"],
                      rt=rt, enders=1, nprocs=3, muts=["status", "name", "link"], children=1, readers=1, ts=False))
    # a processor ends the span inside OnStart: every later call of the user on that span returns and finds it ended
    for rt in (True, False):
        out.append(sc("ended-inside-OnStart-" + ("rt" if rt else "nort"),
                      ["m1@call", "m1@ret+", "c1@call", "c1@ret+", "r1@call", "r1@ret+", "e1@call", "e1@ret+"],
                      rt=rt, enders=1, endInOnStart=True, muts=["attrs"], children=1, readers=1, nprocs=2))
    # every limit 0: the mutations are observable only through the dropped counters
    out += [dict(d, name=d["name"] + "-limit0", zero=True, lim=0) for d in out
            if d["name"].startswith(("held-after-mark", "mutators-before-end", "sequential-double-end"))]
    # the same schedules once more on a RecordOnly span (recording, not sampled): nothing may differ
    out += [dict(d, name=d["name"] + "-recordonly", recordOnly=True) for d in out
            if d["name"].startswith(("held-after-mark", "mutators-before-end", "mutate-inside", "panic-format-while"))]
    return out


ILISTS = ["enders", "panickers", "mutators", "shared", "usermut", "evmut", "zeromut", "children", "readers", "registrars",
          "stoppers", "unregs", "waitfor"]


def impl_validate(ctx, traces, consts, max_scen, max_groups, per_group, max_lines, timeout):
    """Trace_SpanEndImpl.tla over a sample of the scenarios recorded with -impl.  Scenarios are grouped by the scalar
    constants of SpanEnd.tla (one TLC start per group, reset between scenarios); the process names of a group are merged
    into its first Cfg line.  Returns statistics; drift is evidence, never a verdict."""
    scen, cfgs, icfgs, order = {}, {}, {}, []
    for tf, label in traces:
        cur = None
        for ln in open(tf):
            if '"impl":true' in ln and '"ev":"Cfg"' in ln:
                r = json.loads(ln)
                cur = (label, r["sc"])
                scen[cur], cfgs[cur] = [], r
                order.append(cur)
            elif '"ev":"Cfg"' in ln:
                cur = None
            if cur is not None:
                r = json.loads(ln)
                if r["sc"] == cur[1]:      # (stragglers of an abandoned scenario carry another number)
                    scen[cur].append((ln, r))
                    if r["ev"] == "ICfg":
                        icfgs[cur] = r
    elig, why = [], {}
    for k in order:
        c, ic, last = cfgs[k], icfgs.get(k), scen[k][-1][1]
        reason = None
        if ic is None or last["ev"] != "EndScenario" or not last.get("quiescent"):
            reason = "not-quiescent"
        elif any(r["ev"] in ("Stuck", "Panic") for _, r in scen[k]):
            reason = "stuck-or-panic"
        elif ic["provs"] > 0:
            reason = "provider-user-goroutine"      # Tracer/Register/Unregister of a foreign processor/ForceFlush: not in SpanEnd.tla
        elif ic["unregs"] and c["nprocs"] == 0:
            reason = "unregister-without-processor"
        elif len(scen[k]) > max_lines:
            reason = "too-long"
        if reason:
            why[reason] = why.get(reason, 0) + 1
        else:
            elig.append(k)
    groups = {}
    for k in elig:
        c = cfgs[k]
        # (WaitFor changes what a registrar of that name may do: part of the key; every other name set is merged)
        key = (c["rt"], c["nprocs"], c["lim"], c["sampled"], c["zero"], c["withstart"], c["reentreg"], c["hooks"],
               tuple(icfgs[k]["waitfor"]))
        groups.setdefault(key, []).append(k)
    # sample: groups chosen greedily so that together they cover as many features as possible (constants of the key,
    # kinds of processes present, source), seeded tie-break; inside a group the directed schedules first, then a
    # seeded sample of the rest
    rnd = random.Random(ctx.seed * 7919 + len(elig))

    def directed(k):
        return k[0] == "scripts" and not re.match(r"(all|sim|uall|usim|udev|ro|prov|st|z0)-", cfgs[k].get("name", ""))

    def features(g):
        f = {"rt=%s" % g[0], "nprocs=%d" % g[1], "lim=%d" % min(g[2], 1), "sampled=%s" % g[3], "zero=%s" % g[4], "withstart=%s" % g[5],
             "reentreg=%s" % g[6], "waitfor=%d" % len(g[8])}
        for k in groups[g]:
            f.add("src=" + ("directed" if directed(k) else k[0]))
            f |= {x for x in ("panickers", "usermut", "evmut", "zeromut", "children", "readers", "registrars", "stoppers", "unregs")
                  if icfgs[k][x]}
        return f
    feats = {g: features(g) for g in groups}
    left = sorted(groups, key=lambda g: order.index(groups[g][0]))
    rnd.shuffle(left)
    gkeys, covered = [], set()
    while left and len(gkeys) < max_groups:
        g = max(left, key=lambda x: len(feats[x] - covered))     # (max keeps the first of equals: the shuffled order)
        gkeys.append(g)
        covered |= feats[g]
        left.remove(g)
    chosen = []
    for g in gkeys:
        d = [k for k in groups[g] if directed(k)]
        o = [k for k in groups[g] if not directed(k)]
        rnd.shuffle(d)
        rnd.shuffle(o)
        chosen.append((g, sorted((d + o)[:per_group], key=order.index)))
    total = sum(len(ks) for _, ks in chosen)
    while total > max_scen:          # trim the largest groups first
        g, ks = max(chosen, key=lambda x: len(x[1]))
        ks.pop()
        total -= 1
    stats = {"recorded": len(order), "eligible": len(elig), "ineligible": why, "groups_available": len(groups),
             "groups": len(chosen), "scenarios": total, "features_covered": sorted(covered), "accepted": 0, "lines": 0, "states": 0, "tlc_starts": 0, "wall_s": 0.0,
             "drift": [], "errors": [], "model_monitor_bad": [], "not_examined_after_drift": 0}

    def one(gi, key, ks):
        out = {"accepted": [], "drift": [], "errors": [], "lines": 0, "states": 0, "starts": 0, "bad": [], "skipped": 0}
        rest = list(ks)
        while rest:
            if len(out["drift"]) >= 3:     # a tree on which file after file drifts: the point is made, keep the run short
                out["skipped"] = len(rest)
                break
            u = {x: [] for x in ILISTS}
            for k in rest:
                for x in ILISTS:
                    u[x] += [v for v in icfgs[k][x] if v not in u[x]]
            u["registrars"].sort(key=lambda g: int(g[1:]))
            f = os.path.join(ctx.work, "impl-%d.ndjson" % gi)
            spans, n = [], 0
            with open(f, "w") as w:
                for k in rest:
                    for i, (ln, r) in enumerate(scen[k]):
                        if n == 0 and i == 0:
                            ln = json.dumps(dict(r, **u)) + "\n"
                        w.write(ln)
                    spans.append((k, n + 1, n + len(scen[k])))
                    n += len(scen[k])
            r = ctx.tlc(S, "Trace_SpanEndImpl", "Trace_SpanEndImpl.cfg", workers=1, deque=True, timeout=timeout, heap="2g",
                        defines=dict(consts, AHEAD="TRUE"), extra_files={"trace.ndjson": f}, name="impl-%d" % gi, must_pass=False,
                        count=False)
            out["starts"] += 1
            out["states"] += r["distinct"]
            acc = hwm = None
            for pr in r["prints"]:
                if isinstance(pr, str) and pr.startswith("ACCEPTED "):
                    acc = int(pr.split()[1])
                elif isinstance(pr, str) and pr.startswith("HWM "):
                    hwm = int(pr.split()[1])
                elif isinstance(pr, str) and pr.startswith("IMPLEND "):
                    d = json.loads(pr[8:])
                    if d["bad"]:
                        out["bad"].append({"scenario": d["sc"], "bad": sorted(d["bad"])})
            if acc == n:
                out["accepted"] += [k for k, _, _ in spans]
                out["lines"] += n
                break
            if r["timed_out"] or r["error"] or r["violated"] or hwm is None:
                # an invariant of SpanEnd.tla broken on the way, a TLC error or a timeout: nothing of this file counts
                out["errors"].append({"group": gi, "scenarios": len(rest), "first": "%s/%s" % rest[0],
                                      "error": ("invariant " + r["violated"]) if r["violated"] else (r["error"] or "timeout"), "out": r["out"]})
                break
            # stuck: the scenario holding line `hwm` is the first one no explanation gets through
            j = next((i for i, (_, a, b) in enumerate(spans) if a <= hwm <= b), len(spans) - 1)
            k, a, b = spans[j]
            out["accepted"] += [x for x, _, _ in spans[:j]]
            out["lines"] += a - 1
            at = hwm - a + 1
            # once more alone and without the look-ahead (bounded; the first drift of a group only): the line whose own
            # conditions fail
            if not out["drift"]:
                f1 = os.path.join(ctx.work, "impl-%d-drift.ndjson" % gi)
                with open(f1, "w") as w:
                    for i, (ln, r) in enumerate(scen[k]):
                        w.write(json.dumps(dict(r, **{x: icfgs[k][x] for x in ILISTS})) + "\n" if i == 0 else ln)
                r1 = ctx.tlc(S, "Trace_SpanEndImpl", "Trace_SpanEndImpl.cfg", workers=1, deque=True, timeout=90, heap="2g",
                             defines=dict(consts, AHEAD="FALSE"), extra_files={"trace.ndjson": f1},
                             name="impl-%d-drift" % gi, must_pass=False, count=False)
                out["starts"] += 1
                h1 = [int(pr.split()[1]) for pr in r1["prints"] if isinstance(pr, str) and pr.startswith("HWM ")]
                if h1 and not (r1["timed_out"] or r1["error"] or r1["violated"]) and h1[0] <= len(scen[k]):
                    at = h1[0]
            ev = scen[k][min(at, len(scen[k])) - 1][1]
            out["drift"].append({"scenario": "%s/%d" % k, "name": cfgs[k].get("name", ""), "line_in_scenario": at,
                                 "first_offending_line": ev, "line_with_lookahead": hwm - a + 1,
                                 "before": [x[1] for x in scen[k][max(0, at - 4):at - 1]],
                                 "cfg": {x: cfgs[k][x] for x in ("rt", "nprocs", "lim", "sampled", "zero", "withstart")}})
            rest = [x for x, _, _ in spans[j + 1:]]
        return out

    t0 = time.time()
    with ThreadPoolExecutor(max_workers=4) as ex:
        outs = list(ex.map(lambda a: one(a[0], a[1][0], a[1][1]), list(enumerate(chosen))))
    stats["wall_s"] = round(time.time() - t0, 1)
    for o in outs:
        stats["accepted"] += len(o["accepted"])
        stats["lines"] += o["lines"]
        stats["states"] += o["states"]
        stats["tlc_starts"] += o["starts"]
        stats["drift"] += o["drift"]
        stats["errors"] += o["errors"]
        stats["model_monitor_bad"] += o["bad"]
        stats["not_examined_after_drift"] += o["skipped"]
    stats["drift_count"] = len(stats["drift"])
    stats["drift"] = stats["drift"][:5]
    stats["errors"] = stats["errors"][:3]
    stats["model_monitor_bad"] = stats["model_monitor_bad"][:5]
    return stats


def run(ctx):
    thorough = ctx.tier == "thorough"
    binp = ctx.go_build("c10")
    # ------------------------------------------------------------ which shape does End have in this tree?
    p = ctx.run([binp, "probe"], timeout=120)
    pr = json.loads(p.stdout.strip().splitlines()[-1])
    points = pr["points"]
    ctx.extra["hook_points_probe"] = pr
    hooks = True     # the tree has the span.end.* instrumentation points
    replay = True    # SpanEnd.tla has a shape for this End: behaviours can be replayed through the gates
    two = pr.get("two_enders") or {}
    if points == WINDOW and two.get("completed") and two.get("reached_window") == [True, True] and two.get("delivered") == 2:
        shape = "window"
    elif points == WINDOW and two.get("completed") and two.get("reached_window") == [True, True] and two.get("delivered") == 1:
        shape = "recheck"      # the second End re-checks isRecording after the relock and returns
    elif points == MARKFIRST:
        shape = "markfirst"
    elif not [x for x in points if x.startswith("span.end.")]:
        shape, hooks, replay = "markfirst", False, False
    else:
        # End fires the points in an order no shape of SpanEnd.tla describes (a refactoring): the contract does
        # not depend on the shape, so random / perturbed / bulk executions are still judged; only the gate replay
        # of model behaviours is skipped (its scripts would not fit)
        shape, replay = "markfirst", False
        ctx.extra["note"] = ("End fires its instrumentation points in an order no shape of SpanEnd.tla describes (%s): "
                             "contract-only validation, gate replay skipped" % pr)
    ctx.extra["end_shape"] = shape if (replay or not hooks) else "unknown"
    uc = pr.get("user_code") or {}
    ms, ps = uc.get("mshape", "unknown"), uc.get("pshape", "unknown")   # locked | recheck | norecheck | unknown
    prv = pr.get("provider") or {}
    precheck, unreg = bool(prv.get("precheck", True)), prv.get("unreg", "locked")
    known_model = (shape == "window")

    # ------------------------------------------------------------ exhaustive model checking
    # (enders, mutators, children, readers, processors, execTracer, registrars)
    fam = [(2, 1, 1, 1, 2, True, 0), (2, 1, 1, 1, 2, False, 0), (3, 1, 0, 0, 1, True, 0), (2, 1, 0, 0, 1, True, 1)]
    if thorough:
        fam += [(2, 2, 1, 1, 2, True, 0), (2, 2, 1, 1, 2, False, 0), (3, 2, 1, 0, 1, True, 0), (3, 1, 1, 1, 1, False, 0),
                (2, 2, 2, 0, 1, True, 0), (2, 1, 0, 0, 2, True, 2), (3, 0, 0, 0, 1, False, 1)]
    zero = None
    for c in fam:
        cov = c in (fam[0], fam[3])   # together these two configurations contain every kind of process
        r = ctx.tlc(S, "MC_SpanEnd", "MC_SpanEnd.cfg", defines=mc_defs(*c, shape=shape, known=known_model and c[5]),
                    name="mc-" + cfg_name(*c, shape=shape), timeout=3000, coverage=cov)
        if cov:
            zero = set(r["zero_cov"]) if zero is None else zero & set(r["zero_cov"])
    # the model of the pinned code exhibits D1 when it is not admitted (guards against a vacuous contract) ...
    r = ctx.tlc(S, "MC_SpanEnd", "MC_SpanEnd.cfg", defines=mc_defs(2, 1, 0, 0, 2, True, 0, "window", False), name="mc-noknown",
                must_pass=False, count=False, timeout=600)
    if r["violated"] != "Contract":
        ctx.note_inconclusive("model drift: TLC no longer finds D1 in the window shape when AllowKnown=FALSE (%s)" % r["out"])
    ctx.extra["model_exhibits_D1_when_not_admitted"] = (r["violated"] == "Contract")
    # ... and both repaired shapes satisfy the contract with nothing admitted
    for sh in ("markfirst", "recheck"):
        if shape != sh:
            ctx.tlc(S, "MC_SpanEnd", "MC_SpanEnd.cfg", defines=mc_defs(2, 1, 1, 1, 2, True, 0, sh, False),
                    name="mc-repair-" + sh, timeout=1200, count=False)
    # user code inside span methods, with the shapes the probe found (SnapShares = TRUE: pessimistic, not observable
    # from outside unless something is added after End)
    dev_tree = "norecheck" in (ms, ps)
    if "unknown" not in (ms, ps):
        ufam = [((2, 2, 1, 0, 2, True, 0), (1, 2, 1, 1)), ((2, 1, 0, 1, 1, False, 0), (1, 1, 1, 1))]
        if thorough:
            ufam += [((3, 1, 0, 0, 1, True, 0), (1, 1, 1, 2)), ((2, 2, 1, 1, 2, True, 0), (2, 2, 2, 1))]
        for c, u in ufam:
            r = ctx.tlc(S, "MC_SpanEnd", "MC_SpanEnd.cfg", name="mc-user-" + cfg_name(*c) + "-u%d%d%d%d" % u, timeout=3000,
                        defines=mc_defs(*c, shape=shape, known=known_model and c[5], u=udefs(*u, mshape=ms, pshape=ps)),
                        must_pass=dev_tree is False, coverage=True)
            zero &= set(r["zero_cov"])
    # sampling decision and provider lock: RecordOnly span with children; Shutdown holding p.mu while the processors'
    # Shutdown registers re-entrantly / waits for a registering worker; Unregister. Shapes as probed.
    ctx.tlc(S, "MC_SpanEnd", "MC_SpanEnd.cfg", name="mc-recordonly", timeout=1200,
            defines=mc_defs(2, 1, 1, 1, 2, True, 0, shape, known_model, pv=pdefs(sampled=False)))
    r = ctx.tlc(S, "MC_SpanEnd", "MC_SpanEnd.cfg", name="mc-provider", timeout=1200, must_pass=precheck, coverage=True,
                defines=mc_defs(2, 0, 0, 0, 1, False, 2, shape, False,
                                pv=pdefs(stoppers=1, waitfor=(2,), reent=(unreg == "unlocked"), unregs=1, unreg=unreg, precheck=precheck)))
    zero_p = set(r["zero_cov"])
    for nm, pvd, want in (("D5-child-guard-sampled", pdefs(sampled=False, guard="sampled"), "Contract"),
                          ("no-precheck-reentrant-register", pdefs(stoppers=1, reent=True, precheck=False), "Deadlock"),
                          ("no-precheck-worker", pdefs(stoppers=1, waitfor=(1,), precheck=False), "Deadlock"),
                          ("D4-unregister-under-lock-reentrant", pdefs(unregs=1, reent=True, unreg="locked"), "Deadlock"),
                          ("unregister-outside-lock-reentrant", pdefs(unregs=1, stoppers=1, reent=True, unreg="unlocked"), None)):
        r = ctx.tlc(S, "MC_SpanEnd", "MC_SpanEnd.cfg", name="mc-" + nm, timeout=600, must_pass=want is None, count=False,
                    defines=mc_defs(1, 0, (1 if "D5" in nm else 0), 0, 1, False, 1, "markfirst", False, pv=pvd))
        got = r["violated"] or ("Deadlock" if "Deadlock" in (r["error"] or "") else None)
        if want is not None and got != want:
            ctx.note_inconclusive("model drift: TLC no longer finds %s (%s, got %s)" % (nm, want, got))
    # vacuity: every action of SpanEnd.tla is taken somewhere (Terminated is the final stuttering step; the
    # window actions do not exist in the markfirst shape, ERecheck only in the recheck shape)
    # tracer.Start with a processor that ends the span inside OnStart (runtimeTrace then finds it ended); limit-0 mutators
    r = ctx.tlc(S, "MC_SpanEnd", "MC_SpanEnd.cfg", name="mc-start", timeout=1200, coverage=True,
                defines=mc_defs(2, 1, 1, 1, 2, True, 0, shape, False, pv=sdefs(2)))
    zero_s = set(r["zero_cov"])
    ctx.tlc(S, "MC_SpanEnd", "MC_SpanEnd.cfg", name="mc-start-plain", timeout=1200,
            defines=mc_defs(2, 1, 0, 1, 1, True, 0, shape, known_model, pv=sdefs(2, ends_in_onstart=False)))
    ctx.tlc(S, "MC_SpanEnd", "MC_SpanEnd.cfg", name="mc-limit0", timeout=1200,
            defines=mc_defs(2, 2, 0, 1, 2, True, 0, shape, known_model, pv={"ZEROMUT": tla_set("m", 2)}))
    for nm, pvd, want in (("D6-runtimetrace-leaks-span-lock", sdefs(1, rtshape="leak"), ("MutexOK", "Deadlock")),
                          ("D7-limit0-counted-before-check", {"ZEROMUT": tla_set("m", 2), "ZSHAPE": "hoisted"}, ("Contract",))):
        r = ctx.tlc(S, "MC_SpanEnd", "MC_SpanEnd.cfg", name="mc-" + nm, timeout=600, must_pass=False, count=False,
                    defines=mc_defs(2, 2, 0, 1, 2, True, 0, "markfirst", False, pv=pvd))
        got = r["violated"] or ("Deadlock" if "Deadlock" in (r["error"] or "") else None)
        if got not in want:
            ctx.note_inconclusive("model drift: TLC no longer finds %s (%s, got %s)" % (nm, want, got))
    zero = {a for a in zero if a not in START_ACTIONS} | (zero_s & START_ACTIONS)
    zero = {a for a in zero if a not in PROVIDER_ACTIONS} | (zero_p & PROVIDER_ACTIONS)
    absent = ({"Terminated", "Next"} | ({"Reent"} if precheck and unreg == "locked" else set()) | ({"EUnlockForTask", "ERelock"} if shape == "markfirst" else set())
              | (set() if shape == "recheck" else {"ERecheck"})
              | {"locked": {"EPanicUnlock", "EPanicRelock", "EPanicRecheck"}, "norecheck": {"EPanicRecheck"}, "recheck": set()}.get(
                  ps, {"EPanicUnlock", "EPanicRelock", "EPanicRecheck", "EPanicFormat", "EPanicAddEvent", "MApplyEv", "MUser", "MPreCheck"})
              | ({"MPreCheck"} if ms == "locked" else set()))
    ctx.extra["zero_coverage_actions"] = sorted(zero - absent)
    if ctx.extra["zero_coverage_actions"]:
        ctx.note_inconclusive("vacuity: actions of SpanEnd.tla never taken: %s" % ctx.extra["zero_coverage_actions"])
    # named deviations D2 / D3: TLC finds them; the correct unlocked shape ("recheck") is clean with aliased queues
    for nm, u, want in (("D3-late-recorderror", udefs(1, 1, 1, 0, mshape="norecheck"), True),
                        ("D2-panic-format-window", udefs(0, 1, 1, 1, pshape="norecheck"), True),
                        ("recheck-user-code", udefs(1, 1, 1, 1, mshape="recheck", pshape="recheck"), False)):
        r = ctx.tlc(S, "MC_SpanEnd", "MC_SpanEnd.cfg", name="mc-" + nm, timeout=600, must_pass=not want, count=False,
                    defines=mc_defs(2, 1, 0, 0, 2, False, 0, "markfirst", False, u=u))
        if want and r["violated"] not in ("Contract", "SnapshotStable"):
            ctx.note_inconclusive("model drift: TLC no longer finds the named deviation %s (%s)" % (nm, r["out"]))
    # liveness under fairness: every call returns (no deadlock is an invariant of every config above)
    ctx.tlc(S, "MC_SpanEnd", "MC_SpanEnd_live.cfg", defines=mc_defs(2, 1, 1, 0, 1, True, 0, shape, known_model),
            name="live-e2-m1-c1", timeout=1200)
    if thorough:
        ctx.tlc(S, "MC_SpanEnd", "MC_SpanEnd_live.cfg", defines=mc_defs(2, 0, 0, 1, 1, True, 1, shape, known_model),
                name="live-e2-r1-g1", timeout=2400)

    # ------------------------------------------------------------ spec -> code: behaviours as gate scripts
    scenarios = []
    nbeh = 0
    expect = {}
    if replay:
        seen = set()

        def behaviours(c, r, tag, u=None, only_bad=False, limit=None, xkw=None):
            e, m, ch, rd, np_, rt, g = c
            muts, kw = ["attrs", "event"][:m], dict(xkw or {})
            if u is not None:   # (user, evm, lim, pan): see udefs
                muts = ["uerror" if i < u[0] else "event" if i < u[1] else "attrs" for i in range(m)]
                kw.update(lim=u[2], panickers=u[3])
            n = 0
            for s in r["prints"]:
                if isinstance(s, str) and s.startswith("BEHAVIOUR ") and s not in seen:
                    b = json.loads(s[len("BEHAVIOUR "):])
                    if only_bad and not (b["bad"] or not b["stable"]):
                        continue
                    if limit is not None and n >= limit:
                        break
                    n += 1
                    seen.add(s)
                    name = "%s-%s-%d" % (tag, cfg_name(*c), len(scenarios))
                    if not only_bad:   # behaviours of a deviating shape are schedules to try, not predictions
                        b["cmp_parts"] = u is None
                        expect[name] = b
                    scenarios.append(sc(name, b["script"], rt=rt, nprocs=np_, enders=e, muts=muts,
                                        children=ch, readers=rd, regs=g, ts=(len(scenarios) % 2 == 0), **kw))
            return n

        # every gate-level interleaving (exhaustive TLC run of the Sim spec: the history makes the graph a tree)
        allil = [(2, 0, 0, 0, 1, True, 0), (2, 0, 0, 0, 1, False, 0)]
        if thorough:
            allil += [(2, 1, 0, 0, 1, True, 0), (2, 1, 1, 0, 1, False, 0), (2, 0, 0, 0, 1, True, 1)]
        for c in allil:
            r = ctx.tlc(S, "MC_SpanEndSim", "MC_SpanEndSim.cfg", defines=mc_defs(*c, shape=shape, known=True), workers=1,
                        name="all-" + cfg_name(*c), timeout=1800, count=False)
            behaviours(c, r, "all")
        ctx.extra["gate_level_interleavings_enumerated"] = len(scenarios)
        # larger configurations: random behaviours
        sims = [(2, 1, 1, 1, 2, True, 0), (3, 1, 0, 0, 1, True, 0), (2, 2, 1, 1, 2, False, 0), (3, 2, 1, 1, 2, True, 1)]
        nsim = 300 if thorough else 40
        for c in sims:
            r = ctx.tlc(S, "MC_SpanEndSim", "MC_SpanEndSim.cfg", defines=mc_defs(*c, shape=shape, known=True), workers=1,
                        simulate="num=%d" % nsim, depth=400, name="sim-" + cfg_name(*c), timeout=900)
            behaviours(c, r, "sim")
        # user code inside span methods: RecordError -> err.Error(), End deferred during a panic -> format of the
        # recovered value (natural gates m@err.Error, e@panic.Format), event queue at its limit
        if ms != "unknown" and ps != "unknown":
            um = dict(mshape=ms, pshape=ps)
            ucfgs = [((2, 1, 0, 0, 2, True, 0), (1, 1, 1, 0)), ((2, 1, 0, 0, 1, False, 0), (0, 1, 1, 1))]
            for c, u in ucfgs:
                r = ctx.tlc(S, "MC_SpanEndSim", "MC_SpanEndSim.cfg", workers=1, name="all-user-" + cfg_name(*c) + "-u%d%d%d%d" % u,
                            defines=mc_defs(*c, shape=shape, known=True, u=udefs(*u, **um)), timeout=1800, count=False)
                behaviours(c, r, "uall", u=u)
            c, u = (2, 2, 1, 0, 2, True, 0), (1, 2, 1, 1)
            r = ctx.tlc(S, "MC_SpanEndSim", "MC_SpanEndSim.cfg", workers=1, simulate="num=%d" % nsim, depth=400,
                        name="sim-user-" + cfg_name(*c), defines=mc_defs(*c, shape=shape, known=True, u=udefs(*u, **um)), timeout=900)
            behaviours(c, r, "usim", u=u)
            # schedules of the DEVIATING shapes (D2 panic-format window, D3 late RecordError into an aliased full
            # queue) in which the model breaks the contract: tried on the real code whatever its shape is. Where
            # the code holds the lock they cannot be followed (desync, no verdict); where it does not, they must
            # still be harmless.
            for c, u, dev in (((2, 1, 0, 0, 2, True, 0), (1, 1, 1, 0), dict(mshape="norecheck", pshape=ps)),
                              ((2, 1, 0, 0, 1, False, 0), (0, 1, 1, 1), dict(mshape=ms, pshape="norecheck"))):
                r = ctx.tlc(S, "MC_SpanEndSim", "MC_SpanEndSim.cfg", workers=1, name="dev-user-" + cfg_name(*c) + "-u%d%d%d%d" % u,
                            defines=mc_defs(*c, shape=shape, known=True, u=udefs(*u, **dev)), timeout=1800, count=False)
                ctx.extra["deviation_schedules"] = ctx.extra.get("deviation_schedules", 0) + \
                    behaviours(c, r, "udev", u=u, only_bad=True, limit=(12 if thorough else 4))
        # sampling decision RecordOnly (every clause is independent of it) and provider-level processes
        c = (2, 1, 1, 1, 2, True, 0)
        r = ctx.tlc(S, "MC_SpanEndSim", "MC_SpanEndSim.cfg", workers=1, simulate="num=%d" % nsim, depth=400, name="sim-recordonly",
                    defines=mc_defs(*c, shape=shape, known=True, pv=pdefs(sampled=False)), timeout=900)
        behaviours(c, r, "ro", xkw=dict(recordOnly=True))
        if precheck:
            c = (2, 0, 0, 0, 2, False, 1)
            pvd = pdefs(stoppers=1, waitfor=(1,), reent=True, unregs=(1 if unreg == "unlocked" else 0), unreg=unreg)
            r = ctx.tlc(S, "MC_SpanEndSim", "MC_SpanEndSim.cfg", workers=1, simulate="num=%d" % nsim, depth=400, name="sim-provider",
                        defines=mc_defs(*c, shape=shape, known=True, pv=pvd), timeout=900)
            behaviours(c, r, "prov", xkw=dict(stoppers=1, waitFor=1, reentReg=True, unregs=(1 if unreg == "unlocked" else 0)))
        # Start as a process (a processor ends the span inside OnStart, then runtimeTrace) and limit-0 mutators
        c = (2, 1, 0, 1, 1, True, 0)
        r = ctx.tlc(S, "MC_SpanEndSim", "MC_SpanEndSim.cfg", workers=1, simulate="num=%d" % (nsim // 2), depth=400, name="sim-onstart-end",
                    defines=mc_defs(*c, shape=shape, known=True, pv=sdefs(2)), timeout=900)
        behaviours(c, r, "st", xkw=dict(endInOnStart=True))
        c = (2, 2, 0, 0, 2, True, 0)
        r = ctx.tlc(S, "MC_SpanEndSim", "MC_SpanEndSim.cfg", workers=1, simulate="num=%d" % nsim, depth=400, name="sim-limit0",
                    defines=mc_defs(*c, shape=shape, known=True, pv={"ZEROMUT": tla_set("m", 2)}), timeout=900)
        behaviours(c, r, "z0", xkw=dict(zero=True))
        nbeh = len(scenarios)
        for rep in range(5 if thorough else 2):
            scenarios += directed(shape)
    sfile = os.path.join(ctx.work, "scripts.json")
    json.dump(scenarios, open(sfile, "w"))
    traces = []
    counters = {}
    executed = 0

    def harness(binary, mode, label, args, seed=None, env=None):
        nonlocal executed
        tf = os.path.join(ctx.work, "trace-%s.ndjson" % label)
        rf = os.path.join(ctx.work, "res-%s.json" % label)
        e = dict(env or {})
        if seed is not None:
            e["VERIF_SEED"] = str(seed)
        ctx.run([binary, mode] + args + ["-out", tf, "-res", rf, "-hooks=%s" % ("true" if hooks else "false")],
                timeout=3000, env=e)
        res = json.load(open(rf))
        for k, v in res["counters"].items():
            counters[k] = counters.get(k, 0) + v
        executed += res["executed"]
        return tf, res

    if scenarios:
        tf, res = harness(binp, "scripts", "scripts", ["-in", sfile, "-impl", "-1"])
        traces.append((tf, "scripts"))
        ctx.add_samples([{"behaviour_script": scenarios[0]["script"][:40]}])
    # ------------------------------------------------------------ code -> spec: random scenarios
    chunks = 6 if thorough else 1
    per = 4000 if thorough else 1500
    impl_random = 400 if thorough else 60    # the first N random scenarios also record the implementation-level trace
    for i in range(chunks):
        tf, res = harness(binp, "random", "random%d" % i, ["-n", str(per)] + (["-impl", str(impl_random)] if i == 0 else []),
                          seed=ctx.seed * 1000 + i)
        traces.append((tf, "random"))
        if i == 0:
            ctx.add_samples(res["samples"][:1])
    # ------------------------------------------------------------ thorough: the same under the race detector
    # ------------------------------------------------------------ re-entrant processors (callbacks calling back into the API)
    tf, res = harness(binp, "reent", "reent", [])
    traces.append((tf, "reent"))
    # ------------------------------------------------------------ hook-free volume stress (one line per span)
    nb = 160000 if thorough else 40000
    tf, res = harness(binp, "bulk", "bulk", ["-n", str(nb), "-enders", "4"])
    traces.append((tf, "bulk"))
    # ------------------------------------------------------------ user code called by the SDK PANICS (SpanPanic.tla, checks/c10_panics.py)
    import importlib.util
    _sp = importlib.util.spec_from_file_location("c10_panics", os.path.join(os.path.dirname(os.path.abspath(__file__)), "c10_panics.py"))
    c10_panics = importlib.util.module_from_spec(_sp)
    _sp.loader.exec_module(c10_panics)
    traces += c10_panics.stage(ctx, binp, harness)
    race_reports = []
    if thorough:
        rbin = ctx.go_build("c10", race=True)
        rlog = os.path.join(ctx.work, "race")
        env = {"GORACE": "halt_on_error=0 exitcode=0 log_path=%s" % rlog}
        if scenarios:
            # a quarter of the behaviours + all directed schedules (the race detector costs 5-10x)
            sfile_r = os.path.join(ctx.work, "scripts-race.json")
            json.dump(scenarios[:nbeh:4] + scenarios[nbeh:], open(sfile_r, "w"))
            tf, res = harness(rbin, "scripts", "race-scripts", ["-in", sfile_r], env=env)
            traces.append((tf, "race-scripts"))
        tf, res = harness(rbin, "random", "race-random", ["-n", "2500"], seed=ctx.seed * 1000 + 99, env=env)
        traces.append((tf, "race-random"))
        tf, res = harness(rbin, "bulk", "race-bulk", ["-n", "6000", "-enders", "4"], env=env)   # incl. the limit-0 hammer
        traces.append((tf, "race-bulk"))
        # user code that panics: the callers of the "during"/"after" phases run next to the handler's unwinding
        tf, res = harness(rbin, "panics", "race-panics-random", ["-n", "3000"], seed=ctx.seed * 1000 + 98, env=env)
        traces.append((tf, "race-panics-random"))
        for f in glob.glob(rlog + ".*"):
            race_reports += parse_race(open(f, errors="replace").read())
        ctx.extra["race_reports"] = len(race_reports)
        for rep in race_reports:
            ctx.violation({"kind": "data-race", "write": rep["write"], "other": rep["other"]}, replay=rep)

    ctx.extra["counters"] = counters
    ctx.extra["tlc_behaviours_replayed"] = nbeh
    ctx.extra["directed_schedules"] = len(scenarios) - nbeh
    ctx.extra["random_scenarios"] = chunks * per
    ctx.extra["bulk_spans"] = nb + nb // 8
    kinds = {}
    for tf, label in traces:
        name = "trace-" + os.path.basename(tf)[len("trace-"):-len(".ndjson")]
        tmod = "Trace_SpanPanic" if "panics" in label else "Trace_SpanEnd"     # panics: SpanEndContract + UPanic / Unwind
        viols, accepted = ctx.validate_trace(S, tmod, tmod + ".cfg", tf, name=name, timeout=3000)
        ctx.extra["trace_lines_" + name[len("trace-"):]] = accepted
        lines = None
        for v in viols:
            w = v["v"]
            kind = w["kind"]
            kinds[kind] = kinds.get(kind, 0) + 1
            if lines is None:
                lines = open(tf).read().splitlines()
            scen = []
            cfg = {}
            for ln in lines[max(0, v["line"] - (3 if label.endswith("bulk") else 100000)):v["line"]][::-1]:
                rec = json.loads(ln)
                if rec.get("sc") != v["sc"]:
                    break
                scen.append(rec)
                if rec["ev"] == "Cfg":
                    cfg = rec
            scen.reverse()
            sig = {"kind": kind, "rt": w["rt"], "overlap": w["overlap"],
                   "win": (w["win"] if w["hooks"] else "no-hooks"), "source": label.replace("race-", "")}
            if kind == "deadlock":   # chains of API / callback frames of the parked goroutines, outermost first
                sig["where"] = w["detail"]
            if w.get("after"):       # gates at which user code had panicked before (class: a lock stayed held when the panic unwound)
                sig["after_user_panic_at"] = ",".join(sorted(w["after"]))
            ctx.violation(sig, replay={"violation": v, "scenario_name": cfg.get("name", ""), "events": scen[-400:]})
    ctx.extra["violation_kinds_seen"] = kinds
    # spec -> code binding: a behaviour that was followed step by step must end as TLC predicted
    nfollowed = ndrift = 0
    for tf, label in traces:
        if label != "scripts":
            continue
        for ln in open(tf):
            if '"EndScenario"' not in ln:
                continue
            rec = json.loads(ln)
            b = expect.get(rec.get("name"))
            if b is None or rec["desync"] != 0 or not rec["quiescent"]:
                continue
            nfollowed += 1
            want = [b["onEnd"].get("p%d" % (i + 1), 0) for i in range(len(rec["handed"]))]
            got_ok = (rec["handed"] == want and (rec["child"] < 0 or (rec["child"] == b["child"] and
                                                                      (not b.get("cmp_parts", True) or 2 * rec["nfull"] == b["parts"]))))
            if not got_ok:
                ndrift += 1
                if ndrift <= 3:
                    ctx.note_inconclusive("model drift: behaviour %s was followed step by step but ended with handed=%s child=%s "
                                          "full=%s; SpanEnd.tla predicts onEnd=%s child=%s parts=%s" %
                                          (rec["name"], rec["handed"], rec["child"], rec["nfull"], want, b["child"], b["parts"]))
    ctx.extra["behaviours_followed_exactly"] = nfollowed
    ctx.extra["behaviours_with_other_outcome_than_model"] = ndrift
    ctx.traces_validated += executed
    ctx.evaluations += executed
    # ------------------------------------------------------------ impl-trace: code -> spec, second level
    # The same recorded executions against the ACTIONS of SpanEnd.tla (Trace_SpanEndImpl.tla).  Verdict rule: a trace
    # the contract accepts but SpanEnd.tla cannot explain is model drift: evidence and a NOTE, never exit 1, and exit 2
    # only if nothing of the sample could be explained at all.
    consts = {"SHAPE": shape, "ALLOWKNOWN": "TRUE" if known_model else "FALSE", "MSHAPE": ms if ms != "unknown" else "locked",
              "PSHAPE": ps if ps != "unknown" else "locked", "PRECHECK": "TRUE" if precheck else "FALSE", "UNREGSHAPE": unreg}
    lim = dict(max_scen=3000, max_groups=1000, per_group=300, max_lines=600, timeout=900) if thorough else \
        dict(max_scen=120, max_groups=6, per_group=25, max_lines=250, timeout=120)
    iv = impl_validate(ctx, [(tf, label) for tf, label in traces if label in ("scripts", "random")], consts, **lim)
    ctx.extra["impl_trace"] = {"scenarios": iv["scenarios"], "accepted": iv["accepted"], "drift": iv["drift"],
                               "drift_count": iv["drift_count"], "stats": {k: v for k, v in iv.items() if k != "drift"}}
    ctx.traces_validated += iv["accepted"]
    for d in iv["drift"]:
        vlib.log("NOTE: impl-trace model drift (evidence, not a verdict): scenario %s %s: SpanEnd.tla (shape %s) cannot explain line %d: %s"
                 % (d["scenario"], d["name"], shape, d["line_in_scenario"],
                    json.dumps({k: v for k, v in d["first_offending_line"].items() if k in
                                ("ev", "op", "pid", "proc", "point", "p", "span", "child", "fullp", "val", "arg")}, sort_keys=True)))
    if iv["drift_count"] > len(iv["drift"]):
        vlib.log("NOTE: impl-trace model drift: %d scenarios in all (first %d shown)" % (iv["drift_count"], len(iv["drift"])))
    for e in iv["errors"]:
        vlib.log("NOTE: impl-trace: TLC could not finish a file (%s, %d scenarios from %s): %s" % (e["error"], e["scenarios"], e["first"], e["out"]))
    if iv["scenarios"] > 0 and iv["accepted"] == 0:
        ctx.note_inconclusive("impl-trace: none of the %d sampled real executions could be explained by the actions of SpanEnd.tla "
                              "(shape %s): the implementation-shaped model has drifted from the code (%d drift, %d TLC errors)"
                              % (iv["scenarios"], shape, iv["drift_count"], len(iv["errors"])))
    if not hooks:
        ctx.note_inconclusive("the tree has no span.end.* instrumentation points at all (hook infrastructure missing): "
                              "gate replay of TLC behaviours and directed schedules was skipped; only model checking, "
                              "hook-free random scenarios and the bulk stress ran")
    elif replay and shape == "window" and "delivered-twice" not in kinds:
        ctx.note_inconclusive("the directed schedule D1-two-enders-in-window did not reproduce the double delivery although "
                              "End has the window shape: model and code disagree (drift)")
    if counters.get("scenarios_stuck", 0) and "deadlock" not in kinds:
        ctx.note_inconclusive("%d scenario(s) did not finish within the bound without a goroutine blocked on a lock "
                              "(machine overload?): not a verdict" % counters["scenarios_stuck"])
    ctx.exhaustive = False
    ctx.assumptions += [
        "data-race freedom is monitored with -race on the replayed and random schedules (thorough tier), not model checked",
        "one shared span per scenario; processors are registered before the span starts and never unregistered",
        "goroutines are identified inside hooks and processors by goroutine id (harness side only)",
        "a scenario that does not finish within 20 s + gate timeouts is reported as a deadlock only if a goroutine is "
        "blocked in sync.Mutex.Lock inside sdk/trace; otherwise it is inconclusive",
        "attribute/event/link limits are not reached (default 128); limits are C04's subject",
        "impl-trace validates a sample (scenarios with a provider-user goroutine are outside SpanEnd.tla); model drift is evidence only",
    ]


def parse_race(text):
    """Split race detector output into reports: top non-runtime frame of the write and of the other access."""
    out = []
    for blk in text.split("=================="):
        if "WARNING: DATA RACE" not in blk:
            continue
        secs = re.split(r"\n\n", blk.strip())
        acc = []
        for s in secs:
            m = re.match(r"\s*(?:WARNING: DATA RACE\n)?\s*((?:Previous )?(?:[Rr]ead|[Ww]rite|atomic \w+)) at \S+ by (?:main )?goroutine", s.strip())
            if m:
                frames = re.findall(r"\n\s+([\w./*()\[\]\-]+)\(\)\n", "\n" + s + "\n")
                frames = [f for f in frames if not f.startswith("runtime.")]
                acc.append((m.group(1).lower(), frames[:4]))
        if len(acc) >= 2:
            w = [a for a in acc if "write" in a[0]] or acc
            o = [a for a in acc if a is not w[0]]
            out.append({"write": "<-".join(x.split("/")[-1] for x in w[0][1][:3]),
                        "other": "<-".join(x.split("/")[-1] for x in o[0][1][:3]), "text": blk[:6000]})
    return out
