"""X02 (growth id, not a listed property): inductive proofs for the small integer/set-shaped cores of the specs.

Runs every core of checks/inductive.py (Apalache obligations with symbolic constants, the seeded model bugs, the TLC
equivalence runs against the bounded specs of C12 / C06 / C04 / C01 / C03).  Everything here is model level: nothing can
be a violation (exit 1); an obligation that is not discharged, a seeded model bug that is not caught or an
equivalence run that fails makes the run inconclusive (exit 2).
"""
import importlib.util
import os

_p = os.path.join(os.path.dirname(os.path.abspath(__file__)), "inductive.py")
_spec = importlib.util.spec_from_file_location("verif_inductive", _p)
inductive = importlib.util.module_from_spec(_spec)
_spec.loader.exec_module(inductive)

CORES = ["A", "B", "C", "D", "E"]


def run(ctx):
    thorough = ctx.tier == "thorough"
    ctx.level = "inductive_invariant"
    ctx.exhaustive = True
    res = inductive.run_inductive(ctx, CORES, budget_s=3000 if thorough else 900, bugs=True, equiv=True)
    ctx.extra["inductive"] = res
    ctx.extra["trusted_base"] = ["Apalache 0.58.0 / Z3", "TLC 1.8.0 (equivalence runs)", "specs/Inductive/*.tla",
                                 "the observed-element projection argued in specs/Inductive/README.md and checked by the equivalence runs"]
    ctx.assumptions += ["each action of a parameterised module is one critical section of the Go code (see specs/Inductive/README.md)",
                        "the parameterised modules are tied to the bounded specs by TLC equivalence runs for small constants only",
                        "nothing here executes the Go code: the binding of the bounded specs to /repo is the business of C01, C04, C06, C12"]
    if "_error" in res:
        ctx.note_inconclusive("inductive runner failed: " + res["_error"])
    for c in CORES:
        r = res.get(c) or {}
        ctx.evaluations += sum(len(o) for o in (r.get("modules") or {}).values())
        ctx.add_samples([{"core": c, "proved": r.get("proved"), "seconds": r.get("seconds"), "what": r.get("what")}])
        if not r.get("proved"):
            ctx.note_inconclusive("core %s: obligations not discharged: %s" % (c, r.get("unproved")))
        if not r.get("nonvacuity_all_caught"):
            missed = [m + ":" + b for m, d in (r.get("nonvacuity") or {}).items() for b, v in d.items() if not v["caught"]]
            ctx.note_inconclusive("core %s: seeded model bug not caught by Apalache: %s" % (c, missed))
        if not r.get("equivalence_ok"):
            ctx.note_inconclusive("core %s: TLC equivalence with the bounded spec not shown: %s" %
                                  (c, [e for e in (r.get("equivalence") or []) if not e.get("ok")]))
        for e in r.get("equivalence") or []:
            ctx.states += e.get("old_states") or 0
            ctx.transitions += (e.get("old_edges") or 0) + (e.get("new_edges") or 0)
