"""C04, behaviour class "caller-owned memory is a value fixed at call time" (SpanBufModel.tla).

Loaded by checks/c04.py.  spec -> code: TLC explores SpanBuf.tla (buffers with identity and a
capacity class travelling through several span calls, caller writes in between), every edge is
replayed by `c04 bufreplay` with real Go slices; the edge's `to.st` (value semantics) is the oracle.
code -> spec: `c04 bufrandom` runs seeded programs over 2-4 buffers of random capacity with every
span call kind and caller write kind; Trace_SpanBuf.tla validates the observations.
"""
import json
import os

S = "SpanState"


def tok(k, i):
    return '[k |-> "%s", i |-> %d]' % (k, i)


def buf(toks, spare):
    return '[c |-> <<%s>>, spare |-> %s]' % (", ".join(toks), "TRUE" if spare else "FALSE")


def bufinit(**bufs):
    return " @@ ".join('("%s" :> %s)' % (b, v) for b, v in sorted(bufs.items()))


def seqs(*lists):
    return "{%s}" % ", ".join("<<%s>>" % ", ".join('"%s"' % b for b in l) for l in lists)


def lnk(valid, tst, b):
    return '[valid |-> %s, tst |-> %s, b |-> "%s"]' % ("TRUE" if valid else "FALSE", "TRUE" if tst else "FALSE", b)


def lim(ac=-1, vl=-1, ec=-1, lc=-1, pe=-1, pl=-1):
    return dict(ac=ac, vl=vl, ec=ec, lc=lc, pe=pe, pl=pl)


def tla_lim(L):
    return "[" + ", ".join("%s |-> %d" % (k, v) for k, v in L.items()) + "]"


T1, T2, T3 = tok("ea0", 1), tok("ea1", 2), tok("ea2", 3)
BASE = dict(BOPS="{}", OPTLISTS="{}", ERROPTS="{}", ERRS="{1}", STACKS="{FALSE}", LINKCTX="{}", LINKBUFS="{}",
            STARTAOPTS="{<<>>}", STARTLINKS="{<<>>}", USESTART="FALSE", MAXLEN=2, MAXCALLS=2, MAXWRITES=1)
CTX_VI = "{[valid |-> TRUE, tst |-> FALSE], [valid |-> FALSE, tst |-> FALSE]}"


def configs(tier):
    th = tier == "thorough"
    deep = dict(MAXCALLS=3, MAXWRITES=1) if th else {}   # 3 calls + 2 writes: 290 k edges for buf-events alone
    both_spare = bufinit(b1=buf([T1], True), b2=buf([T2], True))
    mixed = bufinit(b1=buf([T1], True), b2=buf([T2, T3], False))
    cfgs = []
    ev = dict(BOPS='{"AddEvent","RecordError","End"}',
              OPTLISTS=seqs(["b1"], ["b2"], ["b1", "b2"], ["b1", "b1"], ["b2", "b1"]),
              ERROPTS=seqs([], ["b1"], ["b1", "b2"]), ERRS="{1, 2}")
    cfgs.append(dict(name="buf-events", lim=lim(), BUFINIT=both_spare, **ev, **deep))
    cfgs.append(dict(name="buf-events-pe2-ec1", lim=lim(pe=2, ec=1), BUFINIT=mixed, **dict(ev, STACKS="BOOLEAN", ERROPTS=seqs(["b1"], ["b2"]))))
    lk = dict(BOPS='{"AddLink","End"}', LINKCTX=CTX_VI, LINKBUFS='{"b1","b2",""}', USESTART="TRUE",
              STARTLINKS="{<<>>, <<%s>>, <<%s, %s>>, <<%s, %s>>}" % (lnk(1, 0, "b1"), lnk(1, 0, "b1"), lnk(0, 0, "b2"),
                                                                    lnk(0, 1, "b2"), lnk(1, 0, "b2")))
    cfgs.append(dict(name="buf-links-lc2-pl1", lim=lim(lc=2, pl=1), BUFINIT=mixed, **lk, MAXWRITES=2))
    at = dict(BOPS='{"SetAttributes","End"}')
    cfgs.append(dict(name="buf-attrs", lim=lim(), BUFINIT=both_spare, **at, MAXCALLS=3, MAXWRITES=2))
    cfgs.append(dict(name="buf-start-attrs-ac2", lim=lim(ac=2), BUFINIT=mixed, USESTART="TRUE", MAXWRITES=2,
                     STARTAOPTS=seqs([], ["b1"], ["b1", "b2"], ["b2", "b1"], ["b1", "b1"]), **at))
    if th:
        tight = bufinit(b1=buf([T1], False), b2=buf([T2], False))
        cfgs.append(dict(name="buf-events-tight", lim=lim(), BUFINIT=tight, **ev))
        cfgs.append(dict(name="buf-events-pe1", lim=lim(pe=1, ec=2), BUFINIT=both_spare, **ev))
        cfgs.append(dict(name="buf-events-pe0", lim=lim(pe=0), BUFINIT=both_spare, **ev))
        cfgs.append(dict(name="buf-links-unlimited", lim=lim(), BUFINIT=both_spare, **dict(lk, **deep)))
        cfgs.append(dict(name="buf-links-lc1-pl0", lim=lim(lc=1, pl=0), BUFINIT=mixed, **lk))
        cfgs.append(dict(name="buf-attrs-ac1", lim=lim(ac=1), BUFINIT=mixed, **at, MAXCALLS=3, MAXWRITES=2))
        cfgs.append(dict(name="buf-mixed", lim=lim(ac=2, ec=2, lc=2, pe=3, pl=1), BUFINIT=mixed, USESTART="TRUE",
                         STARTAOPTS=seqs([], ["b1"]), STARTLINKS="{<<>>, <<%s>>}" % lnk(1, 0, "b1"),
                         BOPS='{"SetAttributes","AddEvent","RecordError","AddLink","End"}', OPTLISTS=seqs(["b1"], ["b1", "b2"]),
                         ERROPTS=seqs(["b1"]), ERRS="{1, 2}", LINKCTX="{[valid |-> TRUE, tst |-> FALSE]}", LINKBUFS='{"b1","b2"}'))
    return cfgs


def events_equal(want, got):
    if len(want) != len(got):
        return False
    for w, g in zip(want, got):
        if (w["name"], w["d"]) != (g.get("name"), g.get("d")):
            return False
        if g.get("ks") != w["ks"] and g.get("ks") != w.get("ks2"):
            return False
    return True


def classify(want, got):
    """which component of the exported span differs from the value-semantics state"""
    for k in ("dropped", "evDropped", "lkDropped"):
        if want.get(k) != got.get(k):
            return k
    if not events_equal(want.get("events") or [], got.get("events") or []):
        return "events"
    if (want.get("links") or []) != (got.get("links") or []):
        return "links"
    wa = {a["k"]: a["x"] for a in want.get("attrs", [])}
    ga = {a["k"]: a["x"] for a in got.get("attrs", [])}
    if set(wa) != set(ga) or len(got.get("attrs", [])) != len(ga):
        return "attr-keys"
    if wa != ga:
        return "attr-value"
    return "other"


def sig_of(direction, want, got, trigger, extra):
    # trigger = the step after which the exported span first deviates: a caller write (CW in place
    # overwrite, CA append, CR refill) or a later span call that names a buffer again
    sig = {"dir": direction, "class": "caller-buffer", "why": classify(want or {}, got or {}), "trigger": trigger}
    sig.update(extra)
    return sig


def run(ctx, binp):
    thorough = ctx.tier == "thorough"
    reps = range(2) if thorough else [ctx.seed % 2]
    total = 0
    for c in configs(ctx.tier):
        d = dict(BASE)
        d.update({k: v for k, v in c.items() if k in BASE or k == "BUFINIT"})
        d["LIM"] = tla_lim(c["lim"])
        r = ctx.tlc(S, "MC_SpanBuf", "MC_SpanBuf.cfg", defines=d, want_edges=True, name=c["name"], timeout=1800, heap="2g")
        for rep in reps:
            out = os.path.join(ctx.work, "bufreplay-%s-%d.json" % (c["name"], rep))
            ctx.run([binp, "bufreplay", "-edges", r["edges_file"], "-lim", json.dumps(c["lim"]), "-rep", str(rep), "-out", out],
                    timeout=1800)
            res = json.load(open(out))
            total += res["executed"]
            ctx.traces_validated += res["executed"]
            ctx.evaluations += res["evaluations"]
            for k, v in res["counters"].items():
                ctx.extra.setdefault("buf_counters", {}).setdefault(k, 0)
                ctx.extra["buf_counters"][k] += v
            ctx.add_samples(res["samples"][:1])
            for m in res["mismatches"]:
                act = m.get("act") or {}
                if m["kind"] == "panic":
                    sig = {"dir": "buf-replay", "class": "caller-buffer", "why": "panic", "trigger": act.get("op"), "cfg": c["name"]}
                else:
                    sig = sig_of("buf-replay", m.get("want"), m.get("got"), act.get("op"), {"cfg": c["name"], "lim": c["lim"]})
                ctx.violation(sig, replay={"bufs": m.get("case"), "ops": (m.get("path") or []) + ([act] if act else []),
                                           "lim": c["lim"], "rep": rep, "want": m.get("want"), "got": m.get("got"),
                                           "detail": m.get("detail")})
            for s in res["inconclusive"]:
                ctx.note_inconclusive(s)
    ctx.extra["buf_edges_replayed"] = total
    # ---- code -> spec
    n = 1500 if thorough else 150
    trace = os.path.join(ctx.work, "buftrace.ndjson")
    resf = os.path.join(ctx.work, "bufrandom.json")
    ctx.run([binp, "bufrandom", "-n", str(n), "-out", trace, "-res", resf], timeout=1800)
    res = json.load(open(resf))
    for m in res["mismatches"]:
        ctx.violation({"dir": "buf-random", "class": "caller-buffer", "why": "panic"}, replay=m)
    viols, accepted = ctx.validate_trace(S, "Trace_SpanBuf", "Trace_SpanBuf.cfg", trace, timeout=3600, name="trace-SpanBuf")
    ctx.traces_validated += n
    ctx.evaluations += res["executed"]
    ctx.extra["buf_random_programs"] = n
    ctx.extra["buf_random_counters"] = res.get("counters", {})
    ctx.extra["buf_trace_lines_validated"] = accepted
    lines = None
    for v in viols:
        if lines is None:
            lines = open(trace).read().splitlines()
        scen = []
        i = v["line"] - 1
        while i >= 0:
            rec = json.loads(lines[i])
            scen.append(rec)
            if rec["ev"] == "New":
                break
            i -= 1
        scen.reverse()
        trigger = (scen[-1].get("ops") or [{"op": "Start"}])[-1].get("op")  # no ops: the observation right after Start
        ctx.violation(sig_of("buf-random", v.get("want"), v.get("got"), trigger, {"lim": scen[0].get("lim")}),
                      replay={"scenario": scen, "want": v.get("want"), "got": v.get("got")})
    ctx.assumptions += [
        "caller buffers: spare = make(_, 0, 8) filled by append (every append / refill is in place), tight = exact-capacity "
        "arrays re-allocated on every growth; a caller write stamps a fresh value so anything it rewrites is visible",
        "a deviation is reported at the first step after which the exported span differs (edges whose source state "
        "already deviates are counted as downstream, the tree edge into that state carries the report)",
    ]
