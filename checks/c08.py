"""C08 -- delta and cumulative views of the same measurement history agree (Temporality.tla).

model       : TemporalityModel.tla -- one metric stream (instrument kind x aggregation) read by a delta
              and a cumulative reader at the same points of a history; every data point is a projection
              of a bag of measurements; the statement (cumulative = running total of the deltas, interval
              adjacency, exact asynchronous sets, gauge = last value of the cycle) is checked by TLC as an
              action property on every explored edge (StepOK).
spec -> code: Temporality.tla explored exhaustively per kind x aggregation x number type (2 attribute sets,
              3 values incl. bucket boundaries / zero / negatives, <= MaxCycles collection points with
              <= MaxOps operations each, every callback table, registration churn); every Collect edge is
              printed with the BFS path to its source state; harness/c08 replays path + edge on a fresh
              MeterProvider with a delta and a cumulative ManualReader collecting back to back.
code -> spec: harness/c08 runs seeded random histories (19 streams of all kinds/aggregations on one
              provider, 6 attribute sets, 50-200 steps, 1-3 callbacks with registration churn, reused /
              fresh ResourceMetrics, int64 / float64, default / view aggregations, tiny exponential
              MaxSize) on the same two readers.
concurrency : between two collection points the measurements of a cycle may come from 2-8 goroutines at once
              (spin barrier storms on one fresh attribute set, mixed traffic): the cycle is a multiset, gauges are
              judged for membership; user-supplied exemplar reservoirs (view) are natural gates: the provider holds
              the first measurement of a set while a second one is started (twin), Reservoir.Collect holds a reader
              inside an aggregate's collection while a measurement is started (Mid line: the measurement belongs to
              that reader's cycle k or k+1, exact again at the quiescent point k+1).  Collections only at quiescence.
faults      : callback outcomes (a callback returns an error -- plain, or wrapping Canceled / DeadlineExceeded of its
              OWN context -- after all, some or none of its observations: those sets are optional in that cycle,
              everything else and the next cycle exact) and aborted collection points (cancelled / expiring Collect
              context: no cycle of the statement, model unchanged, the next healthy cycle exact).
extensions  : wide exponential value domain (value = sign x 2^e over +-300 octaves, tiny MaxSize: the two readers
              re-scale at different moments, every measurement ORDER explored); overlapping collections of one
              reader (second goroutine collects while the first is held in a gate callback; TOver accepts either
              serial order); deferred projection (collected data must not change after Collect returned).
oracle      : in both directions the harness only executes and projects (attribute-set index, integer
              values in 1/unit, bucket counts, structural relations between the SDK's own timestamps);
              Trace_Temporality.tla evaluates every expectation: the model's points (absolute clauses) and
              the statement itself on the real data alone (relational monitor: real cumulative value =
              running total of the real delta values).
"""
import json
import os
from concurrent.futures import ThreadPoolExecutor

S = "Temporality"
ASYNC = ("ObsCounter", "ObsUpDownCounter", "ObsGauge")
SIGNED = ("UpDownCounter", "Gauge", "ObsUpDownCounter", "ObsGauge")  # may record negative values; histogram sum not collected
COMBOS = [
    ("Counter", "sum"), ("Counter", "hist"), ("Counter", "expo"),
    ("UpDownCounter", "sum"), ("UpDownCounter", "hist"), ("UpDownCounter", "expo"),
    ("Histogram", "hist"), ("Histogram", "expo"), ("Histogram", "sum"),
    ("Gauge", "last"), ("Gauge", "hist"), ("Gauge", "expo"),
    ("ObsCounter", "sum"), ("ObsCounter", "hist"), ("ObsCounter", "expo"),
    ("ObsUpDownCounter", "sum"), ("ObsUpDownCounter", "hist"), ("ObsUpDownCounter", "expo"),
    ("ObsGauge", "last"), ("ObsGauge", "hist"), ("ObsGauge", "expo"),
]
DEFAULT_AGG = {"Counter": "sum", "UpDownCounter": "sum", "Histogram": "hist", "Gauge": "last",
               "ObsCounter": "sum", "ObsUpDownCounter": "sum", "ObsGauge": "last"}

# value alphabets in 1/unit (unit 1 = int64 instrument, unit 4 = float64 instrument recording k/4);
# explicit boundaries are values of the alphabet (upper bound inclusive), exponential alphabets contain 0
ALPHA = {
    # (signed, float, agg-class) -> (vals, bounds)
    (False, False, "plain"): ([1, 2, 3], []),
    (False, False, "hist"): ([1, 2, 3], [1, 2]),
    (False, False, "expo"): ([0, 1, 3], []),
    (False, True, "plain"): ([1, 4, 6], []),
    (False, True, "hist"): ([1, 4, 6], [1, 4]),
    (False, True, "expo"): ([0, 2, 5], []),
    (True, False, "plain"): ([-1, 1, 2], []),
    (True, False, "hist"): ([-1, 1, 2], [-1, 1]),
    (True, False, "expo"): ([-2, 0, 3], []),
    (True, True, "plain"): ([-2, 1, 6], []),
    (True, True, "hist"): ([-2, 1, 6], [-2, 1]),
    (True, True, "expo"): ([-6, 0, 1], []),
}


# ---------------------------------------------------------------------------- TLA+ rendering
def tla(v):
    if isinstance(v, bool):
        return "TRUE" if v else "FALSE"
    if isinstance(v, int):
        return str(v)
    if isinstance(v, str):
        return '"%s"' % v
    if isinstance(v, (list, tuple)):
        return "<<" + ", ".join(tla(x) for x in v) + ">>"
    if isinstance(v, dict):
        return "[" + ", ".join("%s |-> %s" % (k, tla(x)) for k, x in v.items()) + "]"
    raise TypeError(v)


def stream(kind, agg, fl, maxsize=0, noview=False, ncb=0):
    cls = agg if agg in ("hist", "expo") else "plain"
    vals, bounds = ALPHA[(kind in SIGNED, fl, cls)]
    model = {"kind": kind, "agg": agg, "na": 2, "vals": vals, "unit": 4 if fl else 1, "bounds": bounds,
             "ncb": ncb or (2 if kind in ASYNC else 1), "wide": False, "exps": []}
    name = "%s.%s.%s%s%s%s" % (kind, agg, "f" if fl else "i", ".m%d" % maxsize if maxsize else "", ".nv" if noview else "",
                               ".cb%d" % ncb if ncb else "")
    return {"name": name, "model": model, "extra": {"name": "s." + name, "maxsize": maxsize, "noview": noview, "meter": 0}}


def wide(kind, maxsize, values, tag):
    """exponential histogram over a wide value range: values = [(sign, exponent)], one attribute set,
    every ORDER of measurements explored (re-scaling and bucket memory depend on it)"""
    model = {"kind": kind, "agg": "expo", "na": 1, "vals": [sg for sg, _ in values], "unit": 4, "bounds": [],
             "ncb": 1, "wide": True, "exps": [e for _, e in values]}
    name = "%s.expo.wide.m%d.%s" % (kind, maxsize, tag)
    return {"name": name, "model": model, "extra": {"name": "s." + name, "maxsize": maxsize, "noview": False, "meter": 0}}


def wide_configs(tier):
    P, N = 1, -1
    out = [
        # fill three adjacent octaves, then jump: re-scale by two, land past a skipped bucket
        wide("Histogram", 3, [(P, 1), (P, 2), (P, 3), (P, 9)], "fill-jump"),
        # both sides of 1 (negative bucket indexes), both signs, zero
        wide("Gauge", 4, [(P, -5), (P, -2), (P, -1), (P, 8), (N, 3)], "below-one"),
        wide("ObsUpDownCounter", 3, [(P, -300), (P, 1), (N, 2), (P, 300)], "async"),
    ]
    if tier == "thorough":
        out += [
            wide("Histogram", 2, [(P, -3), (P, 1), (P, 2), (P, 6)], "two-buckets"),
            wide("Histogram", 4, [(P, -7), (P, -6), (P, -4), (P, 5), (P, 12)], "below-one-4"),
            wide("UpDownCounter", 160, [(P, 1), (P, 2), (P, 4), (P, 6), (N, 1)], "default-size"),
        ]
    return out


def faulty(kind, agg, fl, ncb=0):
    """asynchronous configuration explored WITH faults (one faulty collection point per history: a callback
    returning an error, or an aborted collection); two values keep the 5x larger graph small"""
    c = stream(kind, agg, fl, ncb=ncb)
    c["model"]["vals"] = c["model"]["vals"][:2]
    c["model"]["bounds"] = [b for b in c["model"]["bounds"] if b in c["model"]["vals"]]
    c["name"] += ".faults"
    c["extra"]["name"] += ".faults"
    c["faults"] = 1
    return c


def fault_configs(tier):
    out = [faulty("ObsCounter", "sum", False), faulty("ObsGauge", "last", True), faulty("ObsUpDownCounter", "sum", True),
           faulty("ObsCounter", "hist", False)]
    if tier == "thorough":
        out += [faulty("ObsCounter", "sum", True, ncb=3), faulty("ObsUpDownCounter", "expo", False), faulty("ObsGauge", "hist", False)]
    return out


def configs(tier, seed):
    out = []
    for i, (kind, agg) in enumerate(COMBOS):
        fls = (False, True) if tier == "thorough" else ((i + seed) % 2 == 0,)
        for fl in fls:
            out.append(stream(kind, agg, fl))
    # exponential histograms that must rescale (2 buckets for values three octaves apart) and the
    # kinds' default aggregation without any view
    extra = [stream("Histogram", "expo", False, maxsize=2), stream("ObsUpDownCounter", "expo", True, maxsize=2),
             stream("Counter", "sum", seed % 2 == 1, noview=True), stream("ObsCounter", "sum", seed % 2 == 0, noview=True)]
    if tier == "thorough":
        extra += [stream("Gauge", "expo", True, maxsize=2), stream("Counter", "expo", True, maxsize=2),
                  stream("Gauge", "last", False, noview=True), stream("ObsGauge", "last", True, noview=True),
                  stream("UpDownCounter", "sum", True, noview=True), stream("ObsUpDownCounter", "sum", False, noview=True),
                  stream("ObsCounter", "sum", False, ncb=3), stream("ObsGauge", "last", True, ncb=3)]
    return out + extra + wide_configs(tier) + fault_configs(tier)


def plan(c, tier):
    """(MaxCycles, MaxOps, K): bounds of the exploration and edge sampling (every K-th Collect edge is
    replayed, offset by the seed, so seeds 1..K cover all of them).
    quick   : 3 collection points with <= 2 operations each; sums/gauges in full, the rest sampled.
    thorough: a fourth collection point for the synchronous kinds (float64 sums 1/2, int64 histograms 1/4,
              float64 histograms keep 3 points in full); asynchronous: 3 points, every second edge."""
    m = c["model"]
    is_async, fl, bags = m["kind"] in ASYNC, m["unit"] != 1, m["agg"] in ("hist", "expo")
    if c.get("faults"):
        return 3, 2, (2 if tier == "thorough" else 6)
    if m["wide"]:  # every operation sequence is a state: (1 + n + n^2)^3 collection edges for n values
        big = len(m["vals"]) > 4 and not is_async
        return 3, 2, ((2 if big else 1) if tier == "thorough" else (8 if big else 3))
    if tier != "thorough":
        return 3, 2, (12 if is_async else 3 if bags else 1)
    if is_async:
        return 3, 2, 2
    if bags:
        return (3, 2, 1) if fl else (4, 2, 4)
    return 4, 2, (2 if fl else 1)


# ---------------------------------------------------------------------------- classification
def sig_of(direction, new, v, scen=()):
    C = new["C"]
    meta = new.get("meta", {})
    # fault history of the stream up to the failing line: an aborted collection point before it, the
    # callback-error flavour of the failing cycle and of the cycle before it
    cyc = [r for r in scen if r.get("ev") == "Cycle"]
    here = scen[-1].get("cberr", "") if scen else ""
    before = cyc[-2].get("cberr", "") if len(cyc) >= 2 and scen and scen[-1].get("ev") == "Cycle" else ""
    return {"dir": direction, "kind": C["kind"], "agg": C["agg"], "num": "float" if C["unit"] != 1 else "int",
            "async": C["kind"] in ASYNC, "nosum_kind": C["kind"] in SIGNED, "reuse": bool(meta.get("reuse")),
            "wide": bool(C.get("wide")), "overlapped": v.get("over", "no"),
            "abort_before": any(r.get("ev") == "Abort" for r in scen), "cb_error": here or "none",
            "after_cb_error": before or "none",
            "rd": v.get("rd"), "clause": v.get("clause")}


def split_trace(path, max_lines, out_prefix):
    """split an ndjson trace at scenario (`New`) boundaries into chunks of about max_lines lines"""
    chunks, cur, n = [], None, 0
    with open(path) as f:
        for line in f:
            if cur is None or (n >= max_lines and '"ev":"New"' in line):
                if cur:
                    cur.close()
                chunks.append("%s-%d.ndjson" % (out_prefix, len(chunks)))
                cur = open(chunks[-1], "w")
                n = 0
            cur.write(line)
            n += 1
    if cur:
        cur.close()
    return chunks


def run(ctx):
    thorough = ctx.tier == "thorough"
    binp = ctx.go_build("c08")
    counters = ctx.extra.setdefault("counters", {})
    par = max(2, min(6, (os.cpu_count() or 4) // 3))
    if os.environ.get("VERIF_TLC_WORKERS"):
        par = max(1, min(par, int(os.environ["VERIF_TLC_WORKERS"])))
    # gated executions per configuration and kind (overlapping collections, twin first measurements,
    # measurement during a collection); each waits ~15 ms for the operation that must not get through
    overlap = 90 if thorough else 20

    def add_counters(res, prefix):
        for k, v in res["counters"].items():
            counters[prefix + k] = counters.get(prefix + k, 0) + v

    def validate(direction, chunk, idx):
        name = "trace-%s-%d" % (direction, idx)
        viols, accepted = ctx.validate_trace(S, "Trace_Temporality", "Trace_Temporality.cfg", chunk, timeout=3000, name=name)
        try:
            os.remove(os.path.join(ctx.work, "tlc-" + name, "trace.ndjson"))  # TLC's copy of the chunk
            if not viols:
                os.remove(chunk)
        except OSError:
            pass
        return direction, chunk, viols, accepted

    # ---- spec -> code: explore + replay, one (kind, aggregation, number type) at a time
    cfgs = configs(ctx.tier, ctx.seed)

    def explore_and_replay(ic):
        i, c = ic
        mc, mo, k = plan(c, ctx.tier)
        cov = c["name"] in (cfgs[0]["name"], next(x["name"] for x in cfgs if x["model"]["kind"] in ASYNC),
                            next(x["name"] for x in cfgs if x.get("faults")))
        r = ctx.tlc(S, "MC_Temporality", "MC_Temporality.cfg", want_edges=True, name="E-" + c["name"], timeout=2400,
                    defines={"CFG": tla(c["model"]), "MAXCYCLES": mc, "MAXOPS": mo, "MAXFAULT": c.get("faults", 0)},
                    coverage=cov, count=False,
                    deque=True)  # in-memory state queue: TLC's disk queue cannot serialise the lazily built st
        trace = os.path.join(ctx.work, "replay-%s.ndjson" % c["name"])
        resf = os.path.join(ctx.work, "replay-%s.json" % c["name"])
        hcfg = dict(c["model"], **c["extra"])
        ctx.run([binp, "replay", "-edges", r["edges_file"], "-cfg", json.dumps(hcfg), "-out", trace, "-res", resf,
                 "-sample", str(k), "-overlap", str(overlap), "-twin", str(overlap), "-mid", str(overlap)], timeout=2400)
        r["want_executed"] = sum(1 for e in range(1, (r.get("edges") or 0) + 1) if k <= 1 or (e + ctx.seed) % k == 0)
        os.remove(r["edges_file"])  # (tlc.out of the run keeps the EDGE lines)
        return c, r, trace, json.load(open(resf)), cov

    replay_traces = []
    zero_cov = None
    edges_total = 0
    per_cfg = {}
    with ThreadPoolExecutor(par) as ex:
        for c, r, trace, res, cov in ex.map(explore_and_replay, enumerate(cfgs)):
            ctx.states += r["distinct"]
            ctx.transitions += r["generated"]
            if cov:
                zero_cov = set(r["zero_cov"]) if zero_cov is None else (zero_cov & set(r["zero_cov"]))
            if res["executed"] != r["want_executed"] or not res["executed"]:
                ctx.note_inconclusive("replay of %s executed %s of %s sampled edges" % (c["name"], res["executed"], r["want_executed"]))
            edges_total += res["executed"]
            ctx.traces_validated += res["executed"]
            ctx.evaluations += res["evaluations"]
            add_counters(res, "replay_")
            per_cfg[c["name"]] = {"distinct": r["distinct"], "generated": r["generated"], "edges": r.get("edges"),
                                  "replayed": res["executed"], "tlc_s": r["wall_s"]}
            if len(ctx.samples) < 2:
                ctx.add_samples(res["samples"][:1])
            for m in res["mismatches"]:
                ctx.violation({"dir": "replay", "kind": c["model"]["kind"], "agg": c["model"]["agg"], "clause": "panic"}, replay=m)
            replay_traces.append(trace)
    ctx.extra["edges_replayed"] = edges_total
    ctx.extra["configs"] = per_cfg
    ctx.extra["zero_coverage"] = sorted(zero_cov or [])
    if zero_cov:
        ctx.note_inconclusive("TLC coverage: actions never taken in any covered configuration: %s" % sorted(zero_cov))

    # ---- code -> spec: seeded random long histories
    n = 400 if thorough else 30
    rtrace = os.path.join(ctx.work, "random.ndjson")
    resf = os.path.join(ctx.work, "random.json")
    ctx.run([binp, "random", "-n", str(n), "-out", rtrace, "-res", resf], timeout=2400)
    rres = json.load(open(resf))
    add_counters(rres, "random_")
    ctx.traces_validated += rres["counters"].get("stream_traces", 0)
    ctx.evaluations += rres["evaluations"]
    ctx.extra["random_scenarios"] = n
    ctx.add_samples(rres["samples"][:1])
    for m in rres["mismatches"]:
        ctx.violation({"dir": "random", "clause": "panic"}, replay=m)

    # ---- TLC validates everything the real code reported (both directions), in parallel chunks
    allreplay = os.path.join(ctx.work, "replay-all.ndjson")
    with open(allreplay, "w") as out:
        for t in replay_traces:
            with open(t) as f:
                for line in f:
                    out.write(line)
            os.remove(t)  # (the traces of a thorough run are gigabytes: keep one copy, and only while needed)
    jobs = [("replay", p) for p in split_trace(allreplay, 30000, os.path.join(ctx.work, "chunk-replay"))]
    os.remove(allreplay)
    jobs += [("random", p) for p in split_trace(rtrace, 6000, os.path.join(ctx.work, "chunk-random"))]
    lines_validated = 0
    with ThreadPoolExecutor(par) as ex:
        results = list(ex.map(lambda t: validate(t[1][0], t[1][1], t[0]), enumerate(jobs)))
    for direction, chunk, viols, accepted in results:
        lines_validated += accepted
        if not viols:
            continue
        lines = open(chunk).read().splitlines()
        seen = set()
        for v in sorted(viols, key=lambda x: x.get("line", 0)):
            k = (v.get("sc"), v.get("rd"), v.get("a"), v.get("clause"))
            if k in seen:
                continue  # later cycles of the same stream repeat the first deviation
            seen.add(k)
            scen = []
            i = v["line"] - 1
            while i >= 0:
                rec = json.loads(lines[i])
                scen.append(rec)
                if rec["ev"] == "New":
                    break
                i -= 1
            scen.reverse()
            ctx.violation(sig_of(direction, scen[0], v, scen), replay={"scenario": scen, "viol": v})
    ctx.extra["trace_lines_validated"] = lines_validated

    # ---- vacuity: the interesting regimes were reached on the real code
    need = ["replay_delta_points", "replay_cum_points", "replay_cum_only_points", "replay_set_reappears_after_gap",
            "replay_delta_start_eq_previous_time", "replay_delta_start_after_gap", "replay_expo_negative_scale_points",
            "random_delta_points", "random_cum_only_points", "random_set_reappears_after_gap", "random_register",
            "random_unregister", "random_delta_start_eq_previous_time", "random_delta_start_after_gap",
            "random_expo_negative_scale_points", "replay_overlapped_pairs", "random_overlapped_pairs",
            "replay_deferred_projections", "replay_wide_cumulative_rescaled_between_cycles",
            "replay_wide_delta_and_cumulative_at_different_scales", "random_wide_bursts",
            "random_wide_cumulative_rescaled_between_cycles", "replay_twin_first_measurements",
            "replay_mid_collection_measurements", "random_twin_first_measurements", "random_mid_collection_measurements",
            "random_concurrent_batches", "replay_callback_error_points", "replay_aborted_collection_points",
            "random_callback_error_points", "random_aborted_collection_points"]
    for k in need:
        if not counters.get(k):
            ctx.note_inconclusive("vacuity: counter %s is zero" % k)
    for k in ("replay_otel_errors", "random_otel_errors", "replay_unknown_metrics", "random_unknown_metrics"):
        if counters.get(k):
            ctx.note_inconclusive("harness: %s = %d (the SDK reported errors / unknown metrics)" % (k, counters[k]))
    ctx.assumptions += [
        "attribute sets 1..na stand for the representatives in harness/c08 (empty set, strings, ints, bool+slice)",
        "measurement values are small multiples of 1/4 (exact in float64); values are compared exactly",
        "each attribute set is observed at most once per cycle (by callback a % ncb), as the statement presumes",
        "asynchronous running totals restart in a cycle that does not observe the set (the only reading under which "
        "'delta = observed - previously observed, zero if not observed then' and 'cumulative = running total' agree)",
        "timestamps are compared structurally among the SDK's own timestamps (equality with the reader's previous Time, "
        "start fixed per attribute set, <=); the start of the first delta interval ('creation') is not observable",
        "exponential buckets are compared after re-scaling to the coarser of the two scales; the scale itself is free",
    ]
    ctx.extra["rule"] = ("edges: every Collect transition of Temporality.tla for each configuration (path from the initial "
                         "state + the collection point); random: one trace per (scenario, stream); a case is distinct by "
                         "(configuration, operation sequence, callback tables)")
