"""C05 -- attribute sets are canonical (AttrModel.tla / AttrSet.tla).

spec -> code : TLC explores AttrSet.tla (caller's slice, current Set, StreamTable keyed by
               Equivalent()) exhaustively for several small configurations and by -simulate for 12 keys
               and lists of 16..30 items (crossing the 10/11 fixed-array / reflect boundary); every edge is
               replayed by harness/c05 on the real attribute package and every component of the projection
               (ToSlice, caller's slice, filtered-out items, Len, Value/HasValue, Iter, merge sequence,
               Equals both ways, Equivalent() in a real Go map) is compared with the spec's successor.
               AttrIter.tla: iterator HISTORIES -- several Iterator / MergeIterator variables over immutable Sets,
               every sequence of Next / Attribute / IndexedAttribute / Label / IndexedLabel / Len / ToSlice the
               documentation allows up to a bound; each edge carries the set of admitted return values and the
               real return value of every call is compared with it.
               A "sizes" configuration drives every distinct-count 0..13 through every constructor and through
               Set.Filter (one fixed-size array type per count up to 10, reflection beyond); vacuity counters per
               count must be non-zero.
code -> spec : harness/c05 runs seeded random programs (up to 49 keys, lists up to 500 items, all eight value
               types incl. NaN, +-0, empty/nil and very long slices, permuted / duplicated variants of earlier
               lists, all filter kinds, long random iterator call sequences over Sets of 0..40 attributes, size
               sweeps); TLC validates every recorded observation against AttrModel via Trace_AttrSet.tla.
concurrent   : Sets are immutable values shared between goroutines: 8..32 goroutines observe the same Sets, build
               fresh ones and encode with the shared default encoder at once; every DISTINCT observation is
               validated by TLC with the same clauses (a concurrent observation must equal the sequential result).
               No verdict from timing. Thorough tier: the same phase once more under -race (auxiliary monitor).
"""
import glob
import json
import os
import re

S = "AttrSet"


def val(t, *x):
    return '[t |-> "%s", x |-> <<%s>>]' % (t, ", ".join('"%s"' % a for a in x))


def pred(kind, ks=(), ts=()):
    return '[kind |-> "%s", ks |-> <<%s>>, ts |-> <<%s>>]' % (
        kind, ", ".join(str(k) for k in ks), ", ".join('"%s"' % t for t in ts))


def tset(items):
    return "{%s}" % ", ".join(items)


I1, SA, SE = val("i64", "1"), val("str", "a"), val("str", "")
FNAN, FP0, FN0 = val("f64", "nan"), val("f64", "p0"), val("f64", "n0")
FSNAN, FSE, FS1 = val("f64s", "nan"), val("f64s"), val("f64s", "1")
ISE, BSE, SSE, BT, SS1, IS1 = val("i64s"), val("bools"), val("strs", ""), val("bool", "T"), val("strs", "a"), val("i64s", "1")

PREDS3 = [pred("allow", (1,)), pred("allow", (2, 3)), pred("deny", (1,)), pred("deny", (3, 2)), pred("none"),
          pred("type", ts=("i64",))]
PREDS_FULL = PREDS3 + [pred("nil"), pred("all"), pred("allow"), pred("deny"), pred("allow", (1, 2, 3)),
                       pred("type", ts=("str", "strs"))]


def configs(tier):
    th = tier == "thorough"
    c = []
    # constructors: every list of <= MAXLIST items over 3 keys (incl. the empty key) x 2 values,
    # every way of building, every predicate
    c.append(dict(name="ctor-deep", NKEYS=3, VALS=tset([I1, SA]), PREDS=tset(PREDS_FULL if th else PREDS3),
                  OPS='{"Push","New","NewF"}', MAXLIST=5 if th else 4, MAXOPS=1))
    # one value of every type, incl. the awkward ones
    c.append(dict(name="ctor-wide", NKEYS=2, VALS=tset([BT, I1, FNAN, SE, BSE, IS1, FSNAN, SSE] + ([FN0, FP0, FSE, SS1] if th else [])),
                  PREDS=tset(PREDS3[:4] + [pred("type", ts=("f64", "f64s", "bools"))]),
                  OPS='{"Push","New","NewF"}', MAXLIST=2, MAXOPS=1))
    # identity: Equals / Equivalent() as a map key for values whose Go equality is suspicious
    c.append(dict(name="table", NKEYS=1, VALS=tset([FNAN, FP0, FN0, FSNAN, FSE, ISE] + ([FS1, BSE] if th else [])),
                  PREDS=tset([pred("none")]), OPS='{"Push","New","Record","Cmp"}', MAXLIST=1, MAXOPS=6 if th else 5))
    # filtering and merging an existing Set
    c.append(dict(name="filter-merge", NKEYS=3, VALS=tset([I1, SS1]), PREDS=tset(PREDS_FULL),
                  OPS='{"Push","New","Filter","Merge"}', MAXLIST=3 if th else 2, MAXOPS=3))
    # everything together
    c.append(dict(name="mixed", NKEYS=2, VALS=tset([I1, FSNAN] + ([SE] if th else [])), PREDS=tset(PREDS3[:3] + [pred("type", ts=("f64s",))]),
                  OPS='{"Push","New","NewF","Filter","Merge","Cmp","Record"}', MAXLIST=2, MAXOPS=4 if th else 3))
    for x in c:
        x.setdefault("MINLIST", 0)
    return c


def attr(k, v):
    return "[k |-> %d, %s" % (k, v[1:])


def seq(items):
    return "<<%s>>" % ", ".join(items)


def bulks():
    """Prepared slices for the sizes configuration: n = 1..13 distinct keys in scrambled order plus
    superseded duplicates (two shapes per n)."""
    out = []
    for n in range(1, 14):
        desc = [attr(k, I1 if k % 2 else SA) for k in range(n, 0, -1)]
        out.append(seq([attr(1, SA), attr(n, SA)] + desc))                      # duplicates first, keys descending
        odd_even = [attr(k, SA if k % 3 else I1) for k in list(range(1, n + 1, 2)) + list(range(2, n + 1, 2))]
        mid = len(odd_even) // 2
        out.append(seq(odd_even[:mid] + [attr((n + 1) // 2, I1)] + odd_even[mid:] + ([] if n < 3 else [attr(2, I1)])))
    return tset(out)


NSIZE = 13
SIZE_PREDS = ([pred("allow", range(1, k + 1)) for k in range(0, NSIZE + 1)]
              + [pred("deny", range(k + 1, NSIZE + 1)) for k in range(0, NSIZE + 1)] + [pred("nil"), pred("none")])
SIZES = dict(name="sizes", NKEYS=NSIZE, VALS=tset([I1, SA]), PREDS=tset(SIZE_PREDS), OPS='{"Bulk","New","NewF","Filter"}',
             MAXLIST=0, MINLIST=0, MAXOPS=2, BULKS=None)

# constructor routes: every value class (incl. empty slices of all four kinds) written through every pair of routes
ROUTES = dict(name="routes", NKEYS=1,
              VALS=tset([BT, I1, val("i64", "-9223372036854775808"), FNAN, FP0, FN0, SA, SE, BSE, ISE, FSE, val("strs"), SSE,
                         val("bools", "T", "F"), IS1, val("i64s", "1", "-1"), FS1, FSNAN, SS1]),
              PREDS=tset([pred("none")]), OPS='{"Twin"}', MAXLIST=0, MINLIST=0, MAXOPS=1)

# ---- iterator histories (AttrIter.tla)
A1, A2, A3, A4 = attr(1, I1), attr(2, SA), attr(3, FSNAN), attr(4, BT)
B2, B3, B1 = attr(2, I1), attr(3, SE), attr(1, SS1)
S0, S1, S2, S3, S4 = seq([]), seq([A2]), seq([A1, A3]), seq([A1, A2, A4]), seq([A1, A2, A3, A4])


def pair(a, b):
    return "<<%s, %s>>" % (a, b)


PAIRS = [pair(S0, S0), pair(S0, S2), pair(S2, S0), pair(S1, seq([B2])), pair(S2, seq([B2])), pair(seq([B2]), S2),
         pair(S3, seq([B1, B3])), pair(seq([B1, B3]), S3), pair(S2, S2), pair(seq([A1]), seq([A4])), pair(seq([A4]), seq([A1]))]


def iter_configs(tier):
    th = tier == "thorough"
    c = [
        # one iterator: every history of up to MAXOPS calls (walk past the end, slices midway / twice, ...)
        dict(name="iter-one", SETS=tset([S0, S1, S2, S3, S4]), PAIRS="{}", NIT=1, MAXOPS=12 if th else 10),
        # two iterators over the same / different Sets, interleaved
        dict(name="iter-two", SETS=tset([S0, S1, S2, S3]), PAIRS="{}", NIT=2, MAXOPS=8 if th else 7),
        # merge iterators: empty / exhausted operands, equal keys (first Set wins), interleaved keys
        dict(name="iter-merge", SETS="{}", PAIRS=tset(PAIRS), NIT=1, MAXOPS=10 if th else 8),
        # a merge iterator next to a plain one over one of its operands
        dict(name="iter-mixed", SETS=tset([S2]), PAIRS=tset([PAIRS[4], PAIRS[5], PAIRS[1]]), NIT=2, MAXOPS=8 if th else 7),
    ]
    if th:
        c.append(dict(name="iter-three", SETS=tset([S0, S1, S2]), PAIRS=tset([PAIRS[4]]), NIT=3, MAXOPS=7))
    return c


SIM = dict(name="sim-boundary", NKEYS=12, VALS=tset([I1, SA]), PREDS=tset([pred("allow", (1, 5, 9, 12)), pred("deny", (2, 11))]),
           OPS='{"Push","New","NewF","Filter","Merge","Cmp","Record"}', MAXLIST=30, MINLIST=16, MAXOPS=4)


def defines(c):
    d = {k: c[k] for k in ("NKEYS", "VALS", "PREDS", "OPS", "MAXLIST", "MINLIST", "MAXOPS")}
    d["BULKS"] = c.get("BULKS") or "{}"
    d["NROUTES"] = NROUTES["tla"]
    return d


NROUTES = {"tla": "[bool |-> 1]"}


def merge_counters(ctx, name, counters):
    cnt = ctx.extra.setdefault(name, {})
    for k, v in counters.items():
        cnt[k] = cnt.get(k, 0) + v
    return cnt


def replay_iter_edges(ctx, binp, c, r, reps):
    total = 0
    for rep in reps:
        out = os.path.join(ctx.work, "replay-%s-%d.json" % (c["name"], rep))
        ctx.run([binp, "iter", "-edges", r["edges_file"], "-nkeys", "4", "-rep", str(rep), "-out", out], timeout=1800)
        res = json.load(open(out))
        total += res["executed"]
        ctx.traces_validated += res["executed"]
        ctx.evaluations += res["evaluations"]
        merge_counters(ctx, "iter_replay_counters", res["counters"])
        ctx.add_samples(res["samples"][:1], cap=4)
        for m in res["mismatches"]:
            sig = {"dir": "replay", "cfg": c["name"]}
            sig.update(m["case"])
            ctx.violation(sig, replay={"acts": (m.get("path") or []) + [m.get("act")], "keys_rep": rep,
                                       "admitted": m.get("want"), "got": m.get("got"), "detail": m.get("detail")})
        for s in res["inconclusive"]:
            ctx.note_inconclusive(s)
    return total


def trace_violations(ctx, viols, trace, direction):
    """Classify the VIOL lines of one validated trace into signatures (matched against known findings)."""
    lines = None
    for v in viols:
        if "raw" in v:
            ctx.note_inconclusive("unparsable VIOL line: %s" % v["raw"][:200])
            continue
        if lines is None:
            lines = open(trace).read().splitlines()
        # scenario = its New line + every line of the scenario up to the failing one
        scen = []
        i = v["line"] - 1
        while i >= 0:
            rec = json.loads(lines[i])
            scen.append(rec)
            if rec["ev"] == "New":
                break
            i -= 1
        scen.reverse()
        d = direction
        if scen and scen[-1].get("conc"):
            d = direction + "-concurrent-phase"
        elif direction != "random":
            d = direction + "-setup"
        short = scen if len(scen) <= 40 else scen[:1] + scen[-8:]
        ctx.violation({"dir": d, "why": v["kind"], "ev": v["ev"], "nan_f64slice": v["nanslice"]},
                      replay={"scenario": clip(short), "line": v["line"]})


def clip(x, n=400):
    """Shorten very long strings (wide values) inside a replay artefact."""
    if isinstance(x, str):
        return x if len(x) <= n else x[:n // 2] + "...[%d chars]..." % len(x) + x[-n // 4:]
    if isinstance(x, list):
        return [clip(e, n) for e in x]
    if isinstance(x, dict):
        return {k: clip(e, n) for k, e in x.items()}
    return x


def conc_phase(ctx, binp, name, g_ops_enc, race=False):
    """Goroutines sharing immutable Sets; every distinct observation validated by TLC."""
    trace = os.path.join(ctx.work, name + ".ndjson")
    resf = os.path.join(ctx.work, name + ".json")
    env = {}
    if race:
        for f in glob.glob(os.path.join(ctx.work, "race-report.*")):
            os.remove(f)
        env["GORACE"] = "halt_on_error=0 exitcode=0 log_path=%s" % os.path.join(ctx.work, "race-report")
    g, ops, enc = g_ops_enc
    ctx.run([binp, "conc", "-g", str(g), "-ops", str(ops), "-enc", str(enc), "-out", trace, "-res", resf], timeout=1800, env=env)
    res = json.load(open(resf))
    for m in res["mismatches"]:
        ctx.violation({"dir": name, "why": "panic"}, replay=m)
    viols, accepted = ctx.validate_trace(S, "Trace_AttrSet", "Trace_AttrSet.cfg", trace, timeout=3000, name="trace-" + name)
    ctx.traces_validated += res["counters"].get("conc_distinct_observations", 0)
    ctx.evaluations += res["counters"].get("conc_observations", 0)
    ctx.extra[name + "_counters"] = {k: v for k, v in res["counters"].items() if "size_" not in k}
    ctx.extra[name + "_trace_lines_validated"] = accepted
    trace_violations(ctx, viols, trace, name)
    need = ["conc_ev_Obs", "conc_ev_Cmp", "conc_ev_Filter", "conc_ev_Merge", "conc_ev_Script", "conc_ev_Build", "conc_ev_Enc",
            "conc_cmp_equal", "conc_cmp_unequal", "conc_filters_with_dropped"]
    missing = [k for k in need if not res["counters"].get(k)]
    if missing:
        ctx.note_inconclusive("%s never did: %s" % (name, missing))
    if race:
        reports = []
        for f in sorted(glob.glob(os.path.join(ctx.work, "race-report.*"))):
            reports += [b for b in open(f, errors="replace").read().split("==================") if "DATA RACE" in b]
        ctx.extra["race_reports"] = len(reports)
        for b in reports:
            frames = re.findall(r"go\.opentelemetry\.io/otel/attribute\.([^\s(]*\(?[^\s()]*\)?[^\s(]*)\(", b)
            if frames:
                # a race inside the attribute package while goroutines only READ shared Sets / use the shared encoder
                ctx.violation({"dir": "race", "why": "data-race", "in": frames[0]}, replay={"report": b[:6000]})
            else:
                ctx.note_inconclusive("race report without attribute-package frames (harness?): %s" % b[:300])
    return res


def replay_edges(ctx, binp, c, r, reps, sample=0):
    total = 0
    for rep in reps:
        out = os.path.join(ctx.work, "replay-%s-%d.json" % (c["name"], rep))
        cmd = [binp, "replay", "-edges", r["edges_file"], "-nkeys", str(c["NKEYS"]), "-rep", str(rep), "-out", out]
        if sample:
            cmd += ["-sample", str(sample)]
        ctx.run(cmd, timeout=1800)
        res = json.load(open(out))
        total += res["executed"]
        ctx.traces_validated += res["executed"]
        ctx.evaluations += res["evaluations"]
        cnt = ctx.extra.setdefault("replay_counters", {})
        for k, v in res["counters"].items():
            cnt[k] = cnt.get(k, 0) + v
        ctx.add_samples(res["samples"][:1], cap=3)
        for m in res["mismatches"]:
            sig = {"dir": "replay", "cfg": c["name"]}
            sig.update(m["case"])
            ctx.violation(sig, replay={"acts": (m.get("path") or []) + [m.get("act")], "keys_rep": rep,
                                       "want": m.get("want"), "got": m.get("got"), "detail": m.get("detail")})
        for s in res["inconclusive"]:
            ctx.note_inconclusive(s)
    return total


def run(ctx):
    th = ctx.tier == "thorough"
    binp = ctx.go_build("c05")
    # ---- model-level theorems: permutation / duplication invariance of Canon, partition laws
    ctx.tlc(S, "MC_AttrTheorems", "MC_AttrTheorems.cfg", defines={"MAXLEN": 5 if th else 4}, name="theorems")
    # ---- spec -> code, exhaustive
    reps = range(5) if th else [ctx.seed % 5]
    edges = 0
    zero = None
    SIZES["BULKS"] = bulks()
    # the number of constructor routes per type is the harness' table (one source)
    nr = json.loads(ctx.run([binp, "routes"]).stdout)
    NROUTES["tla"] = "[%s]" % ", ".join("%s |-> %d" % (t, n) for t, n in sorted(nr.items()))
    ctx.extra["constructor_routes"] = nr
    for c in configs(ctx.tier) + [SIZES, ROUTES]:
        r = ctx.tlc(S, "MC_AttrSet", "MC_AttrSet.cfg", defines=defines(c), want_edges=True, name=c["name"],
                    timeout=2400, coverage=True)
        zero = set(r["zero_cov"]) if zero is None else zero & set(r["zero_cov"])
        edges += replay_edges(ctx, binp, c, r, reps)
    ctx.extra["zero_coverage_actions"] = sorted(zero)      # actions no configuration ever took
    # every distinct-count 0..12 through every constructor and Filter (with and without removed attributes)
    rc = ctx.extra.get("replay_counters", {})
    missing = ["size_%s_%d" % (route, n) for route in ("New", "NewF", "NewFDrop", "Filter", "FilterDrop") for n in range(0, 13)
               if not rc.get("size_%s_%d" % (route, n))]
    # filters of 0..12 keys (both sides of any small-set threshold), allow and deny, through NewSetWithFiltered and Set.Filter
    missing += ["fkeys_%s_%s_%d" % (op, kind, n) for op in ("NewF", "Filter") for kind in ("allow", "deny") for n in range(0, 13)
                if not rc.get("fkeys_%s_%s_%d" % (op, kind, n))]
    # every pair of constructor routes of every type
    missing += ["twin_%s_%d_%d" % (t, a, b) for t, n in nr.items() for a in range(1, n + 1) for b in range(a + 1, n + 1)
                if not rc.get("twin_%s_%d_%d" % (t, a, b))]
    if missing:
        ctx.note_inconclusive("edge replay never produced: %s" % missing[:40])
    for k in [k for k in rc if k.startswith("twin_") or k.startswith("fkeys_")]:
        ctx.extra.setdefault("replay_route_filter_counters", {})[k] = rc.pop(k)
    ctx.extra["replay_sizes_hit"] = {route: [rc.get("size_%s_%d" % (route, n), 0) for n in range(0, 14)]
                                     for route in ("New", "NewF", "NewFDrop", "Filter", "FilterDrop")}
    # ---- spec -> code, iterator histories
    izero = None
    iedges = 0
    for c in iter_configs(ctx.tier):
        r = ctx.tlc(S, "MC_AttrIter", "MC_AttrIter.cfg", defines={k: c[k] for k in ("SETS", "PAIRS", "NIT", "MAXOPS")},
                    want_edges=True, name=c["name"], timeout=2400, coverage=True)
        izero = set(r["zero_cov"]) if izero is None else izero & set(r["zero_cov"])
        iedges += replay_iter_edges(ctx, binp, c, r, reps)
    ctx.extra["iter_zero_coverage_actions"] = sorted(izero)
    ctx.extra["iter_edges_replayed"] = iedges
    edges += iedges
    ic = ctx.extra.get("iter_replay_counters", {})
    need = ["iterop_Next", "iterop_AttrAttribute", "iterop_AttrIndexedAttribute", "iterop_AttrLabel", "iterop_AttrIndexedLabel",
            "iterop_Len", "iterop_ToSlice", "toslice_after_next", "toslice_after_toslice", "iter_edges_two_iterators",
            "iter_edges_with_alternatives"]
    missing = [k for k in need if not ic.get(k)]
    if missing or izero:
        ctx.note_inconclusive("iterator replay never did: %s; actions never taken: %s" % (missing, sorted(izero)))
    # ---- spec -> code, -simulate across the 10/11-element boundary
    nsim = 60 if th else 8
    r = ctx.tlc(S, "MC_AttrSet", "MC_AttrSet.cfg", defines=defines(SIM), want_edges=True, name=SIM["name"],
                simulate="num=%d" % nsim, depth=140, timeout=2400, count=False)
    edges += replay_edges(ctx, binp, SIM, r, [ctx.seed % 5])
    ctx.extra["edges_replayed"] = edges
    ctx.extra["sim_behaviours"] = nsim
    # ---- code -> spec
    n = 5000 if th else 400
    nlong = 12 if th else 2
    trace = os.path.join(ctx.work, "trace.ndjson")
    resf = os.path.join(ctx.work, "random.json")
    ctx.run([binp, "random", "-n", str(n), "-long", str(nlong), "-out", trace, "-res", resf], timeout=1800)
    res = json.load(open(resf))
    for m in res["mismatches"]:
        ctx.violation({"dir": "random", "why": "panic"}, replay=m)
    viols, accepted = ctx.validate_trace(S, "Trace_AttrSet", "Trace_AttrSet.cfg", trace, timeout=3000)
    ctx.traces_validated += n
    ctx.evaluations += accepted
    ctx.extra["random_programs"] = n
    ctx.extra["trace_lines_validated"] = accepted
    ctx.extra["random_counters"] = {k: v for k, v in res["counters"].items() if "size_" not in k and "fkeys_" not in k}
    trace_violations(ctx, viols, trace, "random")
    # vacuity of the random driver: the interesting regimes must have been reached
    need = ["sets_len_9_10_fixed", "sets_len_11_12_reflect", "sets_len_13_up", "builds_with_superseded",
            "builds_with_dropped", "filters_with_dropped", "cmp_equal", "cmp_unequal", "record_hits", "long_lists",
            "iter_open_set", "iter_open_merge", "iter_Next", "iter_next_false", "iter_Attribute", "iter_IndexedAttribute",
            "iter_Label", "iter_IndexedLabel", "iter_Len", "iter_ToSlice", "iter_toslice_midway", "sweeps",
            "marshal_json_decoded", "twins", "twin_cmp_equal"]
    need += ["fkeys_%s_%s_%d" % (op, kind, k) for op in ("NewF", "Filter") for kind in ("allow", "deny") for k in range(0, 13)]
    need += ["size_%s_%d" % (route, k) for route in ("New", "NewF", "NewFDrop", "Filter", "FilterDrop") for k in range(0, 13)]
    missing = [k for k in need if not res["counters"].get(k)]
    if missing:
        ctx.note_inconclusive("random driver never reached: %s" % missing)
    ctx.extra["random_sizes_hit"] = {route: [res["counters"].get("size_%s_%d" % (route, k), 0) for k in range(0, 14)]
                                     for route in ("New", "NewF", "NewFDrop", "Filter", "FilterDrop")}
    # ---- concurrent use of immutable Sets (code -> spec, same oracle)
    conc_phase(ctx, binp, "conc", (0, 1200 if th else 400, 60000 if th else 20000))
    if th:
        conc_phase(ctx, binp, "conc-g32", (32, 600, 30000))
        conc_phase(ctx, binp, "conc-g8", (8, 600, 60000))
        # auxiliary monitor: the same phase under the race detector (goroutines only read shared Sets)
        binr = ctx.go_build("c05", race=True)
        conc_phase(ctx, binr, "conc-race", (0, 200, 1500), race=True)
    ctx.assumptions += [
        "key ranks stand for the keys of the authored tables in harness/c05/values.go (byte order checked at start-up)",
        "the text of a non-string value in the default encoding is Value.Emit() of the free-standing value; "
        "escaped texts of keys and strings come from authored tables",
        "+0 / -0 inside a FLOAT64SLICE may or may not be the same value (statement silent); everything else bit-exact",
        "INVALID-typed values (zero Value) are outside the statement's eight types and are not generated",
        "iterator accessors (Attribute, IndexedAttribute, Label, IndexedLabel) are called only where documented (after Next "
        "returned true); where ToSlice leaves the iterator is not documented: every position is admitted afterwards and "
        "later return values must be explained by one of them",
        "concurrent phase: detection by volume, the schedule is not controlled (the package runs no user code while "
        "encoding); a concurrent observation of an immutable Set must equal the sequential result; -race (thorough) is an "
        "auxiliary monitor, not model checking",
    ]
    ctx.extra["rule"] = ("edges: every transition of AttrSet.tla for the listed configs (+ -simulate behaviours at 12 keys); "
                         "iterator edges: every transition of AttrIter.tla; random: seeded programs; a case is distinct by "
                         "(key table, action sequence); concurrent: distinct (event, operands, observation) triples")
