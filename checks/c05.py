"""C05 -- attribute sets are canonical (AttrModel.tla / AttrSet.tla).

spec -> code : TLC explores AttrSet.tla (caller's slice, current Set, StreamTable keyed by
               Equivalent()) exhaustively for several small configurations and by -simulate for 12 keys
               and lists of 16..30 items (crossing the 10/11 fixed-array / reflect boundary); every edge is
               replayed by harness/c05 on the real attribute package and every component of the projection
               (ToSlice, caller's slice, filtered-out items, Len, Value/HasValue, Iter, merge sequence,
               Equals both ways, Equivalent() in a real Go map) is compared with the spec's successor.
code -> spec : harness/c05 runs seeded random programs (up to 49 keys, lists up to 500 items, all eight value
               types incl. NaN, +-0, empty/nil and very long slices, permuted / duplicated variants of earlier
               lists, all filter kinds); TLC validates every recorded observation against AttrModel via
               Trace_AttrSet.tla.
"""
import json
import os

S = "AttrSet"


def val(t, *x):
    return '[t |-> "%s", x |-> <<%s>>]' % (t, ", ".join('"%s"' % a for a in x))


def pred(kind, ks=(), ts=()):
    return '[kind |-> "%s", ks |-> <<%s>>, ts |-> <<%s>>]' % (
        kind, ", ".join(str(k) for k in ks), ", ".join('"%s"' % t for t in ts))


def tset(items):
    return "{%s}" % ", ".join(items)


I1, SA, SE = val("i64", "1"), val("str", "a"), val("str", "")
FNAN, FP0, FN0 = val("f64", "nan"), val("f64", "p0"), val("f64", "n0")
FSNAN, FSE, FS1 = val("f64s", "nan"), val("f64s"), val("f64s", "1")
ISE, BSE, SSE, BT, SS1, IS1 = val("i64s"), val("bools"), val("strs", ""), val("bool", "T"), val("strs", "a"), val("i64s", "1")

PREDS3 = [pred("allow", (1,)), pred("allow", (2, 3)), pred("deny", (1,)), pred("deny", (3, 2)), pred("none"),
          pred("type", ts=("i64",))]
PREDS_FULL = PREDS3 + [pred("nil"), pred("all"), pred("allow"), pred("deny"), pred("allow", (1, 2, 3)),
                       pred("type", ts=("str", "strs"))]


def configs(tier):
    th = tier == "thorough"
    c = []
    # constructors: every list of <= MAXLIST items over 3 keys (incl. the empty key) x 2 values,
    # every way of building, every predicate
    c.append(dict(name="ctor-deep", NKEYS=3, VALS=tset([I1, SA]), PREDS=tset(PREDS_FULL if th else PREDS3),
                  OPS='{"Push","New","NewF"}', MAXLIST=5 if th else 4, MAXOPS=1))
    # one value of every type, incl. the awkward ones
    c.append(dict(name="ctor-wide", NKEYS=2, VALS=tset([BT, I1, FNAN, SE, BSE, IS1, FSNAN, SSE] + ([FN0, FP0, FSE, SS1] if th else [])),
                  PREDS=tset(PREDS3[:4] + [pred("type", ts=("f64", "f64s", "bools"))]),
                  OPS='{"Push","New","NewF"}', MAXLIST=2, MAXOPS=1))
    # identity: Equals / Equivalent() as a map key for values whose Go equality is suspicious
    c.append(dict(name="table", NKEYS=1, VALS=tset([FNAN, FP0, FN0, FSNAN, FSE, ISE] + ([FS1, BSE] if th else [])),
                  PREDS=tset([pred("none")]), OPS='{"Push","New","Record","Cmp"}', MAXLIST=1, MAXOPS=6 if th else 5))
    # filtering and merging an existing Set
    c.append(dict(name="filter-merge", NKEYS=3, VALS=tset([I1, SS1]), PREDS=tset(PREDS_FULL),
                  OPS='{"Push","New","Filter","Merge"}', MAXLIST=3 if th else 2, MAXOPS=3))
    # everything together
    c.append(dict(name="mixed", NKEYS=2, VALS=tset([I1, FSNAN] + ([SE] if th else [])), PREDS=tset(PREDS3[:3] + [pred("type", ts=("f64s",))]),
                  OPS='{"Push","New","NewF","Filter","Merge","Cmp","Record"}', MAXLIST=2, MAXOPS=4 if th else 3))
    for x in c:
        x.setdefault("MINLIST", 0)
    return c


SIM = dict(name="sim-boundary", NKEYS=12, VALS=tset([I1, SA]), PREDS=tset([pred("allow", (1, 5, 9, 12)), pred("deny", (2, 11))]),
           OPS='{"Push","New","NewF","Filter","Merge","Cmp","Record"}', MAXLIST=30, MINLIST=16, MAXOPS=4)


def defines(c):
    return {k: c[k] for k in ("NKEYS", "VALS", "PREDS", "OPS", "MAXLIST", "MINLIST", "MAXOPS")}


def replay_edges(ctx, binp, c, r, reps, sample=0):
    total = 0
    for rep in reps:
        out = os.path.join(ctx.work, "replay-%s-%d.json" % (c["name"], rep))
        cmd = [binp, "replay", "-edges", r["edges_file"], "-nkeys", str(c["NKEYS"]), "-rep", str(rep), "-out", out]
        if sample:
            cmd += ["-sample", str(sample)]
        ctx.run(cmd, timeout=1800)
        res = json.load(open(out))
        total += res["executed"]
        ctx.traces_validated += res["executed"]
        ctx.evaluations += res["evaluations"]
        cnt = ctx.extra.setdefault("replay_counters", {})
        for k, v in res["counters"].items():
            cnt[k] = cnt.get(k, 0) + v
        ctx.add_samples(res["samples"][:1], cap=3)
        for m in res["mismatches"]:
            sig = {"dir": "replay", "cfg": c["name"]}
            sig.update(m["case"])
            ctx.violation(sig, replay={"acts": (m.get("path") or []) + [m.get("act")], "keys_rep": rep,
                                       "want": m.get("want"), "got": m.get("got"), "detail": m.get("detail")})
        for s in res["inconclusive"]:
            ctx.note_inconclusive(s)
    return total


def run(ctx):
    th = ctx.tier == "thorough"
    binp = ctx.go_build("c05")
    # ---- model-level theorems: permutation / duplication invariance of Canon, partition laws
    ctx.tlc(S, "MC_AttrTheorems", "MC_AttrTheorems.cfg", defines={"MAXLEN": 5 if th else 4}, name="theorems")
    # ---- spec -> code, exhaustive
    reps = range(5) if th else [ctx.seed % 5]
    edges = 0
    first = True
    for c in configs(ctx.tier):
        r = ctx.tlc(S, "MC_AttrSet", "MC_AttrSet.cfg", defines=defines(c), want_edges=True, name=c["name"],
                    timeout=2400, coverage=first)
        if first:
            ctx.extra["zero_coverage_actions"] = r["zero_cov"]
            first = False
        edges += replay_edges(ctx, binp, c, r, reps)
    # ---- spec -> code, -simulate across the 10/11-element boundary
    nsim = 60 if th else 8
    r = ctx.tlc(S, "MC_AttrSet", "MC_AttrSet.cfg", defines=defines(SIM), want_edges=True, name=SIM["name"],
                simulate="num=%d" % nsim, depth=140, timeout=2400, count=False)
    edges += replay_edges(ctx, binp, SIM, r, [ctx.seed % 5])
    ctx.extra["edges_replayed"] = edges
    ctx.extra["sim_behaviours"] = nsim
    # ---- code -> spec
    n = 5000 if th else 400
    nlong = 12 if th else 2
    trace = os.path.join(ctx.work, "trace.ndjson")
    resf = os.path.join(ctx.work, "random.json")
    ctx.run([binp, "random", "-n", str(n), "-long", str(nlong), "-out", trace, "-res", resf], timeout=1800)
    res = json.load(open(resf))
    for m in res["mismatches"]:
        ctx.violation({"dir": "random", "why": "panic"}, replay=m)
    viols, accepted = ctx.validate_trace(S, "Trace_AttrSet", "Trace_AttrSet.cfg", trace, timeout=3000)
    ctx.traces_validated += n
    ctx.evaluations += accepted
    ctx.extra["random_programs"] = n
    ctx.extra["trace_lines_validated"] = accepted
    ctx.extra["random_counters"] = res["counters"]
    lines = None
    for v in viols:
        if "raw" in v:
            ctx.note_inconclusive("unparsable VIOL line: %s" % v["raw"][:200])
            continue
        if lines is None:
            lines = open(trace).read().splitlines()
        # scenario = its New line + every line of the scenario up to the failing one
        scen = []
        i = v["line"] - 1
        while i >= 0:
            rec = json.loads(lines[i])
            scen.append(rec)
            if rec["ev"] == "New":
                break
            i -= 1
        scen.reverse()
        ctx.violation({"dir": "random", "why": v["kind"], "ev": v["ev"], "nan_f64slice": v["nanslice"]},
                      replay={"scenario": scen if len(scen) <= 40 else scen[:1] + scen[-8:], "line": v["line"]})
    # vacuity of the random driver: the interesting regimes must have been reached
    need = ["sets_len_9_10_fixed", "sets_len_11_12_reflect", "sets_len_13_up", "builds_with_superseded",
            "builds_with_dropped", "filters_with_dropped", "cmp_equal", "cmp_unequal", "record_hits", "long_lists"]
    missing = [k for k in need if not res["counters"].get(k)]
    if missing:
        ctx.note_inconclusive("random driver never reached: %s" % missing)
    ctx.assumptions += [
        "key ranks stand for the keys of the authored tables in harness/c05/values.go (byte order checked at start-up)",
        "the text of a non-string value in the default encoding is Value.Emit() of the free-standing value; "
        "escaped texts of keys and strings come from authored tables",
        "+0 / -0 inside a FLOAT64SLICE may or may not be the same value (statement silent); everything else bit-exact",
        "INVALID-typed values (zero Value) are outside the statement's eight types and are not generated",
    ]
    ctx.extra["rule"] = ("edges: every transition of AttrSet.tla for the listed configs (+ -simulate behaviours at 12 keys); "
                         "random: seeded programs; a case is distinct by (key table, action sequence)")
