"""C10, behaviour class "user code called by span / tracer / provider methods PANICS" (stage of checks/c10.py).

model      : SpanPanic.tla -- every method is a program of lock operations (`lockd` = Lock + deferred Unlock, `lock` = Lock +
             explicit Unlock on the return paths); user code at a natural gate returns or panics; the panic unwinds through the
             handler's deferred End and is recovered by the handler's caller. The scenario (gate, outcome, deferred End, one call
             before / during, one call after) is chosen in Init: ONE exhaustive TLC run enumerates every scenario with every
             lock-level interleaving and prints, per terminal state, the scenario and the predicted outcome (the test plan).
             Named deviations D8a-D8d (explicit unlock where user code can panic) must make TLC report LocksFree / Deadlock.
spec->code : the harness (`c10 panics -in`) executes every enumerated scenario on the real code; an execution that ran to its end
             must have one of the outcomes TLC predicts for that scenario (otherwise model drift: exit 2, never exit 1).
code->spec : every execution (enumerated + seeded random ones with more callers / ops) is judged by TLC against
             SpanPanicContract.tla (= SpanEndContract + UPanic / Unwind) through Trace_SpanPanic.tla.
"""
import json
import os

S = "SpanEnd"
GATES = ["err.Error", "panic.Format", "proc.OnEnd", "idgen", "sampler", "proc.OnStart", "proc.Shutdown", "proc.Shutdown.unreg",
         "proc.ForceFlush"]
OPS = ["End", "Mut", "IsRec", "Reg", "SD"]
PINNED = {"RECERRREL": "defer", "PANICFMT": "caught", "SDREL": "defer", "UNREGREL": "defer"}
DEVIATIONS = [("D8a-recorderror-explicit-unlock", {"RECERRREL": "explicit"}, ["err.Error"]),
              ("D8b-end-calls-panic-value-method-under-lock", {"PANICFMT": "direct"}, ["panic.Format"]),
              ("D8c-shutdown-explicit-unlock", {"SDREL": "explicit"}, ["proc.Shutdown"]),
              ("D8d-unregister-explicit-unlock", {"UNREGREL": "explicit"}, ["proc.Shutdown.unreg"])]


def tset(xs):
    return "{" + ", ".join(('"%s"' % x) if isinstance(x, str) else ("TRUE" if x else "FALSE") for x in xs) + "}"


def defs(shape, gates=GATES, ops1=OPS, ops2=OPS, phases=("before", "during")):
    d = dict(PINNED)
    d.update(shape)
    d.update({"GATES": tset(gates), "OUTS": tset(["ok", "panic"]), "DEFERS": tset([True, False]), "OPS1": tset(ops1),
              "PHASES1": tset(phases), "OPS2": tset(ops2)})
    return d


def stage(ctx, binp, harness):
    """Returns [(trace file, label)] to be validated with Trace_SpanPanic; fills ctx.extra['panics']."""
    thorough = ctx.tier == "thorough"
    info = {}
    ctx.extra["panics"] = info
    # ---- the model: pinned shapes clean; every named deviation found
    r = ctx.tlc(S, "MC_SpanPanic", "MC_SpanPanic.cfg", defines=defs({}), name="mc-panics", timeout=1800, heap="2g")
    for nm, shape, gates in DEVIATIONS:
        rd = ctx.tlc(S, "MC_SpanPanic", "MC_SpanPanic.cfg", defines=defs(shape, gates=gates, ops1=["End", "Reg"], ops2=["End", "Reg"]),
                     name="mc-panics-" + nm, timeout=600, must_pass=False, count=False, heap="2g")
        got = rd["violated"] or ("Deadlock" if "Deadlock" in (rd["error"] or "") else None)
        if got not in ("LocksFree", "Deadlock"):
            ctx.note_inconclusive("model drift: TLC no longer finds %s (got %s)" % (nm, got))
    # ---- the test plan: scenario -> set of predicted outcomes
    plan = {}
    for s in r["prints"]:
        if isinstance(s, str) and s.startswith("BEHAVIOUR "):
            b = json.loads(s[len("BEHAVIOUR "):])
            plan.setdefault(json.dumps(b["sc"], sort_keys=True), []).append(b)
    info["scenarios_enumerated"] = len(plan)
    info["terminal_states"] = sum(len(v) for v in plan.values())
    if not plan:
        ctx.note_inconclusive("MC_SpanPanic printed no BEHAVIOUR line")
    scen, expect = [], {}
    for i, (k, bs) in enumerate(sorted(plan.items())):
        s = bs[0]["sc"]
        name = "tlc-%d" % i
        expect[name] = bs
        scen.append({"name": name, "gate": s["gate"], "out": s["out"], "hdefer": s["hdefer"], "rt": (i + ctx.seed) % 2 == 0,
                     "recordOnly": i % 5 == 0, "flavor": ((i + ctx.seed) // 2) % 2,
                     "callers": [{"name": "c1", "op": s["op1"], "phase": s["ph1"]}, {"name": "c2", "op": s["op2"], "phase": "after"}]})
    sfile = os.path.join(ctx.work, "panics.json")
    json.dump(scen, open(sfile, "w"))
    traces = []
    tf, res = harness(binp, "panics", "panics", ["-in", sfile])
    traces.append((tf, "panics"))
    ctx.add_samples([{"panic_scenario": scen[0]}] if scen else [])
    # ---- spec -> code: an execution that ran to its end has an outcome the model predicts for its scenario
    nf = nd = 0
    for ln in open(tf):
        if '"EndScenario"' not in ln:
            continue
        rec = json.loads(ln)
        bs = expect.get(rec.get("name"))
        if bs is None or not rec["quiescent"]:
            continue
        nf += 1
        if not any(rec["handed"][:2] == b["handed"] and rec["raised"] == b["upanic"] for b in bs):
            nd += 1
            if nd <= 3:
                ctx.note_inconclusive("model drift: scenario %s ended with handed=%s raised=%s; SpanPanic.tla predicts %s" %
                                      (bs[0]["sc"], rec["handed"][:2], rec["raised"],
                                       sorted({(tuple(b["handed"]), b["upanic"]) for b in bs})))
    info["scenarios_with_predicted_outcome"] = nf
    info["scenarios_with_other_outcome_than_model"] = nd
    # ---- code -> spec: seeded random scenarios of the class
    n = 12000 if thorough else 1500
    tf, res = harness(binp, "panics", "panics-random", ["-n", str(n)], seed=ctx.seed * 1000 + 7)
    traces.append((tf, "panics-random"))
    info["random_scenarios"] = n
    return traces
