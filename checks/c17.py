"""C17 -- log records obey attribute count and value-length limits for every edit sequence.

spec -> code : TLC explores LogRecord.tla exhaustively for several small families of constants
               (de-duplication x count limit, truncation x overwrite at every nesting depth, clone
               independence, the 5-slot inline array boundary, every symbol string x every length
               limit) and prints every edge; harness/c17 replays each edge (path to the source state
               + the call) on a REAL sdk/log Record obtained through LoggerProvider/Logger.Emit and
               logs the projections of the real records before and after the call.
code -> spec : harness/c17 runs seeded random edit programs (Emit with duplicate keys, AddAttributes,
               SetAttributes, Clone, re-applying walked attributes; up to 13 keys, limits up to 9,
               nested values of depth 3, arbitrary valid/invalid UTF-8 symbol strings).
Both kinds of observation are validated by TLC (Trace_LogRecord.tla) against the conformance relation
of LogModel.tla; the python side only orchestrates and turns `VIOL` lines into verdicts.
"""
import json
import os

S = "LogRecord"
SYMS = ["a1", "m2", "m3", "m4", "fffd", "bad"]


# ---------------------------------------------------------------- TLA+ text builders
def q(s):
    return '"%s"' % s


def seq(items):
    return "<<" + ", ".join(items) + ">>"


def Str(*syms):
    return "Str(%s)" % seq(q(c) for c in syms)


def Scal(tag):
    return "Scal(%s)" % q(tag)


def Sl(*vals):
    return "Sl(%s)" % seq(vals)


def Mp(*kvs):
    return "Mp(%s)" % seq(kvs)


def KV(k, v):
    return "KV(%s, %s)" % (q(k), v)


def tset(items):
    items = list(dict.fromkeys(items))
    return "{" + ", ".join(items) + "}"


def lists_upto(attrs, n):
    out = [[]]
    frontier = [[]]
    for _ in range(n):
        frontier = [l + [a] for l in frontier for a in attrs]
        out += frontier
    return [seq(l) for l in out]


def tla_lim(L):
    return "[ac |-> %d, vl |-> %d]" % (L["ac"], L["vl"])


SHORT = Str("a1")
LONG = Str("m2", "fffd", "a1")            # 3 characters, 6 bytes
BADLONG = Str("a1", "bad", "m3", "a1")    # 3 characters + one invalid byte
INT = Scal("#i")
BYTES = Scal("#by")
SL_LONG = Sl(LONG, INT)
MP_DUP = Mp(KV("x", LONG), KV("x", Str("a1", "a1", "a1")), KV("y", SHORT))
SL_MP = Sl(Mp(KV("x", BADLONG), KV("x", INT)), SHORT)
MP_SL = Mp(KV("y", Sl(LONG, LONG)))


def all_strings(maxlen):
    out = [[]]
    frontier = [[]]
    for _ in range(maxlen):
        frontier = [s + [c] for s in frontier for c in SYMS]
        out += frontier
    return out


def configs(tier):
    th = tier == "thorough"
    cfgs = []

    def add(name, lim, lists, emit, kinds, steps, emit_only=False):
        cfgs.append(dict(name=name, lim=lim, LISTS=tset(lists), EMITLISTS=tset(emit),
                         OPKINDS=tset(q(k) for k in kinds), MAXSTEPS=steps,
                         EMITONLY="TRUE" if emit_only else "FALSE"))

    # A. de-duplication x count limit (no length limit): every list of <= 2 (3) attributes over 3 keys x 2 values
    a_attrs = [KV(k, v) for k in ("k1", "k2", "k3") for v in (SHORT, INT)]
    a_lists = lists_upto(a_attrs, 2)
    if th:
        a_lists += [seq([KV("k1", SHORT), KV("k2", SHORT), KV("k1", INT)]), seq([KV("k1", SHORT), KV("k2", SHORT), KV("k3", INT)]),
                    seq([KV("k3", SHORT), KV("k3", INT), KV("k3", SHORT)]), seq([KV("k2", INT), KV("k1", INT), KV("k2", SHORT)])]
    a_emit = [seq([]), seq([KV("k1", SHORT), KV("k1", INT)]), seq([KV("k1", SHORT), KV("k2", SHORT), KV("k3", SHORT)]),
              seq([KV("k2", INT), KV("k1", SHORT), KV("k2", SHORT)])]
    for ac in ([2, 1, -1, 0, 3] if th else [2, 1, -1, 0]):
        add("dedup-ac%d" % ac, dict(ac=ac, vl=-1), a_lists, a_emit, ["Add", "Set"], 3 if th and ac in (2, -1) else 2)

    # B. truncation x overwrite x nesting
    b_vals = [SHORT, LONG, BADLONG, SL_LONG, MP_DUP, SL_MP] + ([MP_SL, BYTES] if th else [])
    b_attrs = [KV(k, v) for k in ("k1", "k2") for v in b_vals]
    b_pairs = [seq([KV(k1, v1), KV(k2, v2)]) for k1 in ("k1", "k2") for k2 in ("k1", "k2")
               for v1 in (SHORT, LONG, MP_DUP) for v2 in (SHORT, LONG, MP_DUP)]
    b_lists = lists_upto(b_attrs, 1) + b_pairs
    b_emit = [seq([]), seq([KV("k1", SHORT), KV("k1", LONG)]), seq([KV("k1", LONG), KV("k2", MP_DUP), KV("k1", SL_LONG)])]
    b_lims = [dict(ac=-1, vl=2), dict(ac=1, vl=0), dict(ac=2, vl=1)]
    if th:
        b_lims += [dict(ac=-1, vl=-1), dict(ac=1, vl=3), dict(ac=2, vl=0), dict(ac=0, vl=1)]
    for L in b_lims:
        add("trunc-ac%d-vl%d" % (L["ac"], L["vl"]), L, b_lists, b_emit, ["Add", "Set"], 3 if th and L["vl"] == 2 else 2)

    # C. clone independence (edits of either record, re-applying walked attributes)
    c_attrs = [KV(k, v) for k in ("k1", "k2") for v in (SHORT, LONG, SL_LONG, MP_DUP)]
    c_lists = lists_upto(c_attrs, 1)
    c_emit = [seq([]), seq([KV("k1", LONG), KV("k2", SHORT)])]
    for L in ([dict(ac=2, vl=2), dict(ac=1, vl=1), dict(ac=-1, vl=0)] if th else [dict(ac=2, vl=2)]):
        add("clone-ac%d-vl%d" % (L["ac"], L["vl"]), L, c_lists, c_emit, ["Add", "Set", "Clone", "Reapply"], 4 if th else 3)

    # D. the inline array (5 slots) / overflow slice boundary: 7 keys, range lists and single overwrites
    keys7 = ["k%d" % i for i in range(1, 8)]

    def rng(i, j, v):
        return seq([KV(k, v) for k in keys7[i - 1:j]])
    d_lists = [seq([]), rng(1, 4, SHORT), rng(1, 5, SHORT), rng(1, 6, LONG), rng(1, 7, SHORT), rng(5, 7, LONG), rng(6, 7, SHORT),
               rng(4, 6, MP_DUP), seq([KV("k6", LONG), KV("k1", LONG), KV("k6", SHORT)])]
    d_lists += [seq([KV(k, LONG)]) for k in keys7]
    d_emit = [seq([]), rng(1, 7, LONG), rng(1, 5, SHORT)]
    for L in ([dict(ac=-1, vl=2), dict(ac=6, vl=1), dict(ac=5, vl=2), dict(ac=7, vl=0), dict(ac=4, vl=2)] if th
              else [dict(ac=-1, vl=2), dict(ac=6, vl=1), dict(ac=5, vl=2)]):
        add("inline-ac%d-vl%d" % (L["ac"], L["vl"]), L, d_lists, d_emit, ["Add", "Set", "Clone"], 3)

    # E. truncation: every symbol string up to length 3 (4) offered as a new value, as an overwriting value,
    #    through SetAttributes and nested one level deep, for every limit 0..n+1
    n = 4 if th else 3
    strs = [Str(*s) for s in all_strings(n)]
    e_lists = [seq([KV("k1", s)]) for s in strs]
    if th:
        e_lists += [seq([KV("k1", Sl(s))]) for s in strs[:300]] + [seq([KV("k1", Mp(KV("x", s)))]) for s in strs[:300]]
    for vl in range(0, n + 2):
        add("strings-vl%d" % vl, dict(ac=-1, vl=vl), e_lists, [seq([]), seq([KV("k1", SHORT)])], ["Add", "Set"], 2, emit_only=True)
    return cfgs


def dev_demos():
    """model-level demonstration: with a named deviation switched on TLC itself finds the statement violated"""
    lists = lists_upto([KV("k1", SHORT), KV("k1", LONG), KV("k2", SHORT)], 1)
    base = dict(LISTS=tset(lists), EMITLISTS=tset([seq([])]), OPKINDS=tset([q("Add"), q("Set")]), MAXSTEPS=2, EMITONLY="FALSE")
    return [dict(base, name="demo-OverwriteRaw", LIM=tla_lim(dict(ac=-1, vl=2)), DEV='{"OverwriteRaw"}'),
            dict(base, name="demo-ZeroCountUnlimited", LIM=tla_lim(dict(ac=0, vl=-1)), DEV='{"ZeroCountUnlimited"}')]


REGIMES = ["overwrite_inline_slot", "overwrite_overflow_slot", "overwrite_with_oversized", "dup_key_within_call",
           "nested_duplicate_offered", "oversized_offered", "count_limit_reached_mid_call", "offer_when_full",
           "crosses_inline_array", "offer_under_count_limit_zero", "op_on_clone", "op_Clone", "op_Reapply", "op_Emit",
           "op_Set", "op_Add"]


def merge_counters(ctx, res, prefix):
    cs = ctx.extra.setdefault("counters", {})
    for k, v in res["counters"].items():
        cs[prefix + k] = cs.get(prefix + k, 0) + v


def report(ctx, direction, viols, trace_file):
    lines = None
    for v in viols:
        lim = v.get("lim") or {}
        op = v.get("op") or {}
        sig = {"dir": direction, "kind": v.get("kind"), "dev": v.get("dev"), "vt": v.get("vt"),
               "op": op.get("op"), "ac": lim.get("ac"), "vl_limited": (lim.get("vl", -1) >= 0)}
        rp = {"viol": v}
        if direction == "random" and "line" in v:
            if lines is None:
                lines = open(trace_file).read().splitlines()
            scen = []
            i = v["line"] - 1
            while i >= 0:
                rec = json.loads(lines[i])
                scen.append({k: rec[k] for k in ("ev", "sc", "lim", "op", "rep") if k in rec})
                if rec["ev"] == "New":
                    break
                i -= 1
            scen.reverse()
            rp["scenario"] = scen
        ctx.violation(sig, replay=rp)


# ---------------------------------------------------------------- caller-memory class (LogBufModel.tla)
def buf_configs(tier):
    """families of LogBuf.tla: one backing array travels through several calls / records and is written by
    its owner between the calls (more than 5 attributes = overflow slice, count limit cutting inside the
    array, at most 5 = inline array only; duplicates inside the array; nested values in the cells)"""
    th = tier == "thorough"
    cfgs = []

    def mem(cells):
        return "[B1 |-> %s]" % seq(cells)

    def calls(items):
        return tset('[op |-> %s, buf |-> "B1", n |-> %d]' % (q(o), n) for o, n in items)

    def lits(items):
        return tset("[op |-> %s, attrs |-> %s]" % (q(o), l) for o, l in items)

    def writes(items):
        return tset('[buf |-> "B1", cell |-> %d, kv |-> %s]' % (c, kv) for c, kv in items)

    def refills(items):
        return tset('[buf |-> "B1", attrs |-> %s]' % l for l in items)

    def add(name, lim, cells, bc, lc, wr, rf, steps, clones=("r",)):
        cfgs.append(dict(name=name, lim=lim, MAXSTEPS=steps, INITMEM=mem(cells), BUFCALLS=calls(bc), LITCALLS=lits(lc),
                         WRITES=writes(wr), REFILLS=refills(rf), CLONES=tset(q(t) for t in clones)))

    # more than 5 attributes: 8 cells, the last one repeats k1 (de-duplication compacts the array); n = 7 leaves a
    # spare cell behind the passed slice (append / capacity class), n = 8 passes the whole array
    over5 = [KV("k1", SHORT), KV("k2", LONG), KV("k3", SHORT), KV("k4", INT), KV("k5", SHORT), KV("k6", LONG),
             KV("k7", MP_DUP), KV("k1", INT)]
    add("buf-over5", dict(ac=-1, vl=2), over5,
        [("Set", 7), ("Set", 8), ("Add", 7), ("Add", 8)],
        [("Add", seq([KV("k6", INT), KV("k9", SHORT)])), ("Add", seq([KV("k2", INT)]))],
        [(7, KV("k1", INT)), (6, KV("k6", INT)), (8, KV("k9", SHORT)), (2, KV("k2", SHORT))],
        [seq([KV("k9", SHORT), KV("k8", LONG)])], 3)
    # the count limit cuts inside the array (5 inline + 1 overflow kept)
    limit = [KV("k%d" % i, SHORT if i % 2 else INT) for i in range(1, 9)]
    add("buf-limit", dict(ac=6, vl=-1), limit,
        [("Set", 7), ("Set", 8), ("Add", 8)],
        [("Add", seq([KV("k6", LONG), KV("k1", INT)]))],
        [(6, KV("k6", LONG)), (7, KV("k1", INT)), (8, KV("k2", SHORT))],
        [], 3)
    # at most 5 attributes: everything is copied into the inline array, nested values stay shared
    upto5 = [KV("k1", SHORT), KV("k2", LONG), KV("k3", MP_DUP), KV("k2", INT), KV("k4", SL_LONG)]
    add("buf-upto5", dict(ac=-1, vl=1), upto5,
        [("Set", 3), ("Set", 5), ("Add", 5)],
        [("Add", seq([KV("k3", LONG)]))],
        [(1, KV("k1", INT)), (3, KV("k3", SHORT)), (5, KV("k1", LONG))],
        [seq([KV("k4", LONG)])], 3)
    if th:
        add("buf-over5-unl", dict(ac=-1, vl=-1), over5,
            [("Set", 7), ("Set", 8), ("Add", 7), ("Add", 8)],
            [("Add", seq([KV("k6", INT), KV("k9", SHORT)]))],
            [(7, KV("k1", INT)), (6, KV("k6", INT)), (8, KV("k9", SHORT))],
            [seq([KV("k9", SHORT), KV("k8", LONG)])], 3, clones=("r", "c"))
        add("buf-limit5", dict(ac=5, vl=1), limit,
            [("Set", 8), ("Add", 8), ("Add", 6)],
            [("Add", seq([KV("k5", LONG), KV("k9", INT)]))],
            [(5, KV("k5", LONG)), (6, KV("k1", INT))],
            [seq([KV("k9", SHORT)])], 3)
    return cfgs


BUF_REGIMES = ["buf_call_over5_after_dedup", "buf_call_upto5", "buf_call_spare_capacity", "buf_call_full_capacity",
               "buf_call_with_duplicates", "buf_call_cut_by_count_limit", "buf_call_nested_value",
               "buf_travelled_to_second_record", "buf_caller_write_after_call", "buf_literal_call_after_buffer_call",
               "buf_op_Refill", "buf_op_Clone", "buf_op_Emit", "buf_ops_run_inside_OnEmit"]


def buf_report(ctx, direction, viols, trace_file):
    lines = None
    for v in viols:
        lim = v.get("lim") or {}
        op = v.get("op") or {}
        # `family`/`cls` name the behaviour class: caller-owned memory must behave as a value fixed at call time
        sig = {"family": "caller-memory", "dir": direction, "kind": v.get("kind"), "cls": v.get("cls"),
               "how": v.get("how"), "dev": v.get("dev"), "op": op.get("op"), "from_buffer": bool(op.get("buf")), "cap": v.get("cap"), "over5": v.get("over5"),
               "ac": lim.get("ac"), "vl_limited": (lim.get("vl", -1) >= 0)}
        rp = {"viol": v}
        if "line" in v:
            if lines is None:
                lines = open(trace_file).read().splitlines()
            scen = []
            i = v["line"] - 1
            while i >= 0:
                rec = json.loads(lines[i])
                scen.append({k: rec[k] for k in ("ev", "sc", "lim", "mem", "op", "rep", "in_emit") if k in rec})
                if rec["ev"] == "BNew":
                    break
                i -= 1
            scen.reverse()
            rp["scenario"] = scen
        ctx.violation(sig, replay=rp)


def buffer_stage(ctx, binp):
    th = ctx.tier == "thorough"
    rep = (ctx.seed + 3) % 12
    edge_trace = os.path.join(ctx.work, "buf-edges-trace.ndjson")
    open(edge_trace, "w").close()
    for c in buf_configs(ctx.tier):
        d = {k: c[k] for k in ("MAXSTEPS", "INITMEM", "BUFCALLS", "LITCALLS", "WRITES", "REFILLS", "CLONES")}
        d.update(LIM=tla_lim(c["lim"]), DEV="{}")
        r = ctx.tlc(S, "MC_LogBuf", "MC_LogBuf.cfg", defines=d, want_edges=True, name=c["name"], timeout=3000, heap="2g")
        tr = os.path.join(ctx.work, "replay-%s.ndjson" % c["name"])
        out = os.path.join(ctx.work, "replay-%s.json" % c["name"])
        ctx.run([binp, "bufreplay", "-edges", r["edges_file"], "-lim", json.dumps(c["lim"]), "-rep", str(rep),
                 "-out", tr, "-res", out], timeout=3000)
        res = json.load(open(out))
        ctx.evaluations += res["evaluations"]
        merge_counters(ctx, res, "")
        for m in res["mismatches"]:
            ctx.violation({"family": "caller-memory", "dir": "buf-replay", "kind": "panic", "cfg": c["name"]}, replay=m)
        for s in res["inconclusive"]:
            ctx.note_inconclusive(s)
        with open(edge_trace, "a") as f:
            f.write(open(tr).read())
        os.remove(tr)
    viols, accepted = ctx.validate_trace(S, "Trace_LogBuf", "Trace_LogBuf.cfg", edge_trace, timeout=3000,
                                         name="trace-buf-edges")
    ctx.traces_validated += accepted
    ctx.extra["buf_edges_replayed"] = accepted
    buf_report(ctx, "buf-replay", viols, edge_trace)
    n = 3000 if th else 300
    trace = os.path.join(ctx.work, "buf-trace.ndjson")
    resf = os.path.join(ctx.work, "buf-random.json")
    ctx.run([binp, "bufrandom", "-n", str(n), "-out", trace, "-res", resf], timeout=3000)
    res = json.load(open(resf))
    for m in res["mismatches"]:
        ctx.violation({"family": "caller-memory", "dir": "buf-random", "kind": "panic"}, replay=m)
    merge_counters(ctx, res, "")
    viols, accepted = ctx.validate_trace(S, "Trace_LogBuf", "Trace_LogBuf.cfg", trace, timeout=3000,
                                         name="trace-buf-random")
    ctx.traces_validated += n
    ctx.evaluations += accepted
    ctx.extra["buf_random_programs"] = n
    ctx.extra["buf_trace_lines_validated"] = accepted
    buf_report(ctx, "buf-random", viols, trace)
    ctx.assumptions += [
        "caller-memory class: the attributes a call offers are what the caller itself put into the passed window of "
        "its backing array (the caller's view is advanced by the spec from the caller's writes only); writes of the "
        "caller INTO nested slice/map arrays are excluded (log.SliceValue / log.MapValue: 'the passed slice must not "
        "be changed after it is passed'); all records of a scenario come from one provider (one pair of limits)",
    ]


def run(ctx):
    th = ctx.tier == "thorough"
    binp = ctx.go_build("c17")
    if th:
        ctx.tlc(S, "MC_Truncate", "MC_Truncate.cfg", defines={"MAXLEN": 4}, name="truncate-theorem")
    # ---- model level: the named deviations are found by TLC on the model alone
    demo = {}
    for d in dev_demos():
        name = d.pop("name")
        r = ctx.tlc(S, "MC_LogRecord", "MC_LogRecord_Dev.cfg", defines=d, name=name, must_pass=False, count=False)
        demo[name] = r["violated"]
        if r["violated"] != "Inv":
            ctx.note_inconclusive("deviation demo %s: TLC did not report Inv violated (%s, %s)" % (name, r["violated"], r["error"]))
    ctx.extra["deviation_demos"] = demo
    # ---- spec -> code
    edge_trace = os.path.join(ctx.work, "edges-trace.ndjson")
    open(edge_trace, "w").close()
    reps = [ctx.seed % 12, (ctx.seed + 5) % 12] if th else [ctx.seed % 12]
    first = True
    zero_cov = []
    for c in configs(ctx.tier):
        d = {"LIM": tla_lim(c["lim"]), "LISTS": c["LISTS"], "EMITLISTS": c["EMITLISTS"], "OPKINDS": c["OPKINDS"],
             "MAXSTEPS": c["MAXSTEPS"], "EMITONLY": c["EMITONLY"], "DEV": "{}"}
        cov = c["name"].startswith("clone") and first
        r = ctx.tlc(S, "MC_LogRecord", "MC_LogRecord.cfg", defines=d, want_edges=True, name=c["name"], timeout=3000,
                    coverage=cov)
        if cov:
            first = False
            zero_cov = r["zero_cov"]
        for rep in reps:
            tr = os.path.join(ctx.work, "replay-%s-%d.ndjson" % (c["name"], rep))
            out = os.path.join(ctx.work, "replay-%s-%d.json" % (c["name"], rep))
            ctx.run([binp, "replay", "-edges", r["edges_file"], "-lim", json.dumps(c["lim"]), "-rep", str(rep),
                     "-out", tr, "-res", out], timeout=3000)
            res = json.load(open(out))
            ctx.evaluations += res["evaluations"]
            merge_counters(ctx, res, "")
            ctx.add_samples(res["samples"][:1], cap=3)
            for m in res["mismatches"]:
                ctx.violation({"dir": "replay", "kind": "panic", "cfg": c["name"]}, replay=m)
            for s in res["inconclusive"]:
                ctx.note_inconclusive(s)
            with open(edge_trace, "a") as f:
                f.write(open(tr).read())
            os.remove(tr)
    ctx.extra["zero_coverage_actions"] = zero_cov
    if zero_cov:
        ctx.note_inconclusive("TLC coverage: actions never taken: %s" % zero_cov)
    viols, accepted = ctx.validate_trace(S, "Trace_LogRecord", "Trace_LogRecord.cfg", edge_trace, timeout=3000,
                                         name="trace-edges")
    ctx.traces_validated += accepted
    ctx.extra["edges_replayed"] = accepted
    report(ctx, "replay", viols, edge_trace)
    # ---- code -> spec
    n = 6000 if th else 500
    trace = os.path.join(ctx.work, "trace.ndjson")
    resf = os.path.join(ctx.work, "random.json")
    ctx.run([binp, "random", "-n", str(n), "-out", trace, "-res", resf], timeout=3000)
    res = json.load(open(resf))
    for m in res["mismatches"]:
        ctx.violation({"dir": "random", "kind": "panic"}, replay=m)
    merge_counters(ctx, res, "")
    viols, accepted = ctx.validate_trace(S, "Trace_LogRecord", "Trace_LogRecord.cfg", trace, timeout=3000,
                                         name="trace-random")
    ctx.traces_validated += n
    ctx.evaluations += accepted
    ctx.extra["random_programs"] = n
    ctx.extra["trace_lines_validated"] = accepted
    ctx.add_samples(res["samples"][:1])
    report(ctx, "random", viols, trace)
    # ---- caller-owned memory is a value fixed at call time (both directions, LogBuf.tla / Trace_LogBuf.tla)
    buffer_stage(ctx, binp)
    # ---- vacuity: the interesting regimes were really exercised on the real code
    cs = ctx.extra.get("counters", {})
    missing = [k for k in REGIMES + BUF_REGIMES if not cs.get(k)]
    ctx.extra["regimes_not_reached"] = missing
    if missing:
        ctx.note_inconclusive("regimes never exercised on the real code: %s" % missing)
    ctx.assumptions += [
        "symbol classes a1/m2/m3/m4/fffd/bad stand for their representatives in harness/vh/sym.go (strings are compared by class sequence)",
        "non-string scalar values (int64, bool, float64, bytes, empty) are represented by one witness value per kind",
        "count limit 0 means 'no attributes recorded' and negative means unlimited, as documented on WithAttributeCountLimit",
        "count + dropped = offered is evaluated per SetAttributes epoch; nested-map duplicate removals are a named extra term "
        "of dropped, admitted anywhere between 0 and the number of nested duplicates offered",
        "attribute order, de-duplication of nested maps and cleaning of invalid bytes in strings within the limit are not constrained",
    ]
    ctx.extra["rule"] = ("edges: every transition of LogRecord.tla for the listed configs; random: seeded edit programs; "
                         "a case is distinct by (limits, operation sequence)")
