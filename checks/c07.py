"""C07 -- histogram data points are internally consistent and bucket every value correctly.

Specs (specs/Histogram): ExpoModel.tla / HistModel.tla state WHAT a correct point holds (pure
operators: exact index floor(b20 / 2^(20-s)), Keep, RefPoint, the contract ExpoClauses /
HistClauses); ExpoHistogram.tla additionally carries the accumulator of exponential_histogram.go
transcribed step for step and TLC proves, for every operation sequence over small value sets,
that it computes the reference point (modulo the named deviation D1).

spec -> code : TLC explores ExpoHistogram.tla / Histogram.tla exhaustively (every sequence of
               <= MaxSteps Record/Collect over the representative values) and prints every edge;
               harness/c07 replays each edge through the public API (MeterProvider + view +
               ManualReader) with several concretizations (bucket midpoints, exact powers of two,
               float neighbours of boundaries, subnormal / huge / int64 grids, +-Inf boundaries) and
               compares the collected data point with the spec's successor.  A differing case is
               not yet a verdict (the statement leaves the scale choice open): it is written as a
               trace and judged by TLC against the contract.
code -> spec : seeded random scenarios (arbitrary finite float64/int64, subnormals, powers of two,
               values within ulps of irrational boundaries, all (MaxSize, MaxScale), random
               boundary lists, delta and cumulative, several collects); the harness abstracts each
               measurement with exact arithmetic (math/big) and TLC validates every collected point
               against the contract (Trace_Hist.tla).

Output path (HistOutput.tla): the point a reader reports must be a function of the accumulator
only, whatever the destination memory held before (Collect re-uses the caller's ResourceMetrics,
the periodic reader its pool).  TLC checks ReportIndep on every explored accumulator state x every
previous occupant of the slot (more / fewer / emptied / other-sign buckets, old data points,
another aggregation kind, the other number type) and finds each named faulty output path on the
model; every replayed Collect edge names its destination class, which the harness produces with
the real SDK (donor providers); `c07 worlds` runs collection histories with shared and re-used
destinations (several readers, instruments, meters, attribute sets, the periodic reader's pool),
de-interleaved into one Trace_Hist scenario per (reader, stream, attribute set).  A reported
point is fingerprinted again later: it must not change unless its own destination is re-used.
"""
import json
import os
import re
import shutil
from concurrent.futures import ThreadPoolExecutor

import vlib

S = "Histogram"
U = 1 << 20
# address-space limit of every harness subprocess.  A correct tree stays below 1 GiB (the harness reports the memory
# it obtained from the OS: counters *_harness_sys_mb); a broken size bound makes one Record call allocate without limit
# (at scale 20 the distance between two float64 values is up to 2^31 buckets), which must end in a verdict, not in the
# machine's OOM killer.
MEM_CAP = 8 << 30
AGG_FRAME = re.compile(r"go\.opentelemetry\.io/otel/sdk/metric/internal/aggregate\.(\S+?)\(")


def run_capped(ctx, cmd, tag, direction, timeout=1800):
    """ctx.run under the address-space limit, with a progress file naming the scenario being executed.  Returns the
    CompletedProcess, or None after reporting a violation: the process died of memory exhaustion INSIDE the SDK's
    aggregation code (Go's fatal error prints the allocating goroutine's stack).  Any other death is inconclusive."""
    prog = os.path.join(ctx.work, "progress-%s.txt" % tag)
    if os.path.exists(prog):
        os.remove(prog)
    full = (["prlimit", "--as=%d" % MEM_CAP] if shutil.which("prlimit") else []) + list(cmd)
    p = ctx.run(full, timeout=timeout, env={"VERIF_PROGRESS": prog}, ok_codes=range(-255, 256))
    if p.returncode == 0:
        return p
    err = p.stderr or ""
    oom = "out of memory" in err or "cannot allocate memory" in err or p.returncode == -9
    frames = AGG_FRAME.findall(err[err.find("fatal error"):] if "fatal error" in err else err)
    if oom and frames:
        doing = open(prog).readline().strip() if os.path.exists(prog) else "(no progress file)"
        fatal = [l for l in err.splitlines() if "out of memory" in l or "cannot allocate" in l][:3]
        ctx.violation({"dir": direction, "sub": "expl" if "hist" in frames[0].lower() and "expo" not in frames[0].lower() else "expo",
                       "why": "unbounded-allocation", "frame": frames[0]},
                      replay={"executing": doing[:20000], "fatal": fatal, "aggregate_frames": frames[:6], "rc": p.returncode,
                              "memory_cap_bytes": MEM_CAP, "cmd": [c if len(c) < 300 else c[:300] + "..." for c in cmd],
                              "note": "the harness subprocess ran out of memory inside the SDK while executing the scenario in "
                                      "'executing' (an allocation no size-bounded histogram can need)"})
        return None
    raise vlib.Inconclusive("harness rc=%d (%s): %s\nstderr tail: %s" % (p.returncode, "memory exhausted outside the SDK's aggregation code"
                                                                         if oom else "died", " ".join(cmd[:6]), err[-3000:]))


# ---------------------------------------------------------------- constants for TLC (expo)
def val(sg, b):
    return {"sg": sg, "b": b, "alt": b, "k": 0}


def with_ranks(vals):
    def key(v):
        return (v["sg"], v["b"] if v["sg"] > 0 else (-v["b"] if v["sg"] < 0 else 0))
    order = sorted(range(len(vals)), key=lambda i: key(vals[i]))
    assert len({key(v) for v in vals}) == len(vals), "duplicate abstract values"
    for rank, i in enumerate(order):
        vals[i]["r"] = rank + 1
        vals[i]["p"] = rank + 1
    return vals


def expo_vals(maxscale, variant, small):
    """representative scale-20 indices: adjacent bins at the starting scale, bins that merge after
    1, 2, k downscales, both sides of 1.0, exact powers of two (b = -1 mod 2^20), extremes"""
    g = 1 << (20 - maxscale)          # one bucket of the starting scale, in scale-20 indices
    if variant == "A":                # around 1.0, positive, one negative, zero
        vs = [val(1, -1), val(1, 0), val(1, g), val(1, 2 * g + g // 2), val(1, 3 * g), val(1, 5 * g + g - 1),
              val(1, -3 * U - 1), val(-1, g), val(0, 0)]
        if small:
            vs = [vs[i] for i in (0, 1, 2, 3, 5, 6, 7, 8)]
    elif variant == "N":              # mirror image of A: negative-dominant, a single positive value, zero
        vs = [val(-v["sg"], v["b"]) for v in expo_vals(maxscale, "A", small)]
    elif variant == "B":              # extremes: smallest subnormal, subnormal range, largest float
        vs = [val(1, -1074 * U - 1), val(1, -1030 * U + 7), val(1, -1), val(1, 0), val(1, 1024 * U - 1),
              val(-1, 1023 * U + 5), val(-1, -1022 * U - 1), val(0, 0)]
    else:                             # "C": mostly negative, windows on both signs
        vs = [val(-1, 0), val(-1, g), val(-1, 2 * g), val(-1, 4 * g + 1 if g > 1 else 4), val(-1, 9 * g),
              val(-1, -g - 1), val(1, 0), val(1, 3 * g), val(0, 0)]
        if small:
            vs = vs[:6] + vs[7:]
    vs = [v for v in vs if -1075 * U <= v["b"] < 1024 * U]
    return with_ranks(vs)


def tla_bool(b):
    return "TRUE" if b else "FALSE"


def tla_vals(vals, fields):
    return "<<" + ", ".join("[" + ", ".join("%s |-> %d" % (f, v[f]) for f in fields) + "]" for v in vals) + ">>"


def expo_configs(tier, seed):
    full = []
    for ms in (1, 2, 3, 4):
        for sc in (20, 2, 0, -2):
            for var in ("A", "C"):
                full.append(dict(maxsize=ms, maxscale=sc, variant=var))
        for sc in (20, 0, -10):
            full.append(dict(maxsize=ms, maxscale=sc, variant="B"))
        for sc in (20, 0):
            full.append(dict(maxsize=ms, maxscale=sc, variant="N"))
    for i, c in enumerate(full):
        c["cum"] = (i % 2 == 0)
        c["nominmax"] = (i % 4 == 1)      # AggregationBase2ExponentialHistogram.NoMinMax
        c["nosum"] = (i % 5 == 2)         # up-down counter / gauge instrument: no sum collected
    if tier == "thorough":
        out = []
        for c in full:
            out.append(dict(c, steps=4, small=False))
        # both temporalities and a deeper run for the configurations where re-scaling is richest
        for c in full:
            if (c["maxsize"], c["variant"], c["maxscale"]) in ((2, "A", 20), (3, "C", 20), (2, "C", 0), (3, "A", 0)):
                out.append(dict(c, cum=not c["cum"], steps=5, small=True))
        return out
    # quick: the underflow configuration always, plus a seeded sample
    must = [dict(maxsize=1, maxscale=20, variant="A", cum=True, steps=3, small=False, nominmax=False, nosum=False),
            dict(maxsize=2, maxscale=0, variant="B", cum=False, steps=3, small=False, nominmax=True, nosum=True),
            # negative measurements wider than the positive ones / negative only, at small scales (a size bound that
            # looks at the wrong sign shows as too-many-buckets here, without any large allocation)
            dict(maxsize=2, maxscale=0, variant="C", cum=True, steps=3, small=True, nominmax=False, nosum=False),
            dict(maxsize=4, maxscale=-2, variant="N", cum=False, steps=3, small=True, nominmax=False, nosum=False)]
    rest = [c for c in full if not (c["maxsize"] == 1 and c["maxscale"] == 20 and c["variant"] == "A")]
    pickd = [rest[(seed * 7 + k * 11) % len(rest)] for k in range(5)]
    out = must + [dict(c, steps=3 if k else 4, small=(k == 0)) for k, c in enumerate(pickd)]
    seen, uniq = set(), []
    for c in out:
        key = (c["maxsize"], c["maxscale"], c["variant"], c["cum"])
        if key not in seen:
            seen.add(key)
            uniq.append(c)
    return uniq


# ---------------------------------------------------------------- constants for TLC (explicit)
def expl_configs(tier):
    out = []
    for nb in (0, 1, 2, 3) + ((4,) if tier == "thorough" else ()):
        ranks = list(range(1, 2 * nb + 2))
        out.append(dict(name="nb%d" % nb, bounds=[2 * j for j in range(1, nb + 1)], ranks=ranks,
                        reps=[0, 1, 2, 3, 4, 5, 6], steps=3 if nb >= 3 and tier != "thorough" else 4))
    # first boundary -Inf, last +Inf: no finite measurement at or beyond them
    out.append(dict(name="infends", bounds=[2, 4, 6, 8], ranks=[3, 4, 5, 6, 7], reps=[7, 5, 0], steps=4))
    for i, c in enumerate(out):
        c["cum"] = (i % 2 == 1)
        c["nominmax"] = (i % 3 == 1)
        c["nosum"] = (i % 3 == 2)
        # the route by which the (increasing) list reaches the stream rotates like the flags; the instrument's advisory
        # boundaries carry neither NoMinMax nor another instrument kind, and an empty hint is no hint
        c["cbounds"] = list(c["bounds"])
        c["routes"] = [("viewfunc", "selector", "view", "advisory", "viewfunc", "selector")[i]]
        assert c["routes"] != ["advisory"] or (c["bounds"] and not c["nominmax"] and not c["nosum"])
    # boundary LISTS as an input class (HistModel!ListClass): the list as configured is reversed / shuffled with a
    # duplicate / swapped, and reaches the aggregator unvalidated (hand-written view function); one increasing list by
    # every route in a single exploration (the route is state: Histogram!Configure)
    def lst(name, cbounds, routes, reps, **flags):
        nd = len(set(cbounds))
        return dict(dict(name=name, bounds=[2 * j for j in range(1, nd + 1)], cbounds=cbounds, ranks=list(range(1, 2 * nd + 2)),
                         routes=routes, reps=reps, steps=4 if tier == "thorough" else 3, cum=False, nominmax=False, nosum=False), **flags)
    th = tier == "thorough"
    out.append(lst("rev3", [6, 4, 2], ["viewfunc"], [0, 1, 2, 3, 4, 5, 6] if th else [0, 3, 5]))
    out.append(lst("shufdup", [4, 6, 2, 4], ["viewfunc"], [0, 1, 2, 3, 4, 5, 6] if th else [1, 4, 6], cum=True, nominmax=True))
    out.append(lst("swapped", [4, 2], ["viewfunc"], [0, 2, 3, 5] if th else [2, 0], nosum=True))
    out.append(lst("allroutes", [2, 4], ["view", "viewfunc", "selector", "advisory"], [0, 3, 5, 6] if th else [0, 5], cum=True))
    return out


# ---------------------------------------------------------------- verdict plumbing
def scenario_of(lines, line_no):
    """New line + everything of that scenario up to the failing Col line (1-based line_no)"""
    i = line_no - 1
    scen = []
    while i >= 0:
        rec = json.loads(lines[i])
        scen.append(rec)
        if rec["ev"] == "New":
            break
        i -= 1
    scen.reverse()
    return scen


def cfg_class(cfg):
    """which documented parameter range an exponential configuration leaves (classification only)"""
    if cfg.get("kind") != "expo":
        return ""
    return "+".join(([] if cfg.get("maxsize", 1) > 0 else ["maxsize<=0"]) + ([] if cfg.get("maxscale", 0) <= 20 else ["maxscale>20"])
                    + ([] if cfg.get("maxscale", 0) >= -10 else ["maxscale<-10"])) or "in-range"


def report_viols(ctx, viols, trace_path, direction, src=None, worlds=None):
    lines = None
    n = 0
    for v in viols:
        if lines is None:
            lines = open(trace_path).read().splitlines()
        scen = scenario_of(lines, v["line"])
        new = scen[0]
        cfg = new.get("cfg", {})
        why = "+".join(sorted(v.get("why", [])))
        sig = {"dir": direction, "sub": v.get("kind"), "why": why, "dest": v.get("dest", ""),
               "underflow": v.get("dropped", 0) > 0,
               "excess_equals_dropped": v.get("excess", 0) == v.get("dropped", 0),
               "maxscale_below_min": cfg.get("kind") == "expo" and cfg.get("maxscale", 0) < -10,
               # the route by which the aggregation reached the stream, the class of the boundary list as configured
               # (Trace_Hist: HistModel!ListClass), the documented parameter range an exponential configuration leaves
               "route": v.get("route", "view"), "list": v.get("list", ""), "cfgclass": cfg_class(cfg)}
        if worlds is not None and "world" in new:
            src = {"world": worlds[new["world"]], "pair": new.get("pair")}
        if ctx.violation(sig, replay={"scenario": scen, "viol": v, "src": src or new.get("src"),
                                      "note": "abstract values: sg/b(exact scale-20 index)/alt/r(rank)/p/k; "
                                              "'concrete' in the New line lists the real measurements; Col.dest = what "
                                              "the destination held before; Chk = later fingerprint of the point the "
                                              "k-th Col reported"}):
            n += 1
    return n


def merge_counters(ctx, res, prefix=""):
    for k, v in res["counters"].items():
        d = ctx.extra.setdefault("counters", {})
        if k.endswith("harness_sys_mb"):
            d[prefix + k] = max(d.get(prefix + k, 0), v)      # peak, not a sum
        else:
            d[prefix + k] = d.get(prefix + k, 0) + v


def run(ctx):
    thorough = ctx.tier == "thorough"
    binp = ctx.go_build("c07")
    probe = json.loads(ctx.run([binp, "probe"]).stdout)
    d1 = bool(probe["d1_count_before_underflow_return"])
    ctx.extra["tree_has_D1_count_before_underflow_return"] = d1
    zero_cov = None
    refdiffs = 0
    edges_total = 0
    par = max(2, min(6, (os.cpu_count() or 4) // 3))
    if os.environ.get("VERIF_TLC_WORKERS"):
        par = max(1, min(par, int(os.environ["VERIF_TLC_WORKERS"])))
    ctx.extra["parallel_jobs"] = par

    # ---------------------------------------------------------------- spec -> code (jobs run in parallel, one TLC worker each)
    def explore(job):
        """TLC explores one configuration and prints its edges; the harness replays them. Returns everything the
        main thread accounts for (nothing of ctx is touched here except through ctx.tlc(count=False) / ctx.run)."""
        kind, c = job
        runs = []
        if kind == "expo":
            vals = expo_vals(c["maxscale"], c["variant"], c["small"])
            name = "expo-n%d-s%d-%s-%s-d%d%s%s" % (c["maxsize"], c["maxscale"], c["variant"], "cum" if c["cum"] else "delta", c["steps"],
                                                   "-nomm" if c["nominmax"] else "", "-nosum" if c["nosum"] else "")
            d = {"VALS": tla_vals(vals, ("sg", "b", "alt", "r", "k")), "MAXSIZE": c["maxsize"], "MAXSCALE": c["maxscale"],
                 "CUMULATIVE": "TRUE" if c["cum"] else "FALSE", "FIXD1": "FALSE" if d1 else "TRUE", "MAXSTEPS": c["steps"],
                 "NOSUM": tla_bool(c["nosum"]), "NOMINMAX": tla_bool(c["nominmax"]), "VARIANT": "code"}
            r = ctx.tlc(S, "MC_ExpoHistogram", "MC_ExpoHistogram.cfg", defines=d, want_edges=True, name=name, timeout=3000,
                        coverage=True, count=False, heap="3g")
            reps = [0, 1] if thorough else [ctx.seed % 2]
            if c["maxscale"] <= 0:
                reps = reps + [2]
            cfgb = {"kind": "expo", "maxsize": c["maxsize"], "maxscale": c["maxscale"], "cum": c["cum"], "quant": False, "bounds": [],
                    "nosum": c["nosum"], "nominmax": c["nominmax"]}
            hvals = vals
        else:
            nb = len(c["bounds"])       # distinct boundaries (ranks 2, 4, ..); c["cbounds"] = the list as configured
            vals = [{"r": r_, "p": r_, "k": r_ - (nb + 1)} for r_ in c["ranks"]]
            name = "expl-%s-%s%s%s" % (c["name"], "cum" if c["cum"] else "delta", "-nomm" if c["nominmax"] else "",
                                       "-nosum" if c["nosum"] else "")
            d = {"CBOUNDS": "<<" + ", ".join(str(b) for b in c["cbounds"]) + ">>", "LISTVARIANT": "code",
                 "ROUTESET": "{" + ", ".join('"%s"' % r_ for r_ in c["routes"]) + "}", "VALS": tla_vals(vals, ("r", "p", "k")),
                 "CUMULATIVE": "TRUE" if c["cum"] else "FALSE", "MAXSTEPS": c["steps"],
                 "NOSUM": tla_bool(c["nosum"]), "NOMINMAX": tla_bool(c["nominmax"]), "VARIANT": "code"}
            r = ctx.tlc(S, "MC_Histogram", "MC_Histogram.cfg", defines=d, want_edges=True, name=name, timeout=3000, count=False, heap="2g")
            reps = c["reps"]
            cfgb = {"kind": "expl", "maxsize": 1, "maxscale": 0, "cum": c["cum"], "bounds": c["bounds"], "cbounds": c["cbounds"],
                    "nosum": c["nosum"], "nominmax": c["nominmax"]}
            hvals = [{"r": v["r"], "k": v["k"]} for v in vals]
        for rep in reps:
            out = os.path.join(ctx.work, "replay-%s-%d.json" % (name, rep))
            tr = os.path.join(ctx.work, "diff-%s-%d.ndjson" % (name, rep))
            cfgj = dict(cfgb, quant=(rep <= 4)) if kind == "expl" else cfgb
            if run_capped(ctx, [binp, "replay", "-kind", kind, "-edges", r["edges_file"], "-cfg", json.dumps(cfgj), "-vals",
                                json.dumps(hvals), "-rep", str(rep), "-trace", tr, "-out", out], "%s-%d" % (name, rep), "replay",
                          timeout=3000) is None:
                continue     # died inside the SDK: reported; nothing of this replay is usable
            runs.append((rep, cfgj, json.load(open(out)), tr))
        if thorough:
            os.remove(r["edges_file"])  # (tlc.out of the run keeps the EDGE lines)
        return kind, name, r, runs

    def cost(job):
        kind, c = job
        return (len(expo_vals(c["maxscale"], c["variant"], c["small"])) + 1 if kind == "expo" else len(c["ranks"]) + 1) ** c["steps"] \
            * (20 if kind == "expo" else 1)

    jobs = [("expo", c) for c in expo_configs(ctx.tier, ctx.seed)] + [("expl", c) for c in expl_configs(ctx.tier)]
    jobs.sort(key=cost, reverse=True)      # longest first; the order of the results is that of the jobs
    diffs = []                             # (trace file of differing cases, source description)
    with ThreadPoolExecutor(par) as ex:
        for kind, name, r, runs in ex.map(explore, jobs):
            ctx.states += r["distinct"]
            ctx.transitions += r["generated"]
            if kind == "expo":
                acts = set(r["zero_cov"])
                zero_cov = acts if zero_cov is None else (zero_cov & acts)
            for rep, cfgj, res, tr in runs:
                edges_total += res["executed"]
                ctx.traces_validated += res["executed"]
                ctx.evaluations += res["evaluations"]
                merge_counters(ctx, res, "replay_")
                if kind == "expo":
                    ctx.add_samples(res["samples"][:1], cap=3)
                else:
                    ctx.add_samples(res["samples"][1:2], cap=4)
                for m in res["mismatches"]:
                    if m["kind"] == "panic":
                        ctx.violation({"dir": "replay", "sub": kind, "why": "panic"}, replay=dict(m, cfg=cfgj, rep=rep))
                refdiffs += res["counters"].get("replayed_cases_differing_from_reference", 0)
                for s in res["inconclusive"]:
                    ctx.note_inconclusive(s)
                diffs.append((tr, {"cfg": cfgj, "rep": rep, "tlc": name}))
    ctx.extra["expo_actions_never_taken_in_any_config"] = sorted(zero_cov or [])
    if zero_cov:
        ctx.note_inconclusive("vacuity: ExpoHistogram actions never enabled in any explored configuration: %s" % sorted(zero_cov))
    ctx.extra["edges_replayed"] = edges_total
    ctx.extra["replayed_edges_whose_report_depends_on_the_destination"] = ctx.extra.get("counters", {}).get(
        "replay_edges_whose_report_depends_on_the_destination", 0)
    ctx.extra["replayed_points_differing_from_reference"] = refdiffs

    # ---------------------------------------------------------------- model-level demonstrations (never a verdict)
    # (a) the statement fails on the transcribed algorithm with D1 (TLC finds it) and holds once the accounting is moved
    # (b) TLC finds every named faulty output path of HistOutput.tla: counts copied into the destination's slice without
    #     re-slicing, an empty sign left as found, unset sum / extrema left as found, the accumulator's own memory handed out
    #     by a cumulative stream, boundaries / scale of the previous occupant kept
    vals = expo_vals(20, "A", False)
    d = {"VALS": tla_vals(vals, ("sg", "b", "alt", "r", "k")), "MAXSIZE": 1, "MAXSCALE": 20, "CUMULATIVE": "TRUE", "MAXSTEPS": 3,
         "NOSUM": "FALSE", "NOMINMAX": "FALSE", "VARIANT": "code"}
    evals = expo_vals(0, "B", False)
    ed = {"VALS": tla_vals(evals, ("sg", "b", "alt", "r", "k")), "MAXSIZE": 2, "MAXSCALE": 0, "CUMULATIVE": "FALSE", "FIXD1": "TRUE",
          "MAXSTEPS": 2}
    hvals = [{"r": r_, "p": r_, "k": r_ - 3} for r_ in range(1, 6)]
    hd = {"CBOUNDS": "<<2, 4>>", "ROUTESET": '{"view"}', "LISTVARIANT": "code", "VALS": tla_vals(hvals, ("r", "p", "k")),
          "CUMULATIVE": "TRUE", "MAXSTEPS": 2}
    faulty = [("MC_Histogram", "MC_HistOutput.cfg", hd, "copy_noreslice", False), ("MC_ExpoHistogram", "MC_ExpoOutput.cfg", ed, "skip_empty_sign", False),
              ("MC_Histogram", "MC_HistOutput.cfg", hd, "keep_unset", True), ("MC_Histogram", "MC_HistOutput.cfg", hd, "lend_cumulative", False),
              ("MC_ExpoHistogram", "MC_ExpoOutput.cfg", ed, "scale_if_buckets", False)]
    if thorough:
        faulty += [("MC_ExpoHistogram", "MC_ExpoOutput.cfg", ed, "keep_unset", True), ("MC_ExpoHistogram", "MC_ExpoOutput.cfg", ed, "lend_buckets", False),
                   ("MC_Histogram", "MC_HistOutput.cfg", hd, "reuse_bounds", False)]

    def demo(job):
        if job[0] == "d1":
            return job, ctx.tlc(S, "MC_ExpoHistogram", "MC_ExpoContract.cfg", defines=dict(d, FIXD1="FALSE"), name="nodeviation-D1",
                                must_pass=False, count=False)
        if job[0] == "nosort":
            # a private copy of the list that is not sorted: TLC finds it for every list class that is not increasing
            return job, ctx.tlc(S, "MC_Histogram", "MC_HistList.cfg", defines=dict(hd, CBOUNDS=job[1], ROUTESET='{"viewfunc"}', LISTVARIANT="nosort",
                                                                                   VARIANT="code", NOSUM="FALSE", NOMINMAX="FALSE"),
                                name="faulty-list-nosort-%d" % job[2], must_pass=False, count=False)
        if job[0] == "d1fixed":
            return job, ctx.tlc(S, "MC_ExpoHistogram", "MC_ExpoContract.cfg", defines=dict(d, FIXD1="TRUE"), name="contract-with-fix-D1",
                                count=False)
        _, mod, cfg, dd, variant, flags = job
        return job, ctx.tlc(S, mod, cfg, defines=dict(dd, VARIANT=variant, NOSUM=tla_bool(flags), NOMINMAX=tla_bool(flags)),
                            name="faulty-output-%s-%s" % (variant, "expo" if "Expo" in mod else "expl"), must_pass=False, count=False)

    found = {}
    with ThreadPoolExecutor(par) as ex:
        for job, r in ex.map(demo, [("d1",), ("d1fixed",), ("nosort", "<<4, 2>>", 0), ("nosort", "<<2, 4, 2>>", 1)] + [("faulty",) + f for f in faulty]):
            if job[0] == "d1":
                ctx.extra["tlc_finds_D1_on_the_model"] = r["violated"]
                if r["violated"] != "ContractInv":
                    ctx.note_inconclusive("NoDeviation run did not reproduce D1 on the model (got %r): %s" % (r["violated"], r["out"]))
            elif job[0] == "nosort":
                found["nosort%s/expl" % job[1]] = r["violated"]
                if r["violated"] != "ListInv":
                    ctx.note_inconclusive("TLC did not find the unsorted private copy on the model for the list %s (got %r): %s" % (job[1], r["violated"], r["out"]))
            elif job[0] == "faulty":
                variant = job[4] + ("/expo" if "Expo" in job[1] else "/expl")
                found[variant] = r["violated"]
                if r["violated"] != "ReportIndep":
                    ctx.note_inconclusive("TLC did not find the faulty output path %s on the model (got %r): %s" % (variant, r["violated"], r["out"]))
    ctx.extra["tlc_finds_faulty_output_paths_on_the_model"] = found

    # ---------------------------------------------------------------- code -> spec, and the verdict on the replayed differences
    # everything the real code reported is judged by TLC (Trace_Hist.tla); trace files are validated in parallel:
    #  * batches of replayed cases that differ from the reference point (or whose report changed later)
    #  * collection histories with re-used destinations (c07 worlds)
    #  * single-stream random scenarios (c07 random)
    vjobs = []
    batch, lines_in_batch = None, 0
    for tr, src in diffs:
        txt = open(tr).read()
        if not txt:
            continue
        n_ = txt.count("\n")
        if batch is None or lines_in_batch + n_ > 40000:
            batch = {"kind": "replay", "path": os.path.join(ctx.work, "diffbatch-%d.ndjson" % len(vjobs)), "src": []}
            open(batch["path"], "w").close()
            vjobs.append(batch)
            lines_in_batch = 0
        with open(batch["path"], "a") as f:
            f.write(txt)
        batch["src"].append((lines_in_batch + 1, lines_in_batch + n_, src))
        lines_in_batch += n_
    nw, batches = (500, 6) if thorough else (300, 1)
    for bt in range(batches):
        vjobs.append({"kind": "worlds", "bt": bt})
    n = 12000 if thorough else 1500
    vjobs.append({"kind": "random"})
    nroutes = 4000 if thorough else 600
    vjobs.append({"kind": "routes"})

    def judge(j):
        if j["kind"] == "worlds":
            j["path"] = os.path.join(ctx.work, "worlds-%d.ndjson" % j["bt"])
            j["desc"] = os.path.join(ctx.work, "worlds-desc-%d.json" % j["bt"])
            resf = os.path.join(ctx.work, "worlds-%d.json" % j["bt"])
            if run_capped(ctx, [binp, "worlds", "-n", str(nw), "-batch", str(j["bt"]), "-trace", j["path"], "-res", resf, "-worlds",
                                j["desc"]], "worlds-%d" % j["bt"], "worlds") is None:
                j["dead"] = True
                return j
            j["res"] = json.load(open(resf))
        elif j["kind"] == "routes":
            j["path"] = os.path.join(ctx.work, "routes.ndjson")
            resf = os.path.join(ctx.work, "routes.json")
            if run_capped(ctx, [binp, "routes", "-n", str(nroutes), "-trace", j["path"], "-res", resf], "routes", "routes") is None:
                j["dead"] = True
                return j
            j["res"] = json.load(open(resf))
        elif j["kind"] == "random":
            j["path"] = os.path.join(ctx.work, "trace.ndjson")
            resf = os.path.join(ctx.work, "random.json")
            if run_capped(ctx, [binp, "random", "-n", str(n), "-trace", j["path"], "-res", resf], "random", "random") is None:
                j["dead"] = True
                return j
            j["res"] = json.load(open(resf))
        j["viols"], j["accepted"] = ctx.validate_trace(S, "Trace_Hist", "Trace_Hist.cfg", j["path"], timeout=3600,
                                                       name="trace-%s-%d" % (j["kind"], j.get("bt", vjobs.index(j))))
        return j

    with ThreadPoolExecutor(par) as ex:
        judged = list(ex.map(judge, vjobs))
    explained = set()
    wlines = 0
    for j in judged:
        if j.get("dead"):
            continue
        if j["kind"] == "replay":
            for v in j["viols"]:
                src = next((s_ for a, b, s_ in j["src"] if a <= v["line"] <= b), None)
                explained.add((json.dumps(src, sort_keys=True), v["sc"]))
                report_viols(ctx, [v], j["path"], "replay", src)
            continue
        res = j["res"]
        if j["kind"] == "worlds":
            for m in res["mismatches"]:
                ctx.violation({"dir": "worlds", "sub": "world", "why": "panic"}, replay=m)
            for s_ in res["inconclusive"]:
                ctx.note_inconclusive(s_)
            wlines += j["accepted"]
            ctx.traces_validated += res["counters"].get("world_scenarios", 0)
            ctx.evaluations += res["executed"]
            res["counters"] = {(k if k.startswith("world_") else "world_" + k): v for k, v in res["counters"].items()}
            merge_counters(ctx, res, "")
            if j["viols"]:
                report_viols(ctx, j["viols"], j["path"], "worlds", worlds=json.load(open(j["desc"])))
        elif j["kind"] == "routes":
            for m in res["mismatches"]:
                case = m.get("case") or {}
                ctx.violation({"dir": "routes", "sub": case.get("sub"), "why": "panic", "route": case.get("route", ""),
                               "list": case.get("list", ""), "cfgclass": cfg_class(case.get("cfg") or {})}, replay=m)
            ctx.traces_validated += nroutes
            ctx.evaluations += res["executed"]
            merge_counters(ctx, res, "routes_")
            ctx.extra["route_scenarios"] = nroutes
            ctx.extra["route_trace_lines_validated"] = j["accepted"]
            ctx.add_samples(res["samples"][:1], cap=6)
            report_viols(ctx, j["viols"], j["path"], "routes")
        else:
            for m in res["mismatches"]:
                ctx.violation({"dir": "random", "sub": (m.get("case") or {}).get("sub"), "why": "panic"}, replay=m)
            ctx.traces_validated += n
            ctx.evaluations += res["executed"]
            merge_counters(ctx, res, "random_")
            ctx.extra["random_scenarios"] = n
            ctx.extra["trace_lines_validated"] = j["accepted"]
            ctx.add_samples(res["samples"][:1] + res["samples"][2:3])
            report_viols(ctx, j["viols"], j["path"], "random")
    ctx.extra["replay_diffs_violating_contract"] = len(explained)
    ctx.extra["replay_diffs_admissible_but_not_reference"] = max(0, refdiffs - len(explained))
    ctx.extra["worlds"] = nw * batches
    ctx.extra["world_trace_lines_validated"] = wlines
    cnt = ctx.extra.get("counters", {})
    for need in ("random_expo_points_downscaled", "random_expo_points_window_full", "random_expo_values_subnormal",
                 "random_expo_values_exact_pow2", "random_expo_values_near_irrational_boundary",
                 "random_expo_scenarios_with_scale_underflow_error", "random_expl_values_on_a_boundary",
                 "replay_path_down-prepend", "replay_path_down-append", "replay_path_down-inrange", "replay_path_prepend",
                 "replay_path_append", "replay_path_underflow", "replay_path_zero",
                 # output path: every class of previous occupant really occurred, in replay and in the histories
                 "replay_dest_fresh", "replay_dest_own", "replay_dest_same:more", "replay_dest_same:fewer", "replay_dest_same:emptied",
                 "replay_dest_same:neg-only", "replay_dest_same:pos-only", "replay_dest_other:kind", "replay_dest_other:num",
                 "replay_dest_other:sum", "replay_alias_checks", "random_dest_same:more", "random_alias_checks",
                 "random_expo_points_nominmax", "random_expo_points_nosum",
                 "world_slot_more-buckets", "world_slot_fewer-buckets", "world_slot_other-sign", "world_slot_other-kind",
                 "world_slot_other-num", "world_slot_same-kind-new-point", "world_slot_same-shape", "world_collects_reused",
                 "world_collects_reused-other-reader", "world_collects_fresh", "world_pool_destination_reused",
                 "world_points_expl_cum", "world_points_expl_delta", "world_points_expo_cum", "world_points_expo_delta",
                 "world_points_nominmax", "world_points_nosum", "world_alias_checks",
                 # boundary lists and routes: every route replayed, every list class and every route in the seeded scenarios,
                 # points from unordered lists, fallbacks of the validating routes, out-of-range exponential parameters
                 "replay_route_view", "replay_route_viewfunc", "replay_route_selector", "replay_route_advisory",
                 "routes_list_class_reversed", "routes_list_class_shuffled", "routes_list_class_rotated", "routes_list_class_duplicates",
                 "routes_list_class_duplicates-unordered", "routes_list_class_increasing", "routes_list_route_view",
                 "routes_list_route_viewfunc", "routes_list_route_selector", "routes_list_route_advisory",
                 "routes_list_points_from_unordered_list", "routes_list_points_with_fallback_boundaries",
                 "routes_xexpo_in-range", "routes_xexpo_maxscale>20", "routes_xexpo_maxscale<-10", "routes_xexpo_maxsize<=0",
                 "routes_xexpo_points_refused"):
        if not cnt.get(need):
            ctx.note_inconclusive("vacuity: regime %s never reached" % need)
    ctx.assumptions += [
        "floating point: TLC works on exact scale-20 bucket indices; the float side of getBin is reached through the "
        "harness' exact abstraction (math/big, log2 by repeated squaring) of every concrete measurement",
        "a value within 2^-28 of a bucket (index units at scale 20) of a boundary is accepted in either neighbouring "
        "bucket at positive scales (data model: logarithm based mapping); scales <= 0 and exact powers of two are strict",
        "an int64 measurement is placed by its float64 conversion (boundaries are doubles); min/max/sum are exact int64",
        "float sums: exact for quantised scenarios (all values multiples of 2^e), otherwise within n*2^-52*sum|v| of the "
        "exact sum (any summation order); sums whose exact value or a partial sum is unrepresentable are skipped",
        "scale choice is free within the statement's limits (any scale <= previous that satisfies the constraints)",
        "a stream configured with NoMinMax must report no extrema, a stream that collects no sum (up-down counter / gauge "
        "aggregated as a histogram) must report the zero value: anything else is a value the point's measurements do not have",
        "destination memory: previous occupants are real SDK output (donor providers, other readers, earlier cycles), never "
        "hand-made memory; map iteration order (scopes, attribute sets) and sync.Pool behaviour are not seeded: they only "
        "decide WHICH re-use happens, every outcome must satisfy the contract",
        "a reported point may change only when the ResourceMetrics it lives in is handed to a collection again (documented "
        "re-use); points the periodic reader exports are only looked at inside Export",
    ]
    ctx.extra["rule"] = ("edges: every transition of ExpoHistogram.tla / Histogram.tla for the listed configurations and "
                         "concretizations; random: seeded scenarios; a case is distinct by (configuration, measurement sequence)")
