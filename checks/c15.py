"""C15 -- provider lifecycle (trace / metric / log SDK providers).

model      : specs/Lifecycle/LifecycleModel.tla (pure reference model, a relation where the statement is
             silent) explored exhaustively by TPLifecycle / MPLifecycle / LPLifecycle for every call
             sequence up to a bound; TPConc.tla (implementation-shaped, lock-level) for 3-5 concurrent
             callers of Shutdown / Unregister / Register / End, incl. a NoKnown config that must find the
             known deviation D5 and a statement-shaped config that must be clean; BSP.tla `Stuck`
             (nothing blocks forever) must hold for the current shape of the batch span processor and must
             still fail for the pre-ada0bc0 shape (D2/D3, model-level regression of the repair).
spec->code : every TLC edge is replayed on the real providers with recording processors / readers /
             exporters (harness/c15 replay); configurations with nil exporters run one subprocess per
             edge so that a crash in a background goroutine is observed as an exit status.
code->spec : directed schedules (TLC counterexamples: the D2/D3 schedules through the BSP verif hooks, whose
             End / ForceFlush must RETURN since ada0bc0 -- a call parked forever is `hung`, exit 1; natural gates
             inside a processor's Shutdown) and seeded random concurrent scenarios with perturbation are
             recorded as ndjson and validated by TLC against the total contract LifecycleContract.tla.
Verdicts only from real-code behaviour; known genuine defects are listed in known_findings/C15.json.
"""
import json
import os

S = "Lifecycle"


def tla_set(xs):
    return "{" + ", ".join('"%s"' % x for x in xs) + "}"


def tla_seq(xs):
    return "<<" + ", ".join('"%s"' % x for x in xs) + ">>"


def tla_rec(d):
    return "[" + ", ".join('%s |-> "%s"' % (k, v) for k, v in d.items()) + "]"


LIVE, BOTH = ["live"], ["live", "cancelled"]


def explorer_configs(tier):
    t = tier == "thorough"
    cfgs = [
        # trace: recording processors, every context kind
        dict(name="tp-rec", prov="tp", kinds=dict(p1="rec", p2="rec", p3="rec"), order=["p1"], sctx=BOTH, fctx=BOTH,
             steps=7 if t else 4, items=2),
        dict(name="tp-rec-init2", prov="tp", kinds=dict(p1="rec", p2="rec", p3="rec"), order=["p1", "p2"], sctx=BOTH,
             fctx=LIVE, steps=6 if t else 3, items=3 if t else 2),
        # trace: stock processors around recording exporters
        dict(name="tp-stock", prov="tp", kinds=dict(p1="simple", p2="batch", p3="rec"), order=["p1", "p2"], sctx=LIVE,
             fctx=BOTH, steps=6 if t else 4, items=2),
        dict(name="lp-stock", prov="lp", kinds=dict(q1="rec", q2="simple", q3="batch"), order=["q1", "q2", "q3"],
             sctx=LIVE, fctx=LIVE, steps=7 if t else 4, items=3 if t else 2),
        dict(name="lp-rec", prov="lp", kinds=dict(q1="rec", q2="rec"), order=["q1", "q2"], sctx=BOTH, fctx=BOTH,
             steps=6 if t else 4, items=2),
        dict(name="mp-stock", prov="mp", kinds=dict(r1="manual", r2="periodic"), order=["r1", "r2"], sctx=BOTH,
             fctx=LIVE, steps=6 if t else 4, items=3 if t else 2),
        dict(name="mp-manual", prov="mp", kinds=dict(r1="manual", r2="manual"), order=["r1", "r2"], sctx=BOTH,
             fctx=BOTH, steps=5 if t else 4, items=2),
        # degenerate configurations: nil exporters (+ cancelled contexts), one subprocess per edge
        dict(name="tp-nil", prov="tp", kinds=dict(p1="simplenil", p2="batchnil"), order=["p1", "p2"], sctx=BOTH,
             fctx=BOTH, steps=4 if t else 3, items=1, isolate=True, max=900 if t else 90),
        dict(name="tp-nil-batch", prov="tp", kinds=dict(p1="batchnil", p2="rec"), order=["p1"], sctx=BOTH,
             fctx=BOTH, steps=4 if t else 3, items=1, isolate=True, max=500 if t else 50),
        dict(name="lp-nil", prov="lp", kinds=dict(q1="simplenil", q2="batchnil"), order=["q1", "q2"], sctx=BOTH,
             fctx=BOTH, steps=4 if t else 3, items=1, isolate=True, max=500 if t else 50),
        dict(name="mp-nil", prov="mp", kinds=dict(r1="periodicnil", r2="manual"), order=["r1", "r2"], sctx=BOTH,
             fctx=LIVE, steps=4 if t else 3, items=1, isolate=True, max=500 if t else 60),
        # stock components and contexts that are already done: whatever Shutdown(cancelled) returns, after the settle
        # window the exporter of every component that was shut down has been shut down (model: xsd = sd), exactly once
        dict(name="lp-stock-canc", prov="lp", kinds=dict(q1="batch", q2="simple"), order=["q1", "q2"], sctx=BOTH, fctx=LIVE,
             steps=4 if t else 3, items=1),
        dict(name="mp-stock-canc", prov="mp", kinds=dict(r1="periodic", r2="periodic"), order=["r1", "r2"], sctx=BOTH, fctx=LIVE,
             steps=4 if t else 3, items=1),
        dict(name="tp-stock-canc-q", prov="tp", kinds=dict(p1="batch", p2="simple"), order=["p1", "p2"], sctx=BOTH, fctx=LIVE,
             steps=3, items=1),
        # fault injection (op Fault): failing callbacks / external producers / exporters, processors and exporters
        # that return errors from Shutdown / ForceFlush -- everything is shut down exactly once all the same
        dict(name="mp-fault", prov="mp", kinds=dict(r1="manual", r2="periodic"), order=["r1", "r2"], sctx=LIVE, fctx=LIVE,
             steps=5 if t else 4, items=1, faults=["callback", "producer", "exporter"]),
        dict(name="tp-fault", prov="tp", kinds=dict(p1="rec", p2="batch", p3="simple"), order=["p1", "p2", "p3"], sctx=LIVE,
             fctx=LIVE, steps=5 if t else 4, items=1, faults=["comp"]),
        dict(name="lp-fault", prov="lp", kinds=dict(q1="rec", q2="simple", q3="batch"), order=["q1", "q2", "q3"], sctx=LIVE,
             fctx=LIVE, steps=5 if t else 4, items=1, faults=["comp"]),
    ]
    if t:
        cfgs += [
            dict(name="mp-fault-canc", prov="mp", kinds=dict(r1="periodic", r2="periodic"), order=["r1", "r2"], sctx=BOTH,
                 fctx=BOTH, steps=4, items=1, faults=["callback", "exporter"]),
            dict(name="tp-stock-canc", prov="tp", kinds=dict(p1="batch", p2="simple", p3="rec"), order=["p1", "p2"],
                 sctx=BOTH, fctx=BOTH, steps=4, items=2),
            dict(name="tp-stock-3", prov="tp", kinds=dict(p1="batch", p2="batch", p3="simple"), order=["p1"],
                 sctx=LIVE, fctx=LIVE, steps=5, items=2),
        ]
    return cfgs


def explorer_defs(c):
    ids = list(c["kinds"].keys())
    d = {"KINDS": tla_rec(c["kinds"]), "SCTXS": tla_set(c["sctx"]), "FCTXS": tla_set(c["fctx"]),
         "MAXSTEPS": c["steps"], "MAXSPANS": c["items"], "MAXITEMS": c["items"], "FAULTS": tla_set(c.get("faults", []))}
    if c["prov"] == "tp":
        d["P"] = tla_set(ids)
        d["INIT"] = tla_seq(c["order"])
    else:
        d["Q"] = tla_seq(c["order"])
    return d


CONC_FAMILY = [
    # (callers, init)
    ('[a |-> [op |-> "Shutdown"], b |-> [op |-> "Shutdown"], c |-> [op |-> "Unregister", p |-> "p1"], d |-> [op |-> "End"]]',
     ["p1", "p2"]),
    ('[a |-> [op |-> "Shutdown"], b |-> [op |-> "Unregister", p |-> "p1"], c |-> [op |-> "Unregister", p |-> "p1"], '
     'd |-> [op |-> "End"], e |-> [op |-> "Register", p |-> "p3"]]', ["p1", "p2"]),
    ('[a |-> [op |-> "Unregister", p |-> "u"], b |-> [op |-> "End"], c |-> [op |-> "Shutdown"]]', ["p1", "p2"]),
]
CONC_THOROUGH = [
    ('[a |-> [op |-> "Shutdown"], b |-> [op |-> "Unregister", p |-> "p1"], c |-> [op |-> "Unregister", p |-> "p1"], '
     'd |-> [op |-> "End"], e |-> [op |-> "Register", p |-> "p3"], f |-> [op |-> "Shutdown"]]',
     ["p1", "p2"]),
    ('[a |-> [op |-> "Shutdown"], b |-> [op |-> "Shutdown"], c |-> [op |-> "Shutdown"], d |-> [op |-> "Unregister", p |-> "p2"], '
     'e |-> [op |-> "End"]]', ["p1", "p2", "p3"]),
    ('[a |-> [op |-> "Register", p |-> "p2"], b |-> [op |-> "Unregister", p |-> "p2"], c |-> [op |-> "Shutdown"], '
     'd |-> [op |-> "End"], e |-> [op |-> "Unregister", p |-> "p1"]]', ["p1"]),
]


NOREENT = {"REENT": "<<>>", "PRECHECK": "TRUE"}  # TPConc without re-entrant processors


def bsp_defs(p, k, q, b, blocking, f, s, shape="current"):
    # placeholders of specs/BSP/MC_BSP*.cfg (C01's specification of the batch span processor)
    return {"PRODUCERS": tla_set(["p%d" % (i + 1) for i in range(p)]),
            "FLUSHERS": tla_set(["f%d" % (i + 1) for i in range(f)]),
            "STOPPERS": tla_set(["s%d" % (i + 1) for i in range(s)]),
            "SPANSPER": k, "QCAP": q, "MAXBATCH": b, "BLOCKING": "TRUE" if blocking else "FALSE",
            "ALLOWKNOWN": "TRUE", "STUCK": "Stuck", "CODESHAPE": shape, "OUTCOMES": tla_set(["ok", "error"]),
            "EXPIRING": tla_set([]), "EXPORTTIMEOUT": "TRUE", "RESETONFAILURE": "TRUE"}


def model_checking(ctx, thorough):
    fam = CONC_FAMILY + (CONC_THOROUGH if thorough else [])
    for i, (callers, init) in enumerate(fam):
        d = {"CALLERS": callers, "INIT": tla_seq(init), "CODESHAPE": "TRUE", "ALLOWKNOWN": "TRUE", **NOREENT}
        r = ctx.tlc(S, "MC_TPConc", "MC_TPConc.cfg", defines=d, name="conc-%d" % i, timeout=1800, coverage=(i == 1))
        # (the re-entrancy actions need a re-entrant processor: covered by conc-reent-shutdown below; InnerLock / URel are
        # the steps a re-entrant call would take once it GOT the mutex its own caller holds -- unreachable by construction)
        zc = [a for a in r["zero_cov"] if a not in ("Inner", "InnerLock", "URel")]
        if i == 1 and zc:
            ctx.note_inconclusive("TPConc: actions never taken: %s" % zc)
    callers, init = CONC_FAMILY[1]
    # TLC must find the known deviation when it is not admitted (the contract is not vacuous) ...
    r = ctx.tlc(S, "MC_TPConc", "MC_TPConc.cfg", name="conc-noknown", must_pass=False, count=False, timeout=600,
                defines={"CALLERS": callers, "INIT": tla_seq(init), "CODESHAPE": "TRUE", "ALLOWKNOWN": "FALSE", **NOREENT})
    if r["violated"] != "Contract":
        ctx.note_inconclusive("model drift: TLC does not find D5 with AllowKnown=FALSE (%s)" % r["out"])
    # ... and the statement-shaped Unregister satisfies the strict invariants
    ctx.tlc(S, "MC_TPConc", "MC_TPConc.cfg", name="conc-statement", timeout=1800,
            defines={"CALLERS": callers, "INIT": tla_seq(init), "CODESHAPE": "FALSE", "ALLOWKNOWN": "FALSE", **NOREENT})
    # re-entrant processors at lock level (TPConc `Reent`): a processor whose Shutdown calls back into the provider.
    # Triggered by TracerProvider.Shutdown the lock-free isShutdown pre-check answers: nothing blocks (must hold);
    # without the pre-check of Register / Unregister (the shape of a seeded change) the caller waits for the mutex
    # it holds itself: `Stuck` must fail; triggered by Unregister the flag is not set: `Stuck` fails on the code as
    # it is (known finding C15-unregister-runs-processor-shutdown-under-provider-lock = C10-D4)
    re3 = '[p1 |-> "Register", p2 |-> "Unregister", p3 |-> "Shutdown"]'
    sd = '[a |-> [op |-> "Shutdown"], b |-> [op |-> "Shutdown"], d |-> [op |-> "End"]]'
    base = {"INIT": tla_seq(["p1", "p2", "p3"]), "CODESHAPE": "TRUE", "ALLOWKNOWN": "TRUE"}
    r = ctx.tlc(S, "MC_TPConc", "MC_TPConc.cfg", name="conc-reent-shutdown", timeout=900, coverage=True,
                defines=dict(base, CALLERS=sd, REENT=re3, PRECHECK="TRUE"))
    if "Inner" in r["zero_cov"]:
        ctx.note_inconclusive("TPConc: the re-entrant call is never made in conc-reent-shutdown")
    ctx.tlc(S, "MC_TPConc", "MC_TPConc.cfg", name="conc-reent-shutdown-tracer", timeout=900,
            defines=dict(base, CALLERS=sd, REENT='[p1 |-> "Tracer", p2 |-> "Tracer"]', PRECHECK="TRUE"))
    exp = {}
    for name, d in (("conc-reent-no-precheck", dict(base, CALLERS=sd, REENT=re3, PRECHECK="FALSE")),
                    ("conc-reent-unregister-D4", dict(base, CALLERS='[a |-> [op |-> "Unregister", p |-> "p1"], d |-> [op |-> "End"]]',
                                                      REENT='[p1 |-> "Tracer"]', PRECHECK="TRUE"))):
        r = ctx.tlc(S, "MC_TPConc", "MC_TPConc.cfg", name=name, must_pass=False, count=False, timeout=600, defines=d)
        exp[name] = r["violated"]
        if r["violated"] != "Stuck":
            ctx.note_inconclusive("model drift: %s no longer violates Stuck (%s)" % (name, r["out"]))
    ctx.extra["reentrant_model"] = exp
    # "blocks forever" of the batch span processor at model level: BSP.tla (C01's specification, same TLA+ text)
    # with a producer / flusher past the stopped check across a complete Shutdown and a queue of one.
    # Current shape (ada0bc0: blocking sends select on stopCh): `Stuck` holds in blocking and drop mode, and
    # under fairness every call returns (Termination). Pre-ada0bc0 shape: `Stuck` must still fail (D2: End,
    # D3: ForceFlush marker) -- the model-level regression of the repair; the real-code regression is the
    # directed D2/D3 schedules below.
    for blocking, mode in ((True, "blocking"), (False, "dropmode")):
        ctx.tlc("BSP", "MC_BSP", "MC_BSP.cfg", defines=bsp_defs(2, 1, 1, 1, blocking, 1, 1), name="bsp-nostuck-" + mode,
                timeout=900)
        if blocking or thorough:  # quick: liveness for the blocking mode only (drop mode: `Stuck` above)
            ctx.tlc("BSP", "MC_BSP", "MC_BSP_live.cfg", defines=bsp_defs(2, 1, 1, 1, blocking, 1, 1), name="bsp-live-" + mode,
                    timeout=1800)
        name = "bsp-stuck-old-shape-%s-%s" % (mode, "D2" if blocking else "D3")
        r = ctx.tlc("BSP", "MC_BSP", "MC_BSP.cfg", defines=bsp_defs(2, 1, 1, 1, blocking, 1, 1, shape="pre-ada0bc0"),
                    name=name, must_pass=False, count=False, timeout=900)
        ctx.extra.setdefault("old_shape_exhibits_stuck", {})[name] = (r["violated"] == "Stuck")
        if r["violated"] != "Stuck":
            ctx.note_inconclusive("model drift: the pre-ada0bc0 shape of BSP.tla no longer violates Stuck (%s)" % r["out"])


def replay_all(ctx, binp, thorough):
    counters = {}
    total = 0
    for c in explorer_configs(ctx.tier):
        mod = {"tp": "MC_TP", "mp": "MC_MP", "lp": "MC_LP"}[c["prov"]]
        r = ctx.tlc(S, mod, mod + ".cfg", defines=explorer_defs(c), want_edges=True, name="mc-" + c["name"], timeout=2400)
        out = os.path.join(ctx.work, "replay-%s.json" % c["name"])
        cfgj = json.dumps({"prov": c["prov"], "kinds": c["kinds"], "order": c["order"]})
        cmd = [binp, "replay", "-edges", r["edges_file"], "-cfg", cfgj, "-out", out]
        if c.get("isolate"):
            cmd += ["-isolate", "-max", str(c["max"])]
        ctx.run(cmd, timeout=3000)
        res = json.load(open(out))
        total += res["executed"]
        ctx.traces_validated += res["executed"]
        ctx.evaluations += res["evaluations"]
        for k, v in res["counters"].items():
            counters[c["name"] + ":" + k] = v
            if k.startswith("op_") or k.startswith("status_"):
                counters["all:" + k] = counters.get("all:" + k, 0) + v
        ctx.add_samples(res["samples"][:1], cap=4)
        for m in res["mismatches"]:
            sig = dict(m["case"])
            sig["cfg"] = c["name"]
            msg = sig.pop("msg", None)
            ctx.violation(sig, replay={"config": c, "path": m.get("path"), "act": m.get("act"), "want_one_of": m.get("want"),
                                       "got": m.get("got"), "detail": m.get("detail"), "msg": msg})
        for s in res["inconclusive"]:
            ctx.note_inconclusive(s)
    ctx.extra["replay_counters"] = counters
    ctx.extra["groups_replayed"] = total
    # vacuity: every call kind was replayed, before and after Shutdown
    need = ["op_Register", "op_Unregister", "op_Shutdown", "op_ForceFlush", "op_Tracer", "op_StartEnd", "op_Logger", "op_Emit",
            "op_Meter", "op_Add", "op_Collect", "op_Shutdown_after_shutdown", "op_StartEnd_after_shutdown",
            "op_Emit_after_shutdown", "op_Collect_after_shutdown", "op_Unregister_after_shutdown", "op_Fault"]
    missing = [k for k in need if not counters.get("all:" + k)]
    if missing:
        ctx.note_inconclusive("vacuity: call kinds never replayed: %s" % missing)


def scenario_events(lines, v):
    scen = []
    for ln in lines[:v["line"]][::-1]:
        rec = json.loads(ln)
        if rec.get("sc") != v["sc"]:
            break
        scen.append(rec)
    scen.reverse()
    return scen


def judge_trace(ctx, tf, resf, label, kinds):
    res = json.load(open(resf))
    dumps = {}
    for m in res["mismatches"]:
        if m["kind"] == "hung-dump":
            dumps[m["case"]["sc"]] = m.get("detail")
    for s in res["inconclusive"]:
        ctx.note_inconclusive(s)
    viols, accepted = ctx.validate_trace(S, "Trace_Lifecycle", "Trace_Lifecycle.cfg", tf, name="trace-" + label, timeout=3000)
    ctx.extra["trace_lines_" + label] = accepted
    lines = None
    never_shut = set()  # (scenario, component) reported as never shut down
    for v in viols:
        if v["v"]["kind"] in ("shutdown-missing", "unregister-without-shutdown"):
            never_shut.add((v["sc"], v["v"].get("c")))
    for v in viols:
        vv = v["v"]
        kind = vv["kind"]
        kinds[kind] = kinds.get(kind, 0) + 1
        # class of the failing case: the violated clause, the call, the component kind / error class /
        # blocking frame (x), and the input classes of the scenario computed by the contract
        sig = {"dir": "trace", "prov": v["prov"], "kind": kind, "op": vv.get("op", ""), "x": vv.get("x", ""),
               "unk": v["unk"], "canc": v["canc"]}
        if kind == "export-after-shutdown":
            # the exporting processor is one that the same execution shows was never shut down
            sig["never_shut"] = (v["sc"], vv.get("c")) in never_shut
        if lines is None:
            lines = open(tf).read().splitlines()
        scen = scenario_events(lines, v)
        cfg = scen[0] if scen and scen[0].get("ev") == "Cfg" else {}
        ctx.violation(sig, replay={"violation": v, "source": label, "scenario_name": cfg.get("name"), "config": cfg,
                                   "events": scen[-400:], "goroutine_dump": dumps.get(v["sc"])})
    ctx.traces_validated += res["executed"]
    ctx.evaluations += res["executed"]
    return res


def run_recorded(ctx, cmd, label, timeout):
    """Run a recording mode of the harness. A process crash is real-code behaviour when it originates in an SDK
    goroutine (first non-runtime frame of the crashing stack is an SDK frame): a `crash` violation; a crash in harness
    code is a harness bug (inconclusive). Returns False when the trace is not usable."""
    p = ctx.run(cmd, timeout=timeout, ok_codes=(0, 2))
    if p.returncode == 0:
        return True
    frames = []
    seen_panic = False
    for ln in p.stderr.splitlines():
        if ln.startswith(("panic:", "fatal error:")):
            seen_panic = True
        if seen_panic and ln and not ln.startswith(("\t", "goroutine ", "panic", "fatal", "[signal", "created by", "runtime.", "runtime/",
                                                     "sync.", "sync/", "internal/", "reflect.")):
            frames.append(ln.split("(")[0] if not ln.startswith("go.opentelemetry.io") else ln[:ln.rfind("(")])
    first = frames[0] if frames else ""
    if first.startswith("go.opentelemetry.io/otel/sdk/") and "/verifh/" not in first:
        ctx.violation({"dir": "trace", "prov": label, "kind": "crash", "op": "", "x": first, "unk": False, "canc": False},
                      replay={"source": label, "stderr_tail": p.stderr[-6000:]})
        return False
    from vlib import Inconclusive
    raise Inconclusive("harness %s crashed outside the SDK (%s):\n%s" % (label, first, p.stderr[-3000:]))


def inflight(ctx, binp, kinds):
    """Work in flight inside a stock component when Shutdown arrives (InFlight.tla): the documented shape keeps
    NoLateExport (no Export begins after the exporter's Shutdown was called) for every component kind and context;
    the ctx-bounded shape (the wait for the worker is given up when the context is done) must violate it -- the
    model-level regression. The cells TLC enumerates are executed on the real components (`c15 inflight`, natural
    gates) and judged by LifecycleContract."""
    r = ctx.tlc(S, "InFlight", "InFlight.cfg", defines={"SHAPE": "wait"}, workers=1, name="inflight-wait", timeout=300)
    cells = [s_[5:] for s_ in r["prints"] if isinstance(s_, str) and s_.startswith("CELL ")]
    rb = ctx.tlc(S, "InFlight", "InFlight.cfg", defines={"SHAPE": "ctx-bounded"}, workers=1, name="inflight-ctx-bounded",
                 must_pass=False, count=False, timeout=300)
    ctx.extra["inflight_model"] = {"ctx-bounded shape violates": rb["violated"]}
    if rb["violated"] != "NoLateExport":
        ctx.note_inconclusive("model drift: the ctx-bounded shape of InFlight.tla no longer violates NoLateExport (%s)" % rb["out"])
    cf = os.path.join(ctx.work, "inflight-cells.ndjson")
    cells = list(dict.fromkeys(cells))
    open(cf, "w").write("\n".join(cells) + "\n")
    t4 = os.path.join(ctx.work, "trace-inflight.ndjson")
    r4 = os.path.join(ctx.work, "res-inflight.json")
    ctx.run([binp, "inflight", "-cells", cf, "-out", t4, "-res", r4, "-par", "6"], timeout=3000)
    res4 = judge_trace(ctx, t4, r4, "inflight", kinds)
    c4 = res4["counters"]
    ctx.extra["inflight_cells"] = {k: v for k, v in c4.items() if k.startswith("inflight") or k == "scenarios_hung"}
    if not cells or c4.get("inflight_cells", 0) != len(cells) or c4.get("inflight_gate_reached", 0) != len(cells):
        ctx.note_inconclusive("in-flight cells: %d enumerated, %s executed, %s with the worker held at its gate"
                              % (len(cells), c4.get("inflight_cells"), c4.get("inflight_gate_reached")))
    return res4


def reentrant(ctx, binp, kinds):
    """Re-entrant components: every cell of the matrix Reentry.tla enumerates, one subprocess per cell."""
    r = ctx.tlc(S, "Reentry", "Reentry.cfg", workers=1, name="reentry-cells", timeout=300)
    cells = [s_[5:] for s_ in r["prints"] if isinstance(s_, str) and s_.startswith("CELL ")]
    cf = os.path.join(ctx.work, "cells.ndjson")
    open(cf, "w").write("\n".join(dict.fromkeys(cells)) + "\n")
    ncells = len(set(cells))
    t3 = os.path.join(ctx.work, "trace-reent.ndjson")
    r3 = os.path.join(ctx.work, "res-reent.json")
    ctx.run([binp, "reent", "-cells", cf, "-out", t3, "-res", r3, "-par", "6"], timeout=3000)
    res3 = judge_trace(ctx, t3, r3, "reent", kinds)
    c3 = res3["counters"]
    ctx.extra["reentrant_cells"] = {k: v for k, v in c3.items() if k.startswith("reent") or k == "scenarios_hung"}
    if c3.get("reent_cells", 0) != ncells or c3.get("reentrant_calls_made", 0) != ncells:
        ctx.note_inconclusive("re-entrant cells: %d enumerated, %s executed, %s re-entrant calls made"
                              % (ncells, c3.get("reent_cells"), c3.get("reentrant_calls_made")))
    return res3


def run(ctx):
    thorough = ctx.tier == "thorough"
    binp = ctx.go_build("c15")
    model_checking(ctx, thorough)
    replay_all(ctx, binp, thorough)

    kinds = {}
    # ---- directed schedules (incl. the D2/D3 gate scripts)
    t1 = os.path.join(ctx.work, "trace-directed.ndjson")
    r1 = os.path.join(ctx.work, "res-directed.json")
    EMPTY = {"counters": {}, "samples": [], "executed": 0}
    ok1 = run_recorded(ctx, [binp, "directed", "-out", t1, "-res", r1, "-reps", "2" if thorough else "1"], "directed", 3000)
    res1 = judge_trace(ctx, t1, r1, "directed", kinds) if ok1 else EMPTY
    # the D2/D3 gate schedules are the real-code regression of ada0bc0: End / ForceFlush past the stopped check
    # must RETURN after the drain. A call that parks forever again is a `hung` violation (reported above through
    # the contract; the D2/D3 entries of known_findings are "fixed" and suppress nothing -> exit 1). The gates
    # must have been reached for the schedules to mean anything (binding; otherwise inconclusive, never a verdict).
    c1 = res1["counters"]
    ctx.extra["bsp_race"] = {k: v for k, v in c1.items() if k.startswith("bsp_race")}
    if ok1 and c1.get("bsp_race_second_call_returned", 0) != c1.get("bsp_race_schedules", -1) and "hung" not in kinds:
        ctx.note_inconclusive("D2/D3 schedules: the gated End / ForceFlush neither returned nor was reported hung (%s, desync=%s)"
                              % (ctx.extra["bsp_race"], c1.get("directed_desync", 0)))
    # ---- re-entrant components (incl. telemetry-producing exporters / processors), work in flight at Shutdown
    res3 = reentrant(ctx, binp, kinds)
    res4 = inflight(ctx, binp, kinds)
    # ---- seeded random concurrent scenarios
    n = 20000 if thorough else 600
    t2 = os.path.join(ctx.work, "trace-random.ndjson")
    r2 = os.path.join(ctx.work, "res-random.json")
    ok2 = run_recorded(ctx, [binp, "random", "-n", str(n), "-out", t2, "-res", r2], "random", 6000)
    res2 = judge_trace(ctx, t2, r2, "random", kinds) if ok2 else EMPTY
    ctx.add_samples(res2["samples"][:1], cap=6)
    conc = {}
    for res in (res1, res2, res3, res4):
        for k, v in res["counters"].items():
            conc[k] = conc.get(k, 0) + v
    ctx.extra["concurrent_counters"] = conc
    ctx.extra["violation_kinds_seen"] = kinds
    ctx.extra["random_scenarios"] = n
    ctx.exhaustive = False
    ctx.assumptions += [
        "each processor is registered at most once (the statement's `registered once`); re-registration is not modelled",
        "\"after Shutdown has returned\" = a Shutdown with a live context has returned and no Shutdown call is in flight",
        "no-op tracer = a tracer whose spans are non-recording; no-op meter / logger = the API's noop types",
        "stock log components are driven with cancelled contexts only under the (tolerant) contract, not in sequential "
        "edge replay: their early-return paths leave exports running in the background",
        "a hung call is reported only when every call in flight is parked inside the SDK in identical frames for >= 3 s "
        "and no other goroutine of the process is runnable (see harness/c15/conc.go waitOrHang); timeouts alone are inconclusive",
        "exporter / processor callbacks never fail or block by themselves (exporter failures are C01/C06's subject)",
    ]
    ctx.extra["rule"] = ("edges: every transition of the three lifecycle explorers for the listed configs, grouped by "
                         "(source state, call); traces: one per directed schedule / random scenario")
