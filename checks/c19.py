"""C19 -- resource merging is a right-biased union with well-defined schema handling.

spec -> code : TLC enumerates (ResourceMerge.tla over ResModel.tla) every tuple of 1..3 operands
               (2 keys x 2 values x 3 schemas, nil, empty), every attribute list (invalid keys,
               duplicates, invalid-typed values), every sequence of <= 3 scripted detectors
               (ok / partial / fail) under every base schema, and (ResourceEnv.tla over
               EnvModel.tla) every token string up to a length bound as OTEL_RESOURCE_ATTRIBUTES
               under several OTEL_SERVICE_NAME values.  The statement's laws are TLC invariants of
               every enumerated case.  harness/c19 executes the case of every edge on the real
               sdk/resource package (Merge / NewWithAttributes / NewSchemaless / New / Detect /
               WithFromEnv / Environment / Equal / Equivalent) and compares the projection of what
               it observes with the successor state (membership where the statement leaves a choice).
               ResourceCompose.tla (over the composition part of ResModel.tla) enumerates every environment
               setting {OTEL_GO_X_RESOURCE unset/true/false} x {keys OTEL_RESOURCE_ATTRIBUTES provides} x
               {OTEL_SERVICE_NAME} x {malformed member}: resource.Default() is executed for each in a fresh
               SUBPROCESS (sync.Once), and the same settings x every option list of length <= 3 over
               WithFromEnv / built-ins / WithAttributes / scripted detectors with colliding keys /
               WithSchemaURL on resource.New; winners are projected per key onto source tags.
code -> spec : harness/c19 builds seeded random resources (up to 12 attributes of all 8 value types,
               odd keys), lists, detector sequences and environment strings on the real code; TLC
               validates every recorded observation against the same operators
               (Trace_ResourceMerge.tla) and evaluates the laws on the real operands.
"""
import json
import os

S = "ResourceMerge"

KEYS = '{"k1","k2"}'
VALS = '{"v1","v2"}'
SCHEMAS = '{"","u1","u2"}'


def tla_res(attrs, schema):
    if attrs is None:
        return "NilRes"
    return "Res({%s}, \"%s\")" % (", ".join('[k |-> "%s", v |-> "%s"]' % kv for kv in attrs), schema)


DET_SMALL = [None, ([], ""), ([("k1", "v1")], "u1"), ([("k1", "v2")], "u2"), ([("k1", "v2"), ("k2", "v1")], ""),
             ([("k2", "v2")], "u1")]
DET_MORE = DET_SMALL + [([], "u2"), ([("k1", "v1"), ("k2", "v2")], "u2"), ([("k2", "v1")], ""), ([("k1", "v1")], "")]


def det_set(lst):
    return "{" + ", ".join(tla_res(*(x if x else (None, ""))) for x in lst) + "}"


def res_defs(mode, maxn, listkeys='{"","k1","k2"}', listvals='{"v1","v2","inv"}', detres="{NilRes}"):
    return {"MODE": mode, "MAXN": maxn, "KEYS": KEYS, "VALS": VALS, "SCHEMAS": SCHEMAS, "LISTKEYS": listkeys,
            "LISTVALS": listvals, "DETRES": detres}


UNSET = '[set |-> FALSE, s |-> <<>>]'


def svc(*toks):
    return '[set |-> TRUE, s |-> <<%s>>]' % ", ".join('"%s"' % t for t in toks)


def alpha(*toks):
    return "{" + ", ".join('"%s"' % t for t in toks) + "}"


def env_configs(thorough):
    x = 1 if thorough else 0
    return [
        dict(name="env-pairs", ALPHABET=alpha("k", "j", "eq", "comma"), MAXLEN=6 + x, SVC="{%s}" % UNSET),
        dict(name="env-escapes", ALPHABET=alpha("k", "eq", "pvC", "pvP", "pct", "pbZ", "hx"), MAXLEN=4 + x, SVC="{%s}" % UNSET),
        dict(name="env-escapes2", ALPHABET=alpha("k", "eq", "comma", "pvE", "pvS", "pb2", "sp"), MAXLEN=4 + x, SVC="{%s}" % UNSET),
        dict(name="env-space", ALPHABET=alpha("k", "eq", "comma", "sp", "oth", "plus"), MAXLEN=5 + x, SVC="{%s}" % UNSET),
        dict(name="env-svc", ALPHABET=alpha("svc", "k", "eq", "comma"), MAXLEN=5 + x,
             SVC="{%s}" % ", ".join([UNSET, svc("j"), svc("sp", "j", "sp"), svc("sp"), svc(), svc("pvC", "eq", "comma", "pbZ")])),
    ]


def res_configs(thorough):
    ops_all = "Operands"
    cfgs = [
        dict(name="merge-triples", mode="merge", d=res_defs("merge", 3)),
        dict(name="list", mode="list", d=res_defs("list", 5 if thorough else 4)),
        dict(name="detect-seq3", mode="detect", d=res_defs("detect", 3, detres=det_set(DET_MORE if thorough else DET_SMALL))),
        dict(name="detect-all-operands", mode="detect", d=res_defs("detect", 2, detres=ops_all)),
    ]
    if thorough:
        cfgs.append(dict(name="detect-seq4", mode="detect", d=res_defs("detect", 4, detres=det_set(DET_SMALL[:2] + DET_SMALL[2:5]))))
    return cfgs


# ---- composition of Default() / New(opts...) (ResourceCompose.tla)
K4 = '{"service.name","service.instance.id","telemetry.sdk.name","custom.key"}'
K5 = '{"service.name","service.instance.id","telemetry.sdk.name","custom.key","host.name"}'
RA_FEW = ('{{}, {"service.name"}, {"telemetry.sdk.name","custom.key"}, '
          '{"service.name","service.instance.id","telemetry.sdk.name","custom.key","host.name"}}')
OPTS_QUICK = ('{EnvO, Bi("sdk"), Bi("host"), At({"service.name"}), At({"telemetry.sdk.name","custom.key","host.name"}), '
              'Dt({"service.name","custom.key"},"u1","ok"), Dt({"telemetry.sdk.name","host.name"},"sc","partial"), '
              'Dt({"service.name"},"","fail"), DtNil("ok"), Sch("u1"), Sch("sc")}')
OPTS_BAD = '{EnvO, Bi("sdk"), At({"service.name"}), Dt({"service.name","custom.key"},"","ok")}'
OPTS_WIDE = ('{EnvO, Bi("sdk"), At({"service.name","service.instance.id"}), Dt({"service.name","custom.key","telemetry.sdk.name"},"u1","ok"), '
             'Dt({"host.name","service.instance.id"},"","partial"), Sch("u1")}')
OPTS_ALL_BUILTINS = ('{EnvO, At({"service.name","host.name","process.pid","os.type"}), Dt({"host.id","container.id","telemetry.sdk.version"},"sc","ok"), Sch("sc")} '
                     '\\cup {Bi(b) : b \\in {"sdk","host","hostid","os","ostype","osdesc","proc","procpid","procexe","procpath","procargs",'
                     '"procowner","procrtname","procrtver","procrtdesc","container","containerid"}}')
OPTS_L4 = ('{EnvO, Bi("sdk"), Bi("host"), At({"service.name","host.name"}), Dt({"service.name","custom.key"},"u1","ok"), '
           'Dt({"telemetry.sdk.name"},"","fail"), Sch("sc")}')


def compose_defs(mode, maxn, x, ra, sn="BOOLEAN", bad="{FALSE}", options="{}"):
    return {"MODE": mode, "MAXN": maxn, "XCHOICES": x, "RACHOICES": ra, "SNCHOICES": sn, "BADCHOICES": bad, "OPTIONS": options}


def compose_configs(thorough):
    allx = '{"unset","true","false"}'
    cfgs = [
        dict(name="default-env", mode="default",
             d=compose_defs("default", 0, allx, "SUBSET " + (K5 if thorough else K4), bad="BOOLEAN")),
        dict(name="new-lists3", mode="new", d=compose_defs("new", 3, '{"unset"}', RA_FEW, options=OPTS_QUICK)),
        dict(name="new-malformed-env", mode="new",
             d=compose_defs("new", 3, '{"unset","true"}', '{{}, {"service.name","custom.key"}}', bad="{TRUE}", options=OPTS_BAD)),
    ]
    if thorough:
        cfgs += [
            dict(name="new-wide-env", mode="new", d=compose_defs("new", 3, '{"unset"}', "SUBSET " + K5, bad="BOOLEAN", options=OPTS_WIDE)),
            dict(name="new-all-builtins", mode="new", d=compose_defs("new", 3, '{"unset"}', RA_FEW, sn="{TRUE}", options=OPTS_ALL_BUILTINS)),
            dict(name="new-lists4", mode="new", d=compose_defs("new", 4, '{"true"}', RA_FEW, options=OPTS_L4)),
        ]
    return cfgs


def nan_slice(res):
    return any(a["v"].startswith("FLOAT64SLICE") and "NaN" in a["v"] for a in res.get("attrs", []))


def handle_mismatches(ctx, res, cfgname):
    for m in res["mismatches"]:
        sig = {"dir": "replay", "cfg": cfgname}
        sig.update(m.get("case") or {})
        if m["kind"] == "panic":
            sig["why"] = "panic"
        ctx.violation(sig, replay={"case": m.get("act"), "want": m.get("want"), "got": m.get("got"), "detail": m.get("detail")})
    for s in res["inconclusive"]:
        ctx.note_inconclusive(s)
    for k, v in res["counters"].items():
        c = ctx.extra.setdefault("counters", {})
        c[k] = c.get(k, 0) + v


def run(ctx):
    thorough = ctx.tier == "thorough"
    binp = ctx.go_build("c19")
    reps = list(range(0, 24, 2)) if thorough else [ctx.seed]
    edges_total = 0
    zero_cov = {}
    # ---- vacuity: coverage of the main machines on a small instance (all sub-expressions of Next / Inv)
    for mode, d in (("merge", res_defs("merge", 2)), ("list", res_defs("list", 2)),
                    ("detect", res_defs("detect", 2, detres=det_set(DET_SMALL)))):
        r = ctx.tlc(S, "MC_ResourceMerge", "MC_ResourceMerge.cfg", defines=d, coverage=True, workers=1,
                    name="cov-" + mode, count=False)
        zero_cov["cov-" + mode] = r["zero_cov"]
    r = ctx.tlc(S, "MC_ResourceEnv", "MC_ResourceEnv.cfg", coverage=True, workers=1, name="cov-env", count=False,
                defines={"ALPHABET": alpha("k", "eq", "comma", "sp", "pvC", "pct"), "MAXLEN": 3, "RTLEN": 2,
                         "SVC": "{%s, %s}" % (UNSET, svc("j"))})
    zero_cov["cov-env"] = r["zero_cov"]
    r = ctx.tlc(S, "MC_ResourceCompose", "MC_ResourceCompose.cfg", coverage=True, workers=1, name="cov-compose", count=False,
                defines=compose_defs("new", 2, '{"unset","true"}', '{{}, {"service.name"}}', bad="BOOLEAN",
                                     options='{EnvO, Bi("sdk"), At({"service.name"}), Sch("u1")}'))
    zero_cov["cov-compose"] = r["zero_cov"]
    ctx.extra["zero_coverage_actions"] = zero_cov
    if any(zero_cov.values()):
        ctx.note_inconclusive("vacuity: actions never taken: %s" % zero_cov)
    # ---- spec -> code: resources
    for c in res_configs(thorough):
        r = ctx.tlc(S, "MC_ResourceMerge", "MC_ResourceMerge.cfg", defines=c["d"], want_edges=True, name=c["name"],
                    timeout=3000)
        for rep in reps:
            out = os.path.join(ctx.work, "replay-%s-%d.json" % (c["name"], rep))
            ctx.run([binp, "replay", "-mode", c["mode"], "-edges", r["edges_file"], "-rep", str(rep), "-out", out],
                    timeout=3000)
            res = json.load(open(out))
            edges_total += res["evaluations"]
            ctx.traces_validated += res["executed"]
            ctx.evaluations += res["evaluations"]
            ctx.add_samples(res["samples"][:1], cap=8)
            handle_mismatches(ctx, res, c["name"])
    # ---- spec -> code: environment (serial inside one harness process per config)
    for c in env_configs(thorough):
        d = {"ALPHABET": c["ALPHABET"], "MAXLEN": c["MAXLEN"], "SVC": c["SVC"], "RTLEN": 4 if thorough else 3}
        r = ctx.tlc(S, "MC_ResourceEnv", "MC_ResourceEnv.cfg", defines=d, want_edges=True, name=c["name"], timeout=3000)
        for rep in (range(0, 4) if thorough else [ctx.seed]):
            out = os.path.join(ctx.work, "replay-%s-%d.json" % (c["name"], rep))
            ctx.run([binp, "replay", "-mode", "env", "-edges", r["edges_file"], "-rep", str(rep), "-out", out], timeout=3000)
            res = json.load(open(out))
            edges_total += res["evaluations"]
            ctx.traces_validated += res["executed"]
            ctx.evaluations += res["evaluations"]
            ctx.add_samples(res["samples"][:1], cap=8)
            handle_mismatches(ctx, res, c["name"])
    # ---- spec -> code: composition of Default() (one subprocess per edge) and New(opts...) (serial, in-process)
    for c in compose_configs(thorough):
        r = ctx.tlc(S, "MC_ResourceCompose", "MC_ResourceCompose.cfg", defines=c["d"], want_edges=True, name=c["name"], timeout=3000)
        if c["mode"] == "default":
            creps = range(0, 12) if thorough else [ctx.seed, ctx.seed + 5]
        else:
            creps = range(0, 8, 2) if thorough else [ctx.seed]
        for rep in creps:
            out = os.path.join(ctx.work, "replay-%s-%d.json" % (c["name"], rep))
            ctx.run([binp, "replay", "-mode", c["mode"], "-edges", r["edges_file"], "-rep", str(rep), "-out", out], timeout=3000)
            res = json.load(open(out))
            edges_total += res["evaluations"]
            ctx.traces_validated += res["executed"]
            ctx.evaluations += res["evaluations"]
            ctx.add_samples(res["samples"][:1], cap=10)
            handle_mismatches(ctx, res, c["name"])
    ctx.extra["edges_replayed"] = edges_total
    # ---- code -> spec
    n = 4000 if thorough else 300
    trace = os.path.join(ctx.work, "trace.ndjson")
    resf = os.path.join(ctx.work, "random.json")
    ctx.run([binp, "random", "-n", str(n), "-ndefault", str(600 if thorough else 60), "-out", trace, "-res", resf], timeout=3000)
    res = json.load(open(resf))
    handle_mismatches(ctx, res, "random")
    viols, accepted = ctx.validate_trace(S, "Trace_ResourceMerge", "Trace_ResourceMerge.cfg", trace, timeout=3000)
    ctx.traces_validated += accepted
    ctx.evaluations += res["executed"]
    ctx.extra["random_scenarios"] = n
    ctx.extra["trace_lines_validated"] = accepted
    ctx.add_samples(res["samples"][:2], cap=10)
    lines = None
    for v in viols:
        if lines is None:
            lines = open(trace).read().splitlines()
        rec = json.loads(lines[v["line"] - 1])
        sig = {"dir": "random", "mode": v["ev"].lower(), "why": v["why"], "class": ""}
        if v["ev"] == "Eq":
            sig["class"] = "nan-in-float64slice" if (nan_slice(rec["a"]) or nan_slice(rec["b"])) else ""
        elif v["ev"] == "Env":
            sig["class"] = rec.get("class", "")
        ctx.violation(sig, replay={"line": rec, "want": v.get("want")})
    ctx.assumptions += [
        "keys / values of the exhaustive modes stand for the representatives in harness/c19 (keyReps, valReps, schemaReps); "
        "the representative varies along the edge list and with the seed",
        "environment tokens stand for the representatives in harness/c19 envReps; key characters are never hex digits, "
        "inputs never contain a lone % directly followed by the text 2C",
        "a nil result is observed through the nil-safe accessors (the statement equates nil and empty)",
        "environment cases run serially in one goroutine of one process (os.Setenv / Unsetenv); resource.Default() is computed once "
        "per process, so every Default() case runs in its own subprocess of the harness binary (environment prepared by the parent)",
        "composition (ResourceCompose.tla): values are projected onto source tags; a value supplied by the environment or by an option "
        "must be exact, a generated one only well formed (service.instance.id: UUID; service.name: unknown_service:<non-empty>; "
        "telemetry.sdk.name/language: opentelemetry/go; other built-ins: equal to the standalone detection in the same process); "
        "telemetry.sdk.* in Default() are read as not overridable from the environment (the SDK MUST set them)",
        "a built-in option that does not yield its documented key set on this machine (e.g. no /etc/machine-id) is skipped in the "
        "enumerated option lists (counter new_edges_skipped_machine_specific_builtin) and only covered by the random lists, "
        "where every option is observed standalone",
        "option lists hold at most one WithSchemaURL (the statement does not say which of several wins)",
        "the text of errors is not compared, only errors.Is against ErrSchemaURLConflict / ErrPartialResource / the detector's own error",
    ]
    ctx.extra["rule"] = ("edges: every transition of ResourceMerge.tla / ResourceEnv.tla for the listed configs, each executed on "
                         "the real package; random: seeded scenarios, one trace line per observed call group")
