"""C01 -- batch span processor: exactly-once delivery, bounded batches, exclusive exporter.

model      : BSP.tla (implementation-shaped, one action per critical section; exporter answers
             ok / error / timeout, caller contexts that expire, timer-triggered export) checked
             exhaustively by TLC for a family of small configurations against the contract carried by its
             monitor variables; NoD1/NoD4 configs demonstrate that TLC finds the known deviations; the shapes
             before the repairs must still fail at model level (pre-ada0bc0: `Stuck` D2/D3, pre-6258232: NoD6,
             pre-af9523f: NoD7), the current one satisfies `Stuck`, `Termination` and admits D1/D4 only; a
             model-level mutation (batch kept after a failed export) must violate NoDup.
spec->code : TLC -simulate behaviours of BSPSim.tla (BSP + history of instrumentation-point keys, exporter
             answers and context expiries) are replayed on the real processor: vh.Sched holds every
             goroutine at its hook / exporter / call gate until the behaviour says it is its turn.
code->spec : every real execution (replayed behaviours, directed schedules, seeded random scenarios
             with schedule perturbation, slow/failing/timing-out exporters and cancelled / expiring caller
             contexts) is recorded as ndjson and validated by TLC against the total contract monitor
             BSPContract.tla (Trace_BSP.tla).
impl-trace : Trace_BSPImpl.tla: a sample of the same recorded executions (replayed behaviours, directed schedules,
             the first random scenarios; they also carry one `Pt` line per verif hook point passed) must be
             explainable by the ACTIONS of BSP.tla itself -- exact lines (Call/Ret, ExportBegin/End under
             batchMutex), confirmation lines (every bsp.* hook: after the step, no lock), TLC infers the unlogged
             steps (depth first, high-water mark), BSP.tla's invariants stay on. A trace the contract accepts but
             BSP.tla cannot explain is MODEL DRIFT: counted, reported (evidence + NOTE), never a verdict.
"""
import json
import os
import random
import time
from concurrent.futures import ThreadPoolExecutor

S = "BSP"
ALL = ("ok", "error", "timeout")


def tla_set(xs):
    return "{" + ", ".join('"%s"' % x for x in xs) + "}"


def mc_defs(p, k, q, b, blocking, f, s, known=True, inv="Stuck", shape="current", outcomes=ALL, expiring=(), et=True,
            reset=True, timersim=False):
    return {"PRODUCERS": tla_set(["p%d" % (i + 1) for i in range(p)]),
            "FLUSHERS": tla_set(["f%d" % (i + 1) for i in range(f)]),
            "STOPPERS": tla_set(["s%d" % (i + 1) for i in range(s)]),
            "SPANSPER": k, "QCAP": q, "MAXBATCH": b, "BLOCKING": "TRUE" if blocking else "FALSE",
            "ALLOWKNOWN": "TRUE" if known else "FALSE", "STUCK": inv, "CODESHAPE": shape,
            "OUTCOMES": tla_set(outcomes), "EXPIRING": tla_set(expiring), "EXPORTTIMEOUT": "TRUE" if et else "FALSE",
            "RESETONFAILURE": "TRUE" if reset else "FALSE", "TIMERSIM": "TRUE" if timersim else "FALSE"}


def cfg_name(p, k, q, b, blocking, f, s, **kw):
    n = "p%dx%d-q%d-b%d-%s-f%d-s%d" % (p, k, q, b, "blk" if blocking else "drop", f, s)
    if kw.get("expiring"):
        n += "-exp_" + "_".join(kw["expiring"])
    if kw.get("et") is False:
        n += "-noET"
    if kw.get("timersim"):
        n += "-timer"
    return n


def ends(*keys):
    """script fragment: the named spans pass the stopped check and are enqueued"""
    out = []
    for k in keys:
        out += [k + "@call", k + "@bsp.onend.checked", k + "@bsp.enq.sent"]
    return out


DIRECTED = [
    # vocabulary: an entry releases the named process from the gate it waits at (see BSPSim.tla)
    # D1: ForceFlush while Shutdown is draining (worker held inside the export)
    dict(name="D1-flush-during-shutdown", producers=1, spansPer=2, qcap=4, maxbatch=1, flushers=1, stoppers=1,
         script=["p1:1@call", "p1:1@bsp.onend.checked", "p1:1@bsp.enq.sent", "p1:2@call", "p1:2@bsp.onend.checked",
                 "p1:2@bsp.enq.sent", "w@bsp.worker.dequeued:p1:1", "w@bsp.worker.appended:p1:1", "s1@call",
                 "s1@bsp.sd.stopped", "f1@call", "f1@bsp.ff.stopped", "x@exp.begin", "s1@bsp.sd.closed"]),
    # D4: OnEnd passes the stopped check, Shutdown drains and returns, then the span is enqueued
    dict(name="D4-enqueue-after-drain", producers=1, spansPer=1, qcap=2, maxbatch=2, flushers=0, stoppers=2,
         script=["p1:1@call", "s1@call", "s1@bsp.sd.stopped", "s1@bsp.sd.closed", "w@bsp.drain.empty",
                 "p1:1@bsp.onend.checked", "p1:1@bsp.enq.sent", "s2@call"]),
    # flush export and size-triggered worker export compete for the batch
    dict(name="flush-vs-worker-export", producers=2, spansPer=2, qcap=4, maxbatch=2, flushers=1, stoppers=1,
         script=["p1:1@call", "p1:1@bsp.onend.checked", "p1:1@bsp.enq.sent", "w@bsp.worker.dequeued:p1:1",
                 "f1@call", "f1@bsp.ff.checked", "p2:1@call", "p2:1@bsp.onend.checked", "p2:1@bsp.enq.sent",
                 "w@bsp.worker.appended:p1:1", "f1@bsp.ff.marker", "w@bsp.worker.dequeued:p2:1", "f1@bsp.ff.flushed",
                 "w@bsp.worker.appended:p2:1", "x@exp.begin", "p1:2@call", "p1:2@bsp.onend.checked", "p1:2@bsp.enq.sent",
                 "p2:2@call", "p2:2@bsp.onend.checked", "p2:2@bsp.enq.sent", "s1@call"]),
    # queue overflow while the exporter is held: drops are counted, survivors delivered once
    dict(name="overflow-held-exporter", producers=1, spansPer=6, qcap=2, maxbatch=1, flushers=1, stoppers=1,
         script=["p1:1@call", "p1:1@bsp.onend.checked", "p1:1@bsp.enq.sent", "w@bsp.worker.dequeued:p1:1",
                 "w@bsp.worker.appended:p1:1", "p1:2@call", "p1:2@bsp.onend.checked", "p1:2@bsp.enq.sent", "p1:3@call",
                 "p1:3@bsp.onend.checked", "p1:3@bsp.enq.sent", "p1:4@call", "p1:4@bsp.onend.checked",
                 "p1:4@bsp.enq.dropped", "p1:5@call", "p1:5@bsp.onend.checked", "p1:5@bsp.enq.dropped", "p1:6@call",
                 "p1:6@bsp.onend.checked", "p1:6@bsp.enq.dropped", "x@exp.begin", "f1@call", "s1@call"]),
    # stopped flag set between the check and the enqueue while the drain has not started: the drain must export it
    dict(name="check-then-stop-then-enqueue", producers=2, spansPer=1, qcap=2, maxbatch=2, flushers=0, stoppers=1,
         script=["p1:1@call", "p1:1@bsp.onend.checked", "p1:1@bsp.enq.sent", "p2:1@call", "s1@call",
                 "p2:1@bsp.onend.checked", "p2:1@bsp.enq.sent", "s1@bsp.sd.stopped", "s1@bsp.sd.closed"]),
    # ---- the repaired shape (ada0bc0): blocking sends look at stopCh
    # (former D2) blocking mode, two Ends past the stopped check, Shutdown drains and returns, the first
    # fills the queue, the second must give up (Abandoned) and RETURN; a later Shutdown: D4 class
    dict(name="end-after-drain-blocking", producers=2, spansPer=1, qcap=1, maxbatch=1, blocking=True, flushers=0, stoppers=2,
         script=["p1:1@call", "p2:1@call", "s1@call", "s1@bsp.sd.stopped", "s1@bsp.sd.closed", "w@bsp.drain.empty",
                 "p1:1@bsp.onend.checked", "p1:1@bsp.enq.sent", "p2:1@bsp.onend.checked", "p2:1@bsp.enq.stopped", "s2@call"]),
    # (former D3) ForceFlush past the stopped check, Shutdown drains and returns, a span fills the queue,
    # the marker cannot be sent: ForceFlush must take the bsp.ff.stopch exit and RETURN
    dict(name="flush-marker-after-drain", producers=1, spansPer=1, qcap=1, maxbatch=1, flushers=1, stoppers=1,
         script=["p1:1@call", "f1@call", "s1@call", "s1@bsp.sd.stopped", "s1@bsp.sd.closed", "w@bsp.drain.empty",
                 "p1:1@bsp.onend.checked", "p1:1@bsp.enq.sent", "f1@bsp.ff.checked", "f1@bsp.ff.stopch"]),
    # blocking End parked on a full queue while the worker is held in the exporter; Shutdown begins: the End is
    # released through stopCh (Abandoned, not counted as dropped); the drain then exports the queued span
    # (its `exporting spans` log line shows the dropped counter after the abandon)
    dict(name="abandon-while-draining", producers=2, spansPer=2, qcap=1, maxbatch=1, blocking=True, flushers=0, stoppers=1,
         script=ends("p1:1") + ["w@bsp.worker.dequeued:p1:1", "w@bsp.worker.appended:p1:1"] + ends("p1:2") +
         ["p2:1@call", "p2:1@bsp.onend.checked", "s1@call", "s1@bsp.sd.stopped", "p2:1@bsp.enq.stopped",
          "s1@bsp.sd.closed", "x@exp.begin"]),
    # ---- exporter answers
    # a failed size-triggered export and a failed flush export: every span handed exactly once, no retry
    dict(name="export-errors", producers=1, spansPer=4, qcap=4, maxbatch=2, flushers=2, stoppers=1,
         outcomes=["error", "error", "ok"],
         script=ends("p1:1", "p1:2") + ["w@bsp.worker.dequeued:p1:1", "w@bsp.worker.appended:p1:1",
                                        "w@bsp.worker.dequeued:p1:2", "w@bsp.worker.appended:p1:2", "x@exp.begin"] +
         ends("p1:3") + ["f1@call", "f1@bsp.ff.checked", "f1@bsp.ff.marker", "w@bsp.worker.dequeued:p1:3",
                         "w@bsp.worker.appended:p1:3", "f1@bsp.ff.flushed", "x@exp.begin"] +
         ends("p1:4") + ["f2@call", "s1@call"]),
    # exporter that only gives up at the export timeout (ctx deadline from ExportTimeout), then Shutdown
    dict(name="export-timeout", producers=1, spansPer=3, qcap=4, maxbatch=1, flushers=1, stoppers=1, exportTimeoutMs=20,
         outcomes=["timeout", "ok", "timeout"],
         script=ends("p1:1") + ["w@bsp.worker.dequeued:p1:1", "w@bsp.worker.appended:p1:1"] + ends("p1:2", "p1:3") +
         ["f1@call", "f1@bsp.ff.checked", "x@exp.begin", "f1@bsp.ff.marker", "s1@call"]),
    # ---- caller contexts
    # Shutdown's ctx expires while the worker is held in the exporter: it returns ctx.Err(); the drain then exports the
    # queued span after it has returned -- an OBSERVATION (obs:export-after-shutdown-returned-error), not a violation
    dict(name="expired-shutdown", producers=1, spansPer=2, qcap=4, maxbatch=1, flushers=0, stoppers=1, ctx={"s1": "cancel"},
         script=ends("p1:1", "p1:2") + ["w@bsp.worker.dequeued:p1:1", "w@bsp.worker.appended:p1:1", "s1@call",
                                        "s1@ctx.expire/s1@bsp.sd.stopped", "s1@bsp.sd.stopped", "s1@ret", "x@exp.begin"]),
    # (former D7, repaired by af9523f) ... a second Shutdown must NOT return nil before the drain has handed the queued
    # span over: s2 (its own ctx expires later) must return ctx.Err(), s3 (Background) returns nil only after the drain.
    # Before the repair s2 returned nil at once (shutdown-nil-while-expired-drain-runs: unlisted -> exit 1).
    dict(name="second-shutdown-waits-for-drain", producers=1, spansPer=2, qcap=4, maxbatch=1, flushers=0, stoppers=3,
         ctx={"s1": "cancel", "s2": "cancel"}, reps=3,
         script=ends("p1:1", "p1:2") + ["w@bsp.worker.dequeued:p1:1", "w@bsp.worker.appended:p1:1", "s1@call",
                                        "s1@ctx.expire/s1@bsp.sd.stopped", "s1@bsp.sd.stopped", "s1@ret", "s2@call",
                                        "s2@ctx.expire/", "s2@ret", "s3@call", "x@exp.begin"]),
    # (former D6, repaired by 6258232) ForceFlush whose ctx becomes done after the stopped check: when the marker select
    # takes the ctx exit ForceFlush must return ctx.Err(). Before the repair it exported the batch as it was and, if that
    # (empty) export finished first, returned nil although the two queued spans were not handed over (two coin flips of
    # Go's select per flusher, 22 % per call: flush-missed-ctx-done-no-marker, unlisted -> exit 1)
    dict(name="flush-ctx-done-before-marker", producers=1, spansPer=2, qcap=8, maxbatch=8, flushers=4, stoppers=1,
         exportTimeoutMs=0, slowDoneUs=400, ctx={"f1": "cancel", "f2": "cancel", "f3": "cancel", "f4": "cancel"}, reps=6,
         script=ends("p1:1", "p1:2") +
         sum([["f%d@call" % i, "f%d@ctx.expire/f%d@bsp.ff.checked" % (i, i), "f%d@bsp.ff.checked" % i, "f%d@ret" % i]
              for i in (1, 2, 3, 4)], []) +
         ["s1@call", "w@bsp.worker.dequeued:p1:1"]),
    # ForceFlush's ctx expires while it waits for its marker (worker held in the exporter): returns ctx.Err(),
    # promises nothing; the marker stays queued and is discarded by the worker later
    dict(name="flush-ctx-expires-waiting-for-marker", producers=1, spansPer=3, qcap=4, maxbatch=1, flushers=2, stoppers=1,
         ctx={"f1": "deadline"},
         script=ends("p1:1") + ["w@bsp.worker.dequeued:p1:1", "w@bsp.worker.appended:p1:1"] + ends("p1:2") +
         ["f1@call", "f1@bsp.ff.checked", "f1@ctx.expire/f1@bsp.ff.marker", "f1@bsp.ff.marker", "x@exp.begin"] +
         ends("p1:3") + ["f2@call", "s1@call"]),
    # ForceFlush's ctx expires while its own export is in flight: it returns ctx.Err() while the export goes on in
    # the background; the worker's next export must still wait for it (exclusive exporter)
    dict(name="flush-ctx-expires-during-export", producers=1, spansPer=3, qcap=4, maxbatch=2, flushers=1, stoppers=1,
         ctx={"f1": "cancel"}, exportTimeoutMs=0,
         script=ends("p1:1") + ["w@bsp.worker.dequeued:p1:1", "w@bsp.worker.appended:p1:1", "f1@call", "f1@bsp.ff.checked",
                                "f1@bsp.ff.marker", "f1@bsp.ff.flushed", "f1@ctx.expire/"] + ends("p1:2", "p1:3") +
         ["w@bsp.worker.dequeued:p1:2", "x@exp.begin", "w@bsp.worker.appended:p1:2", "w@bsp.worker.dequeued:p1:3",
          "w@bsp.worker.appended:p1:3", "x@exp.begin", "s1@call"]),
    # Shutdown with an already-cancelled ctx, ForceFlush with an already-cancelled ctx
    dict(name="cancelled-contexts", producers=1, spansPer=2, qcap=4, maxbatch=2, flushers=1, stoppers=2,
         ctx={"f1": "cancelled", "s1": "cancelled"},
         script=ends("p1:1") + ["f1@call"] + ends("p1:2") + ["s1@call", "s2@call"]),
    # the drain meets a failing exporter: every queued span must still be handed over exactly once
    dict(name="drain-with-failing-exporter", producers=1, spansPer=5, qcap=8, maxbatch=1, flushers=0, stoppers=1, reps=3,
         outcomes=["ok", "error", "error", "error", "ok"],
         script=ends("p1:1") + ["w@bsp.worker.dequeued:p1:1", "w@bsp.worker.appended:p1:1"] +
         ends("p1:2", "p1:3", "p1:4", "p1:5") + ["s1@call", "s1@bsp.sd.stopped", "s1@bsp.sd.closed", "x@exp.begin"]),
    # sampled spans that carry further trace-flag bits (0x03 through a remote parent) are sampled spans
    dict(name="extra-trace-flags", producers=2, spansPer=3, qcap=8, maxbatch=2, flushers=1, stoppers=1, parentFlags=3,
         script=ends("p1:1", "p2:1", "p1:2", "p2:2") + ["f1@call", "f1@ret"] + ends("p1:3", "p2:3") + ["s1@call"]),
    dict(name="extra-trace-flags-blocking", producers=2, spansPer=3, qcap=8, maxbatch=2, blocking=True, flushers=1, stoppers=1,
         parentFlags=2,
         script=ends("p1:1", "p2:1", "p1:2", "p2:2") + ["f1@call", "f1@ret"] + ends("p1:3", "p2:3") + ["s1@call"]),
    # ---- timer-triggered export (tiny BatchTimeout): the worker has nothing else to do, the timer fires, the
    # export is held at the exporter's gate while a ForceFlush and a size-triggered batch pile up behind it
    dict(name="timer-vs-flush", producers=1, spansPer=4, qcap=4, maxbatch=2, flushers=1, stoppers=1, batchTimeoutUs=1500,
         script=ends("p1:1") + ["w@bsp.worker.dequeued:p1:1", "w@bsp.worker.appended:p1:1", "x@exp.begin"] +   # the timer fired
         ends("p1:2", "p1:3") + ["f1@call", "f1@bsp.ff.checked", "f1@bsp.ff.marker", "x@exp.end",
                                 "w@bsp.worker.dequeued:p1:2", "w@bsp.worker.appended:p1:2", "w@bsp.worker.dequeued:p1:3",
                                 "w@bsp.worker.appended:p1:3", "x@exp.begin", "x@exp.end", "f1@bsp.ff.flushed"] +
         ends("p1:4") + ["w@bsp.worker.dequeued:p1:4", "w@bsp.worker.appended:p1:4", "x@exp.begin", "x@exp.end", "s1@call"]),
    # ---- free-running (empty script, no jitter): four Shutdown calls race for sync.Once. The caller that runs the body
    # is not always the one whose call began first (about 2 in 1000): BSP.tla's SCall / SOnce are two steps because
    # the implementation-level trace validation could not explain `bsp.sd.stopped` passed by a later caller
    dict(name="racing-shutdowns", producers=1, spansPer=1, qcap=2, maxbatch=2, flushers=0, stoppers=4, perturb=0.9, reps=100,
         script=[]),
    dict(name="timer-vs-shutdown", producers=1, spansPer=2, qcap=4, maxbatch=4, flushers=0, stoppers=1, batchTimeoutUs=1500,
         script=ends("p1:1") + ["w@bsp.worker.dequeued:p1:1", "w@bsp.worker.appended:p1:1", "x@exp.begin"] + ends("p1:2") +
         ["s1@call", "s1@bsp.sd.stopped", "s1@bsp.sd.closed", "x@exp.end", "w@bsp.drain.empty"]),
]
# what each known-deviation schedule is expected to exhibit (binding of the gates; a note, never a verdict)
EXPECT = {"D1-flush-during-shutdown": "flush-missed-during-shutdown", "D4-enqueue-after-drain": "shutdown-missed-raced",
          "end-after-drain-blocking": "shutdown-missed-raced",
          "expired-shutdown": "obs:export-after-shutdown-returned-error"}


# BSP.tla's names of the known deviations <-> the contract monitor's kinds (agreement statistics of impl-trace)
MODEL2CONTRACT = {"D1-flush-during-shutdown": "flush-missed-during-shutdown", "D4-enqueue-after-drain": "shutdown-missed-raced",
                  "D6-flush-nil-without-marker": "flush-missed-ctx-done-no-marker",
                  "D7-shutdown-nil-while-expired-drain-runs": "shutdown-nil-while-expired-drain-runs"}
MODEL_KINDS = set(MODEL2CONTRACT.values()) | {"flush-missed", "shutdown-missed", "concurrent-export", "batch-too-large",
                                              "export-after-shutdown", "export-without-deadline"}
IMPL_KEY = ("producers", "spansPer", "qcap", "maxbatch", "blocking", "exportTimeout", "flushers", "stoppers", "expiring")


def once_overtaken(recs):
    """the Shutdown call that ran the sync.Once body is not the one whose Call line came first"""
    first = next((r["proc"] for r in recs if r["ev"] == "Call" and r.get("op") == "SD"), None)
    body = next((r["proc"] for r in recs if r["ev"] == "Pt" and r["point"] == "bsp.sd.stopped"), None)
    return first is not None and body is not None and first != body


def impl_validate(ctx, sources, contract_kinds, max_groups, per_group, jobs=6, max_lines=12000, prefer=once_overtaken, nprefer=3):
    """Trace_BSPImpl.tla: a sample of the recorded scenarios must be explainable by BSP.tla's own actions.
    sources = [(trace file, "scripts" | "random")]; max_groups / per_group = {"behaviours" | "directed" | "random": n}. Scenarios are grouped by their constants
    (one TLC start per group, LCfg resets the state between scenarios). Drift (a scenario no sequence of model
    actions explains) is evidence, never a verdict. Scenarios for which `prefer` holds (rare interleavings that once
    showed a coarseness of BSP.tla) are added to the seeded sample, at most `nprefer` per source."""
    t0 = time.time()
    scen, cfgs, work = {}, {}, []
    stats = {"eligible": {}, "scenarios": 0, "accepted": 0, "drift_count": 0, "drift": [], "monitor": [], "errors": [],
             "lines": 0, "states": 0, "tlc_starts": 0, "groups": 0, "agree": 0, "disagree": [], "by_source": {}}
    for tf, label in sources:
        order = []
        for ln in open(tf):
            if '"sc":' not in ln:
                continue
            r = json.loads(ln)
            key = (label, r["sc"])
            if r["ev"] == "Cfg":
                cfgs[key] = r
                scen[key] = []
                order.append(key)
            if key in scen:
                scen[key].append((ln, r))
        # eligible: a batch processor scenario recorded with Pt lines, every goroutine returned, no goroutine of an earlier
        # scenario still around (its bsp.drain.empty could not be told from this scenario's)
        elig = [k for k in order if cfgs[k].get("kind") == "batch" and cfgs[k].get("pts") and cfgs[k].get("clean")
                and scen[k][-1][1]["ev"] == "EndScenario" and scen[k][-1][1].get("quiescent") and len(scen[k]) <= 3000]
        # three sources: TLC behaviours and directed schedules (both in the scripts file), random scenarios
        for sub in (("behaviours", "directed") if label == "scripts" else (label,)):
            el = [k for k in elig if label != "scripts" or cfgs[k].get("name", "").startswith("sim-") == (sub == "behaviours")]
            stats["eligible"][sub] = len(el)
            groups = {}
            for k in el:
                groups.setdefault(json.dumps([cfgs[k][x] for x in IMPL_KEY]), []).append(k)
            rnd = random.Random(ctx.seed * 7919 + len(el))
            gkeys = sorted(groups)
            rnd.shuffle(gkeys)
            n = 0
            for gk in gkeys[:max_groups[sub]]:
                ks = list(groups[gk])
                rnd.shuffle(ks)
                ks = sorted(ks[:per_group[sub]])
                chunk, nl = [], 0
                for k in ks:     # bound the size of one trace file
                    if chunk and nl + len(scen[k]) > max_lines:
                        work.append((sub, chunk))
                        chunk, nl = [], 0
                    chunk.append(k)
                    nl += len(scen[k])
                if chunk:
                    work.append((sub, chunk))
                n += len(ks)
            chosen = {k for lb, ch in work if lb == sub for k in ch}
            extra = {}
            for k in [k for k in el if k not in chosen and prefer([r for _, r in scen[k]])][:nprefer]:
                extra.setdefault(json.dumps([cfgs[k][x] for x in IMPL_KEY]), []).append(k)
            for ks in extra.values():
                work.append((sub, ks))
                n += len(ks)
            stats["preferred"] = stats.get("preferred", 0) + sum(len(ks) for ks in extra.values())
            stats["by_source"][sub] = {"scenarios": n, "accepted": 0, "drift": 0}
            stats["scenarios"] += n
    stats["groups"] = len(work)

    def one(gi, label, keys):
        out = {"label": label, "accepted": [], "drift": [], "monitor": [], "errors": [], "lines": 0, "states": 0, "starts": 0, "bad": {}}
        rest = list(keys)
        while rest:
            f = os.path.join(ctx.work, "impl-%d.ndjson" % gi)
            spans, n = [], 0
            with open(f, "w") as w:
                for k in rest:
                    w.writelines(ln for ln, _ in scen[k])
                    spans.append((k, n + 1, n + len(scen[k])))
                    n += len(scen[k])
            r = ctx.tlc(S, "Trace_BSPImpl", "Trace_BSPImpl.cfg", workers=1, deque=True, timeout=300, heap="2g",
                        extra_files={"trace.ndjson": f}, name="impl-%d" % gi, must_pass=False, count=False)
            out["starts"] += 1
            out["states"] += r["distinct"]
            acc = hwm = inv = None
            for pr in r["prints"]:
                if not isinstance(pr, str):
                    continue
                if pr.startswith("ACCEPTED "):
                    acc = int(pr.split()[1])
                elif pr.startswith("HWM "):
                    hwm = int(pr.split()[1])
                elif pr.startswith("IMPLINV "):
                    inv = json.loads(pr[8:])
                elif pr.startswith("IMPLEND "):
                    d = json.loads(pr[8:])
                    k = next((k for k, a, b in spans if a <= d["line"] <= b), None)
                    out["bad"].setdefault(k, []).append(sorted(d["bad"]))
            if acc == n:
                out["accepted"] += [k for k, _, _ in spans]
                out["lines"] += n
                break
            if r["violated"] and inv is not None:
                # an invariant of BSP.tla broken while explaining a REAL trace: evidence (the contract stage judges the
                # same trace and is the verdict); go on with the scenarios behind it
                at, what = max(1, inv["line"]), {"broken": sorted(inv["broken"]), "bad": sorted(inv["bad"])}
            elif r["timed_out"] or r["error"] or r["violated"] or hwm is None:
                out["errors"].append({"group": gi, "scenarios": [k[1] for k in rest], "source": label,
                                      "error": r["error"] or r["violated"] or ("timeout" if r["timed_out"] else "no verdict"), "out": r["out"]})
                break
            else:
                at, what = hwm, None      # stuck: the scenario holding line `hwm` is the first one no explanation gets through
            i = next((i for i, (_, a, b) in enumerate(spans) if a <= at <= b), len(spans) - 1)
            k, a, b = spans[i]
            out["accepted"] += [x for x, _, _ in spans[:i]]
            out["lines"] += a - 1
            ev = scen[k][min(at - a, len(scen[k]) - 1)][1]
            rec = {"scenario": k[1], "source": label, "name": cfgs[k].get("name", ""), "line_in_scenario": at - a + 1,
                   "first_offending_line": ev, "cfg": {x: cfgs[k][x] for x in IMPL_KEY}}
            if what is None:
                # the lines around it make the evidence readable without the trace file
                rec["context"] = [x for _, x in scen[k][max(0, at - a - 6):at - a + 2]]
                out["drift"].append(rec)
            else:
                rec.update(what)
                out["monitor"].append(rec)
            rest = [x for x, _, _ in spans[i + 1:]]
        return out

    with ThreadPoolExecutor(max_workers=jobs) as ex:
        outs = list(ex.map(lambda x: one(x[0], x[1][0], x[1][1]), list(enumerate(work))))
    for o in outs:
        stats["accepted"] += len(o["accepted"])
        stats["by_source"][o["label"]]["accepted"] += len(o["accepted"])
        stats["by_source"][o["label"]]["drift"] += len(o["drift"])
        for x in ("lines", "states"):
            stats[x] += o[x]
        stats["tlc_starts"] += o["starts"]
        for x in ("drift", "monitor", "errors"):
            stats[x] += o[x]
        # second opinion: what BSP.tla's own monitor sees broken on this real trace against what the contract monitor
        # reported for the same scenario (some explanation of the trace must agree)
        for k in o["accepted"]:
            want = sorted(x for x in contract_kinds.get(k, ()) if x in MODEL_KINDS)
            got = [sorted({MODEL2CONTRACT.get(b, b) for b in bad}) for bad in o["bad"].get(k, [])]
            if want in got:
                stats["agree"] += 1
            elif len(stats["disagree"]) < 5:
                stats["disagree"].append({"scenario": k[1], "source": k[0], "name": cfgs[k].get("name", ""), "contract": want, "model": got[:3]})
    stats["drift_count"] = len(stats["drift"])
    stats["monitor_count"] = len(stats["monitor"])
    stats["error_count"] = len(stats["errors"])
    stats["drift"] = stats["drift"][:5]
    stats["monitor"] = stats["monitor"][:5]
    stats["errors"] = stats["errors"][:3]
    stats["wall_s"] = round(time.time() - t0, 1)
    return stats


def scenario(d, blocking=False):
    sc = dict(producers=1, spansPer=1, qcap=2, maxbatch=2, blocking=blocking, flushers=0, flushesPer=1, stoppers=1,
              batchTimeoutUs=0, exportTimeoutMs=30000, expMode="ok", perturb=0.0, slowDoneUs=0, parentFlags=0)
    sc.update(d)
    sc.pop("reps", None)
    return sc


def run(ctx):
    thorough = ctx.tier == "thorough"
    binp = ctx.go_build("c01")
    # ------------------------------------------------------------ exhaustive model checking
    # liveness under fairness: every call returns and every background goroutine finishes, with queues that fill
    # (these runs and the SSP one feed nothing else: they run beside the safety family below and are collected --
    # with their verdicts -- before the real code is driven, so that the harness has the machine to itself)
    live = [(2, 1, 1, 1, True, 1, 1), (2, 1, 1, 1, False, 1, 1)]
    if thorough:
        live += [(1, 3, 1, 1, True, 1, 1), (2, 1, 2, 1, False, 1, 2)]  # (2x2 blocking with a flusher: 1.8 M states, 14 min)
    # growth: the simple span processor obeys the same contract (SSP.tla, safety + liveness)
    ssp = {"PRODUCERS": tla_set(["p1", "p2", "p3"] if thorough else ["p1", "p2"]), "STOPPERS": tla_set(["s1", "s2"]),
           "SPANSPER": 2}

    def side_runs():
        for c in live:
            ctx.tlc(S, "MC_BSP", "MC_BSP_live.cfg", defines=mc_defs(*c), name="live-" + cfg_name(*c), timeout=3000, heap=side_heap)
        ctx.tlc(S, "MC_BSP", "MC_BSP_live.cfg", defines=mc_defs(1, 1, 1, 1, True, 1, 1, expiring=("f1", "s1")),
                name="live-expiring", timeout=3000, heap=side_heap)
        ctx.tlc(S, "MC_SSP", "MC_SSP.cfg", defines=ssp, name="mc-ssp", timeout=1200, heap=side_heap)
    side_heap = "6g" if thorough else "3g"     # two JVMs run side by side now: cap the second one (<= 0.5 M states here)
    side_pool = ThreadPoolExecutor(max_workers=1)
    side = side_pool.submit(side_runs)

    # (p, k, q, b, blocking, f, s, extra): every config checks the contract, the accounting of the hook events
    # and `Stuck` (nothing blocks forever) for the current code shape
    fam = [((2, 1, 1, 1, False, 1, 1), {}), ((2, 1, 1, 1, True, 1, 1), {}), ((2, 1, 2, 2, False, 1, 2), {}),
           ((3, 1, 2, 1, False, 0, 1), {}),
           # caller contexts that expire (ForceFlush f1 / Shutdown s1), with and without an export timeout
           ((1, 2, 1, 2, False, 1, 1), dict(expiring=("f1", "s1"), cov=True)),
           ((1, 2, 1, 1, False, 0, 2), dict(expiring=("s1",), cov=True)),
           ((2, 1, 1, 1, True, 1, 1), dict(expiring=("f1",), et=False))]
    if thorough:
        fam += [((2, 2, 2, 2, False, 1, 1), {}), ((2, 2, 1, 2, False, 1, 1), {}), ((2, 2, 2, 1, True, 1, 1), {}),
                ((2, 1, 1, 1, False, 2, 1), {}), ((3, 1, 1, 2, False, 1, 1), {}), ((2, 2, 2, 2, False, 0, 2), {}),
                ((2, 2, 1, 1, True, 1, 1), {}), ((3, 1, 1, 1, True, 0, 1), {}),
                ((2, 1, 1, 1, False, 1, 1), dict(expiring=("f1", "s1"))),
                ((2, 1, 1, 1, True, 1, 1), dict(expiring=("f1", "s1"))),
                ((2, 1, 1, 1, False, 1, 2), dict(expiring=("s1",), outcomes=("ok",))),
                ((1, 2, 2, 2, False, 2, 1), dict(expiring=("f1", "f2"), et=False)),
                ((2, 1, 2, 1, False, 1, 1), dict(expiring=("f1", "s1"), et=False))]
    zero = None
    for c, kw in fam:
        kw = dict(kw)
        cov = kw.pop("cov", False)  # coverage on two small configs that together enable every action
        r = ctx.tlc(S, "MC_BSP", "MC_BSP.cfg", defines=mc_defs(*c, **kw), name="mc-" + cfg_name(*c, **kw), timeout=3000,
                    coverage=cov)
        if cov:
            zero = set(r["zero_cov"]) if zero is None else zero & set(r["zero_cov"])
    if zero:
        ctx.note_inconclusive("vacuity: BSP.tla actions never taken in the coverage configs: %s" % sorted(zero))
    # TLC must find each known deviation when it is not admitted (guards against a vacuous contract)
    found = {}
    # ... and the repaired ones in the shape that lacks the repair (model-level regression of 6258232 / af9523f)
    for inv, c, kw in (("NoD1", (2, 1, 2, 2, False, 1, 1), {}), ("NoD4", (1, 1, 2, 2, False, 0, 2), {}),
                       ("NoD7", (1, 2, 1, 1, False, 0, 2), dict(expiring=("s1",), shape="pre-af9523f")),
                       ("NoD6", (1, 1, 1, 1, False, 1, 1), dict(expiring=("f1",), shape="pre-6258232"))):
        r = ctx.tlc(S, "MC_BSP", "MC_BSP.cfg", defines=mc_defs(*c, inv=inv, **kw), name="mc-" + inv.lower(),
                    must_pass=False, count=False, timeout=600)
        found[inv] = r["violated"]
        if r["violated"] != inv:
            ctx.note_inconclusive("model drift: TLC no longer finds the deviation excluded by %s (%s)" % (inv, r["out"]))
    r = ctx.tlc(S, "MC_BSP", "MC_BSP.cfg", defines=mc_defs(2, 1, 2, 2, False, 1, 2, known=False), name="mc-noknown",
                must_pass=False, count=False, timeout=600)
    if r["violated"] != "Contract":
        ctx.note_inconclusive("model drift: TLC no longer finds D1/D4 when AllowKnown=FALSE (%s)" % r["out"])
    # the repaired defect (ada0bc0): the old shape must still deadlock (D2 blocking End, D3 marker send) ...
    for blocking, nm in ((True, "mc-stuck-old-shape-blk"), (False, "mc-stuck-old-shape-drop")):
        r = ctx.tlc(S, "MC_BSP", "MC_BSP.cfg", defines=mc_defs(2, 1, 1, 1, blocking, 1, 1, shape="pre-ada0bc0"), name=nm,
                    must_pass=False, count=False, timeout=600)
        found[nm] = r["violated"]
        if r["violated"] != "Stuck":
            ctx.note_inconclusive("model drift: the pre-ada0bc0 shape no longer violates Stuck (%s)" % r["out"])
    # ... and a batch that survives a failed export must show up as a duplicate (the no-retry clause is not vacuous)
    r = ctx.tlc(S, "MC_BSP", "MC_BSP.cfg", defines=mc_defs(2, 1, 1, 1, False, 1, 1, reset=False), name="mc-noreset",
                must_pass=False, count=False, timeout=600)
    found["mc-noreset"] = r["violated"]
    if r["violated"] != "NoDup":
        ctx.note_inconclusive("model drift: keeping the batch after a failed export does not violate NoDup (%s)" % r["out"])
    ctx.extra["model_level_regressions"] = found
    side.result()     # liveness / SSP runs started above (a model-level failure there raises Inconclusive here)
    side_pool.shutdown()

    # ------------------------------------------------------------ exporter phase: exporters that overrun the export
    # deadline while further exports become due (BSPOverrun*.tla, harness/c01/overrun.go, checks/c01_overrun.py)
    import importlib.util
    _sp = importlib.util.spec_from_file_location("c01_overrun", os.path.join(os.path.dirname(os.path.abspath(__file__)), "c01_overrun.py"))
    c01_overrun = importlib.util.module_from_spec(_sp)
    _sp.loader.exec_module(c01_overrun)
    c01_overrun.stage(ctx, binp, mc_defs, cfg_name, ends, scenario)

    # ------------------------------------------------------------ spec -> code: behaviours as gate scripts
    scenarios = []
    sims = [((2, 2, 2, 2, False, 1, 1), {}), ((2, 1, 1, 1, False, 1, 2), {}), ((2, 2, 1, 1, True, 1, 1), {}),
            ((3, 2, 2, 1, False, 2, 1), {}),
            ((2, 2, 2, 2, False, 1, 1), dict(timersim=True, outcomes=("ok",))),
            ((2, 1, 2, 2, False, 1, 2), dict(expiring=("f1", "s1"))),
            ((2, 2, 1, 2, True, 1, 1), dict(expiring=("f1", "s1"), et=False))]
    nsim = 400 if thorough else 30
    seen = set()
    for c, kw in sims:
        r = ctx.tlc(S, "MC_BSPSim", "MC_BSPSim.cfg", defines=mc_defs(*c, **kw), workers=1, simulate="num=%d" % nsim, depth=400,
                    name="sim-" + cfg_name(*c, **kw), timeout=900)
        for s in r["prints"]:
            if isinstance(s, str) and s.startswith("BEHAVIOUR "):
                if s in seen:
                    continue
                seen.add(s)
                b = json.loads(s[len("BEHAVIOUR "):])
                p, k, q, mb, blocking, f, st = c
                et = kw.get("et", True)
                d = dict(name="sim-" + cfg_name(*c, **kw), producers=p, spansPer=k, qcap=q, maxbatch=mb, flushers=f, stoppers=st,
                         script=b["script"], outcomes=b["outcomes"], ctx={x: "deadline" for x in kw.get("expiring", ())},
                         exportTimeoutMs=(0 if not et else 20 if "timeout" in b["outcomes"] else 30000),
                         batchTimeoutUs=(1500 if kw.get("timersim") else 0))
                scenarios.append(scenario(d, blocking=blocking))
    nbeh = len(scenarios)
    for d in DIRECTED:
        for rep in range(d.get("reps", 1) * (5 if thorough else 2)):
            scenarios.append(scenario(d))
    sfile = os.path.join(ctx.work, "scripts.json")
    json.dump(scenarios, open(sfile, "w"))
    t1 = os.path.join(ctx.work, "trace-scripts.ndjson")
    r1 = os.path.join(ctx.work, "res-scripts.json")
    ctx.run([binp, "scripts", "-in", sfile, "-out", t1, "-res", r1], timeout=3000)
    res1 = json.load(open(r1))
    # ------------------------------------------------------------ code -> spec: random scenarios
    n = 3000 if thorough else 250
    t2 = os.path.join(ctx.work, "trace-random.ndjson")
    r2 = os.path.join(ctx.work, "res-random.json")
    npt = 400 if thorough else 40     # the first scenarios also record Pt lines (input of the impl-trace stage)
    ctx.run([binp, "random", "-n", str(n), "-pt", str(npt), "-out", t2, "-res", r2], timeout=3000)
    res2 = json.load(open(r2))
    counters = {}
    for res in (res1, res2):
        for k, v in res["counters"].items():
            counters[k] = counters.get(k, 0) + v
    # per-schedule follow rates are kept apart from the regime counters
    ctx.extra["script_follow_rate"] = {k[9:]: "%d/%d" % (v, v + counters.get("desync:" + k[9:], 0))
                                       for k, v in sorted(counters.items()) if k.startswith("followed:")}
    counters = {k: v for k, v in counters.items() if not k.startswith(("followed:", "desync:"))}
    ctx.extra["counters"] = counters
    ctx.extra["tlc_behaviours_replayed"] = nbeh
    ctx.extra["directed_schedules"] = len(scenarios) - nbeh
    ctx.extra["random_scenarios"] = n
    ctx.add_samples([{"behaviour_script": scenarios[0]["script"][:40]}] if scenarios else [])
    ctx.add_samples(res2["samples"][:1])
    kinds = {}
    by_name = {}
    observations = {}
    cfg_names = {}
    kinds_of = {}     # (label, scenario number) -> contract kinds (agreement statistics of impl-trace)

    def scen_name(tf, v):
        if tf not in cfg_names:
            cfg_names[tf] = {}
            for ln in open(tf):
                if '"ev":"Cfg"' in ln:
                    rec = json.loads(ln)
                    cfg_names[tf][rec["sc"]] = rec.get("name", "")
        return cfg_names[tf].get(v["sc"], "")
    for tf, label in ((t1, "scripts"), (t2, "random")):
        viols, accepted = ctx.validate_trace(S, "Trace_BSP", "Trace_BSP.cfg", tf, name="trace-" + label, timeout=3000)
        ctx.extra["trace_lines_" + label] = accepted
        lines = None
        for v in viols:
            kind = v["v"]["kind"]
            kinds[kind] = kinds.get(kind, 0) + 1
            kinds_of.setdefault((label, v["sc"]), set()).add(kind)
            if kind.startswith("obs:"):  # reported by the contract as an observation: counted, never a violation
                observations[kind] = observations.get(kind, 0) + 1
                by_name.setdefault(scen_name(tf, v), set()).add(kind)
                continue
            if lines is None:
                lines = open(tf).read().splitlines()
            scen = []
            cfg = {}
            for ln in lines[:v["line"]][::-1]:
                rec = json.loads(ln)
                if rec.get("sc") != v["sc"]:
                    break
                if rec["ev"] != "Pt":
                    scen.append(rec)
                if rec["ev"] == "Cfg":
                    cfg = rec
            scen.reverse()
            name = cfg.get("name", "")
            by_name.setdefault(name, set()).add(kind)
            ctx.violation({"kind": kind, "source": label},
                          replay={"violation": v, "scenario_name": name, "events": scen[-400:]})
    ctx.extra["violation_kinds_seen"] = kinds
    ctx.extra["observations"] = observations
    ctx.traces_validated += res1["executed"] + res2["executed"]
    ctx.evaluations += res1["executed"] + res2["executed"]
    # ------------------------------------------------------------ code -> spec, second level: BSP.tla's own actions
    # VERDICT RULE: a trace the contract accepts but BSP.tla cannot explain is model drift -- evidence and a NOTE, never
    # exit 1, and exit 2 only if EVERY sampled trace drifts (then the trace spec itself is what is broken)
    if thorough:
        mg, pg = dict(behaviours=7, directed=40, random=150), dict(behaviours=400, directed=12, random=1)
    else:
        mg, pg = dict(behaviours=3, directed=3, random=3), dict(behaviours=12, directed=2, random=1)    # + preferred
    iv = impl_validate(ctx, [(t1, "scripts"), (t2, "random")], kinds_of, mg, pg, jobs=8)
    ctx.extra["impl_trace"] = iv
    ctx.traces_validated += iv["accepted"]
    print("impl-trace: %d scenarios sampled, %d explained by BSP.tla's actions, %d drift, %d monitor, %d TLC errors "
          "(%d states, %d TLC starts, %.1f s)" % (iv["scenarios"], iv["accepted"], iv["drift_count"], iv["monitor_count"],
                                                 iv["error_count"], iv["states"], iv["tlc_starts"], iv["wall_s"]), flush=True)
    for d in iv["drift"]:
        print("NOTE: model drift (not a verdict): BSP.tla cannot explain %s scenario %d %s at its line %d: %s"
              % (d["source"], d["scenario"], d["name"], d["line_in_scenario"], json.dumps(d["first_offending_line"])), flush=True)
    for d in iv["monitor"]:
        print("NOTE: BSP.tla's invariants %s broken while explaining %s scenario %d %s (evidence; the contract stage is the verdict)"
              % (d["broken"], d["source"], d["scenario"], d["name"]), flush=True)
    if iv["scenarios"] and iv["drift_count"] == iv["scenarios"]:
        ctx.note_inconclusive("impl-trace: BSP.tla explains none of the %d sampled real traces (first: %s)"
                              % (iv["scenarios"], json.dumps(iv["drift"][0]["first_offending_line"])))
    elif iv["scenarios"] and iv["accepted"] == 0 and iv["error_count"]:
        ctx.note_inconclusive("impl-trace: TLC could not run Trace_BSPImpl on any sampled trace (%s)" % iv["errors"][0]["error"])
    # the directed schedules must actually reproduce the known deviations (binding check; a note, not a verdict)
    not_repro = [n_ for n_, k in EXPECT.items() if k not in by_name.get(n_, ())]
    if not_repro:
        ctx.extra["note"] = "directed schedules that did not exhibit their deviation in this run: %s" % not_repro
    # vacuity of the new regimes (never a verdict)
    need = ["abandoned", "ctx_expired", "exports_failed", "exports_timed_out", "ff_ret_ctx", "sd_ret_ctx",
            "spans_with_extra_trace_flags"]
    missing = [k for k in need if not counters.get(k)]
    if missing:
        ctx.note_inconclusive("vacuity: regimes never reached on the real code: %s" % missing)
    if not counters.get("ff_ret_export"):  # a handful per quick run (schedule `export-errors`): a note only
        ctx.extra["note_vacuity"] = "no ForceFlush returned its own export's error in this run"
    ctx.exhaustive = False
    ctx.assumptions += [
        "caller contexts: Background, already cancelled, cancelled during the call, far deadline (a deadline that fires is "
        "driven as a cancellation so that its instant can be logged before it happens)",
        "\"nothing is exported after Shutdown has returned\" is judged for Shutdown calls that returned nil; an export after "
        "a Shutdown that returned its ctx error is counted as an observation (the statement does not quantify over "
        "expiring caller contexts)",
        "ExportTimeout > 0 <=> ExportSpans gets a ctx with deadline (godoc of BatchSpanProcessorOptions.ExportTimeout); an "
        "export on behalf of a ForceFlush inherits the caller's deadline",
        "timer-triggered exports: gated where the worker has nothing else to do (tiny BatchTimeout), otherwise by perturbation",
        "Dropped / Ignored / Abandoned / FFEarly / FFMarker events come from the verif hooks in sdk/trace/batch_span_processor.go; "
        "the dropped counter is read from the hook and from the SDK's `exporting spans` debug line",
        "goroutines blocked forever (former D2/D3) are C15's verdict; here such scenarios are marked non-quiescent",
        "impl-trace covers a seeded sample of the recorded scenarios; model drift and monitor disagreements are evidence only",
    ]
    # X02: inductive proof (Apalache, symbolic constants) of the parameterised core D this spec generalises -- thorough tier,
    # evidence only: nothing in here can change the verdict or the exit code of this check (see checks/inductive.py)
    if thorough:
        try:
            import importlib.util as _ilu
            _s = _ilu.spec_from_file_location("verif_inductive", os.path.join(os.path.dirname(os.path.abspath(__file__)), "inductive.py"))
            _m = _ilu.module_from_spec(_s)
            _s.loader.exec_module(_m)
            ctx.extra["inductive"] = _m.run_inductive(ctx, ["D"], budget_s=600)
        except Exception as _e:  # never a verdict
            ctx.extra["inductive"] = {"_error": repr(_e)}
