"""C01 -- batch span processor: exactly-once delivery, bounded batches, exclusive exporter.

model      : BSP.tla (implementation-shaped, one action per critical section) checked exhaustively by
             TLC for a family of small configurations against the contract carried by its monitor
             variables; a NoKnown config demonstrates that TLC finds the known deviations D1/D4.
spec->code : TLC -simulate behaviours of BSPSim.tla (BSP + history of instrumentation-point keys) are
             replayed on the real processor: vh.Sched holds every goroutine at its hook / exporter /
             call gate until the behaviour says it is its turn.
code->spec : every real execution (replayed behaviours, directed schedules, seeded random scenarios
             with schedule perturbation and slow/failing/timing-out exporters) is recorded as ndjson and
             validated by TLC against the total contract monitor BSPContract.tla (Trace_BSP.tla).
"""
import json
import os

S = "BSP"


def tla_set(xs):
    return "{" + ", ".join('"%s"' % x for x in xs) + "}"


def mc_defs(p, k, q, b, blocking, f, s, known=True, stuck=False):
    return {"PRODUCERS": tla_set(["p%d" % (i + 1) for i in range(p)]),
            "FLUSHERS": tla_set(["f%d" % (i + 1) for i in range(f)]),
            "STOPPERS": tla_set(["s%d" % (i + 1) for i in range(s)]),
            "SPANSPER": k, "QCAP": q, "MAXBATCH": b, "BLOCKING": "TRUE" if blocking else "FALSE",
            "ALLOWKNOWN": "TRUE" if known else "FALSE", "STUCK": "Stuck" if stuck else ""}


def cfg_name(p, k, q, b, blocking, f, s):
    return "p%dx%d-q%d-b%d-%s-f%d-s%d" % (p, k, q, b, "blk" if blocking else "drop", f, s)


DIRECTED = [
    # vocabulary: an entry releases the named process from the gate it waits at (see BSPSim.tla)
    # D1: ForceFlush while Shutdown is draining (worker held inside the export)
    dict(name="D1-flush-during-shutdown", producers=1, spansPer=2, qcap=4, maxbatch=1, flushers=1, stoppers=1,
         script=["p1:1@call", "p1:1@bsp.onend.checked", "p1:1@bsp.enq.sent", "p1:2@call", "p1:2@bsp.onend.checked",
                 "p1:2@bsp.enq.sent", "w@bsp.worker.dequeued:p1:1", "w@bsp.worker.appended:p1:1", "s1@call",
                 "s1@bsp.sd.stopped", "f1@call", "f1@bsp.ff.stopped", "x@exp.begin", "s1@bsp.sd.closed"]),
    # D4: OnEnd passes the stopped check, Shutdown drains and returns, then the span is enqueued
    dict(name="D4-enqueue-after-drain", producers=1, spansPer=1, qcap=2, maxbatch=2, flushers=0, stoppers=2,
         script=["p1:1@call", "s1@call", "s1@bsp.sd.stopped", "s1@bsp.sd.closed", "w@bsp.drain.empty",
                 "p1:1@bsp.onend.checked", "p1:1@bsp.enq.sent", "s2@call"]),
    # flush export and size-triggered worker export compete for the batch
    dict(name="flush-vs-worker-export", producers=2, spansPer=2, qcap=4, maxbatch=2, flushers=1, stoppers=1,
         script=["p1:1@call", "p1:1@bsp.onend.checked", "p1:1@bsp.enq.sent", "w@bsp.worker.dequeued:p1:1",
                 "f1@call", "f1@bsp.ff.checked", "p2:1@call", "p2:1@bsp.onend.checked", "p2:1@bsp.enq.sent",
                 "w@bsp.worker.appended:p1:1", "f1@bsp.ff.marker", "w@bsp.worker.dequeued:p2:1", "f1@bsp.ff.flushed",
                 "w@bsp.worker.appended:p2:1", "x@exp.begin", "p1:2@call", "p1:2@bsp.onend.checked", "p1:2@bsp.enq.sent",
                 "p2:2@call", "p2:2@bsp.onend.checked", "p2:2@bsp.enq.sent", "s1@call"]),
    # queue overflow while the exporter is held: drops are counted, survivors delivered once
    dict(name="overflow-held-exporter", producers=1, spansPer=6, qcap=2, maxbatch=1, flushers=1, stoppers=1,
         script=["p1:1@call", "p1:1@bsp.onend.checked", "p1:1@bsp.enq.sent", "w@bsp.worker.dequeued:p1:1",
                 "w@bsp.worker.appended:p1:1", "p1:2@call", "p1:2@bsp.onend.checked", "p1:2@bsp.enq.sent", "p1:3@call",
                 "p1:3@bsp.onend.checked", "p1:3@bsp.enq.sent", "p1:4@call", "p1:4@bsp.onend.checked",
                 "p1:4@bsp.enq.dropped", "p1:5@call", "p1:5@bsp.onend.checked", "p1:5@bsp.enq.dropped", "p1:6@call",
                 "p1:6@bsp.onend.checked", "p1:6@bsp.enq.dropped", "x@exp.begin", "f1@call", "s1@call"]),
    # stopped flag set between the check and the enqueue while the drain has not started: the drain must export it
    dict(name="check-then-stop-then-enqueue", producers=2, spansPer=1, qcap=2, maxbatch=2, flushers=0, stoppers=1,
         script=["p1:1@call", "p1:1@bsp.onend.checked", "p1:1@bsp.enq.sent", "p2:1@call", "s1@call",
                 "p2:1@bsp.onend.checked", "p2:1@bsp.enq.sent", "s1@bsp.sd.stopped", "s1@bsp.sd.closed"]),
]


def scenario(d, blocking=False):
    sc = dict(producers=1, spansPer=1, qcap=2, maxbatch=2, blocking=blocking, flushers=0, flushesPer=1, stoppers=1,
              batchTimeoutUs=0, exportTimeoutMs=30000, expMode="ok", perturb=0.0)
    sc.update(d)
    return sc


def run(ctx):
    thorough = ctx.tier == "thorough"
    binp = ctx.go_build("c01")
    # ------------------------------------------------------------ exhaustive model checking
    fam = [(2, 1, 1, 1, False, 1, 1), (2, 1, 1, 1, True, 1, 1), (2, 1, 2, 2, False, 1, 2), (3, 1, 2, 1, False, 0, 1)]
    if thorough:
        fam += [(2, 2, 2, 2, False, 1, 1), (2, 2, 1, 2, False, 1, 1), (2, 2, 2, 1, True, 1, 1), (2, 1, 1, 1, False, 2, 1),
                (3, 1, 1, 2, False, 1, 1), (2, 2, 2, 2, False, 0, 2)]
    for c in fam:
        ctx.tlc(S, "MC_BSP", "MC_BSP.cfg", defines=mc_defs(*c), name="mc-" + cfg_name(*c), timeout=3000,
                coverage=(c == fam[0]))
    # TLC must find the known deviations when they are not admitted (guards against a vacuous contract)
    r = ctx.tlc(S, "MC_BSP", "MC_BSP.cfg", defines=mc_defs(2, 1, 2, 2, False, 1, 2, known=False), name="mc-noknown",
                must_pass=False, count=False, timeout=600)
    if r["violated"] != "Contract":
        ctx.note_inconclusive("model drift: TLC no longer finds D1/D4 when AllowKnown=FALSE (%s)" % r["out"])
    # D2/D3 (blocking forever) are C15's subject; demonstrate that the model exhibits them
    r = ctx.tlc(S, "MC_BSP", "MC_BSP.cfg", defines=mc_defs(2, 1, 1, 1, False, 1, 1, stuck=True), name="mc-stuck",
                must_pass=False, count=False, timeout=600)
    ctx.extra["model_exhibits_stuck_D2_D3"] = (r["violated"] == "Stuck")
    # liveness under fairness: every call returns. Queue large enough that it never fills, because a full
    # queue after the drain is exactly D2/D3 (reported under C15).
    ctx.tlc(S, "MC_BSP", "MC_BSP_live.cfg", defines=mc_defs(2, 1, 3, 1, False, 1, 1), name="live-p2x1-q3", timeout=1200)

    # growth: the simple span processor obeys the same contract (SSP.tla, safety + liveness)
    ssp = {"PRODUCERS": tla_set(["p1", "p2", "p3"] if thorough else ["p1", "p2"]), "STOPPERS": tla_set(["s1", "s2"]),
           "SPANSPER": 2}
    ctx.tlc(S, "MC_SSP", "MC_SSP.cfg", defines=ssp, name="mc-ssp", timeout=1200)

    # ------------------------------------------------------------ spec -> code: behaviours as gate scripts
    scenarios = []
    sims = [(2, 2, 2, 2, False, 1, 1), (2, 1, 1, 1, False, 1, 2), (2, 2, 1, 1, True, 1, 1), (3, 2, 2, 1, False, 2, 1)]
    nsim = 400 if thorough else 40
    seen = set()
    for c in sims:
        r = ctx.tlc(S, "MC_BSPSim", "MC_BSPSim.cfg", defines=mc_defs(*c), workers=1, simulate="num=%d" % nsim, depth=300,
                    name="sim-" + cfg_name(*c), timeout=900)
        for s in r["prints"]:
            if isinstance(s, str) and s.startswith("BEHAVIOUR "):
                if s in seen:
                    continue
                seen.add(s)
                b = json.loads(s[len("BEHAVIOUR "):])
                p, k, q, mb, blocking, f, st = c
                scenarios.append(scenario(dict(name="sim-" + cfg_name(*c), producers=p, spansPer=k, qcap=q, maxbatch=mb,
                                               flushers=f, stoppers=st, script=b["script"]), blocking=blocking))
    nbeh = len(scenarios)
    for d in DIRECTED:
        for rep in range(5 if thorough else 2):
            scenarios.append(scenario(d))
    sfile = os.path.join(ctx.work, "scripts.json")
    json.dump(scenarios, open(sfile, "w"))
    t1 = os.path.join(ctx.work, "trace-scripts.ndjson")
    r1 = os.path.join(ctx.work, "res-scripts.json")
    ctx.run([binp, "scripts", "-in", sfile, "-out", t1, "-res", r1], timeout=3000)
    res1 = json.load(open(r1))
    # ------------------------------------------------------------ code -> spec: random scenarios
    n = 3000 if thorough else 250
    t2 = os.path.join(ctx.work, "trace-random.ndjson")
    r2 = os.path.join(ctx.work, "res-random.json")
    ctx.run([binp, "random", "-n", str(n), "-out", t2, "-res", r2], timeout=3000)
    res2 = json.load(open(r2))
    counters = {}
    for res in (res1, res2):
        for k, v in res["counters"].items():
            counters[k] = counters.get(k, 0) + v
    ctx.extra["counters"] = counters
    ctx.extra["tlc_behaviours_replayed"] = nbeh
    ctx.extra["directed_schedules"] = len(scenarios) - nbeh
    ctx.extra["random_scenarios"] = n
    ctx.add_samples([{"behaviour_script": scenarios[0]["script"][:40]}] if scenarios else [])
    ctx.add_samples(res2["samples"][:1])
    kinds = {}
    for tf, label in ((t1, "scripts"), (t2, "random")):
        viols, accepted = ctx.validate_trace(S, "Trace_BSP", "Trace_BSP.cfg", tf, name="trace-" + label, timeout=3000)
        ctx.extra["trace_lines_" + label] = accepted
        lines = None
        for v in viols:
            kind = v["v"]["kind"]
            kinds[kind] = kinds.get(kind, 0) + 1
            if lines is None:
                lines = open(tf).read().splitlines()
            scen = []
            cfg = {}
            for ln in lines[:v["line"]][::-1]:
                rec = json.loads(ln)
                if rec.get("sc") != v["sc"]:
                    break
                scen.append(rec)
                if rec["ev"] == "Cfg":
                    cfg = rec
            scen.reverse()
            name = cfg.get("name", "")
            ctx.violation({"kind": kind, "source": label},
                          replay={"violation": v, "scenario_name": name, "events": scen[-400:]})
    ctx.extra["violation_kinds_seen"] = kinds
    ctx.traces_validated += res1["executed"] + res2["executed"]
    ctx.evaluations += res1["executed"] + res2["executed"]
    # the directed schedules must actually reproduce the known deviations (binding check)
    if "flush-missed-during-shutdown" not in kinds or "shutdown-missed-raced" not in kinds:
        known = [k["id"] for k in ctx._known if k.get("status") == "known"]
        if known:
            ctx.extra["note"] = "a known deviation was not reproduced in this run: %s" % kinds
    ctx.exhaustive = False
    ctx.assumptions += [
        "callers' contexts never expire (the quantifier ranges over exporter behaviours, not caller cancellation)",
        "timer-triggered exports are exercised by perturbation only (Go's select cannot be gated)",
        "Dropped / Ignored / FFEarly events come from the verif hooks in sdk/trace/batch_span_processor.go",
        "goroutines blocked forever (D2/D3) are reported under C15, not here; such scenarios are marked non-quiescent",
    ]
