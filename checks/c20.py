"""C20 -- configuration precedence is uniform and bad values never crash the host
(ConfigPrecedence.tla).

spec -> code : TLC enumerates (MC_ConfigPrecedence.tla) the cross product of configuration
               sources {absent, valid_i, ill-formed kinds} per setting and component -- the six
               OTLP exporters (endpoint+URL path, headers, compression, timeout: option x
               signal variable x generic variable), batch span processor and log batch
               processor (queue, batch, export timeout, schedule delay), span limits, log
               record limits, sampler -- checks the precedence theorems (Inv, Monotone,
               SignalsAgree) and prints one edge per case with the set of admissible outcomes.
               harness/c20 replays every case on the real code (environment, public
               constructors/options under recover + watchdog) and observes behaviour only:
               which loopback collector got the request, URL path, headers, content encoding,
               deadline of the request context; batch lengths / queue overflow / exporter
               deadline / first timer export of the processors; exported spans / records;
               sampling decisions.  The observation must be a member of Allowed.
code -> spec : seeded random MULTI-setting configurations with ugly concrete values on the real
               components -> ndjson -> Trace_ConfigPrecedence.tla (AllowedFor of the same model).

structs      : struct-valued options (WithRawSpanLimits / WithSpanLimits literal structs, both log record
               options): every field class {zero, negative, positive} incl. the all-zero struct x field
               variable {absent, valid, ill-formed}; each option modelled from ITS doc comment (DocSrc).
huge         : value class HUGE -- syntactically valid integers whose unit conversion overflows (milliseconds that do
               not fit the nanosecond clock, batch sizes near MaxInt) in every source position of the exporter
               timeouts and of the BSP / BLRP durations and batch sizes: given their meaning (never limits / never
               elapses / holds everything) or ignored, never a panic, a hang or some SHORT value.
paths        : URL path classes (raw space, %20, %2F, '+' ';', escaped + trailing slash, query string) through the
               signal variable, the generic variable, WithEndpointURL and WithURLPath of the HTTP exporters; the
               collectors record the request target as sent on the wire (RequestURI), the model's Wire() decides.
unparsable   : value class UNPARSABLE of endpoint sources (text that is no URL: "http://[::1", bad port, bad escape, control
               character, space in the scheme, host:port without scheme; unparsable WithEndpointURL) in every source
               position of the six exporters: provides nothing -> the NEXT source decides host and path (not the
               built-in default); model: ProvidesNothing / UnparsableIsUnset; the class next to plain sources is always
               in the quick sample; mismatch classes unparsable-not-skipped / unparsable-not-skipped-path.
cross        : metamorphic clause of the batch processors: a configuration of the four variables and
               NormalizeCross(cfg) (ill-formed values without documented meaning -> absent) are both executed,
               queue capacity / batch size / export deadline of both are logged as `Pair` lines and compared
               by Trace_ConfigPrecedence.tla (the batch<=queue clamp itself is not judged).

quick    : the SDK / limits / sampler / cross families completely, struct options in "star" mode (uniform
           structs with one field varied), a seeded sample of the exporter cases (every case that contains an
           ill-formed option, plus a seeded third of the rest), one seeded representative of every
           concrete-value table, 400 random scenarios.
thorough : the full product incl. all 3^6 structs, four representatives of every concrete-value table,
           12000 scenarios.
"""
import json
import os
import urllib.parse
import random
import re

S = "ConfigPrecedence"
EXPORTERS = ["otlptracehttp", "otlptracegrpc", "otlpmetrichttp", "otlpmetricgrpc", "otlploghttp", "otlploggrpc"]
FAMILIES = ["endpoint", "headers", "compression", "timeout", "sdk", "limits", "sampler", "structs", "cross", "huge", "paths"]


def tla_set(xs):
    return "{" + ", ".join('"%s"' % x for x in xs) + "}"


def kinds_of(case):
    out = []
    for s in case["srcs"]:
        k = s["k"]
        if s.get("v") and (case["fam"] in ("endpoint", "sampler") or case["setting"] == "compression" or k == "huge"):
            k += "(" + s["v"] + ")"
        out.append(k)
    return ",".join(out)


def _unq(p):
    return urllib.parse.unquote(p)


def obs_class(case, obs, ideal):
    """small class of the inadmissible observation (for known-finding matching and reports)"""
    o = obs[0] if obs else "?"
    if o in ("PANIC", "HANG"):
        return o
    if case["fam"] == "endpoint":
        who, _, path = o.partition("|")
        iwho = {x.partition("|")[0] for x in ideal}
        ipaths = {x.partition("|")[2] for x in ideal}
        if who not in iwho:
            # an unparsable source did not let the next source in precedence order decide (it masked it, or dragged
            # the setting to the built-in default)
            if any(s["k"] in UNPARSABLE for s in case["srcs"]) and any(s["k"] in ("url", "host", "hostpath") for s in case["srcs"]):
                return "unparsable-not-skipped"
            return "who"
        if "//" in path and path.replace("//", "/") in ipaths:
            return "path-double-slash"
        # URL path classes: the request target differs from the written path only in its percent-escapes
        if "%25" in path and path.replace("%25", "%") in ipaths:
            return "path-double-escaped"            # an existing escape was escaped again (%20 -> %2520)
        if path not in ipaths and any(_unq(path) == _unq(p) for p in ipaths):
            esc_slash = any("%2F" in p.upper() for p in ipaths) and "%2F" not in path.upper()
            return "path-escaped-slash-decoded" if esc_slash else "path-escaping"
        if path + "/" in ipaths:
            return "path-trailing-slash-stripped"
        if any(s["k"] in UNPARSABLE for s in case["srcs"]):
            return "unparsable-not-skipped-path"     # the URL path of the next source was lost with the unparsable value
        return "path"
    if o.startswith("?"):
        return "other"
    return o


def sig_of(direction, case, obs, ideal):
    sig = {"dir": direction, "comp": case["comp"], "setting": case["setting"], "obs": obs_class(case, obs, ideal),
           "kinds": kinds_of(case)}
    kind = (case.get("ctx") or {}).get("kind", "none")
    if kind != "none":
        sig["struct"] = kind      # the case belongs to a literal struct-valued option
    return sig


def pair_violations(ctx, direction, viols, trace_file):
    """violations of the cross-setting clause (Pair lines): the configuration and its normalized
    reference were observed to behave differently"""
    lines = None
    for v in viols:
        if v.get("kind") not in ("cross", "drift"):
            continue
        if lines is None:
            lines = open(trace_file).read().splitlines()
        rec = json.loads(lines[v["line"] - 1])
        if v["kind"] == "drift":
            ctx.note_inconclusive("harness drift: reference configuration %s is not NormalizeCross(%s) = %s"
                                  % (v["norm"], v["srcs"], v["want"]))
            continue
        srcs = ",".join(s["k"] for s in v["srcs"])
        if v["srcs"] == v["norm"]:
            # identical configurations observed differently: the experiment is not deterministic
            ctx.note_inconclusive("cross experiment not reproducible for %s %s: %s vs %s" % (v["comp"], srcs, v["obs"], v["ref"]))
            continue
        def conclusive(x):
            return not (str(x).startswith("INCONCLUSIVE") or x == "HANG")
        # only components observed conclusively on both sides are compared
        differs = "".join(k for k in ("q", "b", "t")
                          if v["obs"][k] != v["ref"][k] and conclusive(v["obs"][k]) and conclusive(v["ref"][k]))
        if not differs:
            ctx.note_inconclusive("cross experiment inconclusive for %s %s: %s vs %s" % (v["comp"], srcs, v["obs"], v["ref"]))
            continue
        panic = "PANIC" in v["obs"].values()
        report(ctx, {"dir": direction, "comp": v["comp"], "setting": "cross", "obs": "PANIC" if panic else "differs-" + differs,
                     "kinds": srcs},
               replay={"processor": v["comp"], "sources <<queue,batch,timeout,delay>>": v["srcs"], "env": rec.get("env"),
                       "observed": v["obs"], "reference sources": v["norm"], "reference env": rec.get("refenv"),
                       "reference observed": v["ref"], "detail": rec.get("detail"), "reference detail": rec.get("refdetail")})


def pairwise_new_class(act):
    """exporter case that pairs a source of the classes `valid and equal to the default` / `set but empty`
    with plain (absent / ordinary valid) other sources: always part of the quick sample, for every exporter
    and setting (endpoint, URL path, headers, compression, timeout)"""
    sigpath = {"otlptrace": "/v1/traces", "otlpmetri": "/v1/metrics", "otlploght": "/v1/logs", "otlploggr": "/v1/logs"}[act["comp"][:9]]

    def new(i, s):
        if s["k"] in ("vdef", "empty", "defurl", "defhost"):
            return True
        if act["fam"] == "endpoint":
            return s["k"] in ("url", "path") and s["v"] == sigpath and (i > 0 or s["k"] == "path")
        return act["setting"] == "compression" and s["k"] == "valid" and s["v"] == "none"

    def plain(i, s):
        if s["k"] in ("absent", "valid"):
            return True
        if act["fam"] == "endpoint":
            return (i == 0 and (s["k"] == "host" or (s["k"] == "url" and s["v"] == "/o"))) or \
                   (i > 0 and s["k"] == "url" and s["v"] in ("/s", "/g"))
        return False
    srcs = list(enumerate(act["srcs"]))
    return any(new(i, x) for i, x in srcs) and all(new(i, x) or plain(i, x) for i, x in srcs)


UNPARSABLE = ("unparsable", "noscheme", "badurl")     # ProvidesNothing of the model


def is_unparsable_class(act):
    """value class UNPARSABLE next to plain sources: an endpoint source whose text is not a URL in one position, every
    other source absent or an ordinary well-formed URL / host (invalid high + valid low and the other way round):
    always part of the quick sample, for all six exporters"""
    if act["fam"] != "endpoint" or not any(x["k"] in UNPARSABLE for x in act["srcs"]):
        return False
    return all(x["k"] in UNPARSABLE + ("absent", "host", "hostpath") or (x["k"] == "url" and x.get("v") in ("", "/o", "/s", "/g"))
               for x in act["srcs"])


def is_path_class(act):
    """endpoint case with a path that needs escaping / is already escaped / carries a query"""
    return act["fam"] == "endpoint" and any(ch in (x.get("v") or "") for x in act["srcs"] for ch in " %+;?")


def sample_edges(ctx, edges_file, out_file):
    """quick tier: every SDK / limits / sampler / struct / cross case, every exporter case whose OPTION
    source is ill-formed, and a seeded third of the remaining exporter cases."""
    rnd = random.Random(ctx.seed)
    kept = total = 0
    with open(edges_file) as f, open(out_file, "w") as o:
        for line in f:
            total += 1
            act = json.loads(line)["act"]
            keep = True
            if any(x["k"] == "huge" for x in act["srcs"]) or is_path_class(act) or is_unparsable_class(act):
                keep = True      # value classes HUGE / UNPARSABLE and the URL path classes: always complete
            elif act["comp"] not in ("sdk", "bsp", "blrp"):
                opt = act["srcs"][0]["k"]
                illformed_opt = opt in ("badurl", "badenum", "unknown", "neg", "zero")
                keep = illformed_opt or pairwise_new_class(act) or rnd.random() < 1.0 / 3
            elif act["setting"].endswith(".delay"):
                # schedule delays are observed in real time (about 1 s per case): a seeded half in the quick tier
                keep = rnd.random() < 0.5
            if keep:
                o.write(line)
                kept += 1
    return kept, total


def report(ctx, sig, replay):
    """every inadmissible observation, listed or not, is counted per class in the evidence"""
    k = "%s/%s/%s/%s" % (sig["dir"], sig["comp"], sig["setting"], sig["obs"])
    mc = ctx.extra.setdefault("mismatch_classes", {})
    mc[k] = mc.get(k, 0) + 1
    ctx.violation(sig, replay=replay)


def merge_counters(ctx, res):
    for k, v in res["counters"].items():
        ctx.extra.setdefault("counters", {}).setdefault(k, 0)
        ctx.extra["counters"][k] += v


def run(ctx):
    thorough = ctx.tier == "thorough"
    binp = ctx.go_build("c20")

    # ---- spec: enumeration + precedence theorems, with coverage (vacuity)
    r = ctx.tlc(S, "MC_ConfigPrecedence", "MC_ConfigPrecedence.cfg",
                defines={"FAMILIES": tla_set(FAMILIES), "EXPORTERS": tla_set(EXPORTERS),
                         "STRUCTMODE": '"full"' if thorough else '"star"'},
                want_edges=True, coverage=True, name="product", timeout=1800)
    if r["zero_cov"]:
        ctx.note_inconclusive("TLC coverage: actions never taken: %s" % r["zero_cov"])
    ctx.extra["cases_enumerated"] = r["edges"]
    edges = r["edges_file"]

    # ---- spec -> code
    if thorough:
        reps = list(range(4))
    else:
        reps = [ctx.seed % 8]
        sampled = os.path.join(ctx.work, "edges-sampled.ndjson")
        kept, total = sample_edges(ctx, edges, sampled)
        ctx.extra["cases_sampled"] = "%d of %d" % (kept, total)
        ctx.exhaustive = False
        edges = sampled
    replayed = 0
    for rep in reps:
        out = os.path.join(ctx.work, "replay-%d.ndjson" % rep)
        resf = os.path.join(ctx.work, "replay-%d.json" % rep)
        pairs = os.path.join(ctx.work, "pairs-%d.ndjson" % rep)
        ctx.run([binp, "replay", "-edges", edges, "-rep", str(rep), "-out", out, "-res", resf, "-pairs", pairs], timeout=3000)
        pv, pacc = ctx.validate_trace(S, "Trace_ConfigPrecedence", "Trace_ConfigPrecedence.cfg", pairs, timeout=3000,
                                      name="pairs-%d" % rep)
        ctx.extra["pair_lines_validated"] = ctx.extra.get("pair_lines_validated", 0) + pacc
        pair_violations(ctx, "replay", pv, pairs)
        res = json.load(open(resf))
        replayed += res["executed"]
        ctx.traces_validated += res["executed"]
        ctx.evaluations += res["evaluations"]
        merge_counters(ctx, res)
        ctx.add_samples(res["samples"][:1])
        for s in res["inconclusive"]:
            ctx.note_inconclusive(s[:3000])
        with open(out) as f:
            for line in f:
                row = json.loads(line)
                if row["ok"]:
                    continue
                case = row["case"]
                report(ctx, sig_of("replay", case, row["obs"], row.get("ideal") or row["allowed"]),
                       replay={"case": case, "env": row["env"], "options": row["opt"], "rep": rep,
                               "allowed": row["allowed"], "observed": row["obs"], "detail": row["detail"],
                               "tries": row["tries"]})
    ctx.extra["cases_replayed"] = replayed

    # ---- code -> spec
    n = 12000 if thorough else 400
    trace = os.path.join(ctx.work, "trace.ndjson")
    resf = os.path.join(ctx.work, "random.json")
    ctx.run([binp, "random", "-n", str(n), "-out", trace, "-res", resf], timeout=3000)
    res = json.load(open(resf))
    merge_counters(ctx, res)
    for s in res["inconclusive"]:
        ctx.note_inconclusive(s[:3000])
    viols, accepted = ctx.validate_trace(S, "Trace_ConfigPrecedence", "Trace_ConfigPrecedence.cfg", trace, timeout=3000)
    ctx.traces_validated += n
    ctx.evaluations += res["evaluations"]
    ctx.extra["random_scenarios"] = n
    ctx.extra["trace_lines_validated"] = accepted
    ctx.add_samples(res["samples"][:1])
    pair_violations(ctx, "random", viols, trace)
    lines = None
    for v in viols:
        if v.get("kind") in ("cross", "drift"):
            continue
        if lines is None:
            lines = open(trace).read().splitlines()
        scen = json.loads(lines[v["line"] - 1])
        rec = scen["cases"][v["idx"] - 1]
        report(ctx, sig_of("random", v["case"], v["obs"], v.get("ideal") or v["allowed"]),
               replay={"scenario": scen, "case": v["case"], "env": rec.get("env"), "options": rec.get("opt"),
                       "allowed": v["allowed"], "observed": v["obs"], "detail": rec.get("detail")})
    # vacuity of the random driver: the interesting regimes must have been reached
    c = ctx.extra.get("counters", {})
    for k in ("random.kind.exporter", "random.kind.tracer", "random.kind.logger", "random.kind.bsp", "random.kind.blrp",
              "random.kind.cross", "random.tracer.struct.raw", "random.tracer.struct.nonraw", "cases.cross.bsp", "cases.cross.blrp",
              "cases.struct.raw", "cases.struct.nonraw", "cases.struct.logopts",
              "random.illformed_sources", "random.exporter.delivered", "random.tracer.limit_observed",
              "cases.huge", "cases.pathclass"):
        if not c.get(k):
            ctx.note_inconclusive("random driver never reached regime %s" % k)
    ctx.assumptions += [
        "value ids O/S/G stand for the concrete numbers of harness/c20/conc.go (disjoint ranges, far from the documented defaults)",
        "ill-formed kinds stand for the representatives listed in harness/c20/conc.go (reviewed against the OTel env-var documents)",
        "export timeouts are observed through the deadline of the context handed to the transport / exporter; "
        "schedule delays through the first timer-driven export (lower bounds exact, upper bounds re-run before they count)",
        "a watchdog expiry (45 s) or an unobservable setting is inconclusive, never a verdict",
        "TLS / certificates / insecure flags, retry settings and metric-specific options are outside the statement",
    ]
    ctx.extra["rule"] = ("a case is one (component, setting, source kinds) tuple; edges: every case enumerated by "
                         "MC_ConfigPrecedence (quick: seeded sample of the exporter cases); random: seeded multi-setting scenarios")
