"""X02 -- inductive proofs of the small integer/set-shaped cores (specs/Inductive, see its README.md).

run_inductive(ctx, cores, budget_s) runs, per core, the Apalache obligations
    Init => IndInv            (--init=Init   --inv=IndInv --length=0)
    IndInv /\\ Next => IndInv' (--init=IndInv --inv=IndInv --length=1)
    IndInv => Safety          (--init=IndInv --inv=Safety --length=0)
with symbolic constants (--cinit=CInit) in a scratch copy under ctx.work, optionally the seeded model bugs
(non-vacuity: Apalache must find a counterexample to induction) and the TLC equivalence runs that tie each
parameterised module to the bounded spec it generalises.  It only orchestrates tools and compares printed sets;
it NEVER raises and never produces a verdict: an obligation that is not discharged (counterexample, timeout,
tool error) is recorded as proved=False.
"""
import concurrent.futures
import glob
import os
import re
import shutil
import subprocess
import time

HERE = os.path.dirname(os.path.abspath(__file__))
SPECS = os.path.join(os.path.dirname(HERE), "specs")
IND = os.path.join(SPECS, "Inductive")
TLA_CP = "/opt/veriftools/tla/tla2tools.jar:/opt/veriftools/tla/CommunityModules-deps.jar"

OBLIGATIONS = [("Init=>IndInv", "Init", "IndInv", 0), ("IndInv/\\Next=>IndInv'", "IndInv", "IndInv", 1),
               ("IndInv=>Safety", "IndInv", "Safety", 0)]

# core -> modules; per module: the seeded model bugs (cinit operator suffixes), a reachability sanity invariant that must
# FAIL in one step from IndInv, and the TLC equivalence configurations (quick, thorough-extra)
CORES = {
    "A": {"check": "C12", "what": "cardinality limiter (limit.go): #reported <= L, first L-1 sets keep identity, rest in overflow, totals conserved, L<=0 unlimited",
          "modules": [{"name": "CardLimit", "bugs": ["Gt", "NoExists", "Limit"], "sanity": "NeverOverflows"}]},
    "B": {"check": "C06", "what": "ring queue (sdk/log/batch.go queue): len <= cap, enqueued = held + dequeued + dropped, FIFO survivors, dequeue <= len(buf), drop only when full",
          "modules": [{"name": "RingQueue", "bugs": ["Lt", "Newest", "NoDrop", "NoWrap"], "sanity": "NeverFull"}]},
    "C": {"check": "C04", "what": "evictedQueue + span attribute cap (sdk/trace): len <= capacity, dropped = offered - len, most recent survive in order; distinct keys <= limit, earliest kept, updates applied when full, dropped exact",
          "modules": [{"name": "EvictedQueue", "bugs": ["Newest", "NoCount", "Ge"], "sanity": "NeverFull"},
                      {"name": "AttrCap", "bugs": ["NoUpdate", "Gt", "NoCount"], "sanity": "NeverFull"}]},
    "D": {"check": "C01", "what": "BSP counting core: queue <= QCap, batch <= MaxBatch at export, offered = queued + held + batch + exported + dropped + abandoned",
          "modules": [{"name": "BSPCount", "bugs": ["Gt", "NoCount", "Le"], "sanity": "NeverFullBatch"}]},
    "E": {"check": "C03", "what": "tracestate Insert/Delete (trace/tracestate.go): <= N members, unique keys, newest first, overflow drops only the right-most (= oldest) member",
          "modules": [{"name": "TraceStateIns", "bugs": ["First", "NoMove", "Le"], "sanity": "NeverFull"}]},
}


def _sub(text, kv):
    for k, v in kv.items():
        text = text.replace("@%s@" % k, str(v))
    return text


def _apalache(work, module, tag, cinit, init, inv, length, timeout):
    """One apalache-mc run in its own scratch copy. Returns dict(outcome = ok|cex|timeout|error, seconds)."""
    d = os.path.join(work, "%s-%s" % (module, tag))
    shutil.rmtree(d, ignore_errors=True)
    os.makedirs(d)
    shutil.copy(os.path.join(IND, module + ".tla"), d)
    cmd = ["apalache-mc", "check", "--cinit=" + cinit, "--init=" + init, "--inv=" + inv, "--length=%d" % length,
           "--out-dir=" + os.path.join(d, "_apalache-out"), module + ".tla"]
    env = dict(os.environ, JVM_ARGS="-Xmx2g")
    t0 = time.time()
    try:
        p = subprocess.run(cmd, cwd=d, env=env, stdout=subprocess.PIPE, stderr=subprocess.STDOUT, timeout=timeout, text=True)
        out = p.stdout
        open(os.path.join(d, "apalache.out"), "w").write(out)
        if "EXITCODE: OK" in out and "The outcome is: NoError" in out:
            oc = "ok"
        elif "The outcome is: Error" in out and "EXITCODE: ERROR (12)" in out:
            oc = "cex"
        else:
            oc = "error"
    except subprocess.TimeoutExpired:
        oc = "timeout"
    except Exception as e:  # tool missing etc.
        oc = "error"
        open(os.path.join(d, "apalache.out"), "w").write(repr(e))
    cex = ""
    if oc == "cex":
        for f in glob.glob(os.path.join(d, "_apalache-out", "*", "*", "violation1.tla")):
            m = re.search(r"InvariantViolation ==\s*(.*?)\n\s*\n", open(f).read(), re.S)
            if m:
                cex = " ".join(m.group(1).split())[:200]
    return {"cmd": " ".join(cmd[:-2] + [cmd[-1]]), "outcome": oc, "seconds": round(time.time() - t0, 1), "violates": cex}


def _tlc_edges(work, tag, module, kv, extra_dirs, timeout):
    """Runs one side of an equivalence run; returns (set of EDGE lines or None, info)."""
    d = os.path.join(work, "eq-" + tag)
    shutil.rmtree(d, ignore_errors=True)
    os.makedirs(d)
    for src in [IND] + [os.path.join(SPECS, x) for x in extra_dirs]:
        for f in glob.glob(os.path.join(src, "*.tla")):
            shutil.copy(f, d)
    for ext in (".tla", ".cfg"):
        p = os.path.join(d, module + ext)
        open(p, "w").write(_sub(open(os.path.join(IND, module + ext)).read(), kv))
    cmd = ["java", "-Xmx2g", "-XX:+UseParallelGC", "-cp", TLA_CP, "tlc2.TLC", "-workers", "1", "-metadir", os.path.join(d, "md"),
           "-config", module + ".cfg", module + ".tla"]
    t0 = time.time()
    try:
        p = subprocess.run(cmd, cwd=d, stdout=subprocess.PIPE, stderr=subprocess.STDOUT, timeout=timeout, text=True)
    except subprocess.TimeoutExpired:
        return None, {"error": "timeout", "seconds": round(time.time() - t0, 1)}
    open(os.path.join(d, "tlc.out"), "w").write(p.stdout)
    m = re.findall(r"([\d,]+) distinct states found", p.stdout)
    info = {"rc": p.returncode, "distinct": int(m[-1].replace(",", "")) if m else None, "seconds": round(time.time() - t0, 1)}
    if p.returncode != 0:
        info["error"] = "TLC exit %d" % p.returncode
        return None, info
    return {ln for ln in p.stdout.splitlines() if ln.startswith('"EDGE ')}, info


def _equiv_jobs(core, thorough):
    """(name, [(new module, kv)...], (old module, kv, extra spec dirs), mode) ; mode 'equal' or 'subset' (old within new)."""
    jobs = []
    if core == "A":
        for L in ([2] if not thorough else [0, 1, 2, 3]):
            kv = {"L": L, "MAXSTEPS": 4}
            jobs.append(("CardLimit L=%d" % L, [("MC_CardLimit_EquivNew", dict(kv, K=k)) for k in (1, 2, 3, 4)],
                         ("MC_CardLimit_EquivOld", kv, ["Cardinality"]), "equal"))
    if core == "B":
        cfgs = [(2, 1, 3, "{}")] + ([(3, 2, 5, "{}"), (2, 1, 3, '{"f1"}')] if thorough else [])
        for cap, b, n, fl in cfgs:
            kv = {"CAP": cap, "BATCH": b, "MAXENQ": n}
            jobs.append(("RingQueue cap=%d batch=%d enq<=%d flushers=%s" % (cap, b, n, fl),
                         [("MC_RingQueue_EquivNew", dict(kv, J=j)) for j in range(cap)],
                         ("MC_RingQueue_EquivOld", dict(kv, FLUSHERS=fl), ["BatchLP"]), "equal"))
    if core == "C":
        for cap in ([2] if not thorough else [-1, 0, 1, 2, 3]):
            kv = {"CAP": cap, "MAXOFFER": 6}
            jobs.append(("EvictedQueue capacity=%d" % cap, [("MC_EvictedQueue_EquivNew", dict(kv, X=x)) for x in range(1, 7)],
                         ("MC_EvictedQueue_EquivOld", kv, ["SpanState"]), "equal"))
        for lim in ([2] if not thorough else [-1, 0, 1, 2, 3]):
            kv = {"LIMIT": lim, "MAXSTEPS": 5}
            jobs.append(("AttrCap limit=%d" % lim, [("MC_AttrCap_EquivNew", kv)], ("MC_AttrCap_EquivOld", kv, ["SpanState"]), "equal"))
    if core == "D":
        for blocking in (["FALSE"] if not thorough else ["FALSE", "TRUE"]):
            kv = {"QCAP": 2, "MAXBATCH": 2, "BLOCKING": blocking}
            jobs.append(("BSPCount qcap=2 maxbatch=2 blocking=%s 1x3 spans f1 s1" % blocking,
                         [("MC_BSPCount_EquivNew", dict(kv, MAXOFFER=3))],
                         ("MC_BSPCount_EquivOld", dict(kv, SPANSPER=3, PRODUCERS='{"p1"}'), ["BSP"]), "subset"))
    if core == "E":
        for n in ([2] if not thorough else [1, 2, 3]):
            kv = {"N": n, "MAXSTEPS": 5}
            jobs.append(("TraceStateIns N=%d 4 keys <=5 inserts" % n, [("MC_TraceStateIns_EquivNew", kv)],
                         ("MC_TraceStateIns_EquivOld", kv, ["TraceContext"]), "equal"))
    return jobs


def _run_equiv(work, core, thorough, deadline):
    res = []
    for n, (name, news, old, mode) in enumerate(_equiv_jobs(core, thorough)):
        left = deadline - time.time()
        if left < 20:
            res.append({"name": name, "ok": False, "error": "budget exhausted, not run"})
            continue
        new_edges, infos, bad = set(), [], None
        for i, (mod, kv) in enumerate(news):
            e, info = _tlc_edges(work, "%s%d-new%d" % (core, n, i), mod, kv, [], min(300, max(20, deadline - time.time())))
            infos.append(info)
            if e is None:
                bad = info.get("error")
                break
            new_edges |= e
        old_edges = None
        if bad is None:
            old_edges, oinfo = _tlc_edges(work, "%s%d-old" % (core, n), old[0], old[1], old[2], min(900, max(20, deadline - time.time())))
            if old_edges is None:
                bad = oinfo.get("error")
        if bad is not None:
            res.append({"name": name, "ok": False, "error": bad})
            continue
        old_only, new_only = len(old_edges - new_edges), len(new_edges - old_edges)
        ok = old_only == 0 and len(old_edges) > 0 and (mode == "subset" or new_only == 0)
        res.append({"name": name, "mode": mode, "ok": ok, "old_edges": len(old_edges), "new_edges": len(new_edges),
                    "old_only": old_only, "new_only": new_only, "old_states": oinfo.get("distinct"), "old_seconds": oinfo.get("seconds"),
                    "sample_old_only": sorted(old_edges - new_edges)[:2]})
    return res


def run_inductive(ctx, cores, budget_s, bugs=False, equiv=False, parallel=3):
    """Per core: {proved, seconds, tool, what, modules: {...}, [nonvacuity], [equivalence]}.  Never raises."""
    out = {}
    try:
        t_start = time.time()
        deadline = t_start + budget_s
        work = os.path.join(ctx.work, "inductive")
        os.makedirs(work, exist_ok=True)
        thorough = getattr(ctx, "tier", "quick") == "thorough"
        for core in cores:
            spec = CORES.get(core)
            if spec is None:
                out[core] = {"proved": False, "seconds": 0, "tool": "none", "what": "unknown core"}
                continue
            t0 = time.time()
            jobs = []
            for m in spec["modules"]:
                for name, init, inv, length in OBLIGATIONS:
                    jobs.append((m["name"], "ob", name, "CInit", init, inv, length))
                if bugs:
                    for b in m["bugs"]:
                        jobs.append((m["name"], "bug", b, "CInit" + b, "IndInv", "IndInv", 1))
                    jobs.append((m["name"], "sanity", m["sanity"], "CInit", "IndInv", m["sanity"], 1))
            results = {}
            with concurrent.futures.ThreadPoolExecutor(max_workers=parallel) as ex:
                futs = {}
                for j in jobs:
                    tmo = max(5, min(600, deadline - time.time()))
                    tag = re.sub(r"[^A-Za-z0-9]", "_", "%s-%s" % (j[1], j[2]))
                    futs[ex.submit(_apalache, work, j[0], tag, j[3], j[4], j[5], j[6], tmo)] = j
                for f in concurrent.futures.as_completed(futs):
                    j = futs[f]
                    try:
                        results[(j[0], j[1], j[2])] = f.result()
                    except Exception as e:
                        results[(j[0], j[1], j[2])] = {"outcome": "error", "seconds": 0, "violates": repr(e), "cmd": ""}
            mods, proved, solver_s = {}, True, 0.0
            nonvac = {}
            for m in spec["modules"]:
                obs = {}
                for name, _, _, _ in OBLIGATIONS:
                    r = results[(m["name"], "ob", name)]
                    obs[name] = r
                    solver_s += r["seconds"]
                    proved = proved and r["outcome"] == "ok"
                mods[m["name"]] = obs
                if bugs:
                    nv = {b: results[(m["name"], "bug", b)] for b in m["bugs"]}
                    nv["sanity:" + m["sanity"]] = results[(m["name"], "sanity", m["sanity"])]
                    nonvac[m["name"]] = {k: {"caught": v["outcome"] == "cex", "outcome": v["outcome"], "seconds": v["seconds"], "violates": v["violates"]}
                                         for k, v in nv.items()}
            rec = {"proved": proved, "seconds": round(time.time() - t0, 1), "solver_seconds_sum": round(solver_s, 1), "tool": "apalache-mc 0.58.0",
                   "what": spec["what"], "generalises": spec["check"], "modules": mods}
            if not proved:
                rec["unproved"] = ["%s: %s (%s)" % (mn, ob, r["outcome"]) for mn, obs in mods.items() for ob, r in obs.items() if r["outcome"] != "ok"]
            if bugs:
                rec["nonvacuity"] = nonvac
                rec["nonvacuity_all_caught"] = all(v["caught"] for d in nonvac.values() for v in d.values())
            if equiv:
                rec["equivalence"] = _run_equiv(work, core, thorough, deadline)
                rec["equivalence_ok"] = all(e.get("ok") for e in rec["equivalence"]) and len(rec["equivalence"]) > 0
            out[core] = rec
        out["_total_seconds"] = round(time.time() - t_start, 1)
    except Exception as e:  # never a verdict, never an exception
        out["_error"] = repr(e)
    return out
