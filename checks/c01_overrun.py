"""C01, exporter phase: exporters that OVERRUN the export deadline (stage of checks/c01.py).

Class: an exporter that ignores its ctx and is still inside ExportSpans well after the export deadline
(ExportTimeout, or the ctx of the ForceFlush whose export it serves) while further exports become due
(size-triggered, timer-triggered, ForceFlush, the Shutdown drain).  Clause: "the exporter is never invoked
by two goroutines at the same time" (+ bounded batches / exactly-once for the spans of the overrun batch).

model      : BSPOverrun.tla = BSP.tla + exporter phase out / inside / overdue (environment step XDeadline);
             invariants PhaseOK, OverdueHeld (the export critical section stays occupied), Exclusive, and all of
             BSP's; the model mutation Abandon=TRUE (give an overdue export up) must violate Exclusive; two
             reachability configs must be violated (vacuity of the overdue phase with exports due).
spec->code : TLC -simulate behaviours of BSPOverrunSim.tla with an overdue phase (script entries x@exp.overdue /
             x@exp.end; the harness exporter answers "overrun/<holdMs>/<answer>") + directed schedules, one per
             kind of export that becomes due while the exporter is inside past its deadline.
code->spec : every recorded line is a step of BSPOverrunContract.tla (BSPContract + the exporter phase from the
             ExportOverdue event); broken clauses carry exporter_phase.
"""
import json
import os

S = "BSP"
OV_INVS = "NoDup BatchBound Contract DroppedCounted MutexOK Accounting Stuck PhaseOK OverdueHeld OverdueOnlyWithDeadline Exclusive"


def ov(hold_ms, answer="ok"):
    return "overrun/%d/%s" % (hold_ms, answer)


def directed(ends, hold, long_hold):
    """one schedule per kind of export that becomes due while the exporter is inside past its deadline; the script
    only orders the steps that make the export due between x@exp.overdue and x@exp.end, the hold follows"""
    first = lambda *more: ends("p1:1") + ["w@bsp.worker.dequeued:p1:1", "w@bsp.worker.appended:p1:1"] + list(more)  # noqa: E731
    inside = ["x@exp.begin", "x@exp.overdue"]
    D = [
        # the worker's size-triggered export overruns ExportTimeout; two more full batches queue up behind it
        dict(name="overrun-size-due", spansPer=3, qcap=4, maxbatch=1, outcomes=[ov(hold)],
             script=first(*inside) + ends("p1:2", "p1:3") + ["x@exp.end", "s1@call"]),
        dict(name="overrun-size-due-long", spansPer=3, qcap=4, maxbatch=1, outcomes=[ov(long_hold)],
             script=first(*inside) + ends("p1:2", "p1:3") + ["x@exp.end", "s1@call"]),
        # the timer-triggered export overruns; the next span is batched behind it and the timer fires again
        dict(name="overrun-timer-due", spansPer=2, qcap=4, maxbatch=4, batchTimeoutUs=1500, outcomes=[ov(hold)],
             script=first(*inside) + ends("p1:2") + ["x@exp.end", "s1@call"]),
        # a ForceFlush (Background ctx) arrives while the worker's export is overdue: its marker waits in the queue
        dict(name="overrun-flush-due", spansPer=2, qcap=4, maxbatch=1, flushers=1, outcomes=[ov(hold)],
             script=first(*inside) + ends("p1:2") + ["f1@call", "f1@bsp.ff.checked", "f1@bsp.ff.marker", "x@exp.end",
                                                     "s1@call"]),
        # ForceFlush is past its marker and about to export when the worker's size-triggered export goes overdue:
        # its export helper must wait for batchMutex
        dict(name="overrun-flush-export-due", spansPer=2, qcap=4, maxbatch=2, flushers=1, outcomes=[ov(hold)],
             script=first("f1@call", "f1@bsp.ff.checked", "f1@bsp.ff.marker") + ends("p1:2") +
             ["w@bsp.worker.dequeued:p1:2", "w@bsp.worker.appended:p1:2"] + inside + ["f1@bsp.ff.flushed", "x@exp.end", "s1@call"]),
        # the export made on behalf of a ForceFlush outlives the caller's ctx (no ExportTimeout): ForceFlush returns
        # ctx.Err(), the export goes on; the worker's next batch fills up behind it
        dict(name="overrun-of-flush-export", spansPer=3, qcap=4, maxbatch=2, flushers=1, exportTimeoutMs=0,
             ctx={"f1": "cancel"}, outcomes=[ov(hold)],
             script=first("f1@call", "f1@bsp.ff.checked", "f1@bsp.ff.marker", "f1@bsp.ff.flushed", "x@exp.begin",
                          "f1@ctx.expire/", "x@exp.overdue") + ends("p1:2", "p1:3") + ["x@exp.end", "s1@call"]),
        dict(name="overrun-of-flush-export-long", spansPer=3, qcap=4, maxbatch=2, flushers=1, exportTimeoutMs=0,
             ctx={"f1": "cancel"}, outcomes=[ov(long_hold)],
             script=first("f1@call", "f1@bsp.ff.checked", "f1@bsp.ff.marker", "f1@bsp.ff.flushed", "x@exp.begin",
                          "f1@ctx.expire/", "x@exp.overdue") + ends("p1:2", "p1:3") + ["x@exp.end", "s1@call"]),
        # Shutdown begins while the worker's export is overdue: the drain (and exporter.Shutdown) must wait for it
        dict(name="overrun-drain-due", spansPer=2, qcap=4, maxbatch=1, outcomes=[ov(hold)],
             script=first(*inside) + ends("p1:2") + ["s1@call", "s1@bsp.sd.stopped", "s1@bsp.sd.closed", "x@exp.end"]),
        # ... the first Shutdown's ctx expires meanwhile (returns ctx.Err()); a second one (Background) must still wait
        dict(name="overrun-shutdown-ctx-expires", spansPer=2, qcap=4, maxbatch=1, stoppers=2, ctx={"s1": "cancel"},
             outcomes=[ov(hold)],
             script=first(*inside) + ends("p1:2") + ["s1@call", "s1@ctx.expire/s1@bsp.sd.stopped", "s1@bsp.sd.stopped",
                                                     "s1@ret", "s2@call", "x@exp.end"]),
        # the drain's own export overruns (Shutdown already waiting), more spans queued: drained one by one afterwards
        dict(name="overrun-of-drain-export", spansPer=3, qcap=4, maxbatch=1, outcomes=["ok", ov(hold)],
             script=ends("p1:1", "p1:2", "p1:3") + ["s1@call", "s1@bsp.sd.stopped", "s1@bsp.sd.closed", "x@exp.begin",
                                                    "x@exp.begin", "x@exp.overdue", "x@exp.end"]),
        # a late answer is an answer: ctx error / export error -> the overrun batch is not retried
        dict(name="overrun-answers-ctx-error", spansPer=3, qcap=4, maxbatch=1, flushers=1, outcomes=[ov(hold, "ctx")],
             script=first(*inside) + ends("p1:2", "p1:3") + ["x@exp.end", "f1@call", "s1@call"]),
        dict(name="overrun-answers-error", spansPer=3, qcap=4, maxbatch=2, flushers=1, outcomes=[ov(hold, "error")],
             script=first() + ends("p1:2") + ["w@bsp.worker.dequeued:p1:2", "w@bsp.worker.appended:p1:2"] + inside +
             ends("p1:3") + ["x@exp.end", "f1@call", "s1@call"]),
        # blocking mode: producers park on the full queue behind the overdue export; nothing may be dropped or doubled
        dict(name="overrun-blocking-queue-full", producers=2, spansPer=2, qcap=1, maxbatch=1, blocking=True,
             outcomes=[ov(hold)],
             script=first(*inside) + ends("p1:2") + ["p2:1@call", "p2:1@bsp.onend.checked", "x@exp.end", "s1@call"]),
    ]
    for d in D:
        d.setdefault("producers", 1)
        d.setdefault("flushers", 0)
        d.setdefault("stoppers", 1)
        d.setdefault("exportTimeoutMs", 20)
    return D


def stage(ctx, binp, mc_defs, cfg_name, ends, scenario):
    thorough = ctx.tier == "thorough"
    hold, long_hold, sim_hold = (300, 1200, 150)

    def defs(*c, abandon=False, invs=OV_INVS, focus=False, **kw):
        d = mc_defs(*c, **kw)
        d.update(ABANDON="TRUE" if abandon else "FALSE", OVINVS=invs, OVSIMSPEC="OvSimSpecFocus" if focus else "OvSimSpec")
        return d
    # ------------------------------------------------------------ exhaustive: the phase model
    fam = [((2, 1, 1, 1, False, 1, 1), dict(expiring=("f1",), outcomes=("ok", "error")))]
    if thorough:
        fam += [((2, 1, 1, 1, True, 1, 1), dict(expiring=("f1", "s1"), outcomes=("ok", "error"))),
                ((1, 2, 2, 2, False, 1, 2), dict(expiring=("f1", "s1"), outcomes=("ok", "error"))),
                ((2, 2, 2, 1, False, 1, 1), dict(outcomes=("ok", "error"))),
                ((2, 1, 2, 1, False, 1, 1), dict(expiring=("f1",), et=False, outcomes=("ok", "error")))]
    for c, kw in fam:
        ctx.tlc(S, "MC_BSPOverrun", "MC_BSPOverrun.cfg", defines=defs(*c, **kw), name="mc-overrun-" + cfg_name(*c, **kw),
                timeout=3000, heap="2g")
    found = {}
    c0, kw0 = fam[0]
    for nm, inv, ab in (("mc-overrun-abandon", "Exclusive", True), ("mc-overrun-due", "NoDueWhileOverdue", False),
                        ("mc-overrun-helper", "NoOverdueHelperAfterReturn", False)):
        r = ctx.tlc(S, "MC_BSPOverrun", "MC_BSPOverrun.cfg", defines=defs(*c0, abandon=ab, invs=inv, **kw0), name=nm,
                    must_pass=False, count=False, timeout=600, heap="2g")
        found[nm] = r["violated"]
        if r["violated"] != inv:
            ctx.note_inconclusive("model drift (exporter phase): %s is no longer violated by TLC (%s)" % (inv, r["out"]))
    ctx.extra["overrun_model_level"] = found
    # ------------------------------------------------------------ spec -> code: behaviours with an overdue phase
    scenarios = []
    sims = [((2, 2, 2, 1, False, 1, 1), dict(expiring=("f1",))),
            # no ExportTimeout: flush contexts expire only during the flush's own export (OvSimSpecFocus)
            ((1, 3, 2, 2, False, 2, 1), dict(expiring=("f1", "f2"), et=False, focus=True)),
            ((2, 2, 1, 1, True, 1, 1), {})]
    per_cfg = 40 if thorough else 8
    for c, kw in sims:
        focus = kw.pop("focus", False)
        r = ctx.tlc(S, "MC_BSPOverrunSim", "MC_BSPOverrunSim.cfg", defines=defs(*c, focus=focus, **kw), workers=1,
                    simulate="num=%d" % (1200 if thorough else 300), depth=400, name="sim-overrun-" + cfg_name(*c, **kw),
                    timeout=900, heap="2g")
        cand = {}
        for s in r["prints"]:
            if isinstance(s, str) and s.startswith("BEHAVIOUR ") and s not in cand:
                b = json.loads(s[len("BEHAVIOUR "):])
                if not any(b["overdue"]):
                    continue
                sc = b["script"]
                # how many steps of the others fall between an exporter going overdue and its release
                due = 0
                for i, k in enumerate(sc):
                    if k == "x@exp.overdue":
                        j = i + 1
                        while j < len(sc) and sc[j] != "x@exp.end":
                            j += 1
                        due += j - i - 1
                cand[s] = (due, b)
        p, k, q, mb, blocking, f, st = c
        for due, b in sorted(cand.values(), key=lambda x: -x[0])[:per_cfg]:
            answers = {"ok": "ok", "error": "error", "timeout": "ctx"}
            outs = [ov(sim_hold, answers[o]) if od else ("error" if o == "timeout" else o)
                    for o, od in zip(b["outcomes"], b["overdue"])]
            # one hold per behaviour keeps the replay inside the scheduler's patience: later overruns do not linger
            seen_hold = False
            for i, o in enumerate(outs):
                if o.startswith("overrun/"):
                    if seen_hold:
                        outs[i] = ov(0, o.split("/")[2])
                    seen_hold = True
            d = dict(name="sim-overrun-" + cfg_name(*c, **kw), producers=p, spansPer=k, qcap=q, maxbatch=mb, flushers=f,
                     stoppers=st, script=b["script"], outcomes=outs, ctx={x: "deadline" for x in kw.get("expiring", ())},
                     exportTimeoutMs=(20 if kw.get("et", True) else 0))
            scenarios.append(scenario(d, blocking=blocking))
    nbeh = len(scenarios)
    for d in directed(ends, hold, long_hold):
        for rep in range(4 if thorough else 1):
            scenarios.append(scenario(d))
    sfile = os.path.join(ctx.work, "scripts-overrun.json")
    json.dump(scenarios, open(sfile, "w"))
    tf = os.path.join(ctx.work, "trace-overrun.ndjson")
    rf = os.path.join(ctx.work, "res-overrun.json")
    ctx.run([binp, "scripts", "-in", sfile, "-out", tf, "-res", rf], timeout=3000)
    res = json.load(open(rf))
    # ------------------------------------------------------------ code -> spec: the contract with the exporter phase
    r = ctx.tlc(S, "Trace_BSPOverrun", "Trace_BSPOverrun.cfg", workers=1, timeout=3000, extra_files={"trace.ndjson": tf},
                name="trace-overrun", must_pass=False, count=False, heap="2g")
    if r["timed_out"] or r["rc"] != 0 or r["error"] or r["violated"]:
        ctx.note_inconclusive("trace validation (exporter phase) TLC error: %s" % r["out"])
        return
    viols, accepted, stat = {}, None, {}
    for s in r["prints"]:
        if isinstance(s, str) and s.startswith("VIOL "):
            viols[s] = json.loads(s[5:])
        elif isinstance(s, str) and s.startswith("ACCEPTED"):
            accepted = int(s.split()[1])
        elif isinstance(s, str) and s.startswith("OVSTAT "):
            stat = json.loads(s[7:])
    lines = open(tf).read().splitlines()
    if accepted != len(lines):
        ctx.note_inconclusive("trace spec (exporter phase) consumed %s of %d lines (drift, not a verdict): %s"
                              % (accepted, len(lines), r["out"]))
        return
    kinds, observations = {}, {}
    for v in viols.values():
        kind = v["v"]["kind"]
        phase = v["v"].get("exporter_phase", "none")
        kinds[kind + "@" + phase] = kinds.get(kind + "@" + phase, 0) + 1
        if kind.startswith("obs:"):
            observations[kind] = observations.get(kind, 0) + 1
            continue
        if kind.startswith("harness:"):
            ctx.note_inconclusive("harness inconsistency in the exporter-phase trace: %s" % json.dumps(v))
            continue
        scen, cfg = [], {}
        for ln in lines[:v["line"]][::-1]:
            rec = json.loads(ln)
            if rec.get("sc") != v["sc"]:
                break
            scen.append(rec)
            if rec["ev"] == "Cfg":
                cfg = rec
        scen.reverse()
        ctx.violation({"kind": kind, "source": "overrun", "exporter_phase": phase},
                      replay={"violation": v, "scenario_name": cfg.get("name", ""),
                              "scenario": scenarios[v["sc"]] if v["sc"] < len(scenarios) else None, "events": scen[-400:]})
    ctx.traces_validated += res["executed"]
    ctx.evaluations += res["executed"]
    follow = {k[9:]: "%d/%d" % (n, n + res["counters"].get("desync:" + k[9:], 0))
              for k, n in sorted(res["counters"].items()) if k.startswith("followed:")}
    ctx.extra["overrun"] = {"tlc_behaviours_replayed": nbeh, "directed_schedules": len(scenarios) - nbeh,
                            "trace_lines": accepted, "monitor": stat, "violation_kinds_seen": kinds,
                            "observations": observations, "script_follow_rate": follow,
                            "scenarios_with_blocked_goroutines": res["counters"].get("scenarios_with_blocked_goroutines", 0)}
    # vacuity: the exporter really was inside past its deadline in (nearly) every scenario -- never a verdict
    if stat.get("with_overdue", 0) < max(1, len(scenarios) // 2):
        ctx.note_inconclusive("vacuity: only %s of %d exporter-phase scenarios reached the overdue phase on the real code"
                              % (stat.get("with_overdue"), len(scenarios)))
    ctx.assumptions += [
        "exporter phase: an exporter that ignores its ctx is inside past its deadline from the moment it has itself seen "
        "ctx.Done() (event ExportOverdue logged from inside the call) until it returns; it stays inside for 150 / 300 / "
        "1200 ms after the scripted steps have made further exports due -- a processor that gives an overdue export up "
        "later than that is not seen",
    ]
