"""C18 -- Prometheus exporter: scrapes never crash and expose valid, faithful series (PromModel.tla).

spec -> code : TLC explores PromExport.tla exhaustively for a family of small configurations
               (instrument-name token sequences x units x kinds x exporter options; attribute key
               sets with sanitisation collisions; pairs of instruments that map to one family, type and
               help conflicts, two scrapes; info series per option) and prints every scrape edge with
               the path that reaches it; harness/c18 replays each maximal scenario on a real exporter
               (one process per name-validation scheme: the scheme is process-global), records the
               SDK's own view (Reader.Collect of the same exporter) and what a direct Collect (under
               recover) and a real Registry.Gather exposed.
code -> spec : harness/c18 runs seeded random scenarios (1-4 instruments of all 16 kinds, ugly names,
               namespaces, 1-3 scopes, colliding / typed / non-ASCII attribute keys, several scrapes)
               and concurrent scenarios (scrapers || recorders || a late instrument).
Both recordings are judged by TLC with Trace_PromExport.tla (PromModel operators): the expected
exposition has alternatives wherever the statement leaves a choice, deviations of the unchanged
exporter are named (PromModel!Deviations) and a scrape is attributed to one only when it explains
the observation exactly.
"""
import json
import os
import random
import re

S = "PromExport"


# ------------------------------------------------------------------ abstract inputs (python data -> TLA+ text / JSON)
def tok(c, s):
    return {"c": c, "s": s}


def w(s): return tok("w", s)
def W(s): return tok("W", s)
def d(s): return tok("d", s)
def u(s): return tok("u", s)
def sep(s): return tok("sep", s)
def bad(s): return tok("bad", s)


TOT = tok("total", "total")
COLON = tok("colon", ":")


class TSet(list):
    """a python list rendered as a TLA+ set"""


def tla(v):
    if isinstance(v, bool):
        return "TRUE" if v else "FALSE"
    if isinstance(v, int):
        return str(v)
    if isinstance(v, str):
        assert '"' not in v and "\\" not in v
        return '"%s"' % v
    if isinstance(v, TSet):
        return "{" + ", ".join(tla(x) for x in v) + "}"
    if isinstance(v, (list, tuple)):
        return "<<" + ", ".join(tla(x) for x in v) + ">>"
    if isinstance(v, dict):
        return "[" + ", ".join("%s |-> %s" % (k, tla(x)) for k, x in v.items()) + "]"
    raise TypeError(v)


def render(toks):
    return "".join(t["s"] for t in toks)


def attr(k, v, t="s", f=False, ill=False):
    """f: removed from the stream by the view's attribute filter (only visible as exemplar label);
    ill: ill-formed, the harness makes the real value invalid UTF-8"""
    return {"k": k, "t": t, "v": v, "r": 0, "f": f, "n": 0, "ill": ill}


def aset(*attrs):
    """attribute set: ordered by original key, r = rank of the value text (TLC cannot order strings)"""
    as_ = sorted(attrs, key=lambda a: render(a["k"]).encode())
    vals = sorted(a["v"].encode() for a in as_)
    for a in as_:
        a["r"] = vals.index(a["v"].encode())
        a["n"] = len(render(a["k"])) + len(a["v"])     # runes of key + value
    return as_


def opts(scheme, noUnits=False, noSuffix=False, ns=(), noTarget=False, noScope=False, resConst=False, resKeys=()):
    return {"scheme": scheme, "noUnits": noUnits, "noSuffix": noSuffix, "ns": list(ns), "noTarget": noTarget,
            "noScope": noScope, "resConst": resConst, "resKeys": list(resKeys)}


def inst(id_, toks, kind, unit="", scope="sA", desc="d1", ill=False):
    return {"id": id_, "scope": scope, "toks": list(toks), "unit": unit, "kind": kind, "desc": desc, "ill": ill}


SCHEMES = ("legacy", "utf8")
RES1 = aset(attr([w("service"), sep("."), w("name")], "svc"))
RES3 = aset(attr([w("service"), sep("."), w("name")], "svc"), attr([w("k"), sep("."), w("x")], "r1"),
            attr([w("k"), sep("_"), w("x")], "7", "i"))
UNITS = {"d": "days", "h": "hours", "min": "minutes", "s": "seconds", "ms": "milliseconds", "us": "microseconds",
         "ns": "nanoseconds", "By": "bytes", "KiBy": "kibibytes", "MiBy": "mebibytes", "GiBy": "gibibytes",
         "TiBy": "tibibytes", "KBy": "kilobytes", "MBy": "megabytes", "GBy": "gigabytes", "TBy": "terabytes",
         "m": "meters", "V": "volts", "A": "amperes", "J": "joules", "W": "watts", "g": "grams", "Cel": "celsius",
         "Hz": "hertz", "1": "ratio", "%": "percent"}


def names_upto(alphabet, n):
    """every valid instrument name of up to n tokens: starts with a letter token"""
    first = [t for t in alphabet if t["c"] in ("w", "W", "total", "u")]
    out = [[t] for t in first]
    frontier = list(out)
    for _ in range(n - 1):
        frontier = [s + [t] for s in frontier for t in alphabet]
        out += frontier
    return out


def configs(tier):
    th = tier == "thorough"
    cfgs = []

    def add(name, optsl, templates, ases=None, recas=(1,), vals=(3,), res=RES1, maxinst=1, maxrec=1, maxscr=1, budget=None,
            scopes=(), spans=(False,), mark=True, maxpre=0, shut=False, faults=(), maxfaults=1):
        cfgs.append(dict(name=name, opts=optsl, templates=templates, ases=ases or [[]], recas=list(recas), vals=list(vals),
                         res=res, maxinst=maxinst, maxrec=maxrec, maxscr=maxscr, budget=budget, scopes=list(scopes),
                         spans=list(spans), mark=mark, maxpre=maxpre, shut=shut, faults=list(faults), maxfaults=maxfaults))

    # ---- names: token sequences x units x kinds x options
    alpha = [w("foo"), TOT, u("seconds"), sep("_"), sep(".")]
    nunits = ["", "s"]
    nkinds = ["counter", "gauge", "hist"]
    nopts = [dict(), dict(noUnits=True), dict(noSuffix=True), dict(ns=[w("ns")])]
    if th:
        nopts += [dict(noUnits=True, noSuffix=True), dict(ns=[w("my"), sep("."), w("ns"), sep("_")]), dict(ns=[TOT]),
                  dict(ns=[d("9"), w("x")])]
    templ = [inst(1, n, k, un) for n in names_upto(alpha, 3) for un in nunits for k in nkinds]
    add("names", [opts(s, **o) for s in SCHEMES for o in nopts], templ, budget=None if th else 2600)
    if th:
        alpha2 = [w("sub"), W("Total"), d("9"), TOT, u("seconds"), u("milliseconds"), sep("_"), sep("-"), sep("/")]
        templ = [inst(1, n, k, un) for n in names_upto(alpha2, 3) for un in ["s", "ms"] for k in ["counter", "updown"]]
        add("names-wide", [opts(s, **o) for s in SCHEMES for o in (dict(), dict(ns=[u("seconds")]))], templ)
    # ---- units: the whole table (and units outside it) against names that do / do not carry the word
    templ = []
    for un, word in list(UNITS.items()) + [("", ""), ("{req}", ""), ("s/m", ""), ("xyz", "")]:
        ns_ = [[w("foo")]] + ([[w("foo"), sep("."), u(word)], [u(word)]] if word else [[w("foo"), sep("_"), u("seconds")]])
        templ += [inst(1, n, k, un) for n in ns_ for k in (["counter", "gauge"] + (["fhist", "oupdown"] if th else []))]
    add("units", [opts(s, **o) for s in SCHEMES for o in (dict(), dict(noUnits=True))], templ)
    # ---- labels: attribute key sets with sanitisation collisions, typed values, reserved names
    ab = lambda s: [w("a"), s, w("b")]
    ases = [
        [],
        aset(attr(ab(sep(".")), "z"), attr(ab(sep("_")), "y")),                         # 2 keys -> a_b ; key order z;y / sorted y;z
        aset(attr(ab(sep("-")), "1", "i"), attr(ab(sep(".")), "true", "b"), attr(ab(sep("/")), "x")),   # 3-way, typed values
        aset(attr([d("9"), w("x")], "v")),                                               # leading digit
        aset(attr([W("A"), sep("."), w("b")], "v"), attr(ab(sep(".")), "w")),            # case matters: no collision
        aset(attr(ab(bad(" ")), "v"), attr(ab(bad("$")), "u")),                          # other characters
        aset(attr(ab(COLON), "v")),                                                      # ':' legal in metric names, not in label names
        aset(attr(ab(COLON), "y"), attr(ab(sep(".")), "x")),
        aset(attr([w("otel"), sep("_"), w("scope"), sep("_"), w("name")], "x")),         # equals a scope label
        aset(attr([w("service"), sep("_"), w("name")], "q"), attr([w("k")], "1", "i")),  # equals a constant resource label
    ]
    lopts = [dict(), dict(noScope=True), dict(resConst=True, resKeys=[1])]
    templ = [inst(1, [w("foo")], k) for k in (["counter", "hist"] + (["ogauge", "exphist"] if th else []))]
    add("labels", [opts(s, **o) for s in SCHEMES for o in lopts], templ, ases=ases, recas=range(1, len(ases) + 1),
        maxrec=2, maxscr=2 if th else 1)
    # ---- conflicts: two instruments, one family: type conflict, help conflict, scopes, two scrapes
    foo, foo_total, foo_dot_total = [w("foo")], [w("foo"), sep("_"), TOT], [w("foo"), sep("."), TOT]
    templ = [
        inst(1, foo, "counter", scope="sA", desc="d1"),
        inst(2, foo_total, "counter", scope="sA", desc="d2"),
        inst(3, foo_total, "gauge", scope="sB", desc="d1"),
        inst(4, foo, "hist", scope="sA", desc=""),
        inst(5, foo, "updown", scope="sB", desc="d2"),
        inst(6, foo_dot_total, "fcounter", scope="sB", desc=""),
    ]
    if th:
        templ += [inst(7, foo, "exphist", scope="sB", desc="d1"), inst(8, foo_total, "ocounter", scope="sA", desc="d1")]
    add("conflicts", [opts(s) for s in SCHEMES] + ([opts(s, noSuffix=True) for s in SCHEMES] if th else []), templ,
        vals=(1,), maxinst=2, maxrec=3 if th else 2, maxscr=2)
    # ---- infos: target / scope info and constant labels per option
    iopts = [dict(noTarget=t, noScope=sc, resConst=rc, resKeys=rk) for t in (False, True) for sc in (False, True)
             for rc, rk in ((False, []), (True, [1]), (True, [2, 3]))]
    templ = [inst(1, [w("foo")], "counter", scope="sA"), inst(2, [w("bar")], "gauge", scope="sB"),
             inst(3, [w("baz")], "hist", scope="sA")]
    add("infos", [opts(s, **o) for s in SCHEMES for o in iopts], templ, res=RES3, maxinst=2, maxrec=2, maxscr=1)
    # ---- scopes: a scope is (name, version, schema URL, attributes) but its labels carry name and version only.
    # No vinst marker here: series of equal instruments in scopes with equal labels are really identical.
    sa2 = {"id": "sA2", "name": "sA", "version": "vsA", "url": "https://example.com/schema/2", "attrs": [], "ill": ""}
    sa3 = {"id": "sA3", "name": "sA", "version": "vsA", "url": "", "ill": "",
           "attrs": aset(attr([w("lib"), sep("."), w("kind")], "b"), attr([w("n")], "3", "i"))}
    templ = [inst(1, [w("foo")], "counter", scope="sA"), inst(2, [w("bar")], "gauge", scope="sA2"),
             inst(3, [w("foo")], "counter", scope="sA2"), inst(4, [w("baz")], "hist", scope="sB"),
             inst(5, [w("foo")], "counter", scope="sA3"), inst(6, [w("qux")], "updown", scope="sA3")]
    add("scopes", [opts(s, **o) for s in SCHEMES for o in (dict(), dict(noScope=True))], templ, vals=(1,),
        maxinst=2, maxrec=3 if th else 2, maxscr=2, scopes=[sa2, sa3], mark=False,
        ases=[[], aset(attr([w("k")], "v"))], recas=(1,))
    # ---- exemplars: measurements inside sampled spans; the view filters attributes out of the stream, they become
    # exemplar labels: small / exactly at Prometheus' 128-rune limit (63 for trace_id + span_id) / over it
    xua = [w("x"), sep("."), w("ua")]
    eases = [
        [],                                                                               # trace_id / span_id only
        aset(attr([w("k")], "v"), attr(xua, "fa", f=True)),                               # small, next to a kept attribute
        aset(attr(xua, "m" * 61, f=True)),                                                # 4 + 61 = 65: at the limit
        aset(attr(xua, "m" * 62, f=True)),                                                # one rune over
        aset(attr(xua, "Mozilla/5.0 (X11; Linux x86_64) AppleWebKit/537.36 Chrome/126", f=True),
             attr([w("x"), sep("-"), w("n")], "42", "i", f=True)),                        # far over, two labels
        aset(attr(ab(sep(".")), "z"), attr(ab(sep("_")), "y"), attr([w("x"), bad(" "), w("b")], "true", "b", f=True)),
    ]
    eopts = [dict(), dict(noScope=True, noTarget=True), dict(resConst=True, resKeys=[1])]
    ekinds = ["counter", "hist", "gauge", "exphist"] + (["fcounter", "fhist", "updown"] if th else [])
    add("exemplars", [opts(s, **o) for s in SCHEMES for o in (eopts if th else eopts[:2])],
        [inst(1, [w("foo")], k, "s") for k in ekinds], ases=eases, recas=range(1, len(eases) + 1), vals=(3, 12),
        maxrec=2, maxscr=1, spans=(True, False) if th else (True,), budget=None if th else 1500)
    # ---- lifecycle: 0..2 scrapes BEFORE the exporter is registered with a MeterProvider (nothing exposed, nothing
    # remembered), MeterProvider.Shutdown and a scrape after it (nothing, or the last state)
    lopts2 = [dict(), dict(noTarget=True), dict(resConst=True, resKeys=[1, 2]), dict(noScope=True)]
    templ = [inst(1, [w("foo")], "counter", scope="sA"), inst(2, [w("bar")], "ogauge", scope="sB")]
    add("lifecycle", [opts(s, **o) for s in SCHEMES for o in (lopts2 if th else lopts2[:3])], templ, res=RES3, vals=(2,),
        maxinst=2, maxrec=2, maxscr=2, maxpre=2, shut=True)
    # ---- faults: the collection behind a scrape ends with a NON-FATAL error (an observable callback / an external
    # producer fails, and recovers) while other instruments hold data: everything the reader produced is exposed;
    # together with the collections without data (before registration, after shutdown)
    fopts = [dict(), dict(resConst=True, resKeys=[1, 2]), dict(noScope=True)] + ([dict(noTarget=True)] if th else [])
    templ = [inst(1, [w("foo")], "counter", scope="sA"), inst(2, [w("bar")], "ogauge", scope="sB"),
             inst(3, [w("baz")], "hist", "s", scope="sA")]
    add("faults", [opts(s, **o) for s in SCHEMES for o in fopts], templ, res=RES3, vals=(2,), maxinst=2, maxrec=2,
        maxscr=3, maxpre=1, shut=True, faults=("cb", "cbctx", "prod"), maxfaults=2 if th else 1, budget=16000 if th else 1500)   # thorough: 48 240 leaves, a third keeps the tier under 30 min
    # ---- illformed: inputs the SDK accepts although they are not valid UTF-8 (attribute value, description, meter
    # name / version / scope attribute): never a panic, the well-formed rest of the scrape is exposed faithfully
    badscope = lambda how: {"id": "sX" + how[0], "name": "sX", "version": "vsX", "url": "", "attrs": [], "ill": how}
    iases = [[], aset(attr([w("k")], "v"), attr([w("u")], "ill", ill=True)), aset(attr([w("k")], "v"))]
    templ = [inst(1, [w("foo")], "counter", scope="sA"), inst(2, [w("baddesc")], "gauge", scope="sA", ill=True),
             inst(3, [w("inbadn")], "counter", scope="sXn"), inst(4, [w("inbadv")], "hist", scope="sXv"),
             inst(5, [w("inbada")], "updown", scope="sXa"), inst(6, [w("bar")], "hist", scope="sB")]
    add("illformed", [opts(s, **o) for s in SCHEMES for o in (dict(), dict(noScope=True))], templ, ases=iases, recas=(1, 2, 3),
        vals=(2,), maxinst=2, maxrec=2, maxscr=2 if th else 1, scopes=[badscope("name"), badscope("version"), badscope("attr")],
        budget=None if th else 1500)
    # ---- values: what is exposed equals what the SDK aggregated, per kind
    vkinds = ["counter", "updown", "gauge", "hist", "exphist", "fcounter", "ocounter", "ogauge", "fhist", "oupdown"]
    if th:
        vkinds += ["ofcounter", "fupdown", "ofupdown", "fgauge", "ofgauge", "fexphist"]
    templ = [inst(1, [w("foo")], k, "s") for k in vkinds]
    vases = [[], aset(attr([w("k")], "v"))]
    add("values", [opts("legacy")] + ([opts("utf8")] if th else []), templ, ases=vases, recas=(1, 2),
        vals=(2, 12, -3) if th else (2, 7, 12, -3), maxrec=3 if th else 2, maxscr=2)
    return cfgs


def leaves(edges_file, scheme_of=None):
    """maximal scenarios: scrape edges whose path+act is not a prefix of another edge's path"""
    edges = []
    covered = set()
    with open(edges_file) as f:
        for line in f:
            line = line.strip()
            if not line:
                continue
            e = json.loads(line)
            ops = [json.dumps(o, sort_keys=True) for o in e["path"]]
            for i, o in enumerate(e["path"]):
                if o["op"] == "Scrape":
                    covered.add("\n".join(ops[:i + 1]))
            edges.append((line, "\n".join(ops + [json.dumps(e["act"], sort_keys=True)])))
    return [line for line, key in edges if key not in covered], len(edges)


def fatal_class(stderr):
    """a crash of the harness process while scraping concurrently: real-code behaviour only when the Go
    runtime names it (concurrent map access / race detector) with exporter frames on the stack"""
    if "exporters/prometheus" not in stderr:
        return None
    if "fatal error: concurrent map" in stderr:
        return "fatal-concurrent-map-access"
    if "WARNING: DATA RACE" in stderr:
        return "data-race"
    if re.search(r"^panic: ", stderr, re.M):
        return "panic-in-gather"
    return None


def race_reports(stderr):
    """every race detector report whose stacks have exporter frames, as (site, text): site = the exporter functions
    on top of the two conflicting accesses, e.g. 'Collect|createResourceAttributes' (narrow key for known findings)"""
    out = []
    for block in stderr.split("=================="):
        if "WARNING: DATA RACE" not in block or "exporters/prometheus" not in block:
            continue
        tops = []
        for acc in re.split(r"\n(?=(?:Previous )?(?:[Rr]ead|[Ww]rite|atomic [a-z]+) at )", block):
            if not re.match(r"(?:Previous )?(?:[Rr]ead|[Ww]rite|atomic [a-z]+) at ", acc.strip()):
                continue
            m = re.search(r"exporters/prometheus\.(?:\(\*?\w+\)\.)?(\w+)", acc.split("\n\nGoroutine")[0])
            tops.append(m.group(1) if m else "?")
        out.append(("|".join(sorted(set(tops))) or "?", block.strip()[:6000]))
    return out


def run(ctx):
    th = ctx.tier == "thorough"
    binp = ctx.go_build("c18")
    rnd = random.Random(ctx.seed)
    counters = ctx.extra.setdefault("counters", {})

    def absorb(resf):
        res = json.load(open(resf))
        for k, v in res["counters"].items():
            counters[k] = counters.get(k, 0) + v
        ctx.evaluations += res["evaluations"]
        for s in res["inconclusive"]:
            ctx.note_inconclusive(s)
        return res

    def judge(trace, name, scen_count, lookup):
        """TLC validates the recording; every VIOL is a violation observed on the real code"""
        if not os.path.exists(trace) or os.path.getsize(trace) == 0:
            return
        viols, accepted = ctx.validate_trace(S, "Trace_PromExport", "Trace_PromExport.cfg", trace, timeout=3000, name="trace-" + name)
        ctx.extra.setdefault("trace_lines_validated", {})[name] = accepted
        ctx.traces_validated += scen_count
        lines = None
        for v in viols:
            if lines is None:
                lines = open(trace).read().splitlines()
            scen = lookup(lines, v)
            devs = v.get("devs") or ["none"]
            for dev in devs:
                # dev = a named deviation of PromModel that explains the observation EXACTLY ("none": unexplained)
                sig = {"dir": name.split("-")[0], "dev": dev, "why": v["why"] if len(devs) == 1 else "combined", "via": v["via"]}
                if v.get("panic"):
                    sig["panic"] = v["panic"][:120]
                col = v.get("collect") or {}
                if col.get("kind", "ok") != "ok":
                    # the class of collection behind the scrape (PromModel: CollectKind), e.g. partial:cb
                    sig["collect"] = ":".join([col["kind"]] + list(col.get("faults") or []))
                ctx.violation(sig, replay={"viol": v, "scenario": scen})

    def scenario_of(lines, v):
        """New line + every line of that scenario up to the failing line"""
        out = []
        i = v["line"] - 1
        while i >= 0:
            rec = json.loads(lines[i])
            out.append(rec)
            if rec["ev"] == "New":
                break
            i -= 1
        out.reverse()
        return out[:1] + out[-3:] if len(out) > 4 else out

    # ---- spec -> code
    total_edges = 0
    replay_trace = os.path.join(ctx.work, "trace-replay.ndjson")
    nscen_all = 0
    with open(replay_trace, "w") as tf:
        for c in configs(ctx.tier):
            dfn = {"OPTS": tla(TSet(c["opts"])), "TEMPLATES": tla(TSet(c["templates"])), "ASES": tla(c["ases"]),
                   "RECAS": tla(TSet(c["recas"])), "VALS": tla(TSet(c["vals"])), "RES": tla(c["res"]), "SCOPES": tla(c["scopes"]),
                   "SPANFLAGS": tla(TSet(c["spans"])), "MARK": tla(c["mark"]), "MAXPRE": c["maxpre"], "ALLOWSHUT": tla(c["shut"]),
                   "MAXINST": c["maxinst"], "MAXREC": c["maxrec"], "MAXSCR": c["maxscr"],
                   "FAULTS": tla(TSet(c["faults"])), "MAXFAULTS": c["maxfaults"]}
            r = ctx.tlc(S, "MC_PromExport", "MC_PromExport.cfg", defines=dfn, want_edges=True, name=c["name"], timeout=3000,
                        coverage=(th and c["name"] == "faults"))   # every action of the explorer is enabled there
            if r["zero_cov"]:
                ctx.note_inconclusive("TLC %s: actions never taken: %s" % (c["name"], r["zero_cov"]))
            scen, nedges = leaves(r["edges_file"])
            total_edges += nedges
            if c["budget"] and len(scen) > c["budget"]:
                ctx.exhaustive = False
                scen = rnd.sample(scen, c["budget"])
            sel = os.path.join(ctx.work, "scen-%s.ndjson" % c["name"])
            with open(sel, "w") as f:
                f.write("\n".join(scen) + "\n")
            cf = os.path.join(ctx.work, "consts-%s.json" % c["name"])
            json.dump({"res": c["res"], "ases": c["ases"], "scopes": c["scopes"], "nomark": not c["mark"]}, open(cf, "w"))
            nscen = 0
            for sch in SCHEMES:
                if not any(o["scheme"] == sch for o in c["opts"]):
                    continue
                part = os.path.join(ctx.work, "trace-%s-%s.ndjson" % (c["name"], sch))
                resf = os.path.join(ctx.work, "replay-%s-%s.json" % (c["name"], sch))
                ctx.run([binp, "replay", "-scheme", sch, "-edges", sel, "-consts", cf, "-out", part, "-res", resf,
                         "-tag", c["name"] + "-"], timeout=3000)
                res = absorb(resf)
                nscen += res["executed"]
                ctx.add_samples(res["samples"][:1], cap=3)
                tf.write(open(part).read())
            nscen_all += nscen
            ctx.extra.setdefault("scenarios_replayed", {})[c["name"]] = {"scrape_edges": nedges, "maximal": len(scen), "executed": nscen}
    judge(replay_trace, "replay", nscen_all, scenario_of)
    ctx.extra["scrape_edges"] = total_edges
    # ---- code -> spec: random scenarios
    n = 1500 if th else 150
    trace = os.path.join(ctx.work, "trace-random.ndjson")
    with open(trace, "w") as tf:
        for sch in SCHEMES:
            part = os.path.join(ctx.work, "trace-random-%s.ndjson" % sch)
            resf = os.path.join(ctx.work, "random-%s.json" % sch)
            ctx.run([binp, "random", "-scheme", sch, "-n", str(n), "-out", part, "-res", resf], timeout=3000)
            res = absorb(resf)
            ctx.add_samples(res["samples"][:1], cap=5)
            tf.write(open(part).read())
    judge(trace, "random", 2 * n, scenario_of)
    ctx.extra["random_scenarios"] = 2 * n
    # ---- concurrency clause: scrapers || recorders (|| a late instrument); the same scenarios under -race as an
    # auxiliary monitor (the race build is cached by go between runs)
    bins = [(binp, "conc", 12 if th else 4), (ctx.go_build("c18", race=True), "conc-race", 16 if th else 6)]
    trace = os.path.join(ctx.work, "trace-conc.ndjson")
    nscen = 0
    with open(trace, "w") as tf:
        for b, tag, nsc in bins:
            for sch in SCHEMES:
                part = os.path.join(ctx.work, "trace-%s-%s.ndjson" % (tag, sch))
                resf = os.path.join(ctx.work, "%s-%s.json" % (tag, sch))
                # under -race few scrapers per round (the detector remembers 4 accesses per word) and more scenarios
                shape = ["-scrapers", "3", "-recorders", "4"] if tag == "conc-race" else []
                p = ctx.run([b, "conc", "-scheme", sch, "-n", str(nsc), "-out", part, "-res", resf] + shape, timeout=3000,
                            ok_codes=(0, 2, 66), env={"GORACE": "halt_on_error=0 exitcode=66"})
                # the race detector does not stop the run: every distinct report with exporter frames is a violation
                races = race_reports(p.stderr)
                for site, text in races:
                    ctx.violation({"dir": "conc", "dev": "none", "why": "data-race", "via": tag, "site": site},
                                  replay={"scheme": sch, "report": text})
                if p.returncode == 66 and not races:
                    ctx.note_inconclusive("race detector report without exporter frames: %s" % p.stderr[-3000:])
                    continue
                if p.returncode == 2:
                    cls = fatal_class(p.stderr)
                    if cls is None:
                        ctx.note_inconclusive("conc harness died rc=%d: %s" % (p.returncode, p.stderr[-2000:]))
                        continue
                    if cls != "data-race":
                        ctx.violation({"dir": "conc", "dev": "none", "why": cls, "via": tag},
                                      replay={"scheme": sch, "stderr": p.stderr[-6000:]})
                    continue
                res = absorb(resf)
                nscen += res["executed"]
                ctx.add_samples(res["samples"][:1], cap=6)
                tf.write(open(part).read())
    judge(trace, "conc", nscen, scenario_of)
    ctx.extra["concurrent_scenarios"] = nscen
    ctx.assumptions += [
        "token classes (w/W/d/total/u/sep/colon/bad) stand for the concrete texts carried by each token; rules are checked per class",
        "attribute keys: non-empty, not sanitising to a name that starts with '__' (reserved by Prometheus), not vinst/vas/le/quantile; "
        "resource attribute keys without ':'; OTel instrument names unique per scope ignoring case",
        "every measurement carries the marker attributes vinst/vas (series <-> SDK data point correspondence)",
        "an attribute whose sanitised key equals a scope / constant resource label: the rules are silent, the series is optional",
        "exposed values are compared as shortest-roundtrip float64 text with the SDK's own cumulative view (same Reader)",
        "data-race freedom: -race build of the concurrent scenarios (auxiliary monitor, not model checking)",
    ]
    ctx.extra["rule"] = ("replay: every maximal scenario (path + scrape edge) of PromExport.tla for the listed configurations; "
                         "random / concurrent: seeded scenarios; all judged by Trace_PromExport.tla")
