"""C03 -- W3C trace-context propagation (specs/TraceContext).

spec -> code : (a) TraceContext.tla: TLC enumerates headers / members / span contexts as words over
               representatives of every symbol class (keys, values, list shapes, boundary lengths
               256/257, 241/242, 14/15, 32/33 members, traceparent field shapes x versions x flags x
               trailing data) and prints, per case, the SET of outcomes the W3C grammar admits;
               harness/c03 runs each case on the real propagator / TraceState and the projected
               observation must be one of them.
               (b) TraceState.tla: every edit sequence (Insert new / update / illegal, Delete) of
               bounded length from lists of 0, 31, 32 members at the real capacity 32; each edge is
               replayed on a real trace.TraceState, earlier values are re-read (copy-on-write).
code -> spec : harness/c03 random: seeded structure-aware random headers, members, edit scenarios at
               the real capacity and inject/extract round trips; TLC validates every recorded
               observation (incl. re-injected headers) against W3CTraceContext.tla through
               Trace_TraceContext.tla.  A sample of the replayed cases is validated the same way.
"""
import json
import os
import random

S = "TraceContext"


# ---------------------------------------------------------------- TLA+ literals
def tb(b):
    """octet sequence literal"""
    if isinstance(b, str):
        b = b.encode("utf-8")
    return "<<" + ",".join(str(x) for x in b) + ">>"


def tset(items):
    return "{" + ", ".join(tb(x) for x in items) + "}"


# symbol classes and their representatives (DESIGN.md Appendix C; reviewed against the W3C grammar)
KEY_CLASSES = {
    "lower": [b"a", b"z", b"m"],
    "digit": [b"0", b"9"],
    "upper": [b"A", b"Z"],
    "keysym": [b"_", b"-", b"*", b"/"],
    "at": [b"@"],
    "space": [b" "],
    "tab": [b"\t"],
    "eq": [b"="],
    "comma": [b","],
    "ctl": [b"\x00", b"\x1f"],
    "del": [b"\x7f"],
    # multi-byte runes whose LOW byte is a legal key octet: U+0161 (..61 'a'), U+0130 (..30 '0'),
    # U+012D (..2D '-'), U+2061 (3 bytes, ..61), U+1F361 (4 bytes, ..61)
    "hi_legal_low": ["š".encode(), "İ".encode(), "ĭ".encode(), "⁡".encode(), "\U0001f361".encode()],
    "hi_other": ["é".encode(), "€".encode()],
    "badbyte": [b"\xff", b"\xe1", b"\x80"],
}
VAL_CLASSES = {
    "print": [b"!", b"~", b"a", b"A", b"@", b"/"],
    "space": [b" "],
    "tab": [b"\t"],
    "eq": [b"="],
    "comma": [b","],
    "ctl": [b"\x00", b"\x1f"],
    "del": [b"\x7f"],
    "hi": ["é".encode(), "š".encode()],
    "badbyte": [b"\xff", b"\xa1"],
}


def alphabet(classes, rng):
    return [rng.choice(v) for v in classes.values()]


def hexid(rng, n):
    s = "".join(rng.choice("0123456789abcdef") for _ in range(n))
    # keep one letter and one non-zero digit so that "upper" / "zero" shapes are real changes
    return ("a" + s[1:-1] + "1").encode()


def tp_fields(rng, thorough):
    tid = hexid(rng, 32)
    sid = hexid(rng, 16)

    def shapes(ok):
        n = len(ok)
        up = bytes([ok[0] - 32]) + ok[1:]                    # one upper-case hex digit
        out = {
            "ok": ok,
            "upper": up,
            "nonhex": ok[:3] + b"g" + ok[4:],
            "short": ok[:-1],
            "long": ok + b"0",
            "zero": b"0" * n,
            "hi": ok[:4] + "š".encode() + ok[6:],       # multi-byte rune, same octet length
            "dash": ok[:5] + b"-" + ok[6:],
        }
        if thorough:
            out["space"] = ok[:2] + b" " + ok[3:]
            out["upper_last"] = ok[:-2] + b"F" + ok[-1:]
            out["empty"] = b""
        return out
    vers = [b"00", b"01", b"fe", b"ff", b"0a", b"0A", b"0g", b"0", b"000", b" 00", b""]
    fls = [b"00", b"01", b"02", b"03", b"09", b"ff", b"0A", b"0g", b"1", b"001", b""]
    trails = [b"", b"-", b"-x", b"x", b"-00-", b" ", b"-\xc5\xa1"]
    if thorough:
        vers += [b"cc", b"f0", b"0f", b"-0", "İ".encode()]
        fls += [b"fe", b"80", b"a1", b"g0", b" 1", "ı".encode()]
        trails += [b".", b"--", b"-" + b"x" * 200, b"\t", b"\x00"]
    return dict(tid=shapes(tid), sid=shapes(sid), vers=vers, fls=fls, trails=trails)


def families(tier, rng):
    """-> list of (name, TLA+ expression for the case set)"""
    thorough = tier == "thorough"
    fams = []
    ka = alphabet(KEY_CLASSES, rng)
    va = alphabet(VAL_CLASSES, rng)
    n = 4 if thorough else 3
    v1 = rng.choice([b"1", b"v", b"~"])
    k1 = rng.choice([b"a", b"k0", b"t@s"])
    fams.append(("keys", "KeyCases(Words(%s, 0, %d), %s)" % (tset(ka), n, tb(v1))))
    fams.append(("values", "ValCases(%s, Words(%s, 0, %d))" % (tb(k1), tset(va), n)))
    # boundary lengths (real constants of the Recommendation)
    lo, sym = rng.choice([97, 122]), rng.choice([95, 45, 42, 47, 48])
    fams.append(("keylen",
                 "KeyCases({f \\o Run(c, n) : f \\in {<<%d>>, <<48>>}, c \\in {%d, %d}, n \\in {254, 255, 256}}"
                 " \\cup {t \\o <<64>> \\o s : t \\in {f \\o Run(c, n) : f \\in {<<%d>>, <<57>>, <<65>>}, c \\in {%d, %d}, n \\in {0, 1, 239, 240, 241}},"
                 " s \\in {f \\o Run(c, n) : f \\in {<<%d>>, <<48>>}, c \\in {%d, %d}, n \\in {0, 1, 12, 13, 14}}}, %s)"
                 % (lo, lo, sym, lo, lo, sym, lo, lo, sym, tb(v1))))
    fams.append(("vallen",
                 "ValCases(%s, {Run(c, n) \\o l \\o t : c \\in {%d, 32}, n \\in {0, 254, 255, 256}, l \\in {<<126>>, <<32>>, <<>>},"
                 " t \\in {<<>>, <<32>>, <<9, 32>>}})" % (tb(k1), rng.choice([33, 97, 126, 64]))))
    # list shapes
    items = [b"a=1", b"b=2", b"a=2", b" a=1", b"b=2\t", b"", b" ", b"A=1", b"a", b"=1", b"a=", b"t@s=1",
             b"1a=1", "aš=1".encode(), b"c= 3"]
    if thorough:
        items += [b"\t", b"a=1=2", b"a =1", b"c=\xff"]
    fams.append(("lists", "ListCases(%s, 1, %d)" % (tset(items), 3)))
    extras = [b"", b",", b", ", b",a=1", b",a=1,b=2", b",f01=1", b", ,a=1", b",,a=1", b",A=1", b",a=1,,"]
    fams.append(("listlen",
                 "{ParseTS(Serialize(Fill(n)) \\o x) : n \\in {31, 32, 33}, x \\in %s}"
                 " \\cup {ParseTS(x \\o Serialize(Fill(n))) : n \\in {31, 32, 33}, x \\in {<<44>>, <<32, 44>>, <<97, 61, 49, 44>>}}"
                 " \\cup {Extract(%s, Serialize(Fill(n)) \\o x) : n \\in {31, 32, 33}, x \\in %s}"
                 % (tset(extras), tb(b"00-" + hexid(rng, 32) + b"-" + hexid(rng, 16) + b"-01"), tset(extras[:5]))))
    # traceparent
    f = tp_fields(rng, thorough)
    tss = [b"", b"a=1,b=2", b"A=1"]
    if thorough:
        tss += [b" ", b"a=1,a=2", "aš=1".encode()]
        fams.append(("traceparent",
                     "{Extract(TP(v, t, s, f, x), ts) : v \\in %s, t \\in %s, s \\in %s, f \\in %s, x \\in %s, ts \\in {<<>>, <<65, 61, 49>>}}"
                     % (tset(f["vers"]), tset(f["tid"].values()), tset(f["sid"].values()), tset(f["fls"]), tset(f["trails"]))))
    fams.append(("traceparent-vft",
                 "{Extract(TP(v, %s, %s, f, x), ts) : v \\in %s, f \\in %s, x \\in %s, ts \\in %s}"
                 % (tb(f["tid"]["ok"]), tb(f["sid"]["ok"]), tset(f["vers"]), tset(f["fls"]), tset(f["trails"]), tset(tss))))
    fams.append(("traceparent-ids",
                 "{Extract(TP(v, t, s, f, x), ts) : v \\in {<<48, 48>>, <<99, 99>>}, t \\in %s, s \\in %s, f \\in {<<48, 49>>, <<48, 48>>},"
                 " x \\in {<<>>, <<45, 120>>}, ts \\in %s}"
                 % (tset(f["tid"].values()), tset(f["sid"].values()), tset(tss[:2]))))
    # other separators / missing fields
    okt, oks = f["tid"]["ok"], f["sid"]["ok"]
    odd = [b"00_" + okt + b"-" + oks + b"-01", b"00-" + okt + b"_" + oks + b"-01", b"00-" + okt + b"-" + oks + b"_01",
           b"00-" + okt + b"-" + oks, b"00-" + okt + b"-" + oks + b"-", b"00-" + okt, b"00", b"-", b"00-" + okt + b"--" + oks + b"-01",
           b"00-" + oks + b"-" + okt + b"-01", okt, b" ", b"00-" + okt + b"-" + oks + b"-01\n"]
    fams.append(("traceparent-odd", "{Extract(tp, ts) : tp \\in %s, ts \\in %s}" % (tset(odd), tset(tss[:2]))))
    # inject -> extract round trips
    tids = ["[i \\in 1..16 |-> 0]", "[i \\in 1..16 |-> IF i = 16 THEN 1 ELSE 0]", "[i \\in 1..16 |-> 255]",
            "<<" + ",".join(str(rng.randrange(256)) for _ in range(16)) + ">>"]
    sids = ["[i \\in 1..8 |-> 0]", "[i \\in 1..8 |-> IF i = 1 THEN 128 ELSE 0]",
            "<<" + ",".join(str(rng.randrange(256)) for _ in range(8)) + ">>"]
    fams.append(("inject",
                 "{Inject(t, s, f, ts) : t \\in {%s}, s \\in {%s}, f \\in {0, 1, 2, 3, 128, 255},"
                 " ts \\in {<<>>, %s, %s, Serialize(Fill(32))}}"
                 % (", ".join(tids), ", ".join(sids), tb(b"a=1"), tb(b"0t@s= x y,b=2"))))
    return fams


def edit_configs(tier, rng):
    thorough = tier == "thorough"
    good = [b"a", b"b"]
    bad = rng.choice([b"A", b"a b", "aš".encode(), b"", b"a=b", b"@a"])
    l2only = rng.choice([b"1a", b"a@", b"a@b@c"])
    vals = [b"1", rng.choice([b"2", b"x y", b"~"]), rng.choice([b"x ", b"", b"x,y", b"x=y", b"\t"])]
    cfgs = []
    inits = [(0, 3), (31, 3), (32, 2)] if not thorough else [(0, 4), (1, 3), (30, 3), (31, 3), (32, 3)]
    for init, steps in inits:
        ks = list(good)
        if thorough:
            ks.append(b"c")
        fill = ["FillKey(%d)" % i for i in sorted({1, init, max(1, init // 2)}) if 1 <= i <= init]
        keys = "{" + ", ".join([tb(k) for k in ks + [bad, l2only]] + fill) + "}"
        cfgs.append(dict(name="edits-init%d" % init, CAP=32, INITLEN=init, KEYS=keys, VALS=tset(vals), MAXSTEPS=steps))
    return cfgs


# ---------------------------------------------------------------- classification (for known-finding matching)
KEY_OCTETS = set(b"abcdefghijklmnopqrstuvwxyz0123456789_-*/@")


def input_class(*seqs):
    """class of the octets involved in a failing case"""
    bs = b"".join(bytes(s) for s in seqs)
    hi = [x for x in bs if x >= 0x80]
    if hi:
        try:
            txt = bs.decode("utf-8")
        except UnicodeDecodeError:
            return "invalid-utf8"
        runes = [ord(c) for c in txt if ord(c) >= 0x80]
        if all(chr(r & 0xff) in "abcdefghijklmnopqrstuvwxyz0123456789" for r in runes):
            return "multibyte-rune-low-byte-alnum"
        return "multibyte-rune"
    return "ascii"


def flat_members(ms):
    out = []
    for m in ms or []:
        out += [m.get("k", []), m.get("v", [])]
    return out


def tp_class(tp):
    tp = bytes(tp)
    if len(tp) == 56 and tp[:3] == b"00-" and tp.endswith(b"-") and input_class(tp) == "ascii":
        return "v00-trailing-dash"
    return input_class(tp)


def classify(op, act, want, got):
    """-> (component, why, input class). want = admissible outcomes, got = observation."""
    a, b = act.get("a", []), act.get("b", [])
    if op in ("Member", "Insert", "Delete"):
        gl, werr = got.get("list", []), [w.get("err") for w in want]
        cls = input_class(a, b, *flat_members(gl))
        if got.get("err") is False and all(werr):
            return "tracestate", "accepted-malformed", cls
        if got.get("err") is True and not any(werr):
            return "tracestate", "rejected-wellformed", cls
        if got.get("frozen") is False:
            return "tracestate", "old-value-mutated", cls
        return "tracestate", "members-differ", cls
    if op in ("ParseTS", "New"):
        cls = input_class(a)
        wok = [w.get("ok") for w in want]
        if got.get("ok") and not any(wok):
            return "tracestate", "accepted-malformed", cls
        if not got.get("ok") and all(wok):
            return "tracestate", "rejected-wellformed", cls
        return "tracestate", "members-differ", cls
    if op in ("Extract", "Inject"):
        wvalid = [w for w in want if w.get("valid")]
        if got.get("valid") and not wvalid:
            return "traceparent", "accepted-malformed", tp_class(a) if op == "Extract" else "span-context"
        if not got.get("valid") and len(wvalid) == len(want):
            if got.get("tid"):
                return "traceparent", "invalid-context-installed", tp_class(a) if op == "Extract" else "span-context"
            return "traceparent", "rejected-wellformed", tp_class(a) if op == "Extract" else "span-context"
        for k in ("tid", "sid", "sampled", "remote"):
            if all(w.get(k) != got.get(k) for w in wvalid):
                return "traceparent", "field-" + k, tp_class(a) if op == "Extract" else "span-context"
        cls = input_class(b)
        wm = [w.get("members") for w in wvalid]
        if got.get("members") and not any(wm):
            return "tracestate", "accepted-malformed", cls
        if not got.get("members") and all(wm):
            return "tracestate", "rejected-wellformed", cls
        return "tracestate", "members-differ", cls
    return "other", "other", "other"


def run(ctx):
    thorough = ctx.tier == "thorough"
    rng = random.Random(ctx.seed * 7919 + (1 if thorough else 0))
    binp = ctx.go_build("c03")
    counters = ctx.extra.setdefault("counters", {})

    def add_counters(res):
        for k, v in res["counters"].items():
            counters[k] = max(counters.get(k, 0), v) if k.endswith("_max") else counters.get(k, 0) + v
        for s in res["inconclusive"]:
            ctx.note_inconclusive(s)

    # ---- model level: theorems about the oracle, and the edit machine for every small capacity
    ctx.tlc(S, "MC_W3CTheorems", "MC_W3CTheorems.cfg", defines={"MAXLEN": 4 if thorough else 3}, name="theorems")
    for cap in ([1, 2, 3, 4] if thorough else [1, 2, 3]):
        ctx.tlc(S, "MC_TraceState", "MC_TraceStateModel.cfg", name="editmodel-cap%d" % cap, coverage=(cap == 2),
                defines={"CAP": cap, "INITLEN": 0, "MAXSTEPS": 6 if thorough else 5,
                         "KEYS": tset([b"a", b"b", b"c", b"d@e", b"A", b"1a"]), "VALS": tset([b"1", b"2", b"x "])})

    # ---- spec -> code: edit edges at the real capacity
    for c in edit_configs(ctx.tier, rng):
        name = c.pop("name")
        r = ctx.tlc(S, "MC_TraceState", "MC_TraceState.cfg", defines=c, want_edges=True, name=name, timeout=1800,
                    coverage=(not thorough and c["INITLEN"] == 32))
        if r["zero_cov"]:
            ctx.note_inconclusive("vacuity: actions never taken in %s: %s" % (name, r["zero_cov"]))
        out = os.path.join(ctx.work, "replay-%s.json" % name)
        ctx.run([binp, "edits", "-edges", r["edges_file"], "-out", out], timeout=1800)
        res = json.load(open(out))
        ctx.traces_validated += res["executed"]
        ctx.evaluations += res["evaluations"]
        add_counters(res)
        ctx.add_samples(res["samples"][:1])
        for m in res["mismatches"]:
            act = m.get("act") or {}
            fake = {"a": act.get("k", []), "b": act.get("v", [])}
            if m["kind"] == "panic":
                comp, why, cls = "tracestate", "panic", input_class(fake["a"], fake["b"])
            else:
                comp, why, cls = classify(act.get("op"), fake, [m.get("want") or {}], m.get("got") or {})
            ctx.violation({"dir": "replay-edits", "component": comp, "why": why, "input_class": cls, "op": act.get("op")},
                          replay={"init": m.get("detail"), "path": m.get("path"), "act": act, "want": m.get("want"),
                                  "got": m.get("got")})

    # ---- spec -> code: grammar families
    trace_parts = []
    nfam = 0
    for name, expr in families(ctx.tier, rng):
        r = ctx.tlc(S, "MC_TraceContext", "MC_TraceContext.cfg", defines={"CASES": expr}, want_edges=True,
                    name="grammar-" + name, timeout=3000, coverage=(name == "lists"))
        out = os.path.join(ctx.work, "replay-%s.json" % name)
        tr = os.path.join(ctx.work, "replay-%s.ndjson" % name)
        # every executed case is compared with TLC's outcome set by the harness; a sample of the executed cases is
        # additionally recorded and validated by the trace spec (conformance of the re-injected headers)
        every = (1 if r["edges"] < 30000 else 8) if thorough else (1 if r["edges"] < 1500 else 5)
        ctx.run([binp, "grammar", "-edges", r["edges_file"], "-out", out, "-trace", tr, "-every", str(every)], timeout=3000)
        trace_parts.append(tr)
        res = json.load(open(out))
        nfam += 1
        ctx.traces_validated += res["executed"]
        ctx.evaluations += res["evaluations"]
        add_counters(res)
        ctx.add_samples(res["samples"][:1])
        ctx.extra.setdefault("grammar_cases", {})[name] = r["edges"]
        for m in res["mismatches"]:
            act = m.get("act") or {}
            if m["kind"] == "panic":
                comp, why, cls = "any", "panic", input_class(act.get("a", []), act.get("b", []))
            else:
                comp, why, cls = classify(act.get("op"), act, m.get("want") or [], m.get("got") or {})
            ctx.violation({"dir": "replay-grammar", "component": comp, "why": why, "input_class": cls, "op": act.get("op")},
                          replay={"family": name, "act": act, "a_text": bytes(act.get("a", [])).decode("latin-1"),
                                  "b_text": bytes(act.get("b", [])).decode("latin-1"), "admissible": m.get("want"),
                                  "got": m.get("got"), "detail": m.get("detail")})

    # ---- code -> spec: random driver, plus the recorded replays, validated by TLC
    n = 6000 if thorough else 500
    rtrace = os.path.join(ctx.work, "random.ndjson")
    resf = os.path.join(ctx.work, "random.json")
    ctx.run([binp, "random", "-n", str(n), "-out", rtrace, "-res", resf], timeout=3000)
    res = json.load(open(resf))
    add_counters(res)
    ctx.evaluations += res["executed"]
    ctx.add_samples(res["samples"][:1])
    for m in res["mismatches"]:
        c = m.get("case") or {}
        ctx.violation({"dir": "random", "component": "any", "why": "panic",
                       "input_class": input_class(c.get("a", []) or c.get("k", []), c.get("b", []) or c.get("v", []))}, replay=m)
    # split into chunks so that a TLC run stays small; scenarios (New .. Edit*) are kept together
    chunks = []
    lines = open(rtrace).read().splitlines()
    for p in trace_parts:
        lines += open(p).read().splitlines()
    size = 12000 if thorough else 4000
    cur = []
    for ln in lines:
        if len(cur) >= size and '"ev":"Edit"' not in ln:
            chunks.append(cur)
            cur = []
        cur.append(ln)
    if cur:
        chunks.append(cur)
    total = 0
    for ci, ch in enumerate(chunks):
        p = os.path.join(ctx.work, "trace-%d.ndjson" % ci)
        with open(p, "w") as f:
            f.write("\n".join(ch) + "\n")
        viols, accepted = ctx.validate_trace(S, "Trace_TraceContext", "Trace_TraceContext.cfg", p, timeout=3000,
                                             name="trace-%d" % ci)
        total += accepted
        for v in viols:
            rec = json.loads(ch[v["line"] - 1])
            ev = rec["ev"]
            op = rec.get("op", ev) if ev == "Edit" else ev
            got = (v.get("got") or [{}])[0]
            if v["kind"] == "outcome":
                comp, why, cls = classify(op, rec, v.get("want") or [], got if isinstance(got, dict) else {})
            else:
                comp = "traceparent" if "traceparent" in v["kind"] else "tracestate"
                why = v["kind"]
                obs = rec.get("obs", {})
                cls = input_class(rec.get("a", []) if ev != "Inject" else [], rec.get("b", []),
                                  *flat_members(obs.get("list") or obs.get("members") or rec.get("list") or []))
            ctx.violation({"dir": "trace", "component": comp, "why": why, "input_class": cls, "op": op},
                          replay={"line": rec, "viol": v,
                                  "a_text": bytes(rec.get("a", [])).decode("latin-1") if ev != "Inject" else "",
                                  "b_text": bytes(rec.get("b", [])).decode("latin-1")})
    ctx.traces_validated += total
    ctx.extra["trace_lines_validated"] = total
    ctx.extra["random_iterations"] = n
    ctx.extra["grammar_families"] = nfam
    # vacuity of the drivers: the interesting regimes must have been reached
    need = ["gen_key_simple_boundary", "gen_key_tenant_boundary", "gen_value_boundary", "gen_ts_duplicate_key",
            "gen_ts_members_32", "gen_ts_members_33", "gen_tp_trailing", "gen_tp_other_version", "obs_ts_accepted",
            "obs_ts_rejected", "obs_extract_valid", "obs_extract_untouched", "obs_extract_with_tracestate",
            "obs_edit_on_full_list", "obs_roundtrips", "edits_at_capacity", "edits_refused", "cases_with_choice",
            "edits_from_non_initial_state", "edits_insert_new", "edits_insert_update_or_evict", "edits_delete_present",
            "edits_delete_absent", "edit_cases_with_choice"]
    missing = [k for k in need if not counters.get(k)]
    if missing:
        ctx.note_inconclusive("vacuity: regimes never reached: %s" % missing)
    ctx.assumptions += [
        "headers are octet sequences; the TLA+ grammar judges exactly the octets the Go code received",
        "tolerance classes T1..T7 of W3CTraceContext.tla (whitespace-only list-members, Level-2-only keys, unknown "
        "version-00 flag bits, future versions, >32 comma-separated pieces with <=32 members, OWS around traceparent, "
        "version 00 followed by one trailing dash): "
        "either outcome is admissible there because the statement does not decide them",
        "an unparsable tracestate is discarded as a whole (not repaired member-wise)",
        "exhaustive enumeration is over representatives of the symbol classes chosen by VERIF_SEED, words of <= 3 (4) symbols",
    ]
    ctx.extra["rule"] = ("a case is distinct by (operation, octets of the header/member/span context) for the grammar machine "
                         "and by (initial list, edit sequence) for the edit machine")
    # X02: inductive proof (Apalache, symbolic constants) of the parameterised core E this spec generalises -- thorough tier,
    # evidence only: nothing in here can change the verdict or the exit code of this check (see checks/inductive.py)
    if thorough:
        try:
            import importlib.util as _ilu
            _s = _ilu.spec_from_file_location("verif_inductive", os.path.join(os.path.dirname(os.path.abspath(__file__)), "inductive.py"))
            _m = _ilu.module_from_spec(_s)
            _s.loader.exec_module(_m)
            ctx.extra["inductive"] = _m.run_inductive(ctx, ["E"], budget_s=600)
        except Exception as _e:  # never a verdict
            ctx.extra["inductive"] = {"_error": repr(_e)}
