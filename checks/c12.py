"""C12 -- cardinality limits and attribute filters conserve every measurement (Cardinality.tla).

model       : CardinalityH.tla -- TLC checks, for every history up to MaxSteps over every configuration
              of the families below, that the operational model (CardModel.tla: view selection criteria
              (name exact / wildcards * and ?, kind, unit, description, scope) -> streams -> stream
              identity (case-insensitive name, description, unit, kind, number, scope) -> aggregators,
              filter, limiter, delta/cumulative collection) equals the declarative statement
              (first L-1 distinct filtered sets keep identity, the rest is one overflow point, counts
              and sums conserved, at most L points, drop silent; an instrument feeds exactly one
              aggregator per distinct identity among the streams of its matching views; with several
              readers -- own temporality and aggregation selector each, shared views -- every reader's
              streams hold exactly the part of the global measurement log since that reader's own last
              collection, whatever the other readers collected in between).
spec -> code: Cardinality.tla explored exhaustively, every edge printed; harness/c12 replays each edge
              through the public API (MeterProvider + ManualReader + views, OTEL_GO_X_CARDINALITY_LIMIT
              set before the provider is built) on a fresh provider with one ManualReader per model reader
              (WithTemporalitySelector / WithAggregationSelector) and compares every collection and a final
              probing collection of every reader with the spec's `peek[r]`.
code -> spec: harness/c12 runs seeded random pipelines (1-3 instruments of 7 kinds with units, descriptions,
              scopes and case-variant / same-name siblings, 0-4 views with wildcard patterns, unit / kind /
              description / scope criteria, renames to the same name / a case variant / another name, unit
              and description masks, 1-3 readers with selectors (Drop for some kinds) whose collections
              interleave, observables by WithXCallback and by RegisterCallback, limit up to 16, 20-200 distinct attribute sets, 5 cycles); TLC validates
              every collection against CardModel (Trace_Cardinality.tla) and re-evaluates bound /
              conservation directly on the real observations.
"""
import json
import os

S = "Cardinality"
KINDS = ["counter", "updown", "histogram", "gauge", "ocounter", "oupdown", "ogauge"]


# ---------------------------------------------------------------------------- TLA+ rendering
def tla(v):
    if isinstance(v, bool):
        return "TRUE" if v else "FALSE"
    if isinstance(v, int):
        return str(v)
    if isinstance(v, str):
        return '"%s"' % v
    if isinstance(v, (list, tuple)):
        return "<<" + ", ".join(tla(x) for x in v) + ">>"
    if isinstance(v, dict):
        return "[" + ", ".join("%s |-> %s" % (k, tla(x)) for k, x in v.items()) + "]"
    raise TypeError(v)


def tla_set(items):
    return "{" + ", ".join(tla(x) for x in items) + "}"


def inst(name, kind, num="i", unit="", desc="", sn="c12", sv="", su="", cb=None):
    """an instrument as requested from the Meter (sn, sv, su); cb: how an observable gets its callback
    ("reg" = Meter.RegisterCallback, "opt" = WithInt64Callback / WithFloat64Callback at creation)"""
    if cb is None:
        cb = "reg" if kind.startswith("o") else ""
    return {"name": name, "kind": kind, "num": num, "unit": unit, "desc": desc, "sn": sn, "sv": sv, "su": su, "cb": cb}


def reader(temp, **sel):
    """one reader: temporality + aggregation selector (kind -> "" default | drop | sum | last | hist | expo)"""
    d = {k: "" for k in KINDS}
    d.update(sel)
    return {"temp": temp, "sel": d}


def view(mname="", mkind="", name="", agg="", keep=None, munit="", mdesc="", msn="", msv="", msu="", unit="", desc=""):
    """criteria m* ("" = not given; mname may carry the wildcards * and ?) and stream mask ("" = keep)"""
    return {"mname": mname, "mkind": mkind, "munit": munit, "mdesc": mdesc, "msn": msn, "msv": msv, "msu": msu,
            "name": name, "unit": unit, "desc": desc, "agg": agg,
            "filt": {"on": keep is not None, "keep": list(keep or [])}}


def cfg(limit, temp, insts, views=(), readers=None):
    """temp: temporality of the single default reader, ignored when `readers` is given"""
    return {"limit": limit, "readers": list(readers) if readers else [reader(temp)], "insts": list(insts), "views": list(views)}


# ---------------------------------------------------------------------------- configuration families
def family_limit(tier):
    """one instrument, no view: every kind x temporality x limit, sets arriving in every order"""
    limits = [0, 1, 2, 3]
    out = []
    for k in KINDS:
        for t in ("delta", "cumulative"):
            for L in limits:
                out.append(cfg(L, t, [inst("i1", k, "f" if k in ("updown", "ogauge") else "i")]))
    return out


def family_views(tier):
    """filters, renames, re-aggregation, drop, several matching views, identity cache"""
    out = []
    for t in ("delta", "cumulative"):
        for L in (0, 2):
            # attribute filter merging sets, limit counted on the filtered sets
            out.append(cfg(L, t, [inst("i1", "counter")], [view("i1", keep=["a"])]))
            out.append(cfg(L, t, [inst("i1", "histogram", "f")], [view("i1", keep=["b"])]))
            out.append(cfg(L, t, [inst("i1", "ocounter")], [view("i1", keep=["a"])]))
            out.append(cfg(L, t, [inst("i1", "gauge")], [view("*", keep=["b"])]))
            # two matching views: filtered+renamed stream and a re-aggregated one, each complete
            out.append(cfg(L, t, [inst("i1", "counter")],
                           [view("i1", name="r1", keep=["a"]), view("i1", name="r2", agg="hist")]))
            # two instruments renamed onto one stream identity share one aggregator (and one limit)
            out.append(cfg(L, t, [inst("i1", "counter"), inst("i2", "counter")],
                           [view("i1", name="r1"), view("i2", name="r1")]))
        # deny-everything filter: one stream; with limit 1 even that goes to overflow
        out.append(cfg(1, t, [inst("i1", "updown")], [view("i1", keep=[])]))
        out.append(cfg(3, t, [inst("i1", "updown")], [view("i1", keep=[])]))
        # drop: nothing for the matched instrument, the other one unaffected
        out.append(cfg(2, t, [inst("i1", "counter"), inst("i2", "updown")], [view("i1", agg="drop")]))
        out.append(cfg(0, t, [inst("i1", "ocounter")], [view("i1", agg="drop"), view("i1", name="r1", keep=["b"])]))
        # the same view twice / the same instrument twice: one stream, nothing duplicated
        out.append(cfg(2, t, [inst("i1", "counter")], [view("i1", keep=["b"]), view("i1", keep=["b"])]))
        out.append(cfg(2, t, [inst("i1", "histogram"), inst("i1", "histogram")]))
        # criteria by kind, wildcard over several kinds, re-aggregation to exponential histogram
        out.append(cfg(2, t, [inst("i1", "histogram"), inst("i2", "counter")], [view(mkind="histogram", agg="expo", keep=["a"])]))
        out.append(cfg(3, t, [inst("i1", "updown", "f"), inst("i2", "gauge")], [view("*", agg="hist")]))
        out.append(cfg(2, t, [inst("i1", "oupdown")], [view("i1", agg="expo", keep=["a"])]))
        out.append(cfg(2, t, [inst("i1", "histogram")], [view("i1", agg="sum", name="r1")]))
        # views that match nothing (other name, no criteria): the default stream applies
        out.append(cfg(2, t, [inst("i1", "counter")], [view("zz", keep=[]), view()]))
    if tier == "thorough":
        for t in ("delta", "cumulative"):
            for L in (1, 3):
                out.append(cfg(L, t, [inst("i1", "counter", "f")], [view("i1", keep=["a"])]))
                out.append(cfg(L, t, [inst("i1", "ocounter", "f")], [view("i1", keep=["b"])]))
                out.append(cfg(L, t, [inst("i1", "ogauge")], [view("i1", keep=["a"])]))
                out.append(cfg(L, t, [inst("i1", "oupdown"), inst("i2", "oupdown")],
                               [view("i1", name="r1", keep=["a"]), view("i2", name="r1", keep=["a"])]))
            out.append(cfg(2, t, [inst("i1", "gauge", "f")], [view("i1", agg="expo"), view("i1", name="r1", agg="last", keep=["a"])]))
            out.append(cfg(2, t, [inst("i1", "counter"), inst("i2", "histogram"), inst("i3", "gauge")],
                           [view("*", keep=["a"]), view(mkind="counter", name="", agg="default", keep=["a"])]))
    return out


def _rot(idx):
    """temporality / limit rotate over a family so every class meets both temporalities and a limit"""
    return (0, 2, 2, 0)[idx % 4], ("delta", "cumulative")[idx % 2]


def family_select(tier):
    """(A) instrument selection by NewView criteria: Name exact / `*` / prefix wildcard / `?` wildcard, Unit,
    Kind, Description, Scope name / version / schema URL, combined conjunctively; the selected instruments get
    the view's action (attribute filter, drop, re-aggregation, rename), all others their default stream"""
    th = tier == "thorough"
    out = []

    def add(insts, views):
        L, t = _rot(len(out))
        out.append(cfg(L, t, insts, views))

    # three instruments differing in name / unit / kind
    W1 = [inst("req", "counter", unit="ms"), inst("rex", "counter", unit="s"), inst("reqs", "histogram", unit="ms")]
    # exact, everything, prefix wildcard, exactly-one-character wildcard, suffix wildcard, both wildcards
    patterns = ["req", "*", "re*", "re?", "*s", "r?q*"]
    if th:
        patterns += ["", "req?", "?e*", "r*q", "???", "r*x"]
    units = ["", "ms", "s"]                         # no unit criterion, the unit of req/reqs, the unit of rex
    kinds = ["", "counter", "histogram"]
    if th:
        units.append("By")
        kinds.append("gauge")
    for pat in patterns:
        for u in units:
            for k in kinds:
                if pat == "" and u == "" and k == "":
                    continue
                add(W1, [view(pat, mkind=k, munit=u, keep=["a"])])
                add(W1, [view(pat, mkind=k, munit=u, agg="drop")])
                add(W1, [view(pat, mkind=k, munit=u, agg="expo")])
                if pat == "req":
                    add(W1, [view(pat, mkind=k, munit=u, name="new", unit="u2")])
    # several views with overlapping / disjoint selections
    add(W1, [view("re*", munit="ms", keep=["a"]), view("re?", munit="s", agg="drop")])
    add(W1, [view("*", mkind="counter", munit="ms", agg="drop"), view("req*", desc="d2", keep=["b"])])
    add(W1, [view("r??", munit="s", keep=[]), view("r??", munit="ms", keep=["b"]), view("r???", agg="expo")])
    add(W1, [view("?", agg="drop"), view("r*", mkind="histogram", munit="s", agg="drop"), view("re?s", munit="ms", keep=["a"])])
    add(W1, [view("req", munit="s", agg="drop"), view("rex", munit="s", name="new")])
    # the same instrument name in two instrumentation scopes (+ one more instrument in the first scope)
    W2 = [inst("req", "counter", unit="ms", sn="sA", sv="v1"), inst("req", "counter", unit="ms", sn="sB", sv="v2", su="u2"),
          inst("rq", "ocounter", sn="sA", sv="v1")]
    scopes = [dict(msn="sA"), dict(msn="sB"), dict(msv="v2"), dict(msu="u2"), dict(msn="sA", msv="v2"), dict(msn="sA", msv="v1")]
    for pat in ["", "req", "r*"]:
        for sc in scopes:
            add(W2, [view(pat, keep=["a"], **sc)])
            add(W2, [view(pat, agg="drop", **sc)])
    add(W2, [view("r?", msn="sB", agg="drop"), view("r*", msn="sA", munit="ms", name="", unit="s")])
    # description criterion
    W3 = [inst("req", "updown", desc="d1"), inst("rex", "updown", desc="d2")]
    for v in [view("re?", mdesc="d1"), view("", mdesc="d2"), view("*", mdesc="d3"), view("rex", mdesc="d1")]:
        add(W3, [dict(v, filt={"on": True, "keep": ["b"]})])
        add(W3, [dict(v, agg="drop")])
    return out


def family_ident(tier):
    """(B) stream identity: an instrument matched by several views yields one stream per DISTINCT identity
    (name case-insensitive, description, unit, kind, number, scope); identical resulting streams share one
    aggregator and count every measurement once, distinct ones each receive every measurement once"""
    th = tier == "thorough"
    out = []
    R = inst("Req", "counter", unit="ms")
    core = [
        ([R], [view("*"), view("Req", name="Req")]),                          # renamed to the same name
        ([R], [view("*"), view("Req", name="req")]),                          # ... to a case variant
        ([R], [view("Req", name="rEQ"), view("R??"), view("*", munit="ms")]),  # three ways to one identity
        ([R], [view("*"), view("Req", name="other")]),                        # different name: two complete streams
        ([R], [view("*", keep=["a"]), view("Req", name="REQ", keep=["a"])]),  # shared, filtered
        ([R], [view("Req", unit="s"), view("R*")]),                           # same name, other unit: both exported
    ]
    for ins, vs in core:
        for t in ("delta", "cumulative"):
            for L in ((0, 2) if th else ((2,) if t == "delta" else (0,))):
                out.append(cfg(L, t, ins, vs))
    more = [
        ([R], [view("Req", desc="d2"), view("Req")]),                         # same name, other description
        ([R], [view("Req", name="X", agg="hist"), view("Req", name="x", agg="hist"), view("Re?", agg="drop")]),
        ([R], [view("Req", name="x", keep=["b"]), view("R*", unit="s", keep=["b"]), view("*", name="", unit="s", keep=["b"])]),
        ([inst("Req", "counter"), inst("req", "counter")], []),              # case-variant instruments: one stream
        ([inst("Req", "counter", unit="ms"), inst("req", "counter", unit="s")], []),   # ... unless the unit differs
        ([inst("Req", "updown", "i"), inst("req", "updown", "f")], []),      # ... or the number type
        ([inst("req", "counter", sn="sA"), inst("REQ", "counter", sn="sB")], [view("*", name="")]),  # ... or the Meter
        ([inst("i1", "counter"), inst("i2", "counter")], [view("i1", name="Out"), view("i2", name="oUT")]),
        ([inst("Lat", "histogram")], [view("L*", agg="expo"), view("Lat", name="lat", agg="expo")]),
        ([inst("Obs", "ocounter")], [view("*"), view("Obs", name="obs")]),
        ([inst("Obs", "oupdown"), inst("OBS", "oupdown")], [view("*", keep=["a"]), view("", mkind="oupdown", keep=["a"])]),
        ([inst("G", "gauge", "f")], [view("G"), view("?"), view("zz", agg="drop")]),
        ([inst("G", "ogauge")], [view("G", name="g2"), view("*", mkind="ogauge"), view("G", name="G2")]),
        ([inst("req", "counter", unit="ms"), inst("req", "counter", unit="s")], []),    # same name and case, other unit
        ([R], [view("*"), view("Req", name="second"), view("R*", unit="s"), view("R?q", desc="d4")]),  # four distinct streams
        # a dropping view that also renames / masks: still nothing, and no default stream either
        ([R, inst("rex", "counter", unit="ms")], [view("Req", name="gone", agg="drop")]),
        ([R], [view("R*", unit="s", desc="d2", agg="drop"), view("Req", munit="ms", name="kept")]),
    ]
    for j, (ins, vs) in enumerate(more):
        for t in (("delta", "cumulative") if th else (("delta", "cumulative")[j % 2],)):
            out.append(cfg((2, 0, 3)[j % 3], t, ins, vs))
    return out


def family_readers(tier):
    """(C) several readers on one provider: each with its own temporality and aggregation selector (incl. Drop
    for some kinds), the views shared; every reader owns its aggregators and receives every measurement /
    observation once; collections of different readers interleave; observables by WithXCallback and by
    Meter.RegisterCallback, int64 and float64"""
    th = tier == "thorough"
    out = []
    D, C = "delta", "cumulative"
    # an observable and a synchronous instrument, every number type x callback style, readers differing in
    # temporality and in what they select for the observable's kind
    pairs = [
        [reader(C), reader(C)],
        [reader(C), reader(D)],
        [reader(D), reader(C, ocounter="drop")],
        [reader(C, ocounter="drop"), reader(C)],
        [reader(C, ocounter="sum", counter="drop"), reader(D, ocounter="hist")],
    ]
    for num in ("i", "f"):
        for cbk in ("opt", "reg"):
            for j, rds in enumerate(pairs):
                if not th and (num, cbk) in (("i", "opt"), ("f", "reg")) and j in (1, 4):
                    continue
                out.append(cfg((0, 2)[j % 2], "", [inst("obs", "ocounter", num, cb=cbk), inst("syn", "counter", num)], [], rds))
    # other observable kinds; a reader that drops the gauge kinds / the up-down kinds
    out.append(cfg(2, "", [inst("og", "ogauge", "f", cb="opt"), inst("ou", "oupdown", "i", cb="reg")], [],
                   [reader(D, ogauge="drop"), reader(C, oupdown="drop"), reader(C)]))
    out.append(cfg(0, "", [inst("ou", "oupdown", "f", cb="opt"), inst("g", "gauge", "i")], [],
                   [reader(C, oupdown="expo", gauge="drop"), reader(D)]))
    # shared views: filter, rename, drop view, explicit default against the reader's selection
    out.append(cfg(2, "", [inst("obs", "ocounter", "f", cb="opt")], [view("obs", keep=["a"])], [reader(C), reader(C)]))
    out.append(cfg(0, "", [inst("obs", "ocounter", "i", cb="reg"), inst("h", "histogram", "f")],
                   [view("obs", name="renamed", agg="default"), view("h", agg="default", keep=["b"])],
                   [reader(D, ocounter="drop", histogram="drop"), reader(C, histogram="expo")]))
    out.append(cfg(2, "", [inst("obs", "oupdown", "f", cb="opt"), inst("c", "counter", "i")],
                   [view("obs", agg="drop"), view("c", name="c2"), view("c")], [reader(C), reader(D, counter="hist")]))
    # two observables reported by one registered callback, one of them dropped by one reader; same instrument twice
    out.append(cfg(0, "", [inst("o1", "ocounter", "i", cb="reg"), inst("o2", "ogauge", "i", cb="reg")], [],
                   [reader(C, ocounter="drop"), reader(C, ogauge="drop")]))
    out.append(cfg(2, "", [inst("o1", "ocounter", "f", cb="opt"), inst("o1", "ocounter", "f", cb="opt")], [],
                   [reader(D), reader(C)]))
    # synchronous only: the reader's selection per kind, one reader dropping
    out.append(cfg(2, "", [inst("c", "counter", "i"), inst("h", "histogram", "i")], [],
                   [reader(D, counter="drop"), reader(C, histogram="sum"), reader(C, histogram="drop", counter="expo")]))
    if th:
        for num in ("i", "f"):
            for cbk in ("opt", "reg"):
                out.append(cfg(3, "", [inst("og", "ogauge", num, cb=cbk), inst("ou", "oupdown", num, cb=cbk)], [view("o?", keep=["a"])],
                               [reader(D, ogauge="expo"), reader(C, oupdown="drop"), reader(D, ogauge="drop")]))
    return out


def family_typed(tier):
    """(D) typed attribute values: sets that differ only in the TYPE of a value with one textual form (int 1001 /
    string "1001" / float64 1001, one-element slice [1001] / string "[1001]", bool true / string "true") on one
    instrument: through a filter that keeps the typed key (distinct points, own totals), one that removes it (added
    together), without a view, with and without the limit"""
    th = tier == "thorough"
    out = []
    for j, (k, num) in enumerate([("counter", "i"), ("histogram", "f"), ("gauge", "i"), ("ocounter", "i"),
                                  ("updown", "f"), ("oupdown", "f"), ("ogauge", "f")]):
        if not th and j >= 4:
            break
        for t in ("delta", "cumulative"):
            for L in ((0, 2, 3) if th and j < 4 else ((0, 3) if t == "delta" else (0, 2))):
                out.append(cfg(L, t, [inst("i1", k, num)], [view("i1", keep=["a"])]))
            out.append(cfg((0, 3)[j % 2], t, [inst("i1", k, num)], [view("i*", keep=["b"])]))
        out.append(cfg((3, 0)[j % 2], ("delta", "cumulative")[j % 2], [inst("i1", k, num)]))
    for t in ("delta", "cumulative"):
        # two filtered streams of one instrument, one keeps the typed key; exponential histogram; two readers
        out.append(cfg(0, t, [inst("i1", "counter")], [view("i1", name="r1", keep=["a"]), view("i1", name="r2", keep=["b"])]))
        out.append(cfg(3, t, [inst("i1", "histogram")], [view("i1", agg="expo", keep=["a", "b"])]))
    out.append(cfg(0, "", [inst("i1", "counter", "f")], [view("*", keep=["a"])], [reader("delta"), reader("cumulative")]))
    return out


SETS_TYPED = [{"a": 1001, "b": 1}, {"a": 2001, "b": 1}, {"a": 3001, "b": 1}, {"a": 4001, "b": 1}, {"a": 5001, "b": 1}]
SETS_TYPED_THOROUGH = SETS_TYPED + [{"a": 6001, "b": 1}, {"a": 7001, "b": 1}]
SETS_LIMIT_QUICK = [{"a": 1, "b": 0}, {"a": 2, "b": 0}, {"a": 0, "b": 1}]
SETS_LIMIT_THOROUGH = SETS_LIMIT_QUICK + [{"a": 0, "b": 0}]
SETS_VIEWS = [{"a": 1, "b": 1}, {"a": 1, "b": 2}, {"a": 2, "b": 1}]
SETS_VIEWS_THOROUGH = SETS_VIEWS + [{"a": 0, "b": 0}]
SETS_SELECT = [{"a": 1, "b": 1}, {"a": 1, "b": 2}]


def families(tier):
    th = tier == "thorough"
    return [
        dict(name="limit", configs=family_limit(tier), sets=SETS_LIMIT_THOROUGH if th else SETS_LIMIT_QUICK,
             steps=5 if th else 4, hsteps=5 if th else 4),
        dict(name="views", configs=family_views(tier), sets=SETS_VIEWS_THOROUGH if th else SETS_VIEWS,
             steps=4, hsteps=4),
        dict(name="select", configs=family_select(tier), sets=SETS_VIEWS if th else SETS_SELECT,
             steps=2, hsteps=2),
        dict(name="ident", configs=family_ident(tier), sets=SETS_VIEWS,
             steps=4 if th else 3, hsteps=4 if th else 3),
        dict(name="readers", configs=family_readers(tier), sets=SETS_SELECT,
             steps=4 if th else 3, hsteps=4 if th else 3),
        dict(name="typed", configs=family_typed(tier), sets=SETS_TYPED_THOROUGH if th else SETS_TYPED,
             steps=3, hsteps=3),
    ]


# ---------------------------------------------------------------------------- classification
def view_sig(v):
    """class of a view: its action and which kinds of selection criteria it uses (same as harness viewSig)"""
    s = "agg=" + v["agg"]
    if v["filt"]["on"]:
        s += ",filter"
    if v["name"]:
        s += ",rename"
    if v.get("unit") or v.get("desc"):
        s += ",mask"
    if "*" in v["mname"] or "?" in v["mname"]:
        s += ",wild"
    if v.get("munit"):
        s += ",unit"
    if v["mkind"]:
        s += ",kind"
    if v.get("mdesc"):
        s += ",desc"
    if v.get("msn") or v.get("msv") or v.get("msu"):
        s += ",scope"
    return s


def cfg_sig(c):
    c = c or {}
    temps = ",".join(r["temp"] + ("+sel" if any(r["sel"].values()) else "") for r in c.get("readers", []))
    sig = {"limit": c.get("limit"), "temp": temps, "kinds": ",".join(i["kind"] for i in c.get("insts", [])),
           "views": ";".join(view_sig(v) for v in c.get("views", []))}
    obs = ",".join("%s-%s" % (i["cb"], i["num"]) for i in c.get("insts", []) if i.get("cb"))
    if len(c.get("readers", [])) > 1:
        sig["obs"] = obs
    return sig


def classify(want, got, limit):
    """which clause of the statement the observed collection breaks (for reports / known findings)"""
    def key(m):
        return tuple(m.get(k, "") for k in ("sn", "sv", "su", "name", "desc", "unit", "num", "agg"))

    def ptkey(p):
        return (p["ovf"], json.dumps(p["attrs"], sort_keys=True))
    W = {key(m): m for m in want or []}
    G = {}
    for m in got or []:
        if key(m) in G:
            return "duplicate-metric"
        G[key(m)] = m
    if limit and limit > 0 and any(len(m["pts"]) > limit for m in G.values()):
        return "over-limit"
    if set(G) - set(W):
        return "unexpected-metric"
    if set(W) - set(G):
        return "missing-metric"
    whys = set()
    for k, w in W.items():
        g = G[k]
        if (w["temp"], w["mono"]) != (g["temp"], g["mono"]):
            return "metric-shape"
        wp = {ptkey(p): p for p in w["pts"]}
        gks = [ptkey(p) for p in g["pts"]]
        if len(set(gks)) != len(gks):
            return "duplicate-point"
        gp = {ptkey(p): p for p in g["pts"]}
        tot = sum(p["s"] for p in w["pts"]) != sum(p["s"] for p in g["pts"]) or \
            sum(p["n"] for p in w["pts"]) != sum(p["n"] for p in g["pts"])
        if set(wp) != set(gp):
            # typed values (>= 1000 = 1000 * type + n): sets that differ only in the type of a value were merged / mistaken
            def text(pk):
                return (pk[0], json.dumps({a: ([0, 0, 0, 0, 1, 1, 2, 2][v // 1000], v % 1000) if v >= 1000 else v
                                       for a, v in json.loads(pk[1]).items()}, sort_keys=True))
            if {text(x) for x in wp} == {text(x) for x in gp} and any(v >= 1000 for x in wp for v in json.loads(x[1]).values()):
                return "value-type-identity+total" if tot else "value-type-identity"
            return "identity+total" if tot else "identity"
        for pk in wp:
            if wp[pk] != gp[pk]:
                only_s = all(wp[pk][f] == gp[pk][f] for f in ("n", "l", "mn", "mx"))
                if only_s and wp[pk]["s"] == 0 and w["agg"] in ("hist", "expo"):
                    # a histogram whose sum is not collected (the model reports 0) carries a sum
                    whys.add("uncollected-histogram-sum-not-zero")
                else:
                    whys.add("value+total" if tot else "value")
    for w in ("value+total", "value", "uncollected-histogram-sum-not-zero"):
        if w in whys:
            return w
    return "other"


def judge(ctx, trace, viols, direction):
    """classify the VIOL lines of a validated real trace and report them (one per scenario, clause and class)"""
    lines = None
    reported = set()
    for v in viols:
        if lines is None:
            lines = open(trace).read().splitlines()
        scen = []
        i = v["line"] - 1
        while i >= 0:
            rec = json.loads(lines[i])
            scen.append(rec)
            if rec["ev"] == "Setup":
                break
            i -= 1
        scen.reverse()
        cf = scen[0].get("cfg")
        if v["kind"] == "state":
            why = classify(v.get("want"), v.get("got"), cf.get("limit"))
        else:
            why = v["kind"]
        # one report per (scenario, clause, class): later cycles of a cumulative stream repeat the first deviation
        k = (v.get("sc"), v["kind"], why)
        if k in reported:
            continue
        reported.add(k)
        sig = dict(cfg_sig(cf), dir=direction, why=why, at=v["kind"], reuse=(scen[0].get("rep", 0) % 2 == 1))
        ctx.violation(sig, replay={"scenario": scen, "want": v.get("want"), "got": v.get("got"), "fed": v.get("fed"),
                                           "want2": v.get("want2"), "got2": v.get("got2")})


# ---------------------------------------------------------------------------- driver
def run(ctx):
    thorough = ctx.tier == "thorough"
    binp = ctx.go_build("c12")
    counters = ctx.extra.setdefault("counters", {})

    def add_counters(res):
        for k, v in res["counters"].items():
            counters[k] = counters.get(k, 0) + v

    keys = ["a", "b"]
    edges_total = 0
    only = [x for x in os.environ.get("C12_FAMILIES", "").split(",") if x]  # debugging aid: restrict the families
    for fam in families(ctx.tier):
        if only and fam["name"] not in only:
            continue
        first = fam["name"] == "limit"  # the family whose histories are deep enough to take every action
        d = {"KEYS": tla_set(keys), "CONFIGS": tla(fam["configs"]), "SETS": tla_set(fam["sets"])}
        # ---- the statement on the model, every history (no edges, all workers)
        dh = dict(d, MAXSTEPS=fam["hsteps"])
        if not os.environ.get("C12_SKIP_MODEL"):  # model-only step; skipped when only a mutated tree is probed
            rh = ctx.tlc(S, "MC_CardinalityH", "MC_CardinalityH.cfg", defines=dh, name="H-" + fam["name"],
                         timeout=2400, coverage=(first and thorough))
            if first and thorough:
                ctx.extra["zero_coverage_H"] = rh["zero_cov"]
        # ---- spec -> code
        de = dict(d, MAXSTEPS=fam["steps"])
        r = ctx.tlc(S, "MC_Cardinality", "MC_Cardinality.cfg", defines=de, want_edges=True, name="E-" + fam["name"],
                    timeout=2400, coverage=first)
        if first:
            ctx.extra["zero_coverage"] = r["zero_cov"]
            if r["zero_cov"]:
                ctx.note_inconclusive("TLC coverage: actions never taken: %s" % r["zero_cov"])
        reps = [0, 1, 2, 3, 4, 5] if thorough else [ctx.seed % 30]
        for rep in reps:
            out = os.path.join(ctx.work, "replay-%s-%d.json" % (fam["name"], rep))
            ctx.run([binp, "replay", "-edges", r["edges_file"], "-keys", ",".join(keys), "-rep", str(rep), "-out", out],
                    timeout=2400)
            res = json.load(open(out))
            edges_total += res["executed"]
            ctx.traces_validated += res["executed"]
            ctx.evaluations += res["evaluations"]
            add_counters(res)
            ctx.add_samples(res["samples"][:1])
            for m in res["mismatches"]:
                c = (m.get("case") or {})
                ops = (m.get("path") or []) + ([m["act"]] if m.get("act") else [])
                cf = ops[0].get("cfg") if ops and isinstance(ops[0], dict) else None
                why = "panic" if m["kind"] == "panic" else classify(m.get("want"), m.get("got"), (cf or {}).get("limit"))
                sig = dict(cfg_sig(cf) if cf else c, dir="replay", why=why, at=m["kind"], reuse=(rep % 2 == 1))
                ctx.violation(sig, replay={"ops": ops, "rep": rep, "want": m.get("want"), "got": m.get("got"),
                                           "detail": m.get("detail"), "family": fam["name"]})
            for s in res["inconclusive"]:
                ctx.note_inconclusive(s)
    ctx.extra["edges_replayed"] = edges_total

    # ---- code -> spec
    n = 3000 if thorough else 300
    trace = os.path.join(ctx.work, "trace.ndjson")
    resf = os.path.join(ctx.work, "random.json")
    ctx.run([binp, "random", "-n", str(n), "-out", trace, "-res", resf], timeout=2400)
    res = json.load(open(resf))
    add_counters(res)
    for m in res["mismatches"]:
        ctx.violation(dict(m.get("case") or {}, dir="random", why="panic"), replay=m)
    viols, accepted = ctx.validate_trace(S, "MC_Trace_Cardinality", "Trace_Cardinality.cfg", trace, timeout=3000)
    ctx.traces_validated += n
    ctx.evaluations += accepted
    ctx.extra["random_scenarios"] = n
    ctx.extra["trace_lines_validated"] = accepted
    ctx.add_samples(res["samples"][:1])
    lines = None
    reported = set()
    # scenarios the trace spec left unjudged because the configuration is outside the modelled domain
    skipped = sum(1 for ln in open(os.path.join(ctx.work, "tlc-trace-MC_Trace_Cardinality", "tlc.out"), errors="replace")
                  if ln.startswith('"SKIP '))
    ctx.extra["random_scenarios_outside_domain"] = skipped
    ctx.traces_validated -= skipped
    if skipped * 10 > n:
        ctx.note_inconclusive("random driver: %d of %d scenarios outside the modelled domain (generator filter and "
                              "InDomain disagree)" % (skipped, n))
    judge(ctx, trace, viols, "random")

    # ---- concurrency: the limiter under concurrent first-seen sets, overlapping collections of one reader
    if not os.environ.get("C12_SKIP_MODEL"):
        for L, held in ((2, 0), (3, 1), (4, 1)):
            dd = {"L": L, "HELD": held}
            ctx.tlc(S, "CardLimitConc", "CardLimitConc.cfg", defines=dict(dd, RELOCK="FALSE"), name="conc-atomic-L%d" % L, timeout=600)
        rk = ctx.tlc(S, "CardLimitConc", "CardLimitConc.cfg", defines={"L": 3, "HELD": 1, "RELOCK": "TRUE"}, name="conc-relock-L3",
                     timeout=600, must_pass=False, count=False)
        ctx.extra["model_finds_relock_deviation"] = rk["violated"] == "Inv"
        if rk["violated"] != "Inv":
            ctx.note_inconclusive("CardLimitConc: the NoAtomic configuration did not violate Inv")
    ctrace = os.path.join(ctx.work, "conc.ndjson")
    cresf = os.path.join(ctx.work, "conc.json")
    ctx.run([binp, "conc", "-storms", str(1500 if thorough else 200), "-out", ctrace, "-res", cresf], timeout=2400)
    cres = json.load(open(cresf))
    add_counters(cres)
    for m in cres["mismatches"]:
        ctx.violation(dict(m.get("case") or {}, dir="conc", why="panic"), replay=m)
    cviols, caccepted = ctx.validate_trace(S, "MC_Trace_Cardinality", "Trace_Cardinality.cfg", ctrace, timeout=3000, name="trace-conc")
    ctx.traces_validated += cres["executed"]
    ctx.evaluations += caccepted
    ctx.extra["concurrent_scenarios"] = cres["executed"]
    judge(ctx, ctrace, cviols, "conc")
    for need in ("conc_gated_twins", "conc_storm_rounds", "conc_overlapped_collection_pairs", "conc_gate_parked", "conc_metrics_at_limit"):
        if not counters.get(need):
            ctx.note_inconclusive("vacuity: counter %s is zero" % need)
    if counters.get("conc_gate_not_reached"):
        ctx.note_inconclusive("concurrency gates not reached in %d scenarios" % counters["conc_gate_not_reached"])

    for need in ("collections_with_overflow_point", "metrics_at_limit", "scenarios_with_filter", "edges_with_overflow_point",
                 "edges_with_views", "scenarios_wildcard_name_fits_other_criterion_rejects",
                 "scenarios_exact_name_fits_other_criterion_rejects", "scenarios_views_with_identical_streams",
                 "scenarios_views_with_distinct_streams", "scenarios_case_variant_stream_names_one_identity",
                 "scenarios_same_name_distinct_streams", "scenarios_scope_criterion", "scenarios_sibling_instruments",
                 "edges_with_several_readers", "scenarios_several_readers",
                 "edges_with_text_twin_sets", "random_text_twin_sets", "scenarios_readers_differ_in_temporality",
                 "scenarios_instrument_dropped_by_some_reader_only", "scenarios_reader_aggregation_selector",
                 "scenarios_several_readers_observable_opt_f", "scenarios_several_readers_observable_reg_i"):
        if only:
            break
        if not counters.get(need):
            ctx.note_inconclusive("vacuity: counter %s is zero" % need)
    ctx.assumptions += [
        "attribute values 1..n stand for their representatives (int / string / float / slice) chosen by the harness; values "
        ">= 1000 are typed (1000 * type + n, CardModel VType / VText): int, string, float64, one-element slice, bool "
        "with equal textual forms are different values",
        "measurement values are small integers (exact in float64 instruments)",
        "outside the modelled domain (InDomain in CardModel.tla, re-evaluated by TLC on every configuration): two streams "
        "with one identity but different aggregation or filter, aggregations an instrument kind cannot use, two distinct "
        "streams a reader cannot tell apart (differ in instrument kind only), a renaming view with a wildcard name "
        "(the SDK may fail fast), a name criterion that fits an instrument only up to letter case",
        "stream and instrument names are compared case-insensitively (the harness lower-cases reported names); which "
        "casing is exported is not constrained",
        "observations of asynchronous instruments reach the aggregators in the order the callback makes them; the "
        "harness callbacks make every staged observation once per reader, at that reader's next collection; different "
        "observables that share an aggregator report through one registered callback (order of separate callbacks is "
        "not specified)",
        "WithXCallback and RegisterCallback are not distinguished by the model (the statement does not)",
        "pre-computed sums under delta report the change against the same *reported* set of the preceding cycle "
        "(C08 rule applied after the limit); totals are only required to be conserved for cumulative ones",
    ]
    ctx.extra["rule"] = ("edges: every transition of Cardinality.tla for the configuration families limit/views/select/ident/readers; "
                         "H: every operation sequence up to hsteps; random: seeded scenarios; a case is distinct by "
                         "(configuration, operation sequence)")
    # X02: inductive proof (Apalache, symbolic constants) of the parameterised core A this spec generalises -- thorough tier,
    # evidence only: nothing in here can change the verdict or the exit code of this check (see checks/inductive.py)
    if thorough:
        try:
            import importlib.util as _ilu
            _s = _ilu.spec_from_file_location("verif_inductive", os.path.join(os.path.dirname(os.path.abspath(__file__)), "inductive.py"))
            _m = _ilu.module_from_spec(_s)
            _s.loader.exec_module(_m)
            ctx.extra["inductive"] = _m.run_inductive(ctx, ["A"], budget_s=600)
        except Exception as _e:  # never a verdict
            ctx.extra["inductive"] = {"_error": repr(_e)}
