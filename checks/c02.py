"""C02 -- metric sums are conserved under concurrent recording and collection.

model      : MetricSum.tla (implementation-shaped: per reader pipeline and stream one valueMap + mutex, Add =
             per-pipeline lock;add;unlock steps, produce = pipeline lock + one critical section per stream,
             periodic reader run loop / flushCh handshake / Shutdown) checked exhaustively by TLC for a family
             of small configurations.  Its monitor variable IS the API-level contract (MetricSumContract!Step),
             so TLC also proves that the contract raises no alarm on any interleaving of the correct mechanism;
             deliberately broken variants (split copy/clear, no clear, start not moved, first pipeline only,
             Shutdown without final collection) must each be found by TLC.
spec->code : TLC -simulate behaviours of MetricSumSim.tla (gate-release histories) and hand-written directed
             schedules are replayed on the real SDK with natural gates only (exemplar filter inside the stream
             mutex, observable callback inside the pipeline mutex, exporter) -- no hooks in /repo.
code->spec : every real execution (replayed behaviours, directed schedules, seeded random scenarios, storms)
             is recorded as ndjson (Call/Ret of Add, Collect, ForceFlush, Shutdown; Export inside the exporter;
             reports as base-4 digit vectors = multiplicity of every measurement) and validated by TLC against
             the total contract monitor (Trace_MetricSum.tla).  Verdicts only from these real traces.
"""
import json
import os
import re
from concurrent.futures import ThreadPoolExecutor

S = "MetricSum"


def q(s):
    return '"%s"' % s


def fn(d, val=lambda v: v):
    if not d:
        return "<<>>"
    return "(" + " @@ ".join("%s :> %s" % (q(k), val(v)) for k, v in d.items()) + ")"


def mc_defs(readers, streams, plan, cols, ncol=1, flushers=None, stoppers=None, maxticks=0, variant="ok",
            eager=False, conserved=True, abort="may", cberr=False, strict=False, unwired=()):
    """readers: [(name, temp, kind)] in pipeline order; plan: {recorder: [(key, i)]}; cols: {collector: reader}"""
    return {
        "RD": fn({r[0]: '[temp |-> "%s", kind |-> "%s", wired |-> %s]' % (r[1], r[2], "FALSE" if r[0] in unwired else "TRUE")
                  for r in readers}),
        "PORDER": "<<" + ", ".join(q(r[0]) for r in readers) + ">>",
        "STREAMS": "<<" + ", ".join(q(s) for s in streams) + ">>",
        "PLAN": fn(plan, lambda ids: "<<" + ", ".join('<<"%s", %d>>' % (k, i) for k, i in ids) + ">>"),
        "COLRD": fn(cols, q), "FRD": fn(flushers or {}, q), "SRD": fn(stoppers or {}, q),
        "NCOL": ncol, "MAXTICKS": maxticks, "VARIANT": variant, "EAGER": "TRUE" if eager else "FALSE", "ABORT": abort, "CBERR": "TRUE" if cberr else "FALSE", "STRICT": "Strict" if strict else "",
        "CONSERVED": "Conserved" if (conserved and variant == "ok" and not cberr) else "",
    }


DM, CM, DP, CP = ("delta", "manual"), ("cumulative", "manual"), ("delta", "periodic"), ("cumulative", "periodic")


def R(*kinds):
    return [("r%d" % (i + 1),) + k for i, k in enumerate(kinds)]


# name -> kwargs of mc_defs.  Sizes measured on an idle 16-core machine (see docs/notes/C02.md).
FAMILY_QUICK = {
    # delta + cumulative manual readers, 2 recorders (2+1 Adds on one stream), 2 collections each
    "dm-cm-g2x3-c2x2": dict(readers=R(DM, CM), streams=["k1"], plan={"g1": [("k1", 0), ("k1", 1)], "g2": [("k1", 2)]},
                            cols={"c1": "r1", "c2": "r2"}, ncol=2),
    # periodic delta reader: tick, user Collect, ForceFlush, Shutdown
    "dp-g1x2-c1-f1-s1-t1": dict(readers=R(DP), streams=["k1"], plan={"g1": [("k1", 0), ("k1", 1)]}, cols={"c1": "r1"}, ncol=1,
                                flushers={"f1": "r1"}, stoppers={"s1": "r1"}, maxticks=1),
}
# partial instrument-creation errors: resolution fails for a subset of the readers (first / middle / last registered / two);
# every reader for which the instrument resolved must still see every measurement
def _subset(unw):
    return dict(readers=R(DM, CM, DM), streams=["k1"], plan={"g1": [("k1", 0), ("k1", 1)]},
                cols={"c1": "r1", "c2": "r2", "c3": "r3"}, ncol=1, unwired=unw)


FAMILY_QUICK.update({"unwired-first": _subset(("r1",)), "unwired-middle": _subset(("r2",)), "unwired-last": _subset(("r3",))})
FAMILY_THOROUGH = {
    "unwired-first+last": _subset(("r1", "r3")),
    # two collectors on the same delta reader (overlapping collections of one reader), two streams
    "dm-2streams-g2-c2same": dict(readers=R(DM), streams=["k1", "k2"], plan={"g1": [("k1", 0), ("k2", 0)], "g2": [("k1", 1)]},
                                  cols={"c1": "r1", "c2": "r1"}, ncol=2),
    # two delta readers (fan-out order), shutdown of a manual reader
    "dm-dm-g2-c2-s1": dict(readers=R(DM, DM), streams=["k1"], plan={"g1": [("k1", 0)], "g2": [("k1", 1)]},
                           cols={"c1": "r1", "c2": "r2"}, ncol=2, stoppers={"s1": "r2"}),
    # cumulative periodic reader with two ticks and two user collections
    "cp-g1x2-c1x2-f1-s1-t2": dict(readers=R(CP), streams=["k1"], plan={"g1": [("k1", 0), ("k1", 1)]}, cols={"c1": "r1"}, ncol=2,
                                  flushers={"f1": "r1"}, stoppers={"s1": "r1"}, maxticks=2),
    # periodic delta + two stoppers (sync.Once) + two flushers
    "dp-g2-f2-s2": dict(readers=R(DP), streams=["k1"], plan={"g1": [("k1", 0)], "g2": [("k1", 1)]}, cols={}, ncol=0,
                        flushers={"f1": "r1", "f2": "r1"}, stoppers={"s1": "r1", "s2": "r1"}, maxticks=0),
    # periodic delta next to a manual cumulative reader
    "dp-cm-g2-c1-f1-s1": dict(readers=R(DP, CM), streams=["k1"], plan={"g1": [("k1", 0)], "g2": [("k1", 1)]}, cols={"c1": "r2"},
                              ncol=1, flushers={"f1": "r1"}, stoppers={"s1": "r1"}, maxticks=1),
}
# broken mechanisms TLC must find (guards against a vacuous contract): variant -> (config, expected clause)
BROKEN = {
    "split": "dm-cm-g2x3-c2x2", "noclear": "dm-cm-g2x3-c2x2", "nostart": "dm-cm-g2x3-c2x2",
    "firstonly": "dm-cm-g2x3-c2x2", "nofinal": "dp-g1x2-c1-f1-s1-t1", "stopaterr": "unwired-middle",
}

# ---------------------------------------------------------------------------------------------------- instrument identity
def ident(nm="req", kind="counter", num="int64", unit="", desc=""):
    return dict(nm=nm, kind=kind, num=num, unit=unit, desc=desc)


def ident_defs(readers, req, cseq, adds, cols, ncol=1, variant="ok", unwired=()):
    """MetricIdent.tla: req = identities (handle = position, 1-based); cseq = {creator: [handles]}; adds = {rec: [(handle, i)]}"""
    rec = lambda i: '[nm |-> "%s", kind |-> "%s", num |-> "%s", unit |-> "%s", desc |-> "%s"]' % (
        i["nm"], i["kind"], i["num"], i["unit"], i["desc"])
    key = lambda i: "/".join([i["nm"], i["kind"], i["num"], i["unit"], i["desc"]])
    return {
        "RD": fn({r[0]: '[temp |-> "%s", kind |-> "%s", wired |-> %s]' % (r[1], r[2], "FALSE" if r[0] in unwired else "TRUE")
                  for r in readers}),
        "PORDER": "<<" + ", ".join(q(r[0]) for r in readers) + ">>",
        "REQ": "<<" + ", ".join(rec(i) for i in req) + ">>",
        "CSEQ": fn(cseq, lambda hs: "<<" + ", ".join(str(h) for h in hs) + ">>"),
        "ADDS": fn(adds, lambda xs: "<<" + ", ".join('[h |-> %d, id |-> <<"%s", %d>>]' % (h, key(req[h - 1]), i) for h, i in xs) + ">>"),
        "COLRD": fn(cols, q), "NCOL": ncol, "VARIANT": variant,
    }


# pairs / triples of partially colliding identities x readers; two creators = the concurrent creation race
IDENT_FAMILY = {
    # number types collide (different instrument caches: the two creations interleave pipeline by pipeline)
    "pair-num": dict(readers=R(DM, CM), req=[ident(), ident(num="float64")], cseq={"cr1": [1], "cr2": [2]},
                     adds={"g1": [(1, 0), (1, 1)], "g2": [(2, 0)]}, cols={"c1": "r1", "c2": "r2"}, ncol=2),
    # kinds collide + the identical request (handle 3 = handle 1): measurements through both handles add up in one stream
    "triple-kind-same": dict(readers=R(DM, CM), req=[ident(), ident(kind="updown"), ident()], cseq={"cr1": [1, 3], "cr2": [2]},
                             adds={"g1": [(1, 0), (3, 1)], "g2": [(2, 0)]}, cols={"c1": "r1", "c2": "r2"}, ncol=2),
    # unit / description collide; three readers, the middle one cannot resolve the instruments
    "triple-unit-desc": dict(readers=R(DM, DM, CM), req=[ident(), ident(unit="ms"), ident(desc="d2")], cseq={"cr1": [1, 2, 3]},
                             adds={"g1": [(1, 0), (2, 0), (3, 0)]}, cols={"c1": "r1", "c3": "r3"}, ncol=2, unwired=("r2",)),
}
IDENT_THOROUGH = {
    # number type x kind: three creators race, three readers
    "triple-num-kind": dict(readers=R(DM, CM, DM), req=[ident(), ident(num="float64"), ident(kind="updown")],
                            cseq={"cr1": [1], "cr2": [2], "cr3": [3]}, adds={"g1": [(1, 0), (2, 0), (3, 0)], "g2": [(1, 1)]},
                            cols={"c1": "r1", "c2": "r2", "c3": "r3"}, ncol=1),
}
IDENT_BROKEN = {"addsync-nds": "pair-num", "cache-nokind": "triple-kind-same", "dupagg": "triple-kind-same"}

# ---------------------------------------------------------------------------------------------------- scenarios
def base_scenario(name, readers, nstreams, plan, cols, ncol, flushers=None, stoppers=None, script=None):
    """A harness scenario shaped like a model configuration: one int64 counter per stream key."""
    keys = ["k%d" % (i + 1) for i in range(nstreams)]
    count = {k: 0 for k in keys}
    for g in plan.values():
        for k, i in g:
            count[k] = max(count[k], i + 1)
    return dict(
        name=name,
        readers=[dict(name=n, temp=t, kind=k, intervalUs=0, expMode="ok", badAgg=False) for n, t, k in readers],
        insts=[dict(name="inst%d" % (i + 1), kind="counter", num="int64", late=False) for i in range(nstreams)],
        streams=[dict(key=k, inst=i, attr=1, n=max(count[k], 1), neg=[]) for i, k in enumerate(keys)],
        recs=[[dict(key=k, i=i) for k, i in plan[g]] for g in sorted(plan)],
        cols=[dict(name=c, reader=r, n=ncol, provider=False, delayUs=0) for c, r in sorted(cols.items())],
        flushers=[dict(name=f, reader=r, n=1, provider=False, delayUs=0) for f, r in sorted((flushers or {}).items())],
        stoppers=[dict(name=z, reader=r, provider=False, delayUs=0) for z, r in sorted((stoppers or {}).items())],
        callback=True, filter=True, script=script or [], perturb=0.0, storm=False, ownHandles=False, cbErrPct=0, cbErrAt=[],
        hammer=0, cold=0, badView=False)


SIMS = {
    "sim-dm-cm": dict(readers=R(DM, CM), streams=["k1", "k2"],
                      plan={"g1": [("k1", 0), ("k2", 0)], "g2": [("k1", 1), ("k1", 2)], "g3": [("k2", 1)]},
                      cols={"c1": "r1", "c2": "r2", "c3": "r1"}, ncol=3, stoppers={"s1": "r2"}),
    "sim-dp-dm": dict(readers=R(DP, DM), streams=["k1"], plan={"g1": [("k1", 0), ("k1", 1)], "g2": [("k1", 2), ("k1", 3)]},
                      cols={"c1": "r1", "c2": "r2"}, ncol=2, flushers={"f1": "r1", "f2": "r1"}, stoppers={"s1": "r1", "s2": "r1"}),
    "sim-cp-dm-dm": dict(readers=R(CP, DM, DM), streams=["k1"], plan={"g1": [("k1", 0), ("k1", 1)], "g2": [("k1", 2)]},
                         cols={"c1": "r2", "c2": "r3", "c3": "r1"}, ncol=2, flushers={"f1": "r1"}, stoppers={"s1": "r1"}),
}

DIRECTED = [
    # a measurement is visible to reader r1 before r2: the Add is held inside pipeline 2's critical section
    # (after pipeline 1 was updated) while r1 is collected; r2's collection must wait for the stream mutex
    dict(name="fanout-r1-before-r2", cfg=dict(readers=R(DM, DM), streams=["k1"], plan={"g1": [("k1", 0), ("k1", 1)]},
                                              cols={"c1": "r1", "c2": "r2"}, ncol=2),
         script=["g1:1@call", "g1:1@f1", "c1:1@call", "c1:1@cb", "c2:1@call", "c2:1@cb", "g1:1@f2", "c2:2@call", "g1:2@call", "g1:2@f1",
                 "c2:2@cb", "g1:2@f2", "c1:2@call", "c1:2@cb"]),
    # a collection is held inside the pipeline lock (callback) while Adds complete: they belong to it or to a later one, once
    dict(name="adds-during-held-collect", cfg=dict(readers=R(DM, CM), streams=["k1"], plan={"g1": [("k1", 0), ("k1", 1)], "g2": [("k1", 2)]},
                                                   cols={"c1": "r1", "c2": "r2"}, ncol=2),
         script=["c1:1@call", "g1:1@call", "g1:1@f1", "g1:1@f2", "g2:1@call", "g2:1@f1", "c2:1@call", "c2:1@cb", "c1:1@cb",
                 "g2:1@f2", "g1:2@call", "g1:2@f1", "g1:2@f2", "c1:2@call", "c1:2@cb", "c2:2@call", "c2:2@cb"]),
    # two collectors on one delta reader: the second waits for the pipeline lock; every measurement in exactly one report
    dict(name="two-collectors-one-reader", cfg=dict(readers=R(DM), streams=["k1", "k2"], plan={"g1": [("k1", 0), ("k2", 0)], "g2": [("k1", 1)]},
                                                    cols={"c1": "r1", "c2": "r1"}, ncol=2),
         script=["g1:1@call", "g1:1@f1", "c1:1@call", "c2:1@call", "g1:2@call", "g2:1@call", "g2:1@f1", "c1:1@cb", "g1:2@f1", "c2:1@cb",
                 "c1:2@call", "c1:2@cb", "c2:2@call", "c2:2@cb"]),
    # ForceFlush while the run loop is held in the exporter, Shutdown while ForceFlush is pending, Add in between
    dict(name="flush-then-shutdown-held-export", cfg=dict(readers=R(DP), streams=["k1"], plan={"g1": [("k1", 0), ("k1", 1)], "g2": [("k1", 2)]},
                                                          cols={"c1": "r1"}, ncol=1, flushers={"f1": "r1", "f2": "r1"}, stoppers={"s1": "r1"}),
         script=["g1:1@call", "g1:1@f1", "f1@call", "run_r1@cb", "g1:2@call", "g1:2@f1", "f2@call", "g2:1@call", "g2:1@f1",
                 "run_r1@export", "run_r1@cb", "c1:1@call", "s1@call", "run_r1@export", "c1:1@cb", "s1@cb", "s1@export"]),
    # Shutdown's final collection must pick up what was recorded after the last interval export
    dict(name="final-collection-of-shutdown", cfg=dict(readers=R(DP, CM), streams=["k1"], plan={"g1": [("k1", 0), ("k1", 1)]},
                                                       cols={"c1": "r2"}, ncol=1, flushers={"f1": "r1"}, stoppers={"s1": "r1", "s2": "r1"}),
         script=["g1:1@call", "g1:1@f1", "g1:1@f2", "f1@call", "run_r1@cb", "run_r1@export", "g1:2@call", "g1:2@f1", "g1:2@f2",
                 "s1@call", "s2@call", "s1@cb", "c1:1@call", "c1:1@cb", "s1@export"]),
    # D1 (known finding): the callback fails during the first flush: the interval is collected, cleared and dropped
    dict(name="D1-callback-error-drops-interval", cbErrAt=[1],
         cfg=dict(readers=R(DP), streams=["k1"], plan={"g1": [("k1", 0), ("k1", 1)]}, cols={}, ncol=0,
                  flushers={"f1": "r1", "f2": "r1"}, stoppers={"s1": "r1"}),
         script=["g1:1@call", "g1:1@f1", "f1@call", "run_r1@cb", "g1:2@call", "g1:2@f1", "f2@call", "run_r1@cb", "run_r1@export",
                 "s1@call", "s1@cb", "s1@export"]),
    # user Collect on a periodic reader takes the data while a ForceFlush is pending: flush exports nothing, nothing lost
    dict(name="user-collect-steals-from-flush", cfg=dict(readers=R(DP), streams=["k1"], plan={"g1": [("k1", 0), ("k1", 1)]},
                                                         cols={"c1": "r1"}, ncol=2, flushers={"f1": "r1"}, stoppers={"s1": "r1"}),
         script=["g1:1@call", "g1:1@f1", "c1:1@call", "f1@call", "g1:2@call", "g1:2@f1", "c1:1@cb", "run_r1@cb", "run_r1@export",
                 "c1:2@call", "c1:2@cb", "s1@call", "s1@cb", "s1@export"]),
]


def forced_split(name, readers, col_reader, pipe, hold_ms=3, settle_ms=20):
    """The schedule TLC gives for the broken `split` variant (Comp = copy ... RLock/RUnlock of queued Adds ... Clear),
    forced on the real code as far as natural gates allow: holder g1 parks in the exemplar filter while it owns the
    stream mutex of pipeline `pipe`; Add(g2), the Collect and Add(g3..g5) queue on that mutex in this order (queue
    length read off the goroutine dump); the holder releases, records again at once (the woken g2 finds the mutex taken
    after > 1 ms: sync.Mutex starvation mode = FIFO hand-off) and releases again: g2, Collect's critical section,
    g3, g4, g5 run in queue order -- a collection that needs the mutex a second time finds g3..g5 in between."""
    f = "@f%d" % pipe
    return dict(
        name=name,
        readers=[dict(name=n, temp=t, kind=k, intervalUs=0, expMode="ok", badAgg=False) for n, t, k in readers],
        insts=[dict(name="inst1", kind="counter", num="int64", late=False)],
        streams=[dict(key="k1", inst=0, attr=1, n=6, neg=[])],
        recs=[[dict(key="k1", i=0), dict(key="k1", i=1)], [dict(key="k1", i=2)], [dict(key="k1", i=3)], [dict(key="k1", i=4)],
              [dict(key="k1", i=5)]],
        cols=[dict(name="c1", reader=col_reader, n=1, provider=False, delayUs=0)],
        flushers=[], stoppers=[], callback=False, filter=True, script=[], perturb=0.0, storm=False, ownHandles=False,
        cbErrPct=0, cbErrAt=[], hammer=0, cold=0, badView=False,
        steps=["start:g1:1", "awaitpark:g1:1" + f, "start:g1:2", "start:g2:1", "awaitq:1", "start:c1:1", "awaitq:2",
               "start:g3:1", "awaitq:3", "start:g4:1", "awaitq:4", "start:g5:1", "awaitq:5", "sleep:%d" % hold_ms,
               "release:g1:1" + f, "awaitpark:g1:2" + f, "sleep:%d" % settle_ms, "release:g1:2" + f])


FORCED = [
    ("forced-queue-delta", R(DM), "r1", 1),
    ("forced-queue-delta+cumulative", R(DM, CM), "r1", 1),
    ("forced-queue-second-pipeline", R(CM, DM), "r2", 2),
    ("forced-queue-periodic-user-collect", R(DP), "r1", 1),
]


def ident_scenario(name, kw, late):
    """An IDENT_FAMILY configuration as a harness scenario (late = instruments are created by the recorder goroutines)."""
    req = kw["req"]
    canon = [next(j for j in range(len(req)) if req[j] == req[i]) for i in range(len(req))]
    insts = []
    for i, q_ in enumerate(req):
        d = dict(name=q_["nm"], kind=q_["kind"], num=q_["num"], late=late, unit=q_["unit"], desc=q_["desc"])
        if canon[i] != i:
            d["aliasOf"] = canon[i]
        insts.append(d)
    count = {}
    for xs in kw["adds"].values():
        for h, i in xs:
            count[canon[h - 1]] = max(count.get(canon[h - 1], 0), i + 1)
    keys = {c: "k%d" % (n + 1) for n, c in enumerate(sorted(set(canon)))}
    unw = kw.get("unwired", ())
    sc = base_scenario(name, kw["readers"], 0, {}, kw["cols"], kw.get("ncol", 1))
    sc.update(
        readers=[dict(name=r[0], temp=r[1], kind=r[2], intervalUs=0, expMode="ok", badAgg=r[0] in unw) for r in kw["readers"]],
        insts=insts,
        streams=[dict(key=keys[c], inst=c, attr=1, n=max(count.get(c, 1), 1), neg=[]) for c in sorted(set(canon))],
        recs=[[dict(key=keys[canon[h - 1]], i=i, **({"via": h - 1} if canon[h - 1] != h - 1 else {})) for h, i in kw["adds"][g]]
              for g in sorted(kw["adds"])],
        callback=False, script=[])
    return sc


def scenario_of(name, cfg, script, **extra):
    sc = _scenario_of(name, cfg, script)
    sc.update(extra)
    return sc


def _scenario_of(name, cfg, script):
    return base_scenario(name, cfg["readers"], len(cfg["streams"]), cfg["plan"], cfg.get("cols", {}), cfg.get("ncol", 1),
                         cfg.get("flushers"), cfg.get("stoppers"), script)


def classify(v, cfg):
    """violation record (+ the Cfg line of its scenario) -> small flat signature (matched against known_findings/C02.json)"""
    vv = v.get("v", {})
    sig = {"kind": vv.get("kind", "?")}
    for k in ("temp", "via", "rkind"):
        if k in vv:
            sig[k] = vv[k]
    ids = [vv["id"]] if "id" in vv else vv.get("ids", [])
    if ids and isinstance(ids[0], list) and not isinstance(ids[0][0], list):
        obs = cfg.get("obskeys", [])
        sig["inst"] = "observable" if all(i[0] in obs for i in ids) else "sync"
    if cfg.get("partial"):
        sig["partial_creation_error"] = True
    return sig


def run(ctx):
    thorough = ctx.tier == "thorough"
    binp = ctx.go_build("c02")
    # ------------------------------------------------------------ the VALUE domain of measurements (MetricValue.tla, checks/c02_values.py)
    import importlib.util
    _sp = importlib.util.spec_from_file_location("c02_values", os.path.join(os.path.dirname(os.path.abspath(__file__)), "c02_values.py"))
    c02_values = importlib.util.module_from_spec(_sp)
    _sp.loader.exec_module(c02_values)
    c02_values.stage(ctx, binp)
    # ------------------------------------------------------------ exhaustive model checking
    fam = dict(FAMILY_QUICK)
    if thorough:
        fam.update(FAMILY_THOROUGH)
    cov = {}
    small = [n for n in fam if n.startswith("unwired")]
    with ThreadPoolExecutor(max_workers=4) as ex:   # the tiny reader-subset configs: a few at a time
        fut_small = {n: ex.submit(ctx.tlc, S, "MC_MetricSum", "MC_MetricSum.cfg", defines=mc_defs(**fam[n]), name="mc-" + n,
                                  timeout=3000, coverage=True, workers=2, count=False) for n in small}
        small_res = {n: f.result() for n, f in fut_small.items()}
    for r in small_res.values():      # counted here (not from the worker threads)
        ctx.states += r["distinct"]
        ctx.transitions += r["generated"]
    for name, kw in fam.items():
        r = small_res.get(name) or ctx.tlc(S, "MC_MetricSum", "MC_MetricSum.cfg", defines=mc_defs(**kw), name="mc-" + name,
                                           timeout=3000, coverage=True)
        for line in open(r["out"], errors="replace"):
            m = re.match(r"<(\w+) line \d+, col \d+ to line \d+, col \d+ of module MetricSum>: (\d+):(\d+)", line)
            if m and m.group(1) != "Init":
                cov[m.group(1)] = max(cov.get(m.group(1), 0), int(m.group(3)))
    # vacuity: every action of the mechanism is taken in some configuration of the family (Clear belongs to the broken
    # "split" variant, DropOnCbErr/PartialOnCbErr to the D1 configuration; SOnceWait needs two stoppers = thorough family)
    variant_only = ("Clear", "DropOnCbErr", "PartialOnCbErr")   # broken variant / D1: exercised by the runs that must be violated
    zero = sorted(a for a, n in cov.items() if n == 0 and a not in variant_only and not (a == "SOnceWait" and not thorough))
    ctx.extra["action_coverage"] = cov
    if zero:
        ctx.note_inconclusive("actions never taken in the exhaustive family (vacuity): %s" % zero)
    if thorough:
        # the Eager reduction used for replay (lock acquired at once when free) must satisfy the same contract
        ctx.tlc(S, "MC_MetricSum", "MC_MetricSum.cfg", defines=mc_defs(eager=True, **FAMILY_QUICK["dm-cm-g2x3-c2x2"]),
                name="mc-eager", timeout=3000)
    # liveness under fairness: every call returns
    live = dict(readers=R(DP), streams=["k1"], plan={"g1": [("k1", 0)]}, cols={"c1": "r1"}, ncol=1,
                flushers={"f1": "r1"}, stoppers={"s1": "r1"}, maxticks=1 if thorough else 0)
    ctx.tlc(S, "MC_MetricSum", "MC_MetricSum_live.cfg", defines=mc_defs(**live), name="live-dp", timeout=3000)
    # broken mechanisms: TLC must find each of them.  These runs, D1-strict and the simulations below last seconds
    # each (JVM start-up dominates): they run a few at a time
    pool = ThreadPoolExecutor(max_workers=4)

    def broken(variant):
        kw = dict(FAMILY_QUICK[BROKEN[variant]])
        return ctx.tlc(S, "MC_MetricSum", "MC_MetricSum.cfg", defines=mc_defs(variant=variant, **kw), name="broken-" + variant,
                       must_pass=False, count=False, timeout=1200, workers=2)

    def sim(name):
        return ctx.tlc(S, "MC_MetricSumSim", "MC_MetricSumSim.cfg", defines=mc_defs(eager=True, conserved=False, **SIMS[name]),
                       workers=1, simulate="num=%d" % (150 if thorough else 25), depth=400, name=name, timeout=1200)

    def d1strict():
        return ctx.tlc(S, "MC_MetricSum", "MC_MetricSum.cfg",
                       defines=mc_defs(cberr=True, strict=True, **dict(FAMILY_QUICK["dp-g1x2-c1-f1-s1-t1"])), name="mc-D1-strict",
                       must_pass=False, count=False, timeout=1200, workers=2)

    def identrun(name, kw, variant="ok"):
        ok = variant == "ok"
        return ctx.tlc(S, "MC_MetricIdent", "MC_MetricIdent.cfg", defines=ident_defs(variant=variant, **kw),
                       name=("id-" + name) if ok else ("broken-id-" + variant), must_pass=ok, count=False, timeout=1200, workers=2)

    idfam = dict(IDENT_FAMILY)
    if thorough:
        idfam.update(IDENT_THOROUGH)
    fut_id = {n: pool.submit(identrun, n, kw) for n, kw in idfam.items()}
    fut_idb = {v: pool.submit(identrun, c, IDENT_FAMILY[c], v) for v, c in IDENT_BROKEN.items()}
    fut_broken = {v: pool.submit(broken, v) for v in BROKEN}
    fut_d1 = pool.submit(d1strict)
    fut_sim = {n: pool.submit(sim, n) for n in SIMS}
    found = {}
    for variant in BROKEN:
        r = fut_broken[variant].result()
        found[variant] = r["violated"]
        if r["violated"] != "Contract":
            ctx.note_inconclusive("model drift: TLC does not find the broken variant %s (%s, see %s)" % (variant, r["violated"], r["out"]))
    for n, f in fut_id.items():           # counted here (not from the worker threads)
        r = f.result()
        ctx.states += r["distinct"]
        ctx.transitions += r["generated"]
    for variant, f in fut_idb.items():
        r = f.result()
        found[variant] = r["violated"]
        if r["violated"] != "Contract":
            ctx.note_inconclusive("model drift: TLC does not find the broken identity variant %s (%s, see %s)" % (variant, r["violated"], r["out"]))
    ctx.extra["broken_variants_found_by_tlc"] = found
    # known deviation D1 (callback error -> periodic reader drops the interval): the model exhibits it (Strict violated),
    # and with D1 admitted nothing else breaks
    kw = dict(FAMILY_QUICK["dp-g1x2-c1-f1-s1-t1"])
    r = fut_d1.result()
    ctx.extra["model_exhibits_D1"] = (r["violated"] == "Strict")
    if r["violated"] != "Strict":
        ctx.note_inconclusive("model drift: TLC does not find D1 when it is not admitted (%s, see %s)" % (r["violated"], r["out"]))
    if thorough:
        ctx.tlc(S, "MC_MetricSum", "MC_MetricSum.cfg", defines=mc_defs(cberr=True, **kw), name="mc-D1-admitted", timeout=3000)

    # ------------------------------------------------------------ spec -> code: behaviours as gate scripts
    scenarios = []
    seen = set()
    for name, kw in SIMS.items():
        r = fut_sim[name].result()
        for s in r["prints"]:
            if isinstance(s, str) and s.startswith("BEHAVIOUR ") and s not in seen:
                seen.add(s)
                b = json.loads(s[len("BEHAVIOUR "):])
                scenarios.append(scenario_of(name, kw, b["script"]))
    pool.shutdown()
    nbeh = len(scenarios)
    for d in DIRECTED:
        for rep in range(4 if thorough else 2):
            scenarios.append(scenario_of(d["name"], d["cfg"], d["script"], cbErrAt=d.get("cbErrAt", [])))
    for rep in range(12 if thorough else 4):
        for name, readers, colrd, pipe in FORCED:
            scenarios.append(forced_split(name, readers, colrd, pipe, hold_ms=3 + 2 * rep, settle_ms=10 + 10 * (rep % 4)))
    for name, kw in {**IDENT_FAMILY, **IDENT_THOROUGH}.items():     # the identity configurations on the real code
        for rep in range(6 if thorough else 2):
            scenarios.append(ident_scenario("ident-" + name, kw, late=rep % 2 == 1))
    sfile = os.path.join(ctx.work, "scripts.json")
    json.dump(scenarios, open(sfile, "w"))
    jobs = [("scripts", ["scripts", "-in", sfile])]
    # ------------------------------------------------------------ code -> spec: random scenarios and storms
    nrand, nstorm, chunk = (3200, 3200, 400) if thorough else (240, 120, 120)
    for i in range(0, nrand, chunk):
        jobs.append(("random%d" % (i // chunk), ["random", "-n", str(chunk), "-seedoff", str(i)]))
    for i in range(0, nstorm, chunk):
        jobs.append(("storm%d" % (i // chunk), ["random", "-storm", "-n", str(chunk), "-seedoff", str(100000 + i)]))
    npart = 1200 if thorough else 200
    jobs.append(("partial", ["partial", "-n", str(npart)]))
    nident = 1200 if thorough else 200
    jobs.append(("ident", ["ident", "-n", str(nident)]))
    results = {}
    for label, args in jobs:   # the harness runs are sequential (they are the concurrency experiment)
        tf = os.path.join(ctx.work, "trace-%s.ndjson" % label)
        rf = os.path.join(ctx.work, "res-%s.json" % label)
        ctx.run([binp] + args + ["-out", tf, "-res", rf], timeout=3000)
        results[label] = (tf, json.load(open(rf)))
    counters = {}
    executed = 0
    for tf, res in results.values():
        executed += res["executed"]
        for k, v in res["counters"].items():
            counters[k] = counters.get(k, 0) + v
    ctx.extra["counters"] = counters
    ctx.extra["tlc_behaviours_replayed"] = nbeh
    ctx.extra["directed_schedules"] = len(scenarios) - nbeh   # hand-written gate scripts + forced mutex-queue choreographies
    ctx.extra["random_scenarios"] = nrand
    ctx.extra["storm_scenarios"] = nstorm
    ctx.extra["partial_creation_scenarios"] = npart
    ctx.extra["colliding_identity_scenarios"] = nident
    if scenarios:
        ctx.add_samples([{"behaviour_script": scenarios[0]["script"][:40]}])
    ctx.add_samples(results["random0"][1]["samples"][:1])

    # trace validation: one JVM per trace file, a few at a time
    def validate(item):
        label, (tf, _) = item
        return label, tf, ctx.validate_trace(S, "Trace_MetricSum", "Trace_MetricSum.cfg", tf, name="trace-" + label, timeout=3000)

    kinds = {}
    lines_total = 0
    with ThreadPoolExecutor(max_workers=4 if thorough else 3) as ex:
        outs = list(ex.map(validate, results.items()))
    for label, tf, (viols, accepted) in outs:
        lines_total += accepted
        lines = None
        for v in viols:
            if lines is None:
                lines = open(tf).read().splitlines()
            scen = []
            for ln in lines[:v["line"]][::-1]:
                rec = json.loads(ln)
                if rec.get("sc") != v["sc"]:
                    break
                scen.append(rec)
            scen.reverse()
            cfg = scen[0] if scen and scen[0].get("ev") == "Cfg" else {}
            sig = classify(v, cfg)
            sig["source"] = ("scripts" if label == "scripts" else "storm" if label.startswith("storm") else
                             label if label in ("partial", "ident") else "random")
            kname = sig["kind"] + ("/observable" if sig.get("inst") == "observable" and sig.get("partial_creation_error") else "")
            kinds[kname] = kinds.get(kname, 0) + 1
            ctx.violation(sig, replay={"violation": v, "trace_file": tf, "events": scen[-300:]})
    # binding self-test: corrupt one digit of one recorded report and make sure the trace spec rejects it
    # (the resulting "violations" are of the corrupted copy, not of the code: never reported)
    stf = results["scripts"][0]
    for label, frm, to, want in (("dup", 1, 2, "double-counted"), ("drop", 1, 0, "lost")):
        out_lines, done, armed = [], False, False
        for ln in open(stf):
            if '"ev":"Cfg"' in ln and '"name":"fanout-r1-before-r2"' in ln:
                armed = True     # two delta manual readers, no shutdown: a dropped id must surface as lost
            if armed and not done and '"pts":[{' in ln and '"err":""' in ln:
                rec = json.loads(ln)
                for p in rec["pts"]:
                    if frm in p["m"]:
                        p["m"][p["m"].index(frm)] = to
                        done = True
                        break
                ln = json.dumps(rec, separators=(",", ":")) + "\n"
            out_lines.append(ln)
        cf = os.path.join(ctx.work, "trace-corrupt-%s.ndjson" % label)
        open(cf, "w").writelines(out_lines)
        cv, _ = ctx.validate_trace(S, "Trace_MetricSum", "Trace_MetricSum.cfg", cf, name="trace-corrupt-" + label, timeout=1200)
        got = sorted({v.get("v", {}).get("kind") for v in cv})
        ctx.extra["selftest_corrupt_" + label] = got
        if not done or want not in got:
            ctx.note_inconclusive("binding self-test: corrupted trace (%s) was not rejected as %s (got %s)" % (label, want, got))
    ctx.extra["trace_lines_validated"] = lines_total
    ctx.extra["violation_kinds_seen"] = kinds
    if counters.get("choreography_steps_timed_out", 0) > counters.get("choreography_steps", 0) // 4:
        ctx.note_inconclusive("forced schedules mostly missed: %d of %d choreography steps timed out" %
                              (counters["choreography_steps_timed_out"], counters["choreography_steps"]))
    if "lost-after-callback-error" not in kinds and any(k.get("status") == "known" for k in ctx._known):
        ctx.extra["note"] = "the known deviation D1 was not reproduced in this run (fixed tree?): %s" % kinds
    ctx.traces_validated += executed
    ctx.evaluations += counters.get("adds", 0) + counters.get("reports", 0)
    # vacuity of the drivers: the interesting regimes must have been reached
    need = ["reports_nonempty_delta", "reports_with_adds_in_flight", "exports_run_loop", "exports_shutdown", "forceflush_ok",
            "shutdown_ok", "script_steps_followed", "callback_errors", "instrument_creation_errors", "partial_bad_first",
            "partial_bad_middle", "partial_bad_last", "partial_bad_view_scenarios", "choreography_steps", "ident_collision_num",
            "ident_collision_kind", "ident_collision_unit", "ident_collision_desc", "ident_identical_requests", "ident_creation_races"]
    missing = [k for k in need if counters.get(k, 0) == 0]
    if missing:
        ctx.note_inconclusive("driver did not reach: %s" % missing)
    if counters.get("scenarios_abandoned", 0) > executed // 10:
        ctx.note_inconclusive("too many non-quiescent scenarios: %d of %d" % (counters["scenarios_abandoned"], executed))
    ctx.exhaustive = False
    ctx.assumptions += [
        "measurement i of a stream has the value +-4^i (int64: <= 31, float64: <= 26 per stream); a measurement counted >= 4 times "
        "would carry into the next digit (multiplicities 0..3 are decoded exactly)",
        "a payload handed to the exporter counts as reported even if the exporter then returns an error",
        "callers' contexts never expire; export timeout 60 s",
        "interval ticks cannot be gated (time.Ticker): they are exercised by the random scenarios only and never matter for a verdict",
        "data-race freedom in the Go memory-model sense is not decided here",
    ]
