"""C16 -- global providers forward to the SDK installed later, without loss or deadlock.

model      : GlobalDelegate.tla, lock-level (provider.mtx, meter.mtx, registration.unregMu, the once),
             one action per critical section of internal/global; TLC exhaustive for a family of small
             configurations (invariants incl. `Stuck` = deadlock freedom, liveness under fairness);
             NoKnown config: TLC finds the known lock-order inversion D1; Patched configs: the
             proposed repair has no deadlock and no double / missed registration.
spec->code : TLC -simulate behaviours of GlobalDelegateSim.tla (history of gate passages) replayed on
             the real package. No hooks: the installed delegate wraps the real SDK and its methods are
             called by internal/global while holding its locks (natural gates).
code->spec : every real execution (replayed behaviours, directed schedules = TLC counterexamples,
             seeded random scenarios with perturbation) runs in a FRESH SUBPROCESS (global state is
             once-only per process), is recorded as ndjson and validated by TLC against the total
             contract monitor GlobalDelegateContract.tla (Trace_GlobalDelegate.tla).
verdict    : only from the real code. A blocked scenario is a violation only when a stop-the-world
             goroutine dump shows every unfinished goroutine parked in sync.Mutex.Lock.
"""
import json
import os
import re

S = "GlobalDelegate"


def tset(xs):
    return "{" + ", ".join('"%s"' % x for x in xs) + "}"


def tfun(pairs):
    if not pairs:
        return '[x \\in {} |-> ""]'
    return "(" + " @@ ".join('"%s" :> "%s"' % (k, v) for k, v in pairs) + ")"


class Cfg:
    """A model configuration = a scenario shape. minst / tinst / xscripts: Set scripts over self|r1|r2 (one per
    installer; an int n = n installers with the single real install ["r1"]); creators: (name, meter, pre[, kept]);
    registrars: (name, meter, pre, unreg[, kept]); tusers: (name, tracer, pre[, kept])."""

    def __init__(self, name, minst=1, creators=(), registrars=(), tinst=0, tusers=(), xkinds=(), xscripts=None,
                 recs=1, spans=1, uses=1, refuse_reg=(), refuse_inst=(), invokers=(), shared_obs=False, shape="atomic",
                 ids=None, key_fields=(1, 2, 3, 4), sdkobs=(), premeter=(), skip_empty=False):
        # ids: owner -> (name, kind, unit, description) (default: a name of its own); key_fields / skip_empty: deviation switches;
        # sdkobs: registrars whose observable is created on SDK r1 itself; premeter: owners whose Meter is obtained beforehand
        self.ids, self.key_fields, self.sdkobs, self.premeter, self.skip_empty = dict(ids or {}), key_fields, list(sdkobs), list(premeter), skip_empty
        # refuse_*: names the delegate SDK refuses; invokers: (name, callback); shared_obs / shape: deviation switches
        self.refuse_reg, self.refuse_inst, self.invokers = list(refuse_reg), list(refuse_inst), list(invokers)
        self.shared_obs, self.shape = shared_obs, shape
        one = lambda v: [["r1"]] * v if isinstance(v, int) else [list(x) for x in v]
        self.name, self.minst, self.creators, self.registrars = name, one(minst), list(creators), list(registrars)
        self.tinst, self.tusers, self.xkinds, self.recs, self.spans, self.uses = one(tinst), list(tusers), list(xkinds), recs, spans, uses
        self.xscripts = {k: list((xscripts or {}).get(k, ["r1"])) for k in self.xkinds}

    def insts(self):
        out = [("i%d" % (k + 1), sc) for k, sc in enumerate(self.minst)]
        out += [("ti%d" % (k + 1), sc) for k, sc in enumerate(self.tinst)]
        out += [("xi." + k, self.xscripts[k]) for k in self.xkinds]
        return out

    def kept(self):
        return [c[0] for c in self.creators if len(c) > 3 and c[3]] + [g[0] for g in self.registrars if len(g) > 4 and g[4]] + \
               [u[0] for u in self.tusers if len(u) > 3 and u[3]]

    def defines(self, patched=False, known=True):
        script = "(" + " @@ ".join('"%s" :> <<%s>>' % (n, ", ".join('"%s"' % a for a in sc)) for n, sc in self.insts()) + ")" \
            if self.insts() else '[x \\in {} |-> <<>>]'
        return {
            "MINST": tset("i%d" % (k + 1) for k in range(len(self.minst))),
            "CREATORS": tset(c[0] for c in self.creators), "PREC": tset(c[0] for c in self.creators if c[2]),
            "REGISTRARS": tset(g[0] for g in self.registrars), "PREG": tset(g[0] for g in self.registrars if g[2]),
            "UNREGG": tset(g[0] for g in self.registrars if g[3]),
            "METEROF": tfun([(c[0], c[1]) for c in self.creators] + [(g[0], g[1]) for g in self.registrars]),
            "TINST": tset("ti%d" % (k + 1) for k in range(len(self.tinst))),
            "TUSERS": tset(u[0] for u in self.tusers), "PRET": tset(u[0] for u in self.tusers if u[2]),
            "TRACEROF": tfun([(u[0], u[1]) for u in self.tusers]), "XKINDS": tset(self.xkinds),
            "SCRIPT": script, "KEPT": tset(self.kept()),
            "REFUSEREG": tset(self.refuse_reg), "REFUSEINST": tset(self.refuse_inst),
            "INVOKERS": tset(v[0] for v in self.invokers), "CBOF": tfun(self.invokers),
            "SHAREDOBS": "TRUE" if self.shared_obs else "FALSE", "SHAPE": '"%s"' % self.shape,
            "IDOF": ("(" + " @@ ".join('"%s" :> <<%s>>' % (o, ", ".join('"%s"' % f for f in self.ident(o))) for o in self.owners()) + ")")
            if self.owners() else '[x \\in {} |-> <<>>]',
            "KEYFIELDS": "{" + ", ".join(str(f) for f in self.key_fields) + "}",
            "SDKOBS": tset(self.sdkobs), "PREMETER": tset(self.premeter), "SKIPEMPTY": "TRUE" if self.skip_empty else "FALSE",
            "RECSPER": self.recs, "SPANSPER": self.spans, "USESPER": self.uses,
            "PATCHED": "TRUE" if patched else "FALSE", "ALLOWKNOWN": "TRUE" if known else "FALSE"}

    def owners(self):
        return [c[0] for c in self.creators] + [g[0] for g in self.registrars]

    def ident(self, o):
        return self.ids.get(o, (o, "k", "", ""))

    def idfields(self, o, obs):
        n, k, u, d = self.ident(o)
        if o not in self.ids:
            return {}
        return dict(inst=n, unit=u, desc=d, ikind=(k if k != "k" else ("i64ocounter" if obs else "i64counter")))

    def procs(self):
        kept = set(self.kept())
        kind = lambda n: "minst" if n.startswith("i") else "tinst" if n.startswith("ti") else "xinst"
        ps = [dict(name=n, kind=kind(n), script=sc, **({"x": n[3:]} if kind(n) == "xinst" else {})) for n, sc in self.insts()]
        ps += [dict(name=c[0], kind="creator", meter=c[1], pre=c[2], n=self.recs, kept=c[0] in kept, premeter=c[0] in self.premeter,
                    **self.idfields(c[0], False)) for c in self.creators]
        ps += [dict(name=g[0], kind="registrar", meter=g[1], pre=g[2], unreg=g[3], kept=g[0] in kept, premeter=g[0] in self.premeter,
                    sdkobs=g[0] in self.sdkobs, **self.idfields(g[0], True)) for g in self.registrars]
        ps += [dict(name=u[0], kind="tuser", tracer=u[1], pre=u[2], n=self.spans, kept=u[0] in kept) for u in self.tusers]
        ps += [dict(name="xu." + k, kind="xuser", x=k, n=self.uses) for k in self.xkinds]
        ps += [dict(name=v[0], kind="invoker", target=v[1], n=1) for v in self.invokers]
        return ps

    def scenario(self, script, **kw):
        return dict(name="sim-" + self.name, script=script, procs=self.procs(), perturb=0.0,
                    refuseReg=self.refuse_reg, refuseInst=self.refuse_inst, **kw)


C = lambda n, m="m1", pre=False, kept=False: (n, m, pre, kept)
G = lambda n, m="m1", pre=False, unreg=True, kept=False: (n, m, pre, unreg, kept)
U = lambda n, t="t1", pre=False, kept=False: (n, t, pre, kept)

FAMILY_QUICK = [
    Cfg("m-c2-g2", creators=[C("c1", pre=True), C("c2")], registrars=[G("g1", pre=True), G("g2")]),
    Cfg("m-2inst-2meters", minst=2, creators=[C("c1", "m1", True), C("c2", "m2")], registrars=[G("g1", "m2", True)]),
    # the Set call surface: self-set before the real install, then a second real provider; a creator through a kept
    # reference to the default provider; a racing self-set / second provider from another installer
    Cfg("m-self-r1-r2", minst=[["self", "r1", "r2"]], creators=[C("c1", pre=True), C("c2", kept=True)],
        registrars=[G("g1", pre=True, unreg=False), G("g2", kept=True)]),
    Cfg("m-race-self-r2", minst=[["r1"], ["self", "r2"]], creators=[C("c1", pre=True), C("c2")]),
    Cfg("t-self-r1-r2+self", minst=0, tinst=[["self", "r1", "r2"], ["self"]], tusers=[U("u1", pre=True), U("u2", "t2"), U("u3", kept=True)]),
    Cfg("x-prop-eh+m", creators=[C("c1", pre=True)], registrars=[G("g1", pre=True, unreg=False)], xkinds=["prop", "eh"],
        xscripts={"prop": ["self", "r1"], "eh": ["r1", "r2"]}, uses=1),
    # faults during the hand-over (the delegate refuses callback g1 and instrument c1) and overlapping invocations of g2
    Cfg("m-refuse-invoke", creators=[C("c1", pre=True)],
        registrars=[G("g1", pre=True), G("g2", pre=True, unreg=False), G("g3", unreg=False)],
        refuse_reg=["g1"], refuse_inst=["c1"], invokers=[("n1", "g2"), ("n2", "g2"), ("n3", "g1")]),
    # placeholder identity (name, kind, unit, description) and meter shapes at hand-over: m1 instruments only (c1/c2 differ in
    # the unit only, c3 repeats c1's identity), m2 callbacks only (observable created on the SDK itself), m3 empty, m4 both
    Cfg("m-identity-shapes", creators=[C("c1", pre=True), C("c2", pre=True), C("c3"), C("c4", "m3")],
        registrars=[G("g1", "m2", pre=True, unreg=False), G("g2", "m4", pre=True, unreg=False)], sdkobs=["g1"], premeter=["c4"],
        ids={"c1": ("x", "f64hist", "ms", "d"), "c2": ("x", "f64hist", "s", "d"), "c3": ("x", "f64hist", "ms", "d")}),
]
IDSHAPES = FAMILY_QUICK[-1]


def variant(c, name, **kw):
    import copy
    v = copy.copy(c)
    v.name = name
    for k, val in kw.items():
        setattr(v, k, val)
    return v


# shape switches: TLC must exhibit the deviations (Contract / *Connected violated), and the repaired shape is clean
DEVIATIONS = [
    ("split-tracer", Cfg("dev-split-tracer", minst=0, tinst=1, tusers=[U("u1", pre=True), U("u2")], shape="split"), True),
    ("split-meter", Cfg("dev-split-meter", creators=[C("c1", pre=True), C("c2")], registrars=[G("g1", unreg=False)], shape="split"), True),
    ("recheck-tracer", Cfg("dev-recheck-tracer", minst=0, tinst=1, tusers=[U("u1", pre=True), U("u2"), U("u3", "t2")], shape="recheck"), False),
    ("recheck-meter", Cfg("dev-recheck-meter", creators=[C("c1", pre=True), C("c2")], registrars=[G("g1", unreg=False)], shape="recheck"), False),
    ("key-without-unit", variant(IDSHAPES, "dev-key-without-unit", key_fields=(1, 2, 4)), True),
    ("skip-empty-meter", variant(IDSHAPES, "dev-skip-empty-meter", skip_empty=True), True),
    ("shared-observer", Cfg("dev-shared-observer", registrars=[G("g1", pre=True, unreg=False)], invokers=[("n1", "g1"), ("n2", "g1")],
                            shared_obs=True), True),
]
FAMILY_THOROUGH = [
    Cfg("m-c3-g1", creators=[C("c1", pre=True), C("c2"), C("c3", "m2")], registrars=[G("g1", pre=True)], recs=2),
    Cfg("m-g3", creators=[C("c1")], registrars=[G("g1", pre=True), G("g2", pre=True), G("g3", "m2")]),
    Cfg("m-2inst-c2-g2", minst=2, creators=[C("c1", pre=True), C("c2")], registrars=[G("g1", pre=True), G("g2")]),
    Cfg("mt-mixed", creators=[C("c1", pre=True), C("c2")], registrars=[G("g1", pre=True)], tinst=1,
        tusers=[U("u1", pre=True), U("u2")]),
    Cfg("m-2scripts", minst=[["self", "r1"], ["r2", "self"]], creators=[C("c1", pre=True), C("c3", kept=True)],
        registrars=[G("g1", pre=True)]),
    Cfg("t-2scripts", minst=0, tinst=[["self", "r1", "r2"], ["r2", "self"]], tusers=[U("u1", pre=True), U("u2", "t2"), U("u3", kept=True)],
        spans=2),
]
D1_ID = "C16-D1-unregister-setdelegate-lock-order"
KNOWN_CYCLE = "(*meter).setDelegate>(*registration).setDelegate|(*registration).Unregister>(*meter).RegisterCallback.func1"
VICTIM = re.compile(r"^(\(\*meterProvider\)\.Meter|\(\*meter\)\.(Int64|Float64)\w+|\(\*meter\)\.RegisterCallback|"
                    r"\(\*registration\)\.Unregister|SetMeterProvider)$")

DIRECTED = [
    # D1 (TLC counterexample of the NoKnown config): the installer is held inside the delegate's Meter() --
    # it holds provider.mtx and meter.mtx --, Unregister takes unregMu and blocks on meter.mtx, the installer
    # goes on to registration.setDelegate and blocks on unregMu
    dict(name="D1-unregister-vs-setdelegate", script=["i1@set:1", "g1@unreg", "i1@sdk.Meter:m1"],
         procs=[dict(name="i1", kind="minst"), dict(name="g1", kind="registrar", meter="m1", pre=True, unreg=True),
                dict(name="c1", kind="creator", meter="m1", pre=True, n=1)]),
    # same window, registration made concurrently (not in the pre-phase) and a second meter
    dict(name="D1-live-registration", script=["g1@meter", "g1@inst", "g1@register", "i1@set:1", "g1@unreg", "i1@sdk.Meter:m1"],
         procs=[dict(name="i1", kind="minst"), dict(name="g1", kind="registrar", meter="m1", unreg=True, ikind="f64ogauge")]),
    # Unregister completes first: the callback must never reach the SDK
    dict(name="unregister-before-set", script=["g1@unreg", "i1@set:1", "i1@sdk.Meter:m1"],
         procs=[dict(name="i1", kind="minst"), dict(name="g1", kind="registrar", meter="m1", pre=True, unreg=True),
                dict(name="g2", kind="registrar", meter="m1", pre=True, unreg=False)]),
    # instrument + callback created while the installer is inside meter.setDelegate: must end up connected
    dict(name="create-during-install", script=["i1@set:1", "c2@meter", "g2@meter", "i1@sdk.Meter:m1", "i1@sdk.Inst:c1",
                                               "c2@sdk.Meter:m1", "g2@sdk.Meter:m1", "c2@inst", "c2@sdk.Inst:c2", "c2@rec:1"],
         procs=[dict(name="i1", kind="minst"), dict(name="c1", kind="creator", meter="m1", pre=True, n=2),
                dict(name="c2", kind="creator", meter="m1", n=2), dict(name="g2", kind="registrar", meter="m1", unreg=True)]),
    # recording while the instrument is being re-created: dropped before, delivered after, never twice
    dict(name="record-during-install", script=["i1@set:1", "c1@rec:1", "i1@sdk.Meter:m1", "c1@rec:2", "i1@sdk.Inst:c1", "c1@rec:3"],
         procs=[dict(name="i1", kind="minst"), dict(name="c1", kind="creator", meter="m1", pre=True, n=4, ikind="f64hist")]),
    # Unregister after delegation goes to the SDK's registration; a second installer waits in the once
    dict(name="unregister-after-set-2inst", script=["i1@set:1", "i2@set:1", "i1@sdk.Meter:m1", "i1@sdk.Inst:g1", "i1@sdk.Register:g1",
                                                    "g1@unreg", "g1@sdk.Unregister:g1"],
         procs=[dict(name="i1", kind="minst"), dict(name="i2", kind="minst"),
                dict(name="g1", kind="registrar", meter="m1", pre=True, unreg=True)]),
    # tracers: Tracer() during SetTracerProvider, Start around the store
    dict(name="tracer-during-install", script=["ti1@set:1", "u2@tracer", "ti1@sdk.Tracer:t1", "u1@start:1", "u2@sdk.Tracer:t1", "u2@start:1"],
         procs=[dict(name="ti1", kind="tinst"), dict(name="u1", kind="tuser", tracer="t1", pre=True, n=2),
                dict(name="u2", kind="tuser", tracer="t1", n=2)]),
    # ---- the Set call surface, sequentially (no concurrency needed; the gates only order the processes)
    # self-set, then the real install, then a second real provider: early tracers stay with r1, new Gets see r2
    dict(name="seq-tracer-self-r1-r2", script=["ti1@set:1", "ti1@set:2", "u1@start:1", "u3@tracer", "ti1@set:3", "u1@start:2", "u2@tracer", "u3@start:1"],
         procs=[dict(name="ti1", kind="tinst", script=["self", "r1", "r2"]), dict(name="u1", kind="tuser", tracer="t1", pre=True, n=2),
                dict(name="u2", kind="tuser", tracer="t2", n=1), dict(name="u3", kind="tuser", tracer="t3", kept=True, n=1)]),
    dict(name="seq-meter-self-r1-r2", script=["i1@set:1", "i1@set:2", "c1@rec:1", "c3@meter", "i1@set:3", "c1@rec:2", "c2@meter", "c3@rec:1"],
         procs=[dict(name="i1", kind="minst", script=["self", "r1", "r2"]), dict(name="c1", kind="creator", meter="m1", pre=True, n=2),
                dict(name="c2", kind="creator", meter="m2", n=1), dict(name="c3", kind="creator", meter="m1", kept=True, n=1, ikind="f64gauge"),
                dict(name="g1", kind="registrar", meter="m1", pre=True, unreg=False), dict(name="g2", kind="registrar", meter="m2", pre=True, unreg=True)]),
    dict(name="seq-self-twice-then-r2", script=["i1@set:1", "ti1@set:1", "i1@set:2", "ti1@set:2", "i1@set:3", "ti1@set:3", "c1@rec:1", "u1@start:1"],
         procs=[dict(name="i1", kind="minst", script=["self", "self", "r2"]), dict(name="ti1", kind="tinst", script=["self", "self", "r2"]),
                dict(name="c1", kind="creator", meter="m1", pre=True, n=1), dict(name="u1", kind="tuser", tracer="t1", pre=True, n=1)]),
    dict(name="seq-prop-eh-self-r1-r2", script=["xi.prop@set:1", "xi.eh@set:1", "xi.prop@set:2", "xi.eh@set:2", "xu.prop@use:1", "xu.eh@use:1",
                                                "xi.prop@set:3", "xi.eh@set:3", "xu.prop@use:2", "xu.eh@use:2"],
         procs=[dict(name="xi.prop", kind="xinst", x="prop", script=["self", "r1", "r2"]), dict(name="xi.eh", kind="xinst", x="eh", script=["self", "r1", "r2"]),
                dict(name="xu.prop", kind="xuser", x="prop", n=2), dict(name="xu.eh", kind="xuser", x="eh", n=2)]),
    # ---- faults during the hand-over: the delegate refuses the first / a later callback, an instrument
    dict(name="refuse-first-callback", refuseReg=["g1"],
         procs=[dict(name="i1", kind="minst"), dict(name="g1", kind="registrar", meter="m1", pre=True),
                dict(name="g2", kind="registrar", meter="m1", pre=True), dict(name="g3", kind="registrar", meter="m1", pre=True, unreg=True)]),
    dict(name="refuse-later-callback-and-instrument", refuseReg=["g2"], refuseInst=["c1"],
         procs=[dict(name="i1", kind="minst"), dict(name="g1", kind="registrar", meter="m1", pre=True, ikind="f64ocounter"),
                dict(name="g2", kind="registrar", meter="m1", pre=True), dict(name="g3", kind="registrar", meter="m1", pre=True),
                dict(name="c1", kind="creator", meter="m1", pre=True, n=1), dict(name="c2", kind="creator", meter="m1", pre=True, n=1),
                dict(name="c3", kind="creator", meter="m1", pre=True, n=1, ikind="i64hist")]),
    dict(name="refuse-observable-instrument", refuseInst=["g2"],
         procs=[dict(name="i1", kind="minst", script=["self", "r1"]), dict(name="g1", kind="registrar", meter="m1", pre=True),
                dict(name="g2", kind="registrar", meter="m1", pre=True, ikind="i64ogauge"), dict(name="g3", kind="registrar", meter="m2", pre=True)]),
    # ---- overlapping invocations of one callback, each with its own Observer; the callback holds between its observations
    dict(name="overlapping-invocations", script=["i1@set:1", "n1@invoke:1", "n2@invoke:1", "n1@obs:1", "n2@obs:1", "n1@obs:2", "n2@obs:2"],
         procs=[dict(name="i1", kind="minst"), dict(name="g1", kind="registrar", meter="m1", pre=True, ikind="f64ogauge"),
                dict(name="n1", kind="invoker", target="g1", n=1), dict(name="n2", kind="invoker", target="g1", n=1)]),
    dict(name="overlapping-invocations-live-registration", script=["i1@set:1", "g1@register", "n1@invoke:1", "n1@obs:1", "n2@invoke:1", "n3@invoke:1",
                                                                   "n1@obs:2", "n3@obs:1", "n2@obs:1", "n2@obs:2", "n3@obs:2"],
         procs=[dict(name="i1", kind="minst"), dict(name="g1", kind="registrar", meter="m1", kept=True),
                dict(name="n1", kind="invoker", target="g1", n=1), dict(name="n2", kind="invoker", target="g1", n=1),
                dict(name="n3", kind="invoker", target="g1", n=1)]),
    # a self-set whose Get ran before, and whose Set runs after, another installer's real install (stores the default
    # provider back: everything obtained from it keeps reaching r1)
    dict(name="race-self-around-install", script=["i1@set:1", "i2@set:1", "c2@meter", "c2@rec:1"],
         procs=[dict(name="i1", kind="minst", script=["r1"]), dict(name="i2", kind="minst", script=["self"]),
                dict(name="c1", kind="creator", meter="m1", pre=True, n=1), dict(name="c2", kind="creator", meter="m1", n=1)]),
]


SYNC_KINDS = ["i64counter", "i64updown", "i64hist", "i64gauge", "f64counter", "f64updown", "f64hist", "f64gauge"]
OBS_KINDS = ["i64ocounter", "i64oupdown", "i64ogauge", "f64ocounter", "f64oupdown", "f64ogauge"]


def identity_scenarios():
    """Placeholder identity = (name, kind, unit, description): for every one of the 14 constructors a pair of pre-install
    instruments that differ in exactly one field (unit / description), pairs that differ in the kind only, and a pair with
    identical identity. Each must be delegated as its own SDK instrument and every measurement must reach ITS instrument."""
    out = []
    for field, other in (("unit", "s"), ("desc", "other")):
        procs = [dict(name="i1", kind="minst", script=["self", "r1"])]
        for k in SYNC_KINDS + OBS_KINDS:
            a = dict(name="a_" + k, meter="m1", pre=True, ikind=k, inst="x_" + k, unit="ms", desc="d")
            a.update(dict(kind="creator", n=1) if k in SYNC_KINDS else dict(kind="registrar"))
            b = dict(a, name="b_" + k)
            b[field] = other
            procs += [a, b]
        out.append(dict(name="identity-" + field, procs=procs, perturb=0.0))
    procs = [dict(name="i1", kind="minst")]
    for i, (k1, k2) in enumerate([("i64counter", "i64updown"), ("i64hist", "f64hist"), ("f64counter", "f64gauge"), ("i64gauge", "f64updown"),
                                  ("i64ocounter", "i64oupdown"), ("i64ogauge", "f64ogauge"), ("f64ocounter", "f64oupdown")]):
        for nm, k in (("a", k1), ("b", k2)):
            p = dict(name="%s%d" % (nm, i), meter="m1", pre=(nm == "a" or i % 2 == 0), ikind=k, inst="y%d" % i, unit="1", desc="d")
            p.update(dict(kind="creator", n=1) if k in SYNC_KINDS else dict(kind="registrar"))
            procs.append(p)
    # identical identity: one instrument, both measurements on it
    procs += [dict(name="s1", kind="creator", meter="m1", pre=True, n=1, ikind="f64hist", inst="same", unit="ms", desc="d"),
              dict(name="s2", kind="creator", meter="m1", pre=True, n=1, ikind="f64hist", inst="same", unit="ms", desc="d"),
              dict(name="s3", kind="creator", meter="m2", pre=True, n=1, ikind="f64hist", inst="same", unit="ms", desc="d")]
    out.append(dict(name="identity-kind-and-same", procs=procs, perturb=0.0))
    return out


def meter_shape_scenarios():
    """What a placeholder meter holds when it is handed over: instruments only / callbacks only (observables created on the
    SDK itself) / both / nothing (instrument created through it later)."""
    return [
        dict(name="meter-shapes-sequential", perturb=0.0,
             procs=[dict(name="i1", kind="minst"), dict(name="g1", kind="registrar", meter="m1", pre=True, sdkobs=True),
                    dict(name="g2", kind="registrar", meter="m2", pre=True, sdkobs=True, unreg=True, ikind="f64ogauge"),
                    dict(name="g3", kind="registrar", meter="m3", pre=True), dict(name="c2", kind="creator", meter="m3", pre=True, n=1),
                    dict(name="c3", kind="creator", meter="m5", pre=True, n=1),
                    dict(name="c1", kind="creator", meter="m4", premeter=True, n=2, delayUs=3000),
                    dict(name="g4", kind="registrar", meter="m6", premeter=True, delayUs=3000)]),
        dict(name="meter-shapes-concurrent", perturb=0.7,
             procs=[dict(name="i1", kind="minst", script=["self", "r1", "r2"]), dict(name="g1", kind="registrar", meter="m1", pre=True, sdkobs=True),
                    dict(name="g2", kind="registrar", meter="m1", sdkobs=True, unreg=True), dict(name="g3", kind="registrar", meter="m2", sdkobs=True),
                    dict(name="c1", kind="creator", meter="m3", premeter=True, n=3), dict(name="g4", kind="registrar", meter="m3", premeter=True, unreg=True),
                    dict(name="n1", kind="invoker", target="g1", n=2), dict(name="n2", kind="invoker", target="g1", n=2)]),
    ]


def hammer_scenarios():
    """For the race detector: goroutines use the placeholder propagator (Inject / Extract / Fields), error handler, tracers and
    instruments in tight loops WITHOUT any logging (every logged event is a happens-before edge of the harness's own that
    would hide a race inside internal/global) while the installers run; a few logged users and callbacks ride along."""
    out = []
    for i, n in enumerate((3000, 6000, 1500, 4000)):
        procs = [dict(name="xi.prop", kind="xinst", x="prop", script=[["r1"], ["self", "r1", "r2"]][i % 2], delayUs=[100, 400, 50, 800][i]),
                 dict(name="xi.eh", kind="xinst", x="eh", script=[["r1"], ["r1", "r2"]][i % 2], delayUs=[300, 100, 600, 50][i]),
                 dict(name="ti1", kind="tinst", delayUs=[200, 700, 100, 300][i]), dict(name="i1", kind="minst", delayUs=[400, 200, 900, 100][i])]
        for j in range(3):
            procs += [dict(name="xq%d.prop" % j, kind="xuser", x="prop", n=n, quiet=True), dict(name="xq%d.eh" % j, kind="xuser", x="eh", n=n, quiet=True),
                      dict(name="uq%d" % j, kind="tuser", tracer="t1", pre=True, n=n // 4, quiet=True),
                      dict(name="cq%d" % j, kind="creator", meter="m1", pre=True, n=n // 2, quiet=True, ikind=["f64hist", "i64counter", "i64gauge"][j])]
        procs += [dict(name="xu.prop", kind="xuser", x="prop", n=20, fresh=True), dict(name="xu.eh", kind="xuser", x="eh", n=20),
                  dict(name="u1", kind="tuser", tracer="t1", pre=True, n=20), dict(name="u2", kind="tuser", tracer="t1", n=10),
                  dict(name="c1", kind="creator", meter="m1", pre=True, n=20), dict(name="c2", kind="creator", meter="m1", n=10),
                  dict(name="g1", kind="registrar", meter="m1", pre=True, unreg=(i % 2 == 1)), dict(name="g2", kind="registrar", meter="m1", unreg=True),
                  dict(name="k1", kind="collector", n=3), dict(name="k2", kind="collector", n=3),
                  dict(name="n1", kind="invoker", target="g1", n=2), dict(name="n2", kind="invoker", target="g1", n=2)]
        out.append(dict(name="hammer-%d" % n, perturb=[0.0, 0.3][i % 2], procs=procs))
    return out


def classify(v):
    """violation record of the contract monitor -> small flat signature"""
    k = v["kind"]
    if k == "deadlock":
        sites = sorted(set(v["sites"].split("|")))
        cyc = KNOWN_CYCLE.split("|")
        if all(c in sites for c in cyc):
            rest = [s for s in sites if s not in cyc and not VICTIM.match(s)]
            return {"kind": "deadlock", "cycle": KNOWN_CYCLE, "extra": "|".join(rest)}
        core = [s for s in sites if not VICTIM.match(s)] or sites   # goroutines merely queued behind the cycle are left out
        return {"kind": "deadlock", "cycle": "|".join(core), "extra": ""}
    sig = {"kind": k}
    for f in ("sig", "class", "via", "what"):
        if f in v:
            sig[f] = v[f]
    return sig


def run(ctx):
    thorough = ctx.tier == "thorough"
    binp = ctx.go_build("c16")
    handles_stage(ctx, binp, thorough)    # behaviour class MIXED HANDLES (GlobalHandles.tla), see the end of this file
    # ------------------------------------------------------------ exhaustive model checking
    fam = FAMILY_QUICK + (FAMILY_THOROUGH if thorough else [])
    # which code is modelled: D1 is in the tree as long as its known-findings entry says "known"; once the coordinator
    # has applied the repair (entry flipped to "fixed") the main family is the Patched model and admits no deadlock
    d1_open = any(k.get("id") == D1_ID and k.get("status") == "known" for k in ctx._known)
    ctx.extra["model_variant"] = "as-is (D1 admitted)" if d1_open else "patched (no deviation admitted)"
    seen, taken = set(), set()

    def cover(r):   # TLC lists an action only where its process set is non-empty: union over the runs
        for ln in open(r["out"], errors="replace"):
            m = re.match(r"<(\w+) line .* of module GlobalDelegate>: (\d+):(\d+)$", ln.strip())
            if m and m.group(1) not in ("Init", "Next"):
                seen.add(m.group(1))
                if int(m.group(2)) > 0:
                    taken.add(m.group(1))
    for c in fam:
        cover(ctx.tlc(S, "MC_GlobalDelegate", "MC_GlobalDelegate.cfg", defines=c.defines(patched=not d1_open, known=d1_open),
                      name="mc-" + c.name, timeout=3000, coverage=True))
    base = FAMILY_QUICK[0]
    # TLC must find the known deadlock in the model of the unpatched code when it is not admitted
    r = ctx.tlc(S, "MC_GlobalDelegate", "MC_GlobalDelegate_NoKnown.cfg", defines=base.defines(known=False), name="mc-noknown",
                must_pass=False, count=False, timeout=900)
    ctx.extra["noknown_violates"] = r["violated"]
    if r["violated"] != "Stuck":
        ctx.note_inconclusive("model drift: TLC does not find the D1 deadlock with AllowKnown=FALSE (%s)" % r["out"])
    dev = {}
    for label, c, must_violate in DEVIATIONS:
        r = ctx.tlc(S, "MC_GlobalDelegate", "MC_GlobalDelegate.cfg", defines=c.defines(patched=True, known=False),
                    name="mc-" + c.name, must_pass=not must_violate, count=not must_violate, timeout=900, coverage=not must_violate)
        if not must_violate:
            cover(r)
        dev[label] = r["violated"]
        if must_violate and r["violated"] not in ("Contract", "InstConnected", "TracerConnected", "CallbackConnected"):
            ctx.note_inconclusive("model drift: TLC does not exhibit the %s deviation (%s)" % (label, r["out"]))
    ctx.extra["deviation_shapes_violate"] = dev
    never = sorted(seen - taken)
    ctx.extra["actions_never_taken_in_family"] = never
    ctx.extra["actions_covered"] = len(taken)
    if never or len(taken) < 40:
        ctx.note_inconclusive("vacuity: actions never taken in any configuration: %s (%d taken)" % (never, len(taken)))
    # the proposed repair, re-modelled (Patched): no deadlock at all, no double / missed registration, termination
    # (while D1 is open; afterwards the main family above already is the Patched model)
    for c in (([base, FAMILY_QUICK[1]] + (FAMILY_THOROUGH[:3] if thorough else [])) if d1_open else []):
        ctx.tlc(S, "MC_GlobalDelegate", "MC_GlobalDelegate.cfg", defines=c.defines(patched=True, known=False),
                name="mc-patched-" + c.name, timeout=3000)
    ctx.tlc(S, "MC_GlobalDelegate", "MC_GlobalDelegate_live.cfg", defines=base.defines(patched=True, known=False),
            name="live-patched-" + base.name, timeout=3000)
    # liveness of the code as it is wherever D1 cannot occur (nobody unregisters a global registration), tracers, simple
    live = [Cfg("m-nounreg", minst=[["self", "r1"]], creators=[C("c1", pre=True), C("c2")],
                registrars=[G("g1", pre=True, unreg=False), G("g2", unreg=False)]),
            Cfg("t-u2", minst=0, tinst=[["self", "r1"], ["r2"]], tusers=[U("u1", pre=True), U("u2")], spans=2),
            Cfg("x-prop-eh", minst=0, xkinds=["prop", "eh"], xscripts={"prop": ["self", "r1", "r2"], "eh": ["self", "r1"]}, uses=2)]
    if thorough:
        live += [FAMILY_QUICK[4], FAMILY_QUICK[5],
                 Cfg("m-nounreg-2inst", minst=[["r1"], ["self", "r2"]], creators=[C("c1", pre=True), C("c2", "m2")],
                     registrars=[G("g1", pre=True, unreg=False), G("g2", "m2", unreg=False)])]
    for c in live:
        ctx.tlc(S, "MC_GlobalDelegate", "MC_GlobalDelegate_live.cfg", defines=c.defines(patched=not d1_open, known=False),
                name="live-" + c.name, timeout=3000)

    # ------------------------------------------------------------ spec -> code: behaviours as gate scripts
    scenarios = []
    sims = [FAMILY_QUICK[0], FAMILY_QUICK[1], FAMILY_QUICK[2], FAMILY_QUICK[4], FAMILY_QUICK[6], FAMILY_QUICK[7],
            Cfg("s-mt", minst=[["self", "r1"]], creators=[C("c1", pre=True), C("c2", "m2")],
                registrars=[G("g1", pre=True), G("g2", "m2")], tinst=[["r1", "r2"]],
                tusers=[U("u1", pre=True), U("u2")], recs=2, spans=2)]
    if thorough:
        sims += FAMILY_THOROUGH[:2] + FAMILY_THOROUGH[4:] + [FAMILY_QUICK[3], FAMILY_QUICK[5]]
    nsim = 250 if thorough else 18
    seen = set()
    stuck_beh = 0
    for c in sims:
        r = ctx.tlc(S, "MC_GlobalDelegateSim", "MC_GlobalDelegateSim.cfg", defines=c.defines(patched=not d1_open), workers=1,
                    simulate="num=%d" % nsim, depth=400, name="sim-" + c.name, timeout=1800)
        for s in r["prints"]:
            if isinstance(s, str) and s.startswith("BEHAVIOUR ") and s not in seen:
                seen.add(s)
                b = json.loads(s[len("BEHAVIOUR "):])
                stuck_beh += 0 if b["alldone"] else 1
                scenarios.append(c.scenario(b["script"], model=dict(alldone=b["alldone"], stuck=b["stuck"])))
    nbeh = len(scenarios)
    for d in DIRECTED:
        for rep in range(4 if thorough else 2):
            scenarios.append(dict(d, perturb=0.0))
    # windows without any call-out (no gate possible): Meter() / Tracer() with 10k-50k scope attributes -- the config
    # computation inside internal/global takes tens of ms -- started together with an installer that is delayed a little
    nslow = 0
    for rep_ in range(4 if thorough else 1):
        for slow, delay in ((10000, 500), (20000, 1500), (30000, 3000), (50000, 1000), (30000, 500), (50000, 5000), (20000, 300)):
            nslow += 2
            scenarios.append(dict(name="slow-tracer-race", perturb=0.0,
                                  procs=[dict(name="ti1", kind="tinst", delayUs=delay), dict(name="u1", kind="tuser", tracer="t1", slow=slow, n=1),
                                         dict(name="u2", kind="tuser", tracer="t2", pre=True, n=1)]))
            scenarios.append(dict(name="slow-meter-race", perturb=0.0,
                                  procs=[dict(name="i1", kind="minst", delayUs=delay), dict(name="c1", kind="creator", meter="m1", slow=slow, n=1),
                                         dict(name="g1", kind="registrar", meter="m2", slow=slow, unreg=False),
                                         dict(name="c2", kind="creator", meter="m3", pre=True, n=1)]))
    special = identity_scenarios() + meter_shape_scenarios()
    scenarios += special
    nslow += len(special)
    ctx.extra["slow_config_race_scenarios"] = nslow - len(special)
    ctx.extra["identity_and_meter_shape_scenarios"] = len(special)
    nrand = 3000 if thorough else 140
    sfile = os.path.join(ctx.work, "scenarios.json")
    json.dump(scenarios, open(sfile, "w"))
    tf = os.path.join(ctx.work, "trace.ndjson")
    rf = os.path.join(ctx.work, "res.json")
    par = max(4, min(12, (os.cpu_count() or 8) // 2))
    ctx.run([binp, "batch", "-in", sfile, "-out", tf, "-res", rf, "-par", str(par), "-random", str(nrand)], timeout=6000)
    res = json.load(open(rf))
    side = json.load(open(rf + ".side.json"))
    judge(ctx, tf, res, side, "main")
    ctx.extra["counters"] = res["counters"]
    ctx.extra["tlc_behaviours_replayed"] = nbeh
    ctx.extra["tlc_behaviours_ending_in_model_deadlock"] = stuck_beh
    ctx.extra["directed_schedules"] = len(scenarios) - nbeh - nslow
    ctx.extra["random_scenarios"] = nrand
    ctx.add_samples([{"behaviour_script": scenarios[0]["script"][:40]}] if scenarios else [])
    ctx.add_samples(res["samples"][:1])
    ctx.traces_validated += res["executed"]
    ctx.evaluations += res["executed"]
    # binding check: the model's deadlocking behaviours must deadlock the real code somewhere (or the tree is repaired,
    # in which case the known finding is simply not hit and TLC's NoKnown result is model-only)
    # ------------------------------------------------------------ auxiliary: the same schedules under the race detector
    if True:
        try:
            rbin = ctx.go_build("c16", race=True)
        except Exception as e:  # no cgo toolchain: stated, not a verdict
            rbin = None
            ctx.assumptions.append("race detector build unavailable: %s" % str(e)[:200])
        if rbin:
            # quick: the hammer scenarios only; thorough: also a rerun of the replayed / directed schedules and random ones
            sub = hammer_scenarios() * (3 if thorough else 1)
            if thorough:
                sub += [s for s in scenarios if not (s.get("model") or {}).get("stuck")][:150] + [dict(d, perturb=0.0) for d in DIRECTED]
            sfile2 = os.path.join(ctx.work, "scenarios-race.json")
            json.dump(sub, open(sfile2, "w"))
            tf2, rf2 = os.path.join(ctx.work, "trace-race.ndjson"), os.path.join(ctx.work, "res-race.json")
            ctx.run([rbin, "batch", "-in", sfile2, "-out", tf2, "-res", rf2, "-par", str(par), "-random", "300" if thorough else "0"], timeout=6000,
                    env={"GORACE": "halt_on_error=1"})
            res2 = json.load(open(rf2))
            side2 = json.load(open(rf2 + ".side.json"))
            judge(ctx, tf2, res2, side2, "race")
            ctx.extra["race_counters"] = res2["counters"]
            ctx.traces_validated += res2["executed"]
    ctx.exhaustive = False
    ctx.assumptions += [
        "lock acquisitions inside internal/global are not gated (no hooks): a TLC behaviour is replayed up to the order of "
        "gate passages (harness gates before calls, delegate-SDK methods called under the package's locks)",
        "a blocked scenario counts as a deadlock only if a stop-the-world goroutine dump shows every unfinished scenario "
        "goroutine parked in sync.Mutex.Lock inside internal/global (twice in a row); anything else blocked is inconclusive",
        "data-race freedom is not model checking: it is monitored with the race detector (quick: hammer scenarios that use the placeholder "
        "propagator / error handler / tracers / instruments / callbacks while the installers run; thorough: also the replayed schedules)",
        "Meter()/Tracer() check-then-insert windows contain no call-out and cannot be gated: they are widened with 10k-50k scope "
        "attributes and hit by volume (slow-*-race scenarios); a hand-over that keeps re-submitting a refused item is cut off "
        "after three recorded submissions (the contract clause refused-item-resubmitted is the verdict, not the time-out)",
    ]


def judge(ctx, tf, res, side, label):
    viols, accepted = ctx.validate_trace(S, "Trace_GlobalDelegate", "Trace_GlobalDelegate.cfg", tf, name="trace-" + label, timeout=3000)
    ctx.extra["trace_lines_" + label] = accepted
    kinds = ctx.extra.setdefault("violation_kinds_seen", {})
    lines = None
    for v in viols:
        kind = v["v"]["kind"]
        kinds[kind] = kinds.get(kind, 0) + 1
        if lines is None:
            lines = open(tf).read().splitlines()
        scen = [json.loads(ln) for ln in lines if '"sc":%d,' % v["sc"] in ln or '"sc":%d}' % v["sc"] in ln]
        scen = [e for e in scen if e.get("sc") == v["sc"]]
        sig = classify(v["v"])
        sig["source"] = label
        sc = side["scenarios"][v["sc"]] if v["sc"] < len(side["scenarios"]) else {}
        if kind == "deadlock" and sig.get("cycle") == KNOWN_CYCLE and not dump_shows_cycle(side["dumps"].get(str(v["sc"]))):
            # the dump is attached for at most a dozen scenarios; when it is there it must show the two lock sites
            if str(v["sc"]) in side["dumps"]:
                ctx.note_inconclusive("scenario %d blocked but the dump does not show the lock cycle" % v["sc"])
                continue
        ctx.violation(sig, replay={"violation": v, "scenario": sc, "events": scen[-300:],
                                   "goroutine_dump": side["dumps"].get(str(v["sc"]), "(dump kept for the first 12 blocked scenarios only)")})
    c = res["counters"]
    if c.get("scenarios_blocked_unproven"):
        ctx.note_inconclusive("%d scenario(s) did not finish within the bound and the goroutine dump does not prove a lock "
                              "cycle (machine load?) [%s]" % (c["scenarios_blocked_unproven"], label))
    for cr in side["crashes"]:
        d = cr.get("detail", "")
        tops = race_tops(d)
        if "DATA RACE" in d and any("otel/internal/global." in t for t in tops):
            short = sorted(set(t.split("otel/internal/global.")[-1] if "otel/internal/global." in t else t.split("/")[-1] for t in tops))
            ctx.violation({"kind": "data-race", "where": "|".join(short[:2]), "source": label},
                          replay={"scenario": cr.get("scenario"), "race_report": d})
        elif "panic:" in d and "otel/internal/global." in d:
            ctx.violation({"kind": "panic-crash", "source": label}, replay={"scenario": cr.get("scenario"), "stderr": d})
        else:
            ctx.note_inconclusive("child %s (%s) %s: %s" % (cr.get("sc"), cr.get("name"), cr.get("status"), d[:300]))


def race_tops(report):
    """the top function of each of the two conflicting accesses of the first race report"""
    tops = []
    lines = report.splitlines()
    for i, ln in enumerate(lines):
        if re.match(r"^(Read|Write|Previous read|Previous write|Atomic \w+|Previous atomic \w+) at 0x\w+ by ", ln.strip()) and i + 1 < len(lines):
            tops.append(re.sub(r"\([^()]*\)$", "", lines[i + 1].strip()))
        if len(tops) == 2:
            break
    return tops


def dump_shows_cycle(d):
    if not d:
        return False
    return ("global.(*registration).setDelegate" in d and "global.(*meter).RegisterCallback.func1" in d
            and "sync.(*Mutex).lockSlow" in d)


# ---------------------------------------------------------------------------------------------------------------
# Behaviour class MIXED HANDLES (specs/GlobalDelegate/GlobalHandles.tla, harness/c16/handles.go): histories
# pre-install .. SetMeterProvider .. post-install over one scope; meters "old" (obtained before) / "new" (after),
# instrument handles "ph" (before) / "nat" (same identity, after), registrations [meter, list, body] made before or
# after the installation through either meter, Unregister, Add through either handle. The expectation of every
# case is the `exp` component TLC computed for the successor state.
H_SIM_SHAPES = ('AllShapes({"a"}) \\cup AllShapes({"b"}) \\cup {'
                '[list |-> {<<"a","nat">>,<<"c","ph">>}, body |-> {<<"a","ph">>,<<"c","ph">>}], '
                '[list |-> {<<"a","ph">>,<<"b","nat">>,<<"c","nat">>}, body |-> {<<"a","nat">>,<<"b","ph">>,<<"c","ph">>,<<"c","nat">>}], '
                '[list |-> {<<"c","nat">>}, body |-> {<<"c","ph">>}], [list |-> {<<"c","ph">>}, body |-> {<<"c","nat">>}]}')


def hdefs(obs, sync, shapes, regs, adds, steps, wrap="always", unwrap=True, unreg="sdk"):
    return {"OBSIDS": tset(obs), "SYNCIDS": tset(sync), "SHAPES": shapes, "MAXREGS": regs, "MAXADDS": adds, "MAXSTEPS": steps,
            "WRAP": '"%s"' % wrap, "UNWRAPLIST": "TRUE" if unwrap else "FALSE", "UNREGPOST": '"%s"' % unreg}


def handles_stage(ctx, binp, thorough):
    one = 'AllShapes({"a"})'
    fam = [("h-a-s-2regs", hdefs(["a"], ["s"], one, 2, 2, 8 if thorough else 7)),
           ("h-ab-1reg", hdefs(["a", "b"], [], 'AllShapes({"a", "b"})', 1, 1, 8 if thorough else 7))]
    if thorough:
        fam.append(("h-a-st-3regs", hdefs(["a"], ["s", "t"], one, 3, 1, 7)))    # 59 081 edges (8 steps: 219 145, 330 MB of edges)
    edges = []
    for name, d in fam:
        r = ctx.tlc(S, "MC_GlobalHandles", "MC_GlobalHandles.cfg", defines=d, want_edges=True, name="mc-" + name, timeout=1800, heap="2g")
        edges.append(r["edges_file"])
    # shape switches: TLC must exhibit each deviation of the class on the model (Forwarding violated)
    devs = [("wrap-only-if-placeholder-listed", dict(wrap="if-ph-listed")), ("list-not-unwrapped", dict(unwrap=False)),
            ("post-install-unregister-noop", dict(unreg="noop"))] + ([("wrap-only-at-handover", dict(wrap="handover-only"))] if thorough else [])
    seen = {}
    for label, kw in devs:
        r = ctx.tlc(S, "MC_GlobalHandles", "MC_GlobalHandles.cfg", defines=hdefs(["a"], [], one, 1, 1, 5, **kw), workers=1,
                    name="mc-hdev-" + label, must_pass=False, count=False, timeout=600, heap="2g")
        seen[label] = r["violated"]
        if r["violated"] != "Forwarding":
            ctx.note_inconclusive("model drift: TLC does not exhibit the handle-class deviation %s (%s)" % (label, r["out"]))
    ctx.extra["handles_deviation_shapes_violate"] = seen
    # long seeded histories (three observable identities, two synchronous ones, four registrations)
    r = ctx.tlc(S, "MC_GlobalHandlesSim", "MC_GlobalHandlesSim.cfg", defines=hdefs(["a", "b", "c"], ["s", "t"], H_SIM_SHAPES, 4, 3, 16),
                workers=1, simulate="num=%d" % (1500 if thorough else 80), depth=60, name="sim-handles", timeout=1800, heap="2g")
    wf = os.path.join(ctx.work, "handles-walks.ndjson")
    with open(wf, "w") as f:
        for s_ in r["prints"]:
            if isinstance(s_, str) and s_.startswith("BEHAVIOUR "):
                f.write(s_[len("BEHAVIOUR "):] + "\n")
    rf = os.path.join(ctx.work, "res-handles.json")
    par = max(4, min(12, (os.cpu_count() or 8) // 2))
    ctx.run([binp, "hbatch", "-edges", ",".join(edges), "-walks", wf, "-res", rf, "-par", str(par), "-lanes", "25"], timeout=3000)
    res = json.load(open(rf))
    ctx.extra["handles_counters"] = res["counters"]
    ctx.traces_validated += res["executed"]
    ctx.evaluations += res["executed"]
    for msg in res["inconclusive"]:
        ctx.note_inconclusive("handles: " + msg)
    c = res["counters"]
    if res["executed"] < 0.98 * c.get("cases", 0) or not c.get("cases_observing_through_other_handle_than_listed") or not c.get("cases_walk"):
        ctx.note_inconclusive("handles: vacuity (executed %d of %d cases, counters %s)" % (res["executed"], c.get("cases", 0), c))
    for m in res["mismatches"]:
        sig = dict(m["case"])
        sig["source"] = "handles"
        ctx.violation(sig, replay={"history": m.get("path"), "act": m.get("act"), "want": m.get("want"), "got": m.get("got"), "detail": m.get("detail")})
