"""C02, behaviour class "the VALUE domain of measurements" (stage of checks/c02.py).

The concurrent machinery of C02 decides WHICH measurements a report contains; every measurement there is a positive
power of 4 (negative only on up-down counters).  This stage decides what the reports ADD UP TO when the values are
negative / zero / positive, on monotonic and non-monotonic sums, int64 and float64, small / large / non-integral
magnitudes, recorded synchronously or observed by a callback, for delta and cumulative, manual and periodic readers.

model      : MetricValue.tla -- the mechanism (per reader pipeline: valueMap entry, delta clear, precomputedSum.reported)
             next to the statement (MetricValueContract: sum of the measurements recorded, what each reader has reported);
             TLC explores every history of Add(stream, c*4^k), c in {-1,0,1}, Back(stream) (= Add(-total): the total returns
             to exactly zero) and Collect(reader) for small constants, checks
             that the mechanism refines the statement (`Conserved`) and the statement's corollary `MonoOK` (no decrease on
             non-negative inputs), and prints every edge.  Deliberately wrong mechanisms (negative increments of a monotonic
             sum dropped, a negative delta of a monotonic sum clamped to 0, a decreasing observable counter treated as a reset,
             an observed total of exactly 0 treated as "nothing observed")
             must be found by TLC.
spec->code : every Collect edge (BFS path to its source state + the collection) is replayed on the real SDK under every
             concretisation (int64 x {1, 2^33}, float64 x {1, 2^-20, 2^600}, manual Collect / periodic ForceFlush) and the
             reported sums are compared with the edge's `out`, the statement's answer computed by TLC.
code->spec : seeded random histories (1-3 instruments of every kind / number type / scale, 1-3 attribute sets, 1-3 readers,
             mostly-positive / mixed / mostly-negative regimes, zero increments, ForceFlush and the final collection of
             Shutdown as collection points) are validated line by line by Trace_MetricValue.tla (same operators).
"""
import json
import os
from concurrent.futures import ThreadPoolExecutor

S = "MetricSum"


def q(s):
    return '"%s"' % s


def fn(d, val):
    return "(" + " @@ ".join("%s :> %s" % (q(k), val(v)) for k, v in d.items()) + ")"


def cfg(name, streams, readers, maxn, maxsteps, signs=(-1, 0, 1)):
    """streams: {key: (inst kind, instrument name, attr)}; readers: [(name, temp)] in registration order"""
    return dict(name=name, streams=streams, readers=readers, maxn=maxn, maxsteps=maxsteps, signs=signs)


def defines(c, variant="ok"):
    return {"SK": fn(c["streams"], lambda s: '[inst |-> "%s"]' % s[0]),
            "RD": fn(dict(c["readers"]), q),
            "SIGNS": "{" + ", ".join(str(x) for x in c["signs"]) + "}",
            "MAXN": c["maxn"], "MAXSTEPS": c["maxsteps"], "VARIANT": variant}


def harness_cfg(c):
    return {"name": c["name"], "sk": {k: {"inst": s[0], "name": s[1], "attr": s[2]} for k, s in c["streams"].items()},
            "rd": {r: {"temp": t} for r, t in c["readers"]}, "rorder": [r for r, _ in c["readers"]]}


DC = [("r1", "delta"), ("r2", "cumulative")]
FAMILY = [
    # one stream of each instrument kind, a delta and a cumulative reader: every history of <= 4 measurements in {-4^k, 0, 4^k}
    cfg("v-counter", {"k1": ("counter", "VInst1", 1)}, DC, 4, 7),
    cfg("v-updown", {"k1": ("updown", "VInst1", 1)}, DC, 4, 7),
    cfg("v-ocounter", {"k1": ("ocounter", "VInst1", 1)}, DC, 4, 7),
    cfg("v-oupdown", {"k1": ("oupdown", "VInst1", 1)}, DC, 4, 7),
    # two attribute sets of one counter, two delta readers (each reader sees every measurement; the sets do not mix)
    cfg("v-counter-2sets-dd", {"k1": ("counter", "VInst1", 1), "k2": ("counter", "VInst1", 2)}, [("r1", "delta"), ("r2", "delta")], 2, 6),
    # a synchronous counter next to an observable up-down counter
    cfg("v-counter+oupdown", {"k1": ("counter", "VInst1", 1), "k2": ("oupdown", "VInst2", 1)}, DC, 2, 6),
]
FAMILY_THOROUGH = [
    cfg("v-counter-n5", {"k1": ("counter", "VInst1", 1)}, DC, 5, 9),
    cfg("v-ocounter-n5", {"k1": ("ocounter", "VInst1", 1)}, DC, 5, 9),
    cfg("v-updown+ocounter-cd", {"k1": ("updown", "VInst1", 1), "k2": ("ocounter", "VInst2", 1)},
        [("r1", "cumulative"), ("r2", "delta")], 3, 7),
]
# wrong mechanisms TLC must find (guards against a vacuous `Conserved`): variant -> configuration
BROKEN = {"dropneg": "v-counter", "clampdelta": "v-counter", "resetobs": "v-ocounter", "zeroobs": "v-oupdown"}


def vclass(v):
    c = [k for k in ("neg", "zero", "pos", "back") if v.get(k)]
    return "+".join(c) if c else "none"


def stage(ctx, binp):
    thorough = ctx.tier == "thorough"
    fam = FAMILY + (FAMILY_THOROUGH if thorough else [])
    byname = {c["name"]: c for c in fam}

    def explore(c):
        return ctx.tlc(S, "MC_MetricValue", "MC_MetricValue.cfg", defines=defines(c), want_edges=True, name="mv-" + c["name"],
                       timeout=1800, heap="2g", count=False)

    def broken(variant):
        return ctx.tlc(S, "MC_MetricValue", "MC_MetricValue.cfg", defines=defines(byname[BROKEN[variant]], variant),
                       name="mv-broken-" + variant, must_pass=False, count=False, timeout=600, heap="1g", workers=1)

    with ThreadPoolExecutor(max_workers=4) as ex:
        fut = [(c, ex.submit(explore, c)) for c in fam]
        futb = {v: ex.submit(broken, v) for v in BROKEN}
        # Add(0) never shows in a sum: a mechanism that skips zero increments is equivalent (must NOT be reported)
        futz = ex.submit(lambda: ctx.tlc(S, "MC_MetricValue", "MC_MetricValue.cfg", defines=defines(byname["v-counter"], "zeroskip"),
                                         name="mv-equivalent-zeroskip", count=False, timeout=600, heap="1g", workers=1)) if thorough else None
        runs = [(c, f.result()) for c, f in fut]
        found = {v: f.result()["violated"] for v, f in futb.items()}
        if futz:
            futz.result()
    for v, got in found.items():
        if got != "Conserved":
            ctx.note_inconclusive("model drift: TLC does not find the wrong value mechanism %s (%s)" % (v, got))
    ctx.extra["value_broken_variants_found_by_tlc"] = found
    counters = {}
    edges = 0
    sizes = {}
    for c, r in runs:
        ctx.states += r["distinct"]
        ctx.transitions += r["generated"]
        sizes[c["name"]] = [r["distinct"], r.get("edges", 0)]
        rf = os.path.join(ctx.work, "res-values-%s.json" % c["name"])
        ctx.run([binp, "values", "replay", "-edges", r["edges_file"], "-cfg", json.dumps(harness_cfg(c)), "-res", rf], timeout=1800)
        res = json.load(open(rf))
        edges += res["executed"]
        for k, v in res["counters"].items():
            counters[k] = counters.get(k, 0) + v
        for msg in res["inconclusive"][:3]:
            ctx.note_inconclusive(msg)
        for m in res["mismatches"]:
            ctx.violation(m["case"], replay=m)
    ctx.extra["value_model_sizes"] = sizes
    ctx.traces_validated += edges

    # ---- code -> spec
    n = 4000 if thorough else 400
    tf = os.path.join(ctx.work, "trace-values.ndjson")
    rf = os.path.join(ctx.work, "res-values-random.json")
    ctx.run([binp, "values", "random", "-n", str(n), "-out", tf, "-res", rf], timeout=1800)
    res = json.load(open(rf))
    for k, v in res["counters"].items():
        counters[k] = counters.get(k, 0) + v
    for msg in res["inconclusive"][:3]:
        ctx.note_inconclusive(msg)
    viols, accepted = ctx.validate_trace(S, "Trace_MetricValue", "Trace_MetricValue.cfg", tf, name="trace-values", timeout=1800)
    lines = None
    for v in viols:
        vv = v.get("v", {})
        sig = {"stage": "values", "dir": "code->spec", "kind": vv.get("kind", "?"), "vclass": vclass(vv)}
        for k in ("inst", "num", "scale", "temp", "rkind"):
            if k in vv:
                sig[k] = vv[k]
        if lines is None:
            lines = open(tf).read().splitlines()
        scen = []
        for ln in lines[:v["line"]][::-1]:
            rec = json.loads(ln)
            scen.append(rec)
            if rec.get("ev") == "Cfg":
                break
        scen.reverse()
        ctx.violation(sig, replay={"violation": v, "trace_file": tf, "events": scen[-200:]})
    ctx.traces_validated += res["executed"]
    ctx.evaluations += accepted
    # binding self-test: one reported value of the recorded trace changed by one unit must be rejected
    out, done = [], False
    for ln in open(tf):
        if not done and '"ev":"Collect"' in ln:
            rec = json.loads(ln)
            nz = [k for k, x in rec["got"].items() if x != 0 and k not in rec["bad"]]
            if nz:
                rec["got"][nz[0]] += 1
                ln = json.dumps(rec, separators=(",", ":")) + "\n"
                done = True
        out.append(ln)
    cf = os.path.join(ctx.work, "trace-values-corrupt.ndjson")
    open(cf, "w").writelines(out)
    cv, _ = ctx.validate_trace(S, "Trace_MetricValue", "Trace_MetricValue.cfg", cf, name="trace-values-corrupt", timeout=600)
    got = sorted({x.get("v", {}).get("kind") for x in cv})
    ctx.extra["selftest_corrupt_value"] = got
    if not done or not ({"sum-mismatch", "monotonic-decreased"} & set(got)):
        ctx.note_inconclusive("binding self-test: a corrupted reported value was not rejected (got %s)" % got)
    # vacuity: every value class on every instrument kind, every kind of collection point
    need = ["replay_adds_neg", "replay_adds_zero", "replay_adds_pos", "replay_adds_back_to_zero", "replay_worlds"]
    need += ["random_adds_back_to_zero_%s" % i for i in ("counter", "updown", "ocounter", "oupdown")]
    need += ["random_adds_%s_%s" % (i, c) for i in ("counter", "updown", "ocounter", "oupdown") for c in ("neg", "zero", "pos")]
    need += ["random_collections_%s_%s" % (t, via) for t in ("delta", "cumulative") for via in ("Collect", "FF", "SD")]
    missing = [k for k in need if counters.get(k, 0) == 0]
    if missing:
        ctx.note_inconclusive("value stage did not reach: %s" % missing)
    ctx.extra["value_counters"] = counters
    ctx.extra["value_edges_replayed"] = edges
    ctx.extra["value_random_scenarios"] = res["executed"]
    ctx.assumptions += [
        "value classes: measurements are c*4^k*scale, c in {-1,0,1}, scale a power of two (int64: 1, 2^33; float64: 1, 2^-20, 2^600), "
        "so every sum is exact in the number type; sums that are not representable (int64 wrap-around, float64 rounding) are outside "
        "the statement and not driven; a stream without a data point counts as 0",
    ]
