"""C14 -- OTLP export retries only retryable failures, honours throttling and deadlines.

model      : OtlpRetry.tla (one export call; the environment picks the collector's outcome for every
             attempt, advances a discrete clock, cancels / shuts down at any point; client loop shaped like
             retry.RequestFunc) explored exhaustively by TLC with the contract monitor running along
             (Inv: no clause broken); seeded deviations must be noticed by the monitor (non-vacuity).
spec->code : every terminal behaviour TLC prints is a SCRIPT for the loopback collector of harness/c14
             (what to serve for attempt n, where to cancel / shut down) plus the model's prediction;
             a seeded covering sample (thorough: far more) is executed on the six real exporters.
code->spec : every real execution (replayed scripts, directed cases, seeded random scripts/configs beyond the
             TLC bounds) is recorded as ndjson and judged by TLC against the total contract monitor
             OtlpRetryContract.tla via Trace_OtlpRetry.tla (hard clauses: zero tolerance lower bounds and
             logic; soft clauses: upper bounds, believed only when reproduced in sequential re-runs).
"""
import json
import os
import random

S = "OtlpRetry"
EXPS = {"http": ["tracehttp", "metrichttp", "loghttp"], "grpc": ["tracegrpc", "metricgrpc", "loggrpc"]}

# concretization of the representative codes used in the TLC alphabets (reviewed against the OTLP
# specification; the contract re-classifies the concrete code itself, so a wrong row shows up as a mismatch)
HTTP_RETRYABLE = [429, 502, 503, 504]
HTTP_FINAL = [400, 401, 403, 404, 405, 408, 409, 413, 415, 422, 431, 500, 501, 505, 507]
HTTP_OK = [200, 200, 202, 204]
GRPC_RETRYABLE = [1, 4, 10, 11, 14, 15]
GRPC_FINAL = [2, 3, 5, 6, 7, 9, 12, 13, 16]


def O(kind="status", code=0, partial=False, ri=False, thr=0, slow=0):
    return '[kind |-> "%s", code |-> %d, partial |-> %s, ri |-> %s, thr |-> %d, slow |-> %d]' % (
        kind, code, "TRUE" if partial else "FALSE", "TRUE" if ri else "FALSE", thr, slow)


def tset(xs):
    return "{" + ", ".join(xs) + "}"


ALPHA = {
    "http": [O(code=200), O(code=200, partial=True), O(code=429), O(code=503, thr=1), O(code=429, thr=2), O(code=400),
             O(kind="tmpnet"), O(kind="close"), O(code=504, slow=1)],
    "grpc": [O(code=0), O(code=0, partial=True), O(code=14), O(code=14, ri=True, thr=1), O(code=8, ri=True, thr=2), O(code=8),
             O(code=3), O(code=4, slow=1)],
}
# every status code of interest once (first attempt) / twice
CODES = {
    "http": [O(code=c) for c in (200, 202, 204, 400, 401, 403, 404, 408, 413, 429, 500, 501, 502, 503, 504, 505)]
            + [O(code=c, thr=1) for c in (429, 502, 503, 504, 400, 500)] + [O(code=200, partial=True)],
    "grpc": [O(code=c) for c in range(17)] + [O(code=c, ri=True, thr=1) for c in range(1, 17)]
            + [O(code=8, ri=True, thr=0), O(code=14, ri=True, thr=0), O(code=0, partial=True)],
}


def X(headers=1, gzip=False, env=False, tmo="default"):
    return '[headers |-> %d, gzip |-> %s, env |-> %s, tmo |-> "%s"]' % (headers, "TRUE" if gzip else "FALSE",
                                                                     "TRUE" if env else "FALSE", tmo)


# the exporter-option dimension: headers x compression x (options | environment) x (default | explicit timeout)
XCFG_PRODUCT = [dict(headers=h, gzip=g, env=e, timeout=t) for h in (0, 1, 3) for g in (False, True) for e in (False, True)
                for t in ("default", "explicit")]
XCFGS_ALL = tset([X(c["headers"], c["gzip"], c["env"], c["timeout"]) for c in XCFG_PRODUCT])
# pairwise covering array over (headers, gzip, env, timeout): every pair of values of two dimensions occurs
XCFG_PAIRWISE = [dict(headers=h, gzip=g, env=e, timeout=t) for h, g, e, t in (
    (0, False, False, "default"), (0, True, True, "explicit"), (1, False, True, "explicit"), (1, True, False, "default"),
    (3, False, True, "default"), (3, True, False, "explicit"))]


def defs(proto, maxel, outcomes, maxatt=4, enabled=True, backoffs="{0}", late=False, stops='{"cancel", "shutdown"}',
         sdint=True, dev="none", maxclock=24, callto=0, xcfgs=None, ctxdl=0):
    return {"PROTO": proto, "ENABLED": "TRUE" if enabled else "FALSE", "MAXEL": maxel, "OUTCOMES": tset(outcomes),
            "MAXATT": maxatt, "BACKOFFS": backoffs, "LATE": "TRUE" if late else "FALSE", "STOPKINDS": stops,
            "SDINT": "TRUE" if sdint else "FALSE", "DEV": dev, "MAXCLOCK": maxclock, "CALLTO": callto, "CTXDL": ctxdl,
            "XCFGS": xcfgs or tset([X()])}


HUNG = O(kind="hung")
# transport outcomes of an HTTP attempt: temporary time-out (tmpnet), temporary NOT a time-out (tempnet), permanent
# (permnet), connection closed (close), next to a few answers
NET = [O(code=200), O(code=503), O(code=429, thr=1), O(code=400), O(kind="tmpnet"), O(kind="tempnet"), O(kind="permnet"), O(kind="close")]
# RetryConfig VALUE classes (round 6).  BIG = a value beyond the library's default elapsed-time limit (DefaultME = 60 in
# OtlpRetry.tla); big model values are concretized in SECONDS (the default limit is one minute), everything else in ticks.
BIG = 60
CTXDL = {
    "http": [O(code=200), O(code=503), O(code=503, thr=90), O(code=429, thr=1), O(code=400), O(code=504, slow=1)],
    "grpc": [O(code=0), O(code=14), O(code=14, ri=True, thr=90), O(code=8, ri=True, thr=90), O(code=8, ri=True, thr=1), O(code=3),
             O(code=4, slow=1)],
}
DEVIATIONS = [  # (deviation, proto, enabled, clause the monitor must report)
    ("tempOnlyTimeout", "http", True, "gave-up-early"),
    ("permRetried", "http", True, "retry-after-nonretryable"),
    ("headersOnRetry", "http", True, "headers-missing"),
    ("gzipFirstOnly", "grpc", True, "encoding-differs"),
    ("timeoutIgnored", "http", True, "attempt-beyond-timeout|blocked-beyond-max-elapsed"),
    ("timeoutIgnored", "grpc", True, "attempt-beyond-timeout|call-beyond-timeout|blocked-beyond-max-elapsed"),
    ("RetryAfterNs", "http", True, "throttle-not-honoured"),
    ("retry400", "http", True, "retry-after-nonretryable"),
    ("exhaustedNoRI", "grpc", True, "retry-after-nonretryable"),
    ("ignoreME", "http", True, "attempt-after-max-elapsed"),
    ("payload", "grpc", True, "payload-differs"),
    ("noHandle", "grpc", True, "partial-not-reported"),
    ("ignoreCtxInWait", "http", True, "late-return-after-cancel|late-return-after-shutdown|attempt-after-cancel|attempt-after-shutdown"),
    ("retryDisabled", "grpc", False, "retry-when-disabled"),
]


MUST_REPEAT = {"gave-up-early", "error-despite-success", "failure-not-reported", "prediction-mismatch"}


def load_behaviours(path):
    out = []
    with open(path) as f:
        for line in f:
            line = line.strip()
            if line:
                out.append(json.loads(line))
    return out


def features(b):
    """coverage keys of one behaviour: which (position, outcome class), stop kinds/places, result"""
    ks = set()
    pos = 0
    for h in b["hist"]:
        if h["i"] == "o":
            pos += 1
            ks.add("o%d:%s:%d:%s%s%s" % (pos, h["kind"], h["code"], "p" if h["partial"] else "", "t%d" % h["thr"], "s%d" % h["slow"]))
        else:
            ks.add("stop:%s:%s:%d" % (h["how"], h["at"], pos))
    ks.add("ret:%s:%d:me%d" % (b["want"]["err"], b["want"]["attempts"], b["maxel"]))
    if b.get("ctxdl"):
        ks.add("ctxdl:%s:%d:me%d:b%d:%s" % (b["want"]["err"], b["want"]["attempts"], b["maxel"], max(b.get("boffs") or [0]),
                                           "+".join("%d" % h["thr"] for h in b["hist"] if h["i"] == "o")))
    ks.add("clock:%d:me%d" % (b["want"]["clock"], b["maxel"]))
    return ks


def select(behs, k, rng):
    """greedy cover of all features, then random fill up to k"""
    idx = list(range(len(behs)))
    rng.shuffle(idx)
    need = set()
    feats = {}
    for i in idx:
        feats[i] = features(behs[i])
        need |= feats[i]
    chosen = []
    chosen_set = set()
    # prefer long scripts: they carry more features
    for i in sorted(idx, key=lambda j: -len(feats[j])):
        if len(chosen) >= k:
            break
        if feats[i] & need:
            chosen.append(i)
            chosen_set.add(i)
            need -= feats[i]
    for i in idx:
        if len(chosen) >= k:
            break
        if i not in chosen_set:
            chosen.append(i)
            chosen_set.add(i)
    return [behs[i] for i in chosen], len(need)


def concretize(proto, h, rng):
    """representative code of the TLC alphabet -> a concrete code of the same statement class"""
    code = h["code"]
    if h["kind"] != "status":
        return code
    if proto == "http":
        if code in (429, 503, 504):
            return rng.choice(HTTP_RETRYABLE)
        if code == 400:
            return rng.choice(HTTP_FINAL)
        if code == 200 and not h["partial"]:
            return rng.choice(HTTP_OK)
        return code
    if code in (14, 4):
        return rng.choice(GRPC_RETRYABLE)
    if code == 3:
        return rng.choice(GRPC_FINAL)
    return code


def to_scenario(b, exp, sid, rng, tol_us, xcfg, concrete=True, src="tlc"):
    """TLC behaviour -> scenario for harness/c14 (None if the stop point cannot be targeted from outside)"""
    proto = b["proto"]
    hist = b["hist"]
    has_thr = any(h["i"] == "o" and 0 < h["thr"] < BIG for h in hist)
    ctxdl = b.get("ctxdl", 0)
    big_boff = max(b.get("boffs") or [0]) >= BIG
    has_tmp = any(h["kind"] == "tmpnet" for h in hist)
    has_close = any(h["kind"] == "close" for h in hist)
    callto = b.get("callto", 0)
    if proto == "http":
        tick = 1_000_000 if has_thr else (250_000 if has_tmp else 50_000)
    else:
        tick = 200_000 if callto else 50_000   # a small export timeout must stay well above the attempt latency
    items = []
    stop_before = ""
    long_backoff = False
    for h in hist:
        if h["i"] == "o":
            items.append({"kind": h["kind"], "code": concretize(proto, h, rng) if concrete else h["code"], "partial": h["partial"],
                          "ri": h["ri"], "thr_us": h["thr"] * (1_000_000 if h["thr"] >= BIG else tick), "slow_us": h["slow"] * tick, "stop": "", "stopAfter": "",
                          "stopDelay_us": 0})
        elif h["at"] == "before":
            stop_before = "cancel"
        elif h["at"] == "inflight":
            items.append({"kind": "hold", "code": 0, "partial": False, "ri": False, "thr_us": 0, "slow_us": 0, "stop": h["how"],
                          "stopAfter": "", "stopDelay_us": 0})
        elif h["at"] in ("wait", "eval"):
            if not items:
                return None
            items[-1]["stopAfter"] = h["how"]
            # "eval": the client is given time to act on the answer first; "wait": as early as possible
            items[-1]["stopDelay_us"] = 3000 if h["at"] == "eval" else 0
            # a stop in the wait after the FIRST response: make that wait long so the stop certainly lands in it
            if h["at"] == "wait" and len(items) == 1:
                long_backoff = True
        else:
            return None  # between the timer and the next attempt: not controllable from outside
    maxel = b["maxel"]
    sc = {"id": sid, "name": "tlc", "src": src, "exp": exp, "enabled": b["enabled"],
          "initial_us": 4_000_000 if long_backoff else 1000, "maxint_us": 4_000_000 if long_backoff else 1000,
          "maxel_us": 0 if maxel == 0 else maxel * tick + tick // 2,
          "atto_us": 2 * tick if has_tmp else 0, "cto_us": callto * tick - tick // 2 if callto else 0,
          "tol_us": tol_us, "tick_us": tick, "items": items, "stopBefore": stop_before,
          "sdctx": rng.choice(["bg", "expired"]), "xcfg": xcfg, "grp": 0,
          "want": dict(b["want"], valid=not has_close)}
    if ctxdl:
        # value classes of the policy: zero / tiny / ordinary intervals (model: backoff 0) or huge ones (model: backoff BIG);
        # a big limit in seconds; the caller's deadline in ticks
        sc["dl_us"] = ctxdl * tick
        sc["initial_us"], sc["maxint_us"] = (300_000_000, 400_000_000) if big_boff else rng.choice([(0, 0), (1, 1), (1000, 2000), (0, 1000)])
        if maxel >= BIG:
            sc["maxel_us"] = maxel * 1_000_000
    return sc


def item(kind="status", code=0, partial=False, ri=False, thr_us=0, slow_us=0, stop="", stopAfter=""):
    return {"kind": kind, "code": code, "partial": partial, "ri": ri, "thr_us": thr_us, "slow_us": slow_us, "stop": stop,
            "stopAfter": stopAfter, "stopDelay_us": 3000 if stopAfter else 0}


def directed(sid0, tol_us, xcfgs, grp0=1):
    """hand-written cases (each is also a TLC behaviour shape) run on every exporter under EVERY option set of
    `xcfgs`; the scenarios of one (exporter, case) form a group whose outcome must not depend on the option set"""
    out = []
    sid = sid0
    grp = grp0

    def add(exp, name, items, **kw):
        nonlocal sid, grp
        for xc in xcfgs:
            sc = {"id": sid, "name": name, "src": "directed", "exp": exp, "enabled": True, "initial_us": 1000, "maxint_us": 2000,
                  "maxel_us": 0, "atto_us": 0, "cto_us": 0, "tol_us": tol_us, "tick_us": 50_000,
                  "items": json.loads(json.dumps(items)), "stopBefore": "", "sdctx": "expired", "xcfg": xc, "grp": grp,
                  "want": {"valid": False, "attempts": 0, "err": False, "handled": 0, "clock": 0}}
            sc.update(kw)
            out.append(sc)
            sid += 1
        grp += 1

    for exp in EXPS["http"]:
        # server throttling: Retry-After whole seconds, then success
        add(exp, "retry-after-1s", [item(code=429, thr_us=1_000_000), item(code=200)],
            want={"valid": True, "attempts": 2, "err": False, "handled": 0, "clock": 1}, tick_us=1_000_000)
        add(exp, "retry-after-1s-503", [item(code=503, thr_us=1_000_000), item(code=503, thr_us=1_000_000), item(code=200, partial=True)],
            want={"valid": True, "attempts": 3, "err": False, "handled": 1, "clock": 2}, tick_us=1_000_000)
        # throttle that cannot fit into the elapsed-time limit: give up without waiting
        add(exp, "retry-after-beyond-limit", [item(code=503, thr_us=2_000_000), item(code=200)], maxel_us=1_500_000,
            want={"valid": True, "attempts": 1, "err": True, "handled": 0, "clock": 0}, tick_us=1_000_000)
        add(exp, "not-retryable-400", [item(code=400), item(code=200)])
        add(exp, "disabled-503", [item(code=503), item(code=200)], enabled=False)
        add(exp, "cancel-in-long-wait", [item(code=503, stopAfter="cancel"), item(code=200)], initial_us=4_000_000, maxint_us=4_000_000)
        add(exp, "shutdown-in-long-wait", [item(code=503, stopAfter="shutdown"), item(code=200)], initial_us=4_000_000,
            maxint_us=4_000_000)
        add(exp, "cancel-in-flight", [item(kind="hold", stop="cancel")])
        add(exp, "shutdown-in-flight", [item(kind="hold", stop="shutdown")])
        # transport faults injected through WithProxy: temporary but not a time-out -> retried; permanent -> reported at once
        add(exp, "temporary-non-timeout-then-ok", [item(kind="tempnet"), item(code=200)],
            want={"valid": True, "attempts": 2, "err": False, "handled": 0, "clock": 0})
        add(exp, "temporary-non-timeout-twice", [item(code=503), item(kind="tempnet"), item(kind="tempnet"), item(code=200, partial=True)],
            want={"valid": True, "attempts": 4, "err": False, "handled": 1, "clock": 0})
        add(exp, "permanent-net-error", [item(kind="permnet"), item(code=200)],
            want={"valid": True, "attempts": 1, "err": True, "handled": 0, "clock": 0})
        add(exp, "permanent-net-error-on-retry", [item(code=429), item(kind="permnet"), item(code=200)],
            want={"valid": True, "attempts": 2, "err": True, "handled": 0, "clock": 0})
        add(exp, "temporary-non-timeout-disabled", [item(kind="tempnet"), item(code=200)], enabled=False,
            want={"valid": True, "attempts": 1, "err": True, "handled": 0, "clock": 0})
        # a collector that never answers: the small explicit per-attempt timeout ends the attempt, the next one succeeds
        add(exp, "hung-then-ok", [item(kind="tmpnet"), item(code=200)], atto_us=400_000, tick_us=400_000)
        # ... and with a retryable answer first and the elapsed-time limit ending the call
        # the elapsed-time limit counts from the call, including a slow first attempt
        add(exp, "slow-first-attempt-exceeds-limit", [item(code=503, slow_us=300_000), item(code=200)], maxel_us=200_000)
        add(exp, "hung-until-limit", [item(code=503), item(kind="tmpnet"), item(kind="tmpnet"), item(kind="tmpnet")], atto_us=400_000,
            maxel_us=700_000, tick_us=400_000)
    for exp in EXPS["grpc"]:
        add(exp, "retryinfo-50ms", [item(code=14, ri=True, thr_us=50_000), item(code=0)],
            want={"valid": True, "attempts": 2, "err": False, "handled": 0, "clock": 1})
        add(exp, "exhausted-with-retryinfo", [item(code=8, ri=True, thr_us=40_000), item(code=8, ri=True, thr_us=0), item(code=0, partial=True)])
        add(exp, "exhausted-without-retryinfo", [item(code=8), item(code=0)])
        add(exp, "retryinfo-beyond-limit", [item(code=14, ri=True, thr_us=100_000), item(code=0)], maxel_us=75_000,
            want={"valid": True, "attempts": 1, "err": True, "handled": 0, "clock": 0})
        add(exp, "not-retryable-3", [item(code=3), item(code=0)])
        add(exp, "disabled-14", [item(code=14), item(code=0)], enabled=False)
        add(exp, "cancel-in-long-wait", [item(code=14, stopAfter="cancel"), item(code=0)], initial_us=4_000_000, maxint_us=4_000_000)
        add(exp, "shutdown-in-long-wait", [item(code=14, stopAfter="shutdown"), item(code=0)], initial_us=4_000_000,
            maxint_us=4_000_000)
        add(exp, "cancel-in-flight", [item(kind="hold", stop="cancel")])
        add(exp, "shutdown-in-flight", [item(kind="hold", stop="shutdown")])
        # a collector that never answers: the small explicit export timeout ends the whole call
        add(exp, "slow-first-attempt-exceeds-limit", [item(code=14, slow_us=300_000), item(code=0)], maxel_us=200_000)
        # (a retry that slips out right at the deadline is not answered either)
        add(exp, "hung-call-timeout", [item(kind="hung"), item(kind="hung"), item(kind="hung")], cto_us=400_000, tick_us=200_000)
        add(exp, "retry-then-hung", [item(code=14), item(kind="hung"), item(kind="hung"), item(kind="hung")], cto_us=400_000,
            tick_us=200_000)
        # the export timeout also ends a long backoff wait
        add(exp, "timeout-in-long-wait", [item(code=14), item(code=0)], cto_us=400_000, tick_us=200_000, initial_us=4_000_000,
            maxint_us=4_000_000)
    return out


def directed_cfgvalues(sid0, tol_us):
    """RetryConfig value classes x a server-supplied delay beyond the default limit x a short caller deadline, on all six
    exporters (each is a behaviour shape of the mc-*-ctxdl runs); judged by the contract monitor only"""
    out = []
    sid = sid0
    for proto in ("http", "grpc"):
        ok = 200 if proto == "http" else 0
        for exp in EXPS[proto]:
            k = 0
            for initial, maxint in ((0, 0), (1, 1), (1000, 2000), (5_000_000, 30_000_000), (300_000_000, 400_000_000)):
                for maxel in (0, 1, 100_000_000, 1_000_000_000):
                    for thr in (90_000_000, 0):
                        if thr == 0 and initial < 300_000_000:
                            continue   # without a hint only huge intervals keep the call waiting
                        codes = (503, 429) if proto == "http" else (14, 8)
                        k += 1
                        out.append({"id": sid, "name": "cfgvalues-i%d-m%d-me%d-thr%d" % (initial, maxint, maxel, thr), "src": "directed",
                                    "exp": exp, "enabled": True, "initial_us": initial, "maxint_us": maxint, "maxel_us": maxel,
                                    "atto_us": 0, "cto_us": 0, "tol_us": tol_us, "tick_us": 50_000, "dl_us": 250_000 + 10_000 * (k % 7),
                                    "items": [item(code=codes[k % 2] if thr else codes[0], ri=(proto == "grpc" and thr > 0), thr_us=thr),
                                              item(code=ok)],
                                    "stopBefore": "", "sdctx": "expired", "xcfg": XCFG_PAIRWISE[k % len(XCFG_PAIRWISE)], "grp": 0,
                                    "want": {"valid": False, "attempts": 0, "err": False, "handled": 0, "clock": 0}})
                        sid += 1
    return out


def index_by_scenario(path):
    by = {}
    with open(path) as f:
        for ln in f:
            ln = ln.strip()
            if ln:
                e = json.loads(ln)
                by.setdefault(e["sc"], []).append(e)
    return by


def run(ctx):
    import time
    t_start = time.time()
    phases = ctx.extra.setdefault("phase_s", {})
    thorough = ctx.tier == "thorough"
    rng = random.Random(ctx.seed * 1000003 + 14)
    tol_us = 1_000_000
    binp = ctx.go_build("c14")

    # ------------------------------------------------------------ exhaustive model checking + behaviour export
    jobs = []  # (kind, proto, kwargs for ctx.tlc)

    def job(kind, proto, name, d, **kw):
        jobs.append((kind, proto, dict(name=name, defines=d, **kw)))

    for proto in ("http", "grpc"):
        for maxel in (0, 2, 5):
            job("export", proto, "mc-%s-me%d" % (proto, maxel), defs(proto, maxel, ALPHA[proto]), want_edges=True, timeout=1500,
                coverage=(proto == "http" and maxel == 2))
        # retry disabled: exactly one attempt
        job("export", proto, "mc-%s-disabled" % proto, defs(proto, 2, ALPHA[proto], enabled=False), want_edges=True, timeout=600)
        # every status code (with / without throttle hint) as first and second outcome
        job("codes", proto, "mc-%s-codes" % proto, defs(proto, 0, CODES[proto], maxatt=2, stops="{}"), want_edges=True, timeout=900)
        # the contract tolerates late timers, randomised backoff (0..1 tick) and a Shutdown that waits for the call
        job("check", proto, "mc-%s-late" % proto, defs(proto, 2, ALPHA[proto], maxatt=3, backoffs="{0, 1}", late=True), timeout=1500)
        job("check", proto, "mc-%s-late-sdwaits" % proto,
            defs(proto, 5 if thorough else 2, ALPHA[proto], maxatt=3, backoffs="{0, 1}", late=True, sdint=False), timeout=1500)
        if thorough:
            # one more attempt (scripts of length 5)
            for maxel in (0, 2):
                job("export", proto, "mc-%s-me%d-a5" % (proto, maxel), defs(proto, maxel, ALPHA[proto], maxatt=5, maxclock=30),
                    want_edges=True, timeout=3000)
            job("check", proto, "mc-%s-late-me0" % proto, defs(proto, 0, ALPHA[proto], maxatt=4, backoffs="{0, 1}", late=True),
                timeout=3000)
            job("check", proto, "mc-%s-backoff2" % proto,
                defs(proto, 5, ALPHA[proto], maxatt=4, backoffs="{0, 2}", late=False, sdint=False), timeout=3000)
        # liveness: every call returns (or the bounded script is exhausted)
        job("live", proto, "live-%s" % proto, defs(proto, 2, ALPHA[proto], maxatt=3), timeout=1500)
        # exporter-option dimension (headers x compression x options|environment x timeout): every clause holds for every
        # option set, and the set of behaviours (script, prediction) is the same for all of them
        job("xcfgs", proto, "mc-%s-xcfgs" % proto,
            defs(proto, 2, ALPHA[proto] + ([HUNG] if proto == "grpc" else []), maxatt=3 if thorough else 2,
                 callto=3 if proto == "grpc" else 0, xcfgs=XCFGS_ALL), want_edges=True, timeout=3000)
    # HTTP transport faults on any attempt: temporary (time-out / not a time-out), permanent, connection closed
    for maxel in (0, 2):
        job("export", "http", "mc-http-net-me%d" % maxel, defs("http", maxel, NET, maxatt=4), want_edges=True, timeout=1500)
    job("export", "http", "mc-http-net-disabled", defs("http", 0, NET, maxatt=2, enabled=False), want_edges=True, timeout=600)
    # gRPC export timeout (bounds the whole call) and a collector that never answers
    for maxel in (0, 2):
        job("export", "grpc", "mc-grpc-cto3-me%d" % maxel, defs("grpc", maxel, ALPHA["grpc"] + [HUNG], maxatt=4 if thorough else 3, callto=3),
            want_edges=True, timeout=1500, coverage=(maxel == 2))
    job("check", "grpc", "mc-grpc-cto3-late", defs("grpc", 5, ALPHA["grpc"] + [HUNG], maxatt=3, callto=3, late=True, backoffs="{0, 1}",
                                                  sdint=False), timeout=1500)
    # RetryConfig value classes: no limit / small limit / limit beyond the default one, zero or huge backoff intervals, a
    # server-supplied delay beyond the default limit, under a caller deadline of 3 ticks that ends every long wait
    for proto in ("http", "grpc"):
        for maxel, boffs in ((0, "{0}"), (5, "{0}"), (100, "{0}"), (0, "{100}"), (100, "{100}")):
            job("export", proto, "mc-%s-ctxdl-me%d-b%s" % (proto, maxel, boffs.strip("{}")),
                defs(proto, maxel, CTXDL[proto], maxatt=3, backoffs=boffs, stops="{}", ctxdl=3), want_edges=True, timeout=900)
        job("check", proto, "mc-%s-ctxdl-late" % proto,
            defs(proto, 0, CTXDL[proto], maxatt=3, backoffs="{0, 1}", late=True, stops='{"cancel"}', ctxdl=3), timeout=900)
        for maxel in (0, 100):   # an unlimited / larger configured limit silently replaced by the default one
            job("dev:defaultME:gave-up-early", proto, "dev-defaultME-%s-me%d" % (proto, maxel),
                defs(proto, maxel, CTXDL[proto], maxatt=2, dev="defaultME", stops="{}", ctxdl=3), must_pass=False, count=False, timeout=600)
    # the monitor must notice seeded deviations of the loop (guards against a vacuous contract)
    for dev, proto, enabled, clause in DEVIATIONS:
        grpc_to = dev == "timeoutIgnored" and proto == "grpc"
        alpha = NET if dev in ("tempOnlyTimeout", "permRetried") else ALPHA[proto] + ([HUNG] if grpc_to else [])
        job("dev:" + dev + ":" + clause, proto, "dev-%s-%s" % (dev, proto),
            defs(proto, 2, alpha, maxatt=3, enabled=enabled, dev=dev, callto=3 if grpc_to else 0,
                 xcfgs=tset([X(0), X(1, gzip=True)])), must_pass=False, count=False, timeout=600)

    def run_job(j):
        kind, proto, kw = j
        cfg = "MC_OtlpRetry_live.cfg" if kind == "live" else "MC_OtlpRetry.cfg"
        if kw.get("want_edges"):
            kw["workers"] = 1
        else:
            kw["workers"] = max(1, min(4, int(os.environ.get("VERIF_TLC_WORKERS") or 4)))
        return ctx.tlc(S, "MC_OtlpRetry", cfg, **kw)

    from concurrent.futures import ThreadPoolExecutor
    with ThreadPoolExecutor(max_workers=max(2, min(5, int(os.environ.get("VERIF_TLC_WORKERS") or 5)))) as ex:
        futs = [ex.submit(run_job, j) for j in jobs]
        results = []
        err = None
        for f in futs:
            try:
                results.append(f.result())
            except Exception as e:  # Inconclusive from one run: let the others finish, then re-raise
                results.append(None)
                err = err or e
        if err is not None:
            raise err
    behaviours = {"http": [], "grpc": []}
    never = None
    for (kind, proto, kw), r in zip(jobs, results):
        if kind in ("export", "codes"):
            bs = load_behaviours(r["edges_file"])
            if kind == "codes":
                for b in bs:
                    b["exact_codes"] = True
            behaviours[proto] += bs
        if kind == "xcfgs":
            by = {}
            for b in load_behaviours(r["edges_file"]):
                by.setdefault(json.dumps(b["xcfg"], sort_keys=True), set()).add(json.dumps([b["hist"], b["want"]], sort_keys=True))
            sets = list(by.values())
            ctx.extra.setdefault("option_sets_in_model", {})[proto] = len(by)
            if len(by) != len(XCFG_PRODUCT) or any(x != sets[0] for x in sets):
                ctx.note_inconclusive("model drift: the behaviours of OtlpRetry.tla depend on the exporter-option dimension (%s)"
                                      % r["out"])
        if kw.get("coverage"):
            # an action must be taken in at least one of the coverage runs (HTTP has no export deadline, gRPC no tmpnet)
            zc = set(a for a in r["zero_cov"] if a not in ("TickIgnoringCtx", "Finished"))  # deviation-only action, stuttering
            never = zc if never is None else never & zc
        if kind.startswith("dev:"):
            _, dev, clause = kind.split(":")
            out = open(r["out"], errors="replace").read()
            if r["violated"] != "Inv" or not any(('kind |-> "%s"' % c) in out for c in clause.split("|")):
                ctx.note_inconclusive("model drift: deviation %s is not reported as %s by the contract monitor (%s)"
                                      % (dev, clause, r["out"]))
    if never:
        ctx.note_inconclusive("vacuity: actions never taken in any coverage run: %s" % sorted(never))
    ctx.extra["tlc_behaviours"] = {p: len(v) for p, v in behaviours.items()}
    phases["tlc"] = round(time.time() - t_start, 1)

    # ------------------------------------------------------------ spec -> code: behaviours as collector scripts
    per_proto = 4000 if thorough else 260
    scenarios = []
    sid = 1
    uncovered = 0
    skipped_uncontrollable = 0
    xorder = list(XCFG_PRODUCT)
    rng.shuffle(xorder)
    xi = 0
    for proto in ("http", "grpc"):
        chosen, unc = select(behaviours[proto], per_proto, rng)
        uncovered += unc
        for i, b in enumerate(chosen):
            exps = EXPS[proto] if thorough and i % 4 == 0 else [EXPS[proto][(i + ctx.seed) % 3]]
            for exp in exps:
                xi += 1   # every behaviour draws the next option set of the (shuffled) full product
                sc = to_scenario(b, exp, sid, rng, tol_us, xorder[xi % len(xorder)], concrete=not b.get("exact_codes"))
                if sc is None:
                    skipped_uncontrollable += 1
                    continue
                scenarios.append(sc)
                sid += 1
    ctx.extra["behaviour_features_uncovered_by_sample"] = uncovered
    ctx.extra["behaviours_skipped_stop_not_targetable"] = skipped_uncontrollable
    nbeh = len(scenarios)
    # directed stop / cancel / timeout / throttle families: pairwise option sets (quick), full product (thorough)
    scenarios += directed(sid, tol_us, XCFG_PRODUCT if thorough else XCFG_PAIRWISE)
    sid = scenarios[-1]["id"] + 1
    scenarios += directed_cfgvalues(sid, tol_us)
    sid = scenarios[-1]["id"] + 1
    ctx.extra["tlc_behaviours_replayed"] = nbeh
    ctx.extra["directed_cases"] = len(scenarios) - nbeh

    def execute(scs, label, par):
        sf = os.path.join(ctx.work, "scenarios-%s.json" % label)
        json.dump(scs, open(sf, "w"))
        tf = os.path.join(ctx.work, "trace-%s.ndjson" % label)
        rf = os.path.join(ctx.work, "res-%s.json" % label)
        ctx.run([binp, "scripts", "-in", sf, "-out", tf, "-res", rf, "-par", str(par)], timeout=3000)
        return tf, json.load(open(rf))

    runs = []
    t1 = time.time()
    tf, res = execute(scenarios, "scripts", 160)
    phases["scripts_on_real_exporters"] = round(time.time() - t1, 1)
    t1 = time.time()
    runs.append((tf, res, "scripts", {s["id"]: s for s in scenarios}))
    # ------------------------------------------------------------ code -> spec: seeded random scripts / configs
    n = 8000 if thorough else 300
    tf2 = os.path.join(ctx.work, "trace-random.ndjson")
    rf2 = os.path.join(ctx.work, "res-random.json")
    ctx.run([binp, "random", "-n", str(n), "-out", tf2, "-res", rf2, "-par", "160", "-idbase", str(sid)], timeout=3000)
    runs.append((tf2, json.load(open(rf2)), "random", {}))
    ctx.extra["random_scenarios"] = n
    phases["random_on_real_exporters"] = round(time.time() - t1, 1)

    counters = {}
    kinds = {}
    soft_pending = {}  # scenario id -> (scenario, clause, label, events)
    for tf, res, label, by_id in runs:
        for s in res["inconclusive"]:
            ctx.note_inconclusive(s)
        for k, v in res["counters"].items():
            counters[k] = counters.get(k, 0) + v
        ctx.traces_validated += res["executed"]
        ctx.evaluations += res["executed"]
        viols, accepted = ctx.validate_trace(S, "Trace_OtlpRetry", "Trace_OtlpRetry.cfg", tf, name="trace-" + label, timeout=3000)
        ctx.extra["trace_lines_" + label] = accepted
        if label == "random":
            ctx.add_samples(res["samples"][-1:])
        else:
            ctx.add_samples(res["samples"][:1])
        by_sc = index_by_scenario(tf) if viols else {}
        hard_by_sc = {}
        for v in viols:
            if v["v"]["kind"] != "prediction-mismatch":
                hard_by_sc.setdefault(v["sc"], set()).add(v["v"]["kind"])
        for v in viols:
            vv = v["v"]
            evs = by_sc.get(v["sc"], [])
            cfg = next((e for e in evs if e["ev"] == "Cfg"), {})
            kinds[vv["kind"]] = kinds.get(vv["kind"], 0) + 1
            if vv["kind"].startswith("x-harness"):
                ctx.note_inconclusive("harness: %s in scenario %s (%s)" % (vv["kind"], v["sc"], tf))
                continue
            if vv["kind"] == "prediction-mismatch" and hard_by_sc.get(v["sc"]):
                # the same run already broke a clause of the contract: the differing totals are its consequence
                kinds["prediction-mismatch(explained by a clause)"] = kinds.get("prediction-mismatch(explained by a clause)", 0) + 1
                continue
            sig = {"clause": vv["kind"], "proto": vv["proto"], "exporter": cfg.get("exp"), "source": label}
            if vv["kind"] in ("throttle-not-honoured", "retry-after-nonretryable", "failure-not-reported", "gave-up-early",
                              "nil-without-success", "error-despite-success"):
                sig["code"] = vv["code"]
                if vv["lastkind"] != "status":
                    sig["outcome"] = vv["lastkind"]   # transport-level outcome (tmpnet / tempnet / permnet / hung / close)
            if vv["kind"] == "cfg-dependent-outcome":
                sig["case"] = cfg.get("name")
            if vv["kind"] in ("gave-up-early", "late-return-after-deadline", "no-return") and cfg.get("dl"):
                # RetryConfig value class of the scenario (facts of the Cfg line and of the V record, no judgement)
                me = cfg.get("maxel", 0)
                sig["backoff"] = "zero-interval" if cfg.get("enabled") and min(cfg.get("initial", 1), cfg.get("maxint", 1)) == 0 else "nonzero"
                sig["limit"] = "none(MaxElapsedTime=0)" if me == 0 else ("beyond-default" if me > 60_000_000 else "configured")
                sig["throttle"] = "beyond-default-limit" if vv["thr"] > 60_000_000 else ("hint" if vv["thr"] > 0 else "none")
                sig["caller"] = "short-deadline"
            if vv["kind"] == "attempt-after-max-elapsed":
                # x = collector-side elapsed + throttle; was the limit exceeded only because of the server-supplied delay?
                sig["why"] = "throttle" if vv["x"] - vv["thr"] <= cfg.get("maxel", 0) and vv["thr"] > 0 else "elapsed"
            replay = {"violation": v, "scenario": by_id.get(v["sc"]) or cfg, "events": evs}
            # soft clauses (upper bounds) and the clauses that presuppose a reliable loopback transport (an attempt that
            # fails inside the client before reaching the collector looks like a give-up / an unreported answer) must repeat
            if vv["soft"] or vv["kind"] in MUST_REPEAT:
                soft_pending.setdefault((v["sc"], vv["kind"]), (by_id.get(v["sc"]), sig, replay))
                continue
            ctx.violation(sig, replay=replay)
    # ------------------------------------------------------------ soft (upper-bound) clauses: believe only what repeats
    unconfirmed = 0
    confirmed = 0
    not_rerun = 0
    if soft_pending:
        rer = []
        keyed = []
        rid = 900000
        per_sig = {}
        gid = 800000
        all_scripted = [x for _, _, _, by_id in runs for x in by_id.values()]
        for (scid, clause), (sc, sig, replay) in sorted(soft_pending.items(), key=lambda kv: kv[0]):
            sk = json.dumps(sig, sort_keys=True)
            if per_sig.get(sk, 0) >= 3:   # three witnesses per signature are enough
                not_rerun += 1
                continue
            if sc is None:
                sc = rebuild_from_trace(replay["events"], tol_us)
            if sc is None:
                unconfirmed += 1
                continue
            per_sig[sk] = per_sig.get(sk, 0) + 1
            # an outcome that depends on the option set is a property of the whole group: re-run all its members
            members = [x for x in all_scripted if x.get("grp") and x["grp"] == sc.get("grp")] if clause == "cfg-dependent-outcome" else [sc]
            for rep in range(2):
                ids = []
                gid += 1
                for mbr in members:
                    c = dict(mbr, id=rid, name=mbr.get("name", "") + "-rerun", grp=gid if len(members) > 1 else 0)
                    rer.append(c)
                    ids.append(rid)
                    rid += 1
                keyed.append((ids, clause, (scid, clause)))
        if rer:
            tf3, res3 = execute(rer, "rerun", 8)
            viols3, _ = ctx.validate_trace(S, "Trace_OtlpRetry", "Trace_OtlpRetry.cfg", tf3, name="trace-rerun", timeout=3000)
            hit = {}
            for v in viols3:
                hit.setdefault(v["sc"], set()).add(v["v"]["kind"])
            per = {}
            for ids, clause, key in keyed:
                per.setdefault(key, []).append(any(clause in hit.get(i, set()) for i in ids))
            for key, oks in per.items():
                sc, sig, replay = soft_pending[key]
                if all(oks):
                    confirmed += 1
                    ctx.violation(sig, replay=replay)
                else:
                    unconfirmed += 1
    ctx.extra["soft_clause_hits_beyond_three_per_signature"] = not_rerun
    ctx.extra["soft_clause_hits_confirmed"] = confirmed
    ctx.extra["soft_clause_hits_not_reproduced"] = unconfirmed
    ctx.extra["counters"] = counters
    ctx.extra["violation_kinds_seen"] = kinds
    # vacuity of the drivers: the interesting regimes must have been reached
    for need in ("item_throttled", "item_hold", "item_tmpnet", "item_tempnet", "item_permnet", "item_hung", "stop_cancel", "stop_shutdown", "exp_tracehttp",
                 "exp_tracegrpc", "exp_metrichttp", "exp_metricgrpc", "exp_loghttp", "exp_loggrpc", "xcfg_headers0", "xcfg_headers1",
                 "xcfg_headers3", "xcfg_gzip", "xcfg_env", "xcfg_timeout_explicit", "xcfg_timeout_default", "ctx_deadline",
                 "ctx_deadline_unlimited_policy"):
        if not counters.get(need):
            ctx.note_inconclusive("driver vacuity: counter %s is zero" % need)
    ctx.exhaustive = False
    ctx.assumptions += [
        "collector and caller share one process clock; arrivals/returns rounded up, responses/calls rounded down (1 us)",
        "upper bounds (prompt return after cancel/shutdown/final response, elapsed-time limit) use a 1 s tolerance and must repeat in 2 sequential re-runs",
        "temporary network errors: a per-attempt client timeout (http.Client.Timeout) against a collector that does not answer, and a "
        "temporary non-timeout / a permanent transport error returned by the exporter's WithProxy hook (HTTP only; gRPC transport faults "
        "are the library's business and appear as status codes)",
        "exporter Shutdown counts as 'shut down' once Shutdown has returned; exporters whose Shutdown waits for the running export satisfy the clause trivially",
        "payload identity on gRPC is the digest of the deterministic re-marshalling of the received message",
        "TLC alphabets use representative codes; the harness concretizes them per statement class, the contract re-classifies the concrete code",
        "exporter options (0/1/3 headers, gzip, options vs OTEL_EXPORTER_OTLP_* environment, default vs explicit timeout) are drawn per scenario; "
        "the contract depends on them only through 'configured headers and encoding accompany every attempt'",
        "a collector that never answers is bounded by a small explicit timeout (HTTP: per attempt, gRPC: whole call) + 1 s tolerance, must repeat",
    ]
    ctx.extra["rule"] = ("behaviours: terminal behaviours of OtlpRetry.tla for the listed configs, covering sample by feature "
                         "(position x outcome, stop kind x place, result, clock); random: seeded scripts/configs")


def rebuild_from_trace(evs, tol_us):
    """scenario of a random run, reconstructed from what the collector recorded (for soft-clause re-runs)"""
    cfg = next((e for e in evs if e["ev"] == "Cfg"), None)
    if cfg is None:
        return None
    # the random generator is seeded: the harness regenerates the same scenario for the same id; keep it simple and
    # only re-run what can be rebuilt faithfully from the Resp lines
    items = []
    for e in evs:
        if e["ev"] == "Resp":
            if len(items) >= e["n"]:
                continue   # an unanswered (held / hung) request that was answered after all: keep the script's item
            items.append(item(kind=e["kind"], code=e["code"], partial=e["partial"], ri=e["ri"], thr_us=e["thr"]))
    stop_before = ""
    order = [e["ev"] for e in evs]
    if "Cancel" in order and order.index("Cancel") < order.index("Call"):
        stop_before = "cancel"
    else:
        for i, e in enumerate(evs):
            if e["ev"] in ("Cancel", "ShutdownCall"):
                how = "cancel" if e["ev"] == "Cancel" else "shutdown"
                nresp = sum(1 for x in evs[:i] if x["ev"] == "Resp")
                natt = sum(1 for x in evs[:i] if x["ev"] == "Attempt")
                if natt > nresp:
                    items = items[:nresp] + [item(kind="hold", stop=how)]
                elif items and nresp >= 1:
                    items[nresp - 1]["stopAfter"] = how
                break
    return {"id": 0, "name": "rebuilt", "src": "rerun", "exp": cfg["exp"], "enabled": cfg["enabled"], "initial_us": cfg["initial"],
            "maxint_us": cfg["maxint"], "maxel_us": cfg["maxel"], "atto_us": cfg["atto"], "cto_us": cfg["cto"], "tol_us": tol_us,
            "tick_us": cfg["tick"], "items": items, "stopBefore": stop_before, "sdctx": "expired", "grp": 0, "dl_us": cfg.get("dl", 0),
            "xcfg": {"headers": cfg["nhdr"], "gzip": cfg["enc"] == "gzip", "env": cfg["env"], "timeout": cfg["tmo"]},
            "want": {"valid": False, "attempts": 0, "err": False, "handled": 0, "clock": 0}}
