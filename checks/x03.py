"""X03 (specification growth) -- the API bridges and the composite propagator.

  A. bridge/opentracing   specs/Bridge/{BridgeModel,OTBridge}.tla
  B. bridge/opencensus    specs/Bridge/{BridgeModel,OCBridge,OCMetricModel}.tla
  C. propagation.NewCompositeTextMapPropagator   specs/Bridge/Composite.tla

spec -> code : TLC explores the state machines exhaustively for families of small constants and
               prints every edge; harness_x03 (its own Go module) replays each edge on the real
               bridges through their public APIs with a recording SDK behind them and compares the
               projection of the real state (and what the call returned) with the model's.
code -> spec : harness_x03 runs seeded random histories (VERIF_SEED) with uglier representatives,
               logs them as ndjson; Trace_Bridge.tla (a total monitor over the same pure model)
               judges them and prints VIOL lines.
Exit 1 only from behaviour of the real code; model-only problems / harness death are exit 2.
"""
import json
import os
import shutil
import subprocess

import vlib

S = "Bridge"
HX = os.path.join(vlib.VERIF, "harness_x03")


def go_build(ctx):
    """go build -tags verif of the harness_x03 module against VERIF_REPO (the -modfile trick of vlib.go_build)."""
    out = os.path.join(ctx.work, "bin-harness_x03")
    env = dict(os.environ)
    env.update(vlib.GOENV)
    cmd = ["go", "build", "-o", out]
    if os.path.realpath(vlib.REPO) != "/repo":
        alt = os.path.join(ctx.work, "go.alt.mod")
        txt = open(os.path.join(HX, "go.mod")).read().replace("=> /repo", "=> " + vlib.REPO)
        open(alt, "w").write(txt)
        shutil.copy(os.path.join(HX, "go.sum"), os.path.join(ctx.work, "go.alt.sum"))
        cmd.append("-modfile=" + alt)
    cmd += ["-tags", "verif", "."]
    p = subprocess.run(cmd, cwd=HX, env=env, stdout=subprocess.PIPE, stderr=subprocess.STDOUT, text=True)
    if p.returncode != 0:
        raise vlib.Inconclusive("go build harness_x03 failed:\n%s" % p.stdout[-4000:])
    return out


def tla_set(items):
    return "{" + ", ".join(items) + "}"


def q(*xs):
    return tla_set('"%s"' % x for x in xs)


def kv(*pairs):
    return "<<" + ", ".join('[k |-> %d, c |-> "%s"]' % (k, c) for k, c in pairs) + ">>"


ALLCLS = ["str", "str2", "bool", "int", "i32", "u32", "uint", "u64", "f32", "f64", "i64"]
OT_DEFAULTS = dict(NK=2, NB=2, MAXSPANS=1, MAXSTEPS=3, NAMES=q("n1"), MAXREFS=0, REFTYPES=q("c", "f"), FOREIGN="{}",
                   KINDS=q(""), ERRS=q(""), TAGLISTS="{<<>>}", TAGCLS=q("str"), KVLISTS="{<<>>}", LOGVIAS=q("fields"),
                   FINISHLOGS="{0}", BAGVALS=q("v1"), FMTS=q("textmap"), CARS=q("map"), EXCARS=q("cur"))


def ot_configs(thorough):
    c = []
    c.append(dict(name="ot-refs", OPS=q("Start", "Finish"), MAXSPANS=3, MAXSTEPS=4, MAXREFS=3 if thorough else 2,
                  FOREIGN="{-1}", NK=1, NB=1))
    c.append(dict(name="ot-tags", OPS=q("Start", "SetTag", "SetKind", "SetErr", "SetName", "Finish"), MAXSPANS=1,
                  MAXSTEPS=4 if thorough else 3, NAMES=q("n1", "n2"),
                  KINDS=q("", "client", "server", "producer", "consumer", "bogus"), ERRS=q("", "true", "false"),
                  TAGLISTS=tla_set(["<<>>", kv((1, "int")), kv((1, "str"), (2, "u64"))]),
                  TAGCLS=q(*(ALLCLS if thorough else ["str", "bool", "int", "u32", "uint", "u64", "f32"]))))
    c.append(dict(name="ot-logs", OPS=q("Start", "Log", "SetName", "Finish"), MAXSPANS=1, MAXSTEPS=5 if thorough else 4,
                  KVLISTS=tla_set(["<<>>", kv((1, "str")), kv((1, "int"), (2, "f32")), kv((1, "str"), (1, "str2")),
                                   kv((2, "u64"), (1, "bool"))]),
                  LOGVIAS=q("fields", "kv"), FINISHLOGS="{0, 1, 2}"))
    c.append(dict(name="ot-baggage", OPS=q("Start", "SetBag", "CtxStart", "OTelStart"), MAXSPANS=3,
                  MAXSTEPS=5 if thorough else 4, MAXREFS=2, REFTYPES=q("c"), BAGVALS=q("v1", "v2"), NK=1, NB=2))
    c.append(dict(name="ot-propagation", OPS=q("Start", "SetBag", "Inject", "Extract"), MAXSPANS=2,
                  MAXSTEPS=5 if thorough else 4, NAMES=q("n1", "ns"), MAXREFS=1, FOREIGN="{-1}", NK=1, NB=1,
                  FMTS=q("textmap", "http", "binary"), CARS=q("map", "http", "wonly", "bad"), EXCARS=q("cur", "empty", "bad")))
    c.append(dict(name="ot-mix", OPS=q("Start", "OTelStart", "CtxStart", "Ctx", "SetTag", "SetBag", "Finish"), MAXSPANS=3,
                  MAXSTEPS=4, NAMES=q("n1", "ns"), MAXREFS=1, REFTYPES=q("c"), NK=1, NB=1))
    return c


OC_DEFAULTS = dict(NK=2, MAXSPANS=1, MAXSTEPS=3, NAMES=q("n1"), SKINDS=q(""), SAMPLERS="{FALSE}", VIAS=q("ctx"),
                   ATTRLISTS="{<<>>}", MSGS=q("m1"), CODES="{0}", STMSGS=q(""), SCS="{}")


def oc_configs(thorough):
    c = []
    c.append(dict(name="oc-start", OPS=q("Start", "End", "Ctx"), MAXSPANS=3, MAXSTEPS=4 if thorough else 3,
                  SKINDS=q("", "unspecified", "client", "server"), SAMPLERS="BOOLEAN", VIAS=q("ctx", "remote")))
    c.append(dict(name="oc-data", OPS=q("Start", "AddAttrs", "Annotate", "MsgEvent", "AddLink", "SetName", "End"), MAXSPANS=2,
                  MAXSTEPS=4, NAMES=q("n1", "n2"), MSGS=q("m1", "m2"),
                  ATTRLISTS=tla_set(["<<>>", kv((1, "bool")), kv((1, "i64"), (2, "f64")), kv((1, "str"), (1, "str2"))])))
    c.append(dict(name="oc-status", OPS=q("Start", "SetStatus", "End"), MAXSPANS=1, MAXSTEPS=4,
                  CODES="{0, 1, 2, 5, 16, -1}" if thorough else "{0, 1, 2, 16, -1}", STMSGS=q("", "d1")))
    ts = ['<<>>', '<<E("both","x1")>>', '<<E("both","x1"), E("both","x2")>>', '<<E("otel","x1")>>',
          '<<E("both","x1"), E("otel","x2")>>', '<<E("otel","x1"), E("both","x2"), E("both","x3")>>']
    c.append(dict(name="oc-conv", OPS=q("Conv"), MAXSTEPS=1,
                  SCS=tla_set("[smp |-> %s, ts |-> %s]" % (b, t) for b in ("TRUE", "FALSE") for t in ts)))
    return c


def ocm_metrics(thorough):
    def v(k, **kw):
        d = dict(nil="", neg="", ex="")
        d.update(kw)
        return '[k |-> "%s", nil |-> "%s", neg |-> "%s", ex |-> "%s"]' % (k, d["nil"], d["neg"], d["ex"])

    def p(t, val):
        return 'P("%s", %s)' % (t, val)

    def ts(lvs, pts):
        return "TS(<<%s>>, <<%s>>)" % (", ".join('"%s"' % x for x in lvs), ", ".join(pts))

    def m(typ, keys, *series):
        return 'M("%s", %d, <<%s>>)' % (typ, keys, ", ".join(series))

    good = [
        m("gi", 1, ts("p", [p("t1", v("i"))])),
        m("gf", 2, ts("pa", [p("t1", v("f")), p("t2", v("f"))]), ts("ap", [p("t1", v("f"))])),
        m("ci", 0, ts("", [p("t2", v("i"))])),
        m("cf", 1, ts("a", [p("t1", v("f"))])),
        m("dist", 1, ts("p", [p("t1", v("dist"))])),
        m("dist", 0, ts("", [p("t1", v("dist", ex="sc")), p("t2", v("dist", ex="att"))])),
        m("dist", 0, ts("", [p("t1", v("dist", nil="opts"))])),
        m("summary", 1, ts("p", [p("t1", v("sum"))])),
        m("gi", 0),
    ]
    bad = [
        m("gdist", 0, ts("", [p("t1", v("dist"))])),
        m("bogus", 0, ts("", [p("t1", v("i"))])),
        m("gi", 1, ts("", [p("t1", v("i"))])),
        m("ci", 1, ts("p", [p("t1", v("i"))]), ts("pp", [p("t1", v("i"))])),
        m("gf", 0, ts("", [p("t1", v("i")), p("t2", v("f"))])),
        m("cf", 0, ts("", [p("t1", v("str"))])),
        m("dist", 0, ts("", [p("t1", v("dist", neg="count")), p("t2", v("dist"))])),
        m("dist", 0, ts("", [p("t1", v("dist", neg="bucket"))])),
        m("dist", 0, ts("", [p("t1", v("dist", ex="badsc"))])),
        m("summary", 0, ts("", [p("t1", v("sum", neg="count"))])),
        m("summary", 0, ts("", [p("t1", v("f"))])),
        "NilM",
        m("gi", 0, "NilTS", ts("", [p("t1", v("i"))])),
        m("dist", 0, ts("", [p("t1", v("dist", nil="ptr"))])),
        m("summary", 0, ts("", [p("t1", v("sum", nil="ptr"))])),
    ]
    return tla_set(good + bad)


CP_DEFS = dict(
    PROPS=q("tc", "bg", "m1", "m2"), MAXLEN=3,
    CTXS=tla_set(['EmptyCtx', 'Ctx(SC(1,TRUE,<<>>),NoBag,"","")', 'Ctx(SC(2,FALSE,<<"a","b">>),<<"v1","">>,"v2","")',
                  'Ctx(NoSC,<<"v1","v2">>,"v1","v2")', 'Ctx(SC(1,TRUE,<<"b">>),<<"","v2">>,"","v1")']),
    CARS=tla_set(['EmptyCar', 'Car("bad",NoSC,"ok",<<"v1","">>,"v1","")', 'Car("ok",SC(2,TRUE,<<"a">>),"bad",NoBag,"","v2")',
                  'Car("ok",SC(1,FALSE,<<>>),"none",NoBag,"","")', 'Car("bad",NoSC,"bad",NoBag,"","")',
                  'Car("ok",SC(1,TRUE,<<"a","b">>),"ok",<<"v2","v1">>,"v2","v1")']),
    CTX0S=tla_set(['EmptyCtx', 'Ctx([SC(1,TRUE,<<>>) EXCEPT !.rem = TRUE],NoBag,"v1","")', 'Ctx(NoSC,<<"","v2">>,"","")']))


def replay(ctx, binp, part, r, name, reps, nk=2, nb=2, every=1):
    total = 0
    for rep in reps:
        out = os.path.join(ctx.work, "replay-%s-%d.json" % (name, rep))
        ctx.run([binp, "replay", "-part", part, "-edges", r["edges_file"], "-rep", str(rep), "-nk", str(nk), "-nb", str(nb),
                 "-every", str(every), "-out", out], timeout=1800)
        res = json.load(open(out))
        total += res["executed"]
        ctx.traces_validated += res["executed"]
        ctx.evaluations += res["evaluations"]
        for k, v in res["counters"].items():
            ctx.extra.setdefault("counters", {}).setdefault(part + "." + k, 0)
            ctx.extra["counters"][part + "." + k] += v
        ctx.add_samples(res["samples"][:1])
        for c in res["classes"]:
            sig = dict(c["sig"])
            sig["dir"] = "replay"
            ex = c["example"]
            for _ in range(c["count"]):
                ctx.violation(sig, replay={"cfg": name, "rep": rep, "ops": (ex.get("path") or []) + ([ex["act"]] if ex.get("act") else []),
                                           "fields": ex.get("case"), "want": ex.get("want"), "got": ex.get("got"),
                                           "detail": ex.get("detail")})
        for s in res["inconclusive"]:
            ctx.note_inconclusive(s)
    return total


def random_histories(ctx, binp, n):
    trace = os.path.join(ctx.work, "trace.ndjson")
    resf = os.path.join(ctx.work, "random.json")
    ctx.run([binp, "random", "-n", str(n), "-out", trace, "-res", resf, "-nk", "3", "-nb", "2"], timeout=1800)
    res = json.load(open(resf))
    for c in res["classes"]:          # panics inside the bridges
        sig = dict(c["sig"])
        sig["dir"] = "random"
        for _ in range(c["count"]):
            ctx.violation(sig, replay={"ops": c["example"].get("path"), "detail": c["example"].get("detail")})
    viols, accepted = ctx.validate_trace(S, "Trace_Bridge", "Trace_Bridge.cfg", trace, timeout=3000)
    ctx.traces_validated += n
    ctx.evaluations += res["evaluations"]
    ctx.extra["random_scenarios"] = n
    ctx.extra["random_counters"] = res.get("counters", {})
    ctx.extra["trace_lines_validated"] = accepted
    ctx.add_samples(res["samples"][:1])
    lines = open(trace).read().splitlines()
    # self-test of the oracle: corrupt one recorded field of one line -> Trace_Bridge.tla must reject exactly that line
    for i, ln in enumerate(lines[:400]):
        rec = json.loads(ln)
        if rec["ev"] == "Op" and rec["obs"]["spans"]:
            rec["obs"]["spans"][0]["ended"] = 7
            bad = os.path.join(ctx.work, "trace-corrupt.ndjson")
            open(bad, "w").write("\n".join(lines[:i] + [json.dumps(rec)]) + "\n")
            cv, _ = ctx.validate_trace(S, "Trace_Bridge", "Trace_Bridge.cfg", bad, timeout=600, name="trace-corrupt")
            hit = any(v["line"] == i + 1 and any(d["field"] == "ended" and d["span"] == 1 for d in v["diffs"]) for v in cv)
            ctx.extra["corrupt_trace_rejected"] = hit
            if not hit:
                ctx.note_inconclusive("self-test: a corrupted trace line was not rejected by Trace_Bridge.tla")
            break
    for v in viols:
        rec = json.loads(lines[v["line"] - 1])
        scen = []
        i = v["line"] - 1
        while i >= 0:
            r = json.loads(lines[i])
            if r["ev"] == "New":
                break
            scen.append(r["op"])
            i -= 1
        scen.reverse()
        for d in v["diffs"]:
            field = ("spans." + d["field"]) if d["span"] > 0 else d["field"]
            sig = {"part": v["part"], "kind": "out" if field.startswith("out") else "state", "field": field, "dir": "random"}
            sig.update(rec["facts"][d["span"]])
            ctx.violation(sig, replay={"ops": scen, "span": d["span"], "obs": rec["obs"], "out": rec["out"], "line": v["line"]})


def run(ctx):
    thorough = ctx.tier == "thorough"
    binp = go_build(ctx)
    reps = [0, 1, 2, 3] if thorough else [ctx.seed % 4]
    edges = {}
    parts = set((os.environ.get("X03_PARTS") or "ot,oc,cp,ocm,random").split(","))   # development aid only
    # ---- A. OpenTracing bridge: spec -> code
    for c in (ot_configs(thorough) if "ot" in parts else []):
        d = dict(OT_DEFAULTS)
        d.update({k: v for k, v in c.items() if k != "name"})
        r = ctx.tlc(S, "MC_OTBridge", "MC_OTBridge.cfg", defines=d, want_edges=True, name=c["name"], timeout=1500, heap="2g")
        edges[c["name"]] = replay(ctx, binp, "ot", r, c["name"], reps, nk=d["NK"], nb=d["NB"])
    # ---- B. OpenCensus trace bridge
    for c in (oc_configs(thorough) if "oc" in parts else []):
        d = dict(OC_DEFAULTS)
        d.update({k: v for k, v in c.items() if k != "name"})
        r = ctx.tlc(S, "MC_OCBridge", "MC_OCBridge.cfg", defines=d, want_edges=True, name=c["name"], timeout=1500, heap="2g")
        edges[c["name"]] = replay(ctx, binp, "oc", r, c["name"], reps, nk=d["NK"], nb=1)
    # ---- B. OpenCensus metric producer
    if "ocm" in parts:
        r = ctx.tlc(S, "MC_OCMetric", "MC_OCMetric.cfg", defines={"METRICS": ocm_metrics(thorough), "MAXLIST": 3 if thorough else 2},
                    want_edges=True, name="oc-metrics", timeout=1500, heap="2g")
        edges["oc-metrics"] = replay(ctx, binp, "ocm", r, "oc-metrics", [0])
    # ---- C. composite propagator
    d = dict(CP_DEFS)
    if thorough:
        d["MAXLEN"] = 4
    r = ctx.tlc(S, "MC_Composite", "MC_Composite.cfg", defines=d, want_edges=True, name="composite", timeout=900, heap="2g")
    edges["composite"] = replay(ctx, binp, "cp", r, "composite", [0, 1, 2] if thorough else [ctx.seed % 3, (ctx.seed + 1) % 3])
    # self-test of the replay binding: corrupt one field of one edge's successor state -> the harness must report it
    for ln in open(r["edges_file"]):
        e = json.loads(ln)
        if e["act"].get("op") == "RT" and "m1" in e["act"]["ps"]:
            e["to"]["car"]["shared"] = "9"
            bad = os.path.join(ctx.work, "edges-corrupt.ndjson")
            open(bad, "w").write(json.dumps(e) + "\n")
            out = os.path.join(ctx.work, "replay-corrupt.json")
            ctx.run([binp, "replay", "-part", "cp", "-edges", bad, "-out", out], timeout=300)
            hit = any(c["sig"]["field"] == "car.shared" for c in json.load(open(out))["classes"])
            ctx.extra["corrupt_edge_rejected"] = hit
            if not hit:
                ctx.note_inconclusive("self-test: a corrupted edge was not reported by the replay")
            break
    ctx.extra["edges_replayed"] = edges
    # ---- code -> spec: seeded random histories on both bridges, judged by Trace_Bridge.tla
    if "random" in parts:
        random_histories(ctx, binp, 3000 if thorough else 300)
    ctx.assumptions += [
        "symbols (names, keys, values) stand for the representatives in harness_x03/common.go; the representative index is "
        "the seed (quick) or every index (thorough)",
        "a span's identity is its position in creation order; trace identity is the first span with that trace id",
        "exporter-visible fields of an unsampled span are not observable (model keeps them at their defaults)",
        "whether the special tags span.kind / error are also kept as attributes, and OpenTracing event names, are not projected",
        "the member propagators of the composite are judged by their own contracts (C03 / C11), not their grammars",
    ]
