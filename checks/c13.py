"""C13 -- exporters encode telemetry faithfully (OTLP traces / metrics / logs over gRPC and HTTP, Zipkin).

spec -> code : TLC explores OtlpGrouping.tla (every batch of <= N items over resource x scope
               indices incl. equal-but-distinct objects and the empty scope; every single-item
               batch whose field vector is <= 2 fields away from the base vector = all value
               pairs; all 25 severities), proves on the model that the constructive Group(batch)
               meets the declarative statement, and prints every edge (= one abstract batch).
               harness/c13 builds each batch as REAL spans / ResourceMetrics / log records, runs
               the REAL exporters against a loopback collector, projects what was decoded.
code -> spec : the same for seeded random batches (<= 60 items, 6 resources, 6 scopes, boundary
               representatives from the concretization table).
comparator   : Trace_OtlpGrouping.tla (OtlpModel!Violations) for BOTH directions; python only
               orchestrates, classifies violations into signatures and matches known findings.
"""
import json
import os
import vlib

S = "OtlpGrouping"
E = "OtelSDK"  # root module of the family: end-to-end contract; its trace spec judges every recorded line
SIGNALS = ["trace", "metric", "log", "zipkin"]
CHUNK = 6000  # trace lines per TLC validation run


def build(ctx):
    """harness/c13 (imports the stdout exporters, listed in harness/go.mod)"""
    return ctx.go_build("c13")


def tla_set(xs):
    return "{" + ", ".join('"%s"' % x for x in xs) + "}"


def spec_files():
    """modules the OtelSDK specs INSTANCE / EXTEND from the other subsystem directories"""
    g = os.path.join(vlib.SPECS, S)
    st = os.path.join(vlib.SPECS, "SpanState")
    return {"OtlpModel.tla": os.path.join(g, "OtlpModel.tla"), "Pairwise.tla": os.path.join(g, "Pairwise.tla"),
            "Trace_OtlpGrouping.tla": os.path.join(g, "Trace_OtlpGrouping.tla"),
            "SpanModel.tla": os.path.join(st, "SpanModel.tla"), "Truncate.tla": os.path.join(st, "Truncate.tla")}


def e2e_configs(tier):
    """API-level programs for real providers (specs/OtelSDK/MC_OtelSDK.tla)"""
    thorough = tier == "thorough"
    cfgs = []
    for sig in ["trace", "metric", "log"]:
        cfgs.append(dict(name="e2e-fields2-%s" % sig, SIG=sig, MODE="fields2", MAXITEMS=1, RES=["R1"], SCOPES=["S1"],
                         pipes=6 if thorough else 1))
        # several providers with equal-but-distinct resources (R1=R2), same attributes / other schema URL (R4);
        # tracers / meters / loggers of the empty scope, equal-but-distinct scopes (S1=S2), other schema URL (S4)
        cfgs.append(dict(name="e2e-group-%s" % sig, SIG=sig, MODE="group", MAXITEMS=3 if thorough else 2,
                         RES=["R1", "R2", "R4"], SCOPES=["S0", "S1", "S2", "S4"], pipes=2 if thorough else 1))
        # tracers / meters / loggers with an empty name but a version / schema URL / attributes
        cfgs.append(dict(name="e2e-group3-%s" % sig, SIG=sig, MODE="group", MAXITEMS=2,
                         RES=["R1", "R2"], SCOPES=["S0", "S7", "S8", "S9", "S10", "S11"], pipes=2 if thorough else 1))
        if thorough:
            cfgs.append(dict(name="e2e-group2-%s" % sig, SIG=sig, MODE="group", MAXITEMS=2,
                             RES=["R3", "R5", "R7"], SCOPES=["S1", "S3", "S5", "S6", "S7"], pipes=3))
            cfgs.append(dict(name="e2e-fields1-%s" % sig, SIG=sig, MODE="fields1", MAXITEMS=2, RES=["R3"], SCOPES=["S0"], pipes=1))
    return cfgs


def configs(tier):
    thorough = tier == "thorough"
    cfgs = []
    for sig in ["trace", "metric", "log"]:
        # equal-but-distinct resources (R1=R2), other attributes (R3), same attributes / other
        # schema URL (R4); the empty scope (S0) and equal-but-distinct scopes (S1=S2)
        cfgs.append(dict(name="group-%s-a" % sig, SIG=sig, MODE="group", MAXITEMS=4 if thorough else 3,
                         RES=["R1", "R2", "R3", "R4"], SCOPES=["S0", "S1", "S2"]))
        # scopes that differ in exactly one component; empty and absent resources
        cfgs.append(dict(name="group-%s-b" % sig, SIG=sig, MODE="group", MAXITEMS=3 if thorough else 2,
                         RES=["R1", "R5", "R7"], SCOPES=["S1", "S3", "S4", "S5", "S6", "S7"]))
        # partially empty scopes: no name but a version / a schema URL / attributes / all three; the empty scope; name only
        cfgs.append(dict(name="group-%s-d" % sig, SIG=sig, MODE="group", MAXITEMS=3 if thorough else 2,
                         RES=["R1"], SCOPES=["S0", "S7", "S8", "S9", "S10", "S11"]))
        if thorough:
            cfgs.append(dict(name="group-%s-c" % sig, SIG=sig, MODE="group", MAXITEMS=3,
                             RES=["R1", "R2", "R4", "R6"], SCOPES=["S0", "S1", "S2", "S7"]))
    cfgs.append(dict(name="group-zipkin", SIG="zipkin", MODE="group", MAXITEMS=4 if thorough else 3,
                     RES=["R1", "R3", "R5"], SCOPES=["S0", "S1", "S3"], coverage=True))
    for sig in SIGNALS:
        cfgs.append(dict(name="fields2-%s" % sig, SIG=sig, MODE="fields2", MAXITEMS=1, RES=["R1"], SCOPES=["S1"],
                         reps=3 if thorough else 1))
        if thorough:
            cfgs.append(dict(name="fields1-%s" % sig, SIG=sig, MODE="fields1", MAXITEMS=2, RES=["R3"], SCOPES=["S0"]))
    cfgs.append(dict(name="sev-log", SIG="log", MODE="sev", MAXITEMS=1, RES=["R1"], SCOPES=["S1"]))
    return cfgs


# ---------------------------------------------------------------------------- classification
def short(v, n=160):
    s = v if isinstance(v, str) else json.dumps(v, sort_keys=True)
    return s if len(s) <= n else s[:n] + "..."


def subdiffs(field, want, got):
    """which leaf of a structured field differs: [(subfield, want, got)]"""
    if field not in ("events", "links", "dps") or not isinstance(want, list) or not isinstance(got, list):
        return [("", want, got)]
    if len(want) != len(got):
        return [("len", str(len(want)), str(len(got)))]
    if field == "dps":
        want = sorted(want, key=lambda d: d.get("da", ""))
        got = sorted(got, key=lambda d: str(d.get("da", "")))
    out = []
    for w, g in zip(want, got):
        for k in sorted(w):
            if g.get(k) == w[k]:
                continue
            if k == "ex" and isinstance(w[k], list) and isinstance(g.get(k), list):
                if len(w[k]) != len(g[k]):
                    out.append(("ex.len", str(len(w[k])), str(len(g[k]))))
                    continue
                for xw, xg in zip(w[k], g[k]):
                    for kk in sorted(xw):
                        if xg.get(kk) != xw[kk]:
                            out.append(("ex." + kk, xw[kk], xg.get(kk)))
            else:
                out.append((k, w[k], g.get(k)))
    return out or [("", want, got)]


def signatures(v, rec, tables, direction):
    """flat signatures (one per differing leaf) of one VIOL record of the trace spec"""
    base = {"dir": direction, "sig": rec["sig"], "proto": v.get("proto"), "kind": v["kind"], "field": v.get("field", "-")}
    if rec.get("pipe"):
        base["pipe"] = rec["pipe"].split("-")[0]  # processor / reader of the end-to-end pipeline
    item = next((it for it in rec["batch"] if it["id"] == v.get("id")), None)
    if v["kind"] == "field":
        if rec["sig"] == "metric" and item is not None:
            base["agg"] = item["fv"].get("agg") or item["fv"].get("kind")
        out = []
        for sub, w, g in subdiffs(v["field"], v.get("want"), v.get("got")):
            s = dict(base)
            s.update({"sub": sub, "want": short(w), "got": short(g)})
            out.append(s)
        return out
    if v["kind"] == "misplaced":
        s = dict(base)
        s.update({"want": short(v.get("want")), "got": short(v.get("got")), "ctx": ""})
        if v["field"] == "rk.u" and item is not None and rec["sig"] != "zipkin":
            # the item sits under the schema URL of the FIRST resource of the batch with equal attributes
            mine = tables["res"][item["r"]]
            first = next((tables["res"][it["r"]] for it in rec["batch"] if tables["res"][it["r"]]["a"] == mine["a"]), None)
            if first is not None and first["u"] != mine["u"] and v.get("got") == first["u"]:
                s["ctx"] = "first-seen-url-of-equal-attrs"
        return [s]
    return [base]


def run(ctx):
    thorough = ctx.tier == "thorough"
    binp = build(ctx)

    # ---- vocabulary from the specification
    r = ctx.tlc(S, "OtlpTables", "OtlpTables.cfg", workers=1, name="tables", count=False, timeout=600)
    tabs = [p for p in r["prints"] if isinstance(p, str) and p.startswith("TABLES ")]
    if len(tabs) != 1:
        raise RuntimeError("OtlpTables did not print the tables: %s" % r["out"])
    tables = json.loads(tabs[0][7:])
    tables_f = os.path.join(ctx.work, "tables.json")
    with open(tables_f, "w") as f:
        json.dump(tables, f)

    counters = {}
    stats = {"edges": 0, "replayed": 0, "random_batches": 0, "trace_lines": 0, "viol_records": 0, "chunks": 0, "e2e_edges": 0, "e2e_cases": 0}

    def absorb(resf, direction):
        res = json.load(open(resf))
        ctx.traces_validated += res["executed"]
        ctx.evaluations += res["evaluations"]
        for k, v in res["counters"].items():
            counters.setdefault(direction, {}).setdefault(k, 0)
            counters[direction][k] += v
        ctx.add_samples(res["samples"][:1], cap=4)
        for m in res["mismatches"]:
            # the real exporter crashed, or put bytes on the wire that do not decode
            ctx.violation({"dir": direction, "sig": (m.get("case") or {}).get("sig"), "kind": m["kind"]}, replay=m)
        for s in res["inconclusive"]:
            ctx.note_inconclusive(s)
        return res

    stdout_obs = {}  # discrepancies seen only in the stdout exporters' JSON: observations, never violations
    pool = {"replay": [], "random": [], "e2e": [], "interleave": []}  # recorded trace lines waiting for the comparator

    def validate(direction, flush=False):
        """TLC (Trace_OtlpGrouping) is the comparator; lines of several configurations are pooled so that one
        JVM start judges up to CHUNK lines"""
        lines = pool[direction]
        while len(lines) >= CHUNK or (flush and lines):
            chunk, lines[:] = lines[:CHUNK], lines[CHUNK:]
            stats["chunks"] += 1
            cf = os.path.join(ctx.work, "chunk-%s-%d.ndjson" % (direction, stats["chunks"]))
            with open(cf, "w") as f:
                f.write("\n".join(chunk) + "\n")
            viols, accepted = ctx.validate_trace(E, "Trace_OtelSDK", "Trace_OtelSDK.cfg", cf, timeout=3600,
                                                 name="trace-%s-%d" % (direction, stats["chunks"]), extra_files=spec_files())
            stats["trace_lines"] += accepted
            stats["viol_records"] += len(viols)
            recs = {}
            for v in viols:
                i = v["line"] - 1
                if i not in recs:
                    recs[i] = json.loads(chunk[i])
                rec = recs[i]
                for sg in signatures(v, rec, tables, direction):
                    if v.get("proto") == "stdout":
                        # the statement names the OTLP exporters and Zipkin: what only the stdout exporters' JSON shows is an
                        # observation (a discrepancy the OTLP projection shows as well is judged through its own VIOL records)
                        k = json.dumps({x: sg[x] for x in sg if x not in ("dir", "pipe")}, sort_keys=True)
                        o = stdout_obs.setdefault(k, {"signature": json.loads(k), "count": 0,
                                                      "sample": {"dir": direction, "config": rec.get("cfg"), "pipe": rec.get("pipe"),
                                                                 "viol": v, "batch": rec["batch"][:3]}})
                        o["count"] += 1
                        continue
                    ctx.violation(sg, replay={"viol": v, "config": rec.get("cfg"), "case": rec.get("case"), "rseed": rec.get("rseed"),
                                              "batch": rec["batch"],
                                              "outs": [o for o in rec["outs"] if v.get("proto") in (o["proto"], "both")][:2]})
            os.remove(cf)

    # ---- spec -> code
    for c in configs(ctx.tier):
        d = {"SIG": c["SIG"], "MODE": c["MODE"], "MAXITEMS": c["MAXITEMS"], "RES": tla_set(c["RES"]), "SCOPES": tla_set(c["SCOPES"])}
        r = ctx.tlc(S, "MC_OtlpGrouping", "MC_OtlpGrouping.cfg", defines=d, want_edges=True, name=c["name"], timeout=3000,
                    coverage=bool(c.get("coverage")))
        if c.get("coverage"):
            ctx.extra["zero_coverage_actions"] = r["zero_cov"]
            if r["zero_cov"]:
                ctx.note_inconclusive("explorer actions never taken: %s" % r["zero_cov"])
        stats["edges"] += r.get("edges", 0)
        for rep in range(c.get("reps", 1)):
            trace = os.path.join(ctx.work, "replay-%s-%d.ndjson" % (c["name"], rep))
            resf = os.path.join(ctx.work, "replay-%s-%d.json" % (c["name"], rep))
            ctx.run([binp, "replay", "-tables", tables_f, "-edges", r["edges_file"], "-rep", str(rep), "-name", c["name"],
                     "-out", trace, "-res", resf], timeout=3000)
            res = absorb(resf, "replay")
            stats["replayed"] += res["executed"]
            pool["replay"] += open(trace).read().splitlines()
            os.remove(trace)
            validate("replay")
    validate("replay", flush=True)

    # ---- code -> spec
    n = 500 if thorough else 40
    trace = os.path.join(ctx.work, "random.ndjson")
    resf = os.path.join(ctx.work, "random.json")
    ctx.run([binp, "random", "-tables", tables_f, "-n", str(n), "-out", trace, "-res", resf], timeout=3000)
    res = absorb(resf, "random")
    stats["random_batches"] = res["executed"]
    pool["random"] += open(trace).read().splitlines()
    validate("random", flush=True)

    # ---- several exporter instances of one kind whose exports interleave (specs/OtlpGrouping/Interleave.tla):
    # every history of (instance, attempt) events against a scripted collector (503 then 200), all three signals,
    # uncompressed and gzip; every received request is judged against the batch of ITS OWN export
    for shape in (["one", "both"] if thorough else ["one"]):
        r = ctx.tlc(S, "MC_Interleave", "MC_Interleave.cfg", defines={"SHAPE": shape}, want_edges=True,
                    name="interleave-%s" % shape, timeout=1200, heap="2g")
        stats["interleave_histories"] = stats.get("interleave_histories", 0) + r.get("edges", 0)
        trace = os.path.join(ctx.work, "interleave-%s.ndjson" % shape)
        resf = os.path.join(ctx.work, "interleave-%s.json" % shape)
        ctx.run([binp, "interleave", "-tables", tables_f, "-edges", r["edges_file"], "-rounds", str(4 if thorough else 2),
                 "-out", trace, "-res", resf], timeout=3000)
        absorb(resf, "interleave")
        pool["interleave"] += open(trace).read().splitlines()
        os.remove(trace)
    validate("interleave", flush=True)
    ic = counters.get("interleave", {})
    for k in ("histories_trace", "histories_metric", "histories_log", "histories_gzip", "requests_retried"):
        if not ic.get(k):
            ctx.note_inconclusive("vacuity: interleaved exporter instances never reached %s" % k)

    # ---- end to end: real providers -> processors / readers -> exporters -> collector (specs/OtelSDK)
    for c in e2e_configs(ctx.tier):
        d = {"SIG": c["SIG"], "MODE": c["MODE"], "MAXITEMS": c["MAXITEMS"], "RES": tla_set(c["RES"]), "SCOPES": tla_set(c["SCOPES"])}
        r = ctx.tlc(E, "MC_OtelSDK", "MC_OtelSDK.cfg", defines=d, want_edges=True, name=c["name"], timeout=3000,
                    extra_files=spec_files())
        stats["e2e_edges"] += r.get("edges", 0)
        trace = os.path.join(ctx.work, "%s.ndjson" % c["name"])
        resf = os.path.join(ctx.work, "%s.json" % c["name"])
        ctx.run([binp, "e2e", "-tables", tables_f, "-edges", r["edges_file"], "-pipes", str(c["pipes"]), "-name", c["name"],
                 "-out", trace, "-res", resf], timeout=3000)
        res = absorb(resf, "e2e")
        stats["e2e_cases"] += res["executed"]
        pool["e2e"] += open(trace).read().splitlines()
        os.remove(trace)
        validate("e2e")
    trace = os.path.join(ctx.work, "e2e-random.ndjson")
    resf = os.path.join(ctx.work, "e2e-random.json")
    ctx.run([binp, "e2e", "-tables", tables_f, "-n", str(300 if thorough else 25), "-pipes", str(3 if thorough else 2),
             "-out", trace, "-res", resf], timeout=3000)
    res = absorb(resf, "e2e")
    stats["e2e_cases"] += res["executed"]
    pool["e2e"] += open(trace).read().splitlines()
    validate("e2e", flush=True)
    ec = counters.get("e2e", {})
    for k in ["pipe_" + p for p in ("bsp-grpc", "ssp-http", "bsp-stdout", "ssp-grpc", "bsp-http", "ssp-stdout", "periodic-grpc",
                                     "manual-http", "periodic-stdout", "manual-grpc", "periodic-http", "manual-stdout", "batch-grpc",
                                     "simple-http", "batch-stdout", "simple-grpc", "batch-http", "simple-stdout")] + \
            ["batches_equal_distinct_resources", "batches_equal_distinct_scopes", "items_empty_scope", "items_partially_empty_scope"]:
        if not ec.get(k):
            ctx.note_inconclusive("vacuity: end-to-end programs never reached %s" % k)

    # ---- observations outside the verdict (inputs that are not legal for the data model)
    pf = os.path.join(ctx.work, "probe.json")
    ctx.run([binp, "probe", "-out", pf], timeout=600)
    ctx.extra["observations"] = {"stdout_only_discrepancies": sorted(stdout_obs.values(), key=lambda o: -o["count"])[:20],
                                 "invalid_utf8_strings": json.load(open(pf)),
                                 "stdout_exporters": "a NaN / Inf value makes the stdout exporters return an error for the whole batch "
                                                     "(encoding/json); such cases have no stdout observation (counters stdout_refused_*)"}

    # ---- vacuity: the random driver reached the regimes the statement quantifies over
    rc = counters.get("random", {})
    for k in ("batches_equal_distinct_resources", "batches_equal_distinct_scopes", "batches_multi_group", "batches_over_30_items",
              "items_empty_scope", "items_partially_empty_scope", "class_cbig", "class_tpre", "class_tzero", "class_kmax", "class_vnan", "class_bdeep", "class_abound"):
        if not rc.get(k):
            ctx.note_inconclusive("vacuity: random batches never reached regime %s" % k)
    for k in ("stdout_observed_trace", "stdout_observed_metric", "stdout_observed_log"):
        # random batches nearly always hold a NaN / Inf somewhere (no JSON): the exporter-level direction as a whole counts
        if not (rc.get(k, 0) + counters.get("replay", {}).get(k, 0)):
            ctx.note_inconclusive("vacuity: the stdout exporters never printed a %s batch" % k[16:])
    ctx.extra["counters"] = counters
    ctx.extra["stats"] = stats
    ctx.extra["rule"] = ("edges: every state of OtlpGrouping.tla for the listed configs is one batch, replayed through the real "
                         "exporters; random: seeded batches; every decoded request is judged by OtlpModel!Violations in TLC")
    ctx.extra["level_note"] = ("model_checking for the grouping / exactly-once / ordering structure and the field-presence matrix "
                               "(exhaustive for small batches); extreme-value field fidelity is sampled through the harness's "
                               "concretization table, not decided by TLC (DESIGN 4 C13 Limits)")
    ctx.assumptions += [
        "TLC decides grouping / ordering / exactly-once and the field-presence matrix on abstract classes; fidelity for extreme "
        "concrete values (max uint64 counts, pre-epoch / zero / year-2262 timestamps, >2^32 dropped counts, NaN/Inf/-0, deep "
        "values, 10 kB strings) is SAMPLED through the concretization table of harness/c13/classes.go, not decided by TLC",
        "the projection (concrete decoded value -> class) of harness/c13 is trusted; a value it does not know is reported as '?..'",
        "attribute lists are compared as key-sorted lists, data points of a metric as a set, groups across resources as a set",
        "histogram sum/min/max are doubles in OTLP: integer inputs are compared as the nearest double",
        "Zipkin: names compared in Zipkin's lower-case normal form, times at microsecond resolution; span start times before "
        "1970 and negative durations are not representable in the Zipkin model and are not generated",
        "strings that are not valid UTF-8 are not legal attribute/body strings; what the exporters do with them is recorded as an "
        "observation (extra.observations), not judged; NaN-valued resource/scope attributes (C05) are not generated",
        "stdout exporters: compared only in the fields their JSON carries (not: resource schema URL, int64/float64 of metric numbers, "
        "the aggregation kind of a metric without data points)",
        "end to end: limits at their defaults (C04/C17), quiescent flush points only (C01/C06); how many requests/groups the processors "
        "cut and the order of arrival are not judged; metric timestamps are only checked to be set and ordered; the exponential bucket "
        "layout is C07's subject; the extra export of PeriodicReader.Shutdown is not part of the flush point",
    ]
