"""C09 -- sampling decisions are consistent and traces stay connected (Sampling.tla).

spec -> code : TLC explores Sampling.tla (span forests x sampler terms x parent contexts x
               trace-ID classes) exhaustively for small constants and prints every edge;
               harness/c09 replays each edge on a real TracerProvider (scripted IDGenerator,
               scripted custom Sampler, simple + batch + plain span processors) and compares
               the projection (SpanContext, IsRecording, processors, exporters) with the
               spec's successor state.
code -> spec : harness/c09 records (a) random span forests under random sampler compositions
               with the SDK's own random ID generator, (b) ratio-sampler decisions for random
               trace IDs x random ratios in and beyond [0,1], (c) ID statistics of 10^5..10^6
               spans started from several goroutines, (d) sampled shares; TLC validates the
               recordings against SamplingModel / RatioBits via Trace_Sampling.tla.
"""
import json
import os

S = "Sampling"

# ----------------------------------------------------------------------------- sampler terms
ON = {"k": "on"}
OFF = {"k": "off"}


def ratio(n):
    return {"k": "ratio", "n": n}


def custom(d, ts):
    return {"k": "custom", "d": d, "ts": ts}


def pb(root, rs=ON, rns=OFF, ls=ON, lns=OFF):
    return {"k": "pb", "root": root, "rs": rs, "rns": rns, "ls": ls, "lns": lns}


def env(name, arg):
    return {"k": "env", "name": name, "arg": arg}


def tla(v):
    """python value -> TLA+ expression"""
    if isinstance(v, bool):
        return "TRUE" if v else "FALSE"
    if isinstance(v, int):
        return str(v)
    if isinstance(v, str):
        return '"%s"' % v
    if isinstance(v, dict):
        return "[" + ", ".join("%s |-> %s" % (k, tla(x)) for k, x in v.items()) + "]"
    if isinstance(v, (list, tuple)):
        return "<<" + ", ".join(tla(x) for x in v) + ">>"
    if isinstance(v, (set, frozenset)):
        return "{" + ", ".join(tla(x) for x in sorted(v, key=str)) + "}"
    raise TypeError(v)


def tla_set(items):
    seen, out = set(), []
    for it in items:
        k = json.dumps(it, sort_keys=True)
        if k not in seen:
            seen.add(k)
            out.append(it)
    return "{" + ",\n  ".join(tla(x) for x in out) + "}", len(out)


def rc(valid=True, remote=True, sampled=True, ts="", hi=3):
    return {"valid": valid, "remote": remote, "sampled": sampled, "ts": ts, "hi": hi}


DECISIONS = ["Drop", "RecordOnly", "RecordAndSample"]
TSMODES = ["inherit", "replace", "empty"]
BASE = [ON, OFF] + [ratio(n) for n in range(-1, 10)] + [custom(d, t) for d in DECISIONS for t in TSMODES]


def sampler_family(tier):
    """sampler terms of depth <= 2 (thorough: a few of depth 3)"""
    out = list(BASE)
    # each ParentBased position varied over every base sampler, the others at their defaults
    for b in BASE:
        out += [pb(b), pb(ON, rs=b), pb(ON, rns=b), pb(OFF, ls=b), pb(OFF, lns=b)]
    # all five positions pairwise different (position swaps become visible)
    nb = len(BASE)
    for i in range(nb):
        out.append(pb(*[BASE[(i + 5 * j) % nb] for j in range(5)]))
    inv = pb(OFF, rs=OFF, rns=ON, ls=OFF, lns=ON)  # inverted
    out += [inv, pb(custom("RecordOnly", "replace"), rs=custom("RecordAndSample", "empty"),
                    rns=custom("RecordOnly", "inherit"), ls=custom("Drop", "replace"),
                    lns=custom("RecordAndSample", "inherit"))]
    if tier == "thorough":
        out += [pb(pb(ratio(4)), rs=pb(OFF, rs=ratio(4)), rns=pb(ON, rns=ratio(4))),
                pb(inv, rs=inv, rns=inv, ls=inv, lns=inv), pb(pb(pb(ratio(4))))]
    return out


ENV_NAMES = ["always_on", "always_off", "traceidratio", "parentbased_always_on", "parentbased_always_off",
             "parentbased_traceidratio", "unknown", "unset", "empty"]
ENV_ARGS = ["unset", "k0", "k4", "k8", "neg", "gt1", "junk", "empty", "nan"]


def configs(tier):
    th = tier == "thorough"
    cfgs = []
    # A: forests -- every shape of <= 3 (4) spans, ends interleaved, WithNewRoot, a few samplers
    rem_a = [rc(sampled=True, ts="p", hi=3), rc(sampled=False, ts="", hi=4), rc(valid=False, sampled=True, ts="p", hi=0),
             rc(remote=False, sampled=False, ts="p", hi=3)]
    samp_a = [{"k": "default"}, pb(ratio(4)), ON, custom("RecordOnly", "replace"),
              pb(OFF, rs=custom("RecordOnly", "inherit"), rns=ON, ls=ratio(4), lns=custom("RecordAndSample", "empty"))]
    cfgs.append(dict(name="forest", samplers=samp_a, remotes=rem_a, his=[3, 4], maxspans=3,
                     newroot=["local", "remote"] if th else ["local"], endmode="any", ctxuntil=3 if th else 2))
    if th:
        cfgs.append(dict(name="forest4", samplers=[pb(ratio(4)), custom("RecordOnly", "inherit"),
                                                    pb(OFF, rs=ratio(4), rns=ON, ls=OFF, lns=ON)],
                         remotes=rem_a[:3], his=[3, 4], maxspans=4, newroot=["local"], endmode="any", ctxuntil=2))
    # B: sampler compositions x every parent context x every trace-ID class
    rem_b = [rc(valid=True, remote=r, sampled=s, ts=t, hi=h) for r in (True, False) for s in (True, False)
             for t in ("", "p") for h in (3, 4)]
    rem_b += [rc(valid=False, remote=r, sampled=s, ts=t, hi=0) for r in (True, False) for s in (True, False)
              for t in ("", "p")]
    cfgs.append(dict(name="samplers", samplers=sampler_family(tier), remotes=rem_b, his=list(range(8)), maxspans=2,
                     newroot=["none", "local", "remote"] if th else ["local"], endmode="any" if th else "none",
                     ctxuntil=2 if th else 1))
    # C: sampler from OTEL_TRACES_SAMPLER / OTEL_TRACES_SAMPLER_ARG
    rem_c = [rc(sampled=True, ts="p", hi=3), rc(sampled=False, ts="p", hi=4), rc(valid=False, sampled=True, hi=0),
             rc(remote=False, sampled=True, hi=4), rc(remote=False, sampled=False, hi=3)]
    cfgs.append(dict(name="env", samplers=[env(n, a) for n in ENV_NAMES for a in ENV_ARGS], remotes=rem_c,
                     his=list(range(8)) if th else [0, 3, 4, 7], maxspans=2, newroot=[], endmode="none", ctxuntil=1))
    return cfgs


def defines(c):
    s, n = tla_set(c["samplers"])
    c["nsamplers"] = n
    return {"SAMPLERS": s, "REMOTES": tla(c["remotes"]), "HIS": tla(set(c["his"])), "NEWROOTFOR": tla(set(c["newroot"])),
            "MAXSPANS": c["maxspans"], "ENDMODE": c["endmode"], "CTXUNTIL": c["ctxuntil"]}


def add_counters(ctx, res):
    for k, v in res["counters"].items():
        ctx.extra.setdefault("counters", {}).setdefault(k, 0)
        ctx.extra["counters"][k] += v


def run(ctx):
    thorough = ctx.tier == "thorough"
    binp = ctx.go_build("c09")
    # ---- model-level: RatioBits against exact rational arithmetic, abstraction hi<n == bit-level oracle
    ctx.tlc(S, "MC_Ratio", "MC_Ratio.cfg", name="ratio-theorems")
    # ---- vacuity: every action of Sampling.tla fires (small instance, -coverage)
    cov = dict(name="coverage", samplers=[{"k": "default"}, custom("RecordOnly", "replace"), env("traceidratio", "k4")],
               remotes=[rc(ts="p"), rc(valid=False, ts="p", hi=0)], his=[3, 4], maxspans=2, newroot=["local"],
               endmode="any", ctxuntil=2)
    r = ctx.tlc(S, "MC_Sampling", "MC_Sampling.cfg", defines=defines(cov), workers=1, coverage=True, name="coverage",
                count=False)
    ctx.extra["zero_coverage_actions"] = r["zero_cov"]
    if r["zero_cov"]:
        ctx.note_inconclusive("actions never taken in Sampling.tla: %s" % r["zero_cov"])
    # ---- spec -> code
    edges_total = 0
    for c in configs(ctx.tier):
        r = ctx.tlc(S, "MC_Sampling", "MC_Sampling.cfg", defines=defines(c), want_edges=True, name=c["name"], timeout=3000)
        out = os.path.join(ctx.work, "replay-%s.json" % c["name"])
        ctx.run([binp, "replay", "-edges", r["edges_file"], "-reps", "0,1,2", "-par", str(max(2, min(8, (os.cpu_count() or 4) // 2))),
                 "-out", out], timeout=3000)
        res = json.load(open(out))
        edges_total += res["evaluations"]
        ctx.traces_validated += res["executed"]
        ctx.evaluations += res["executed"]
        add_counters(ctx, res)
        ctx.add_samples(res["samples"][:1])
        ctx.extra.setdefault("configs", {})[c["name"]] = {"samplers": c["nsamplers"], "edges": res["evaluations"],
                                                          "executions": res["executed"], "mismatches": res["n_mismatch"]}
        for m in res["mismatches"]:
            case = m.get("case") or {}
            sig = {"dir": "replay", "cfg": c["name"], "why": case.get("why"), "samplerKind": case.get("samplerKind"),
                   "parent": case.get("parent")}
            ctx.violation(sig, replay={"acts": (m.get("path") or []) + ([m["act"]] if m.get("act") else []),
                                       "sampler": case.get("sampler"), "rep": case.get("rep"), "span": case.get("span"),
                                       "want": m.get("want"), "got": m.get("got"), "detail": m.get("detail")})
        for msg in res["inconclusive"]:
            ctx.note_inconclusive(msg)
    ctx.extra["edges_replayed"] = edges_total
    # ---- code -> spec
    nf, nr, nid, gor, share = (6000, 20000, 1000000, 16, 1 << 20) if thorough else (600, 2000, 200000, 8, 1 << 17)
    parts = []
    for sub, args in (("forest", ["-n", str(nf)]), ("ratio", ["-n", str(nr)]),
                      ("ids", ["-n", str(nid), "-g", str(gor), "-share", str(share)])):
        tf = os.path.join(ctx.work, "trace-%s.ndjson" % sub)
        rf = os.path.join(ctx.work, "res-%s.json" % sub)
        ctx.run([binp, sub] + args + ["-out", tf, "-res", rf], timeout=3000)
        res = json.load(open(rf))
        add_counters(ctx, res)
        ctx.evaluations += res["evaluations"]
        ctx.traces_validated += res["executed"]
        ctx.add_samples(res["samples"][:1])
        for m in res["mismatches"]:
            ctx.violation({"dir": "trace", "kind": sub, "why": "panic"}, replay=m)
        parts.append(tf)
    trace = os.path.join(ctx.work, "trace.ndjson")
    with open(trace, "w") as out:
        for p in parts:
            out.write(open(p).read())
    viols, accepted = ctx.validate_trace(S, "Trace_Sampling", "Trace_Sampling.cfg", trace, timeout=3000)
    ctx.extra["trace_lines_validated"] = accepted
    lines = None
    for v in viols:
        if lines is None:
            lines = open(trace).read().splitlines()
        rec = json.loads(lines[v["line"] - 1])
        sig = {"dir": "trace", "kind": v.get("kind"), "why": v.get("why")}
        if v.get("kind") == "forest":
            sig["parent"] = v.get("par")
            sig["samplerKind"] = rec.get("sampler", {}).get("k")
        if v.get("kind") == "ratio":
            sig["class"] = v.get("class")
        ctx.violation(sig, replay={"viol": {k: x for k, x in v.items() if k not in ("want", "got")}, "line": rec,
                                   "want": v.get("want"), "got": v.get("got")})
    ctx.assumptions += [
        "trace-ID class hi = top 3 bits of the upper 63 bits of the trace ID's low half (bytes 8..15 big endian, >>1), "
        "as pinned by the property's anchor; a different hash needs a new concretization table",
        "tracestate labels p/q and env classes stand for the representatives in harness/c09 (tsReps, envName, envArg)",
        "exact ratio threshold is checked up to the rounding of r*2^63 (one trace-ID cell of width 2^-63 left open)",
        "share-tracks-ratio is a 6-sigma binomial bound (false alarm probability < 1e-8 per run)",
        "NaN ratio is unconstrained (not a ratio); invalid parent contexts carrying a tracestate may keep or drop it",
    ]
    ctx.extra["rule"] = ("edges: every transition of Sampling.tla for the listed configs x 3 low-bit classes; "
                         "traces: seeded random forests / ratio matrices / ID runs; a case is distinct by "
                         "(sampler term, parent context, trace-ID class, field)")
