"""C09 -- sampling decisions are consistent and traces stay connected (Sampling.tla).

spec -> code : TLC explores Sampling.tla (span forests x sampler terms x parent contexts x
               trace-ID classes) exhaustively for small constants and prints every edge;
               harness/c09 replays each edge on a real TracerProvider (scripted IDGenerator,
               scripted custom Sampler, simple + batch + plain span processors) and compares
               the projection (SpanContext, IsRecording, processors, exporters) with the
               spec's successor state.  The process holds 1..NProv providers (NewProv at any
               time); parent contexts carry any trace-flags byte (sampled = low bit); rep 3
               replays the edges with the SDK's DEFAULT ID generators (trace-ID class by
               rejection), so uniqueness over the union of providers is bound to the real
               generator.  A "shared stream" variant of the generator model is refuted by TLC
               (model-level demonstration that the uniqueness invariant is not vacuous).
code -> spec : harness/c09 records (a) random span forests under random sampler compositions
               on 1..8 providers with the SDK's own random ID generators and parent contexts
               with arbitrary flag bytes, (b) ratio-sampler decisions for random trace IDs x
               random ratios in and beyond [0,1], (c) ID statistics of 10^5..10^6 spans started
               from several goroutines on one / 2..8 / thousands of providers created up-front,
               staggered, concurrently, in tight loops, (d) sampled shares, (e) spans with any
               flags byte handed to the simple / batch processor, (f) volume scenarios: sampled
               and unsampled spans ended from several goroutines on a batch processor while
               other goroutines call ForceFlush; TLC validates the recordings against
               SamplingModel / RatioBits via Trace_Sampling.tla.
"""
import json
import os

S = "Sampling"

# ----------------------------------------------------------------------------- sampler terms
ON = {"k": "on"}
OFF = {"k": "off"}


def ratio(n):
    return {"k": "ratio", "n": n}


def custom(d, ts):
    return {"k": "custom", "d": d, "ts": ts}


def pb(root, rs=ON, rns=OFF, ls=ON, lns=OFF):
    return {"k": "pb", "root": root, "rs": rs, "rns": rns, "ls": ls, "lns": lns}


def env(name, arg):
    return {"k": "env", "name": name, "arg": arg}


def tla(v):
    """python value -> TLA+ expression"""
    if isinstance(v, bool):
        return "TRUE" if v else "FALSE"
    if isinstance(v, int):
        return str(v)
    if isinstance(v, str):
        return '"%s"' % v
    if isinstance(v, dict):
        return "[" + ", ".join("%s |-> %s" % (k, tla(x)) for k, x in v.items()) + "]"
    if isinstance(v, (list, tuple)):
        return "<<" + ", ".join(tla(x) for x in v) + ">>"
    if isinstance(v, (set, frozenset)):
        return "{" + ", ".join(tla(x) for x in sorted(v, key=str)) + "}"
    raise TypeError(v)


def tla_set(items):
    seen, out = set(), []
    for it in items:
        k = json.dumps(it, sort_keys=True)
        if k not in seen:
            seen.add(k)
            out.append(it)
    return "{" + ",\n  ".join(tla(x) for x in out) + "}", len(out)


def rc(valid=True, remote=True, sampled=True, ts="", hi=3, fl=None):
    """a span context that can be put into a context; fl = trace-flags byte (default: 01 / 00)"""
    if fl is None:
        fl = 1 if sampled else 0
    return {"valid": valid, "remote": remote, "fl": fl, "ts": ts, "hi": hi}


FLAGS = [0x00, 0x01, 0x02, 0x03, 0x80, 0x81, 0xFF]       # FlagDomain of SamplingModel.tla
FL_S = [0x01, 0x03, 0x81, 0xFF]                          # sampled bit set
FL_U = [0x00, 0x02, 0x80, 0xFE]                          # sampled bit clear


DECISIONS = ["Drop", "RecordOnly", "RecordAndSample"]
TSMODES = ["inherit", "replace", "empty"]
BASE = [ON, OFF] + [ratio(n) for n in range(-1, 10)] + [custom(d, t) for d in DECISIONS for t in TSMODES]


def sampler_family(tier):
    """sampler terms of depth <= 2 (thorough: a few of depth 3)"""
    out = list(BASE)
    # each ParentBased position varied over every base sampler, the others at their defaults
    for b in BASE:
        out += [pb(b), pb(ON, rs=b), pb(ON, rns=b), pb(OFF, ls=b), pb(OFF, lns=b)]
    # all five positions pairwise different (position swaps become visible)
    nb = len(BASE)
    for i in range(nb):
        out.append(pb(*[BASE[(i + 5 * j) % nb] for j in range(5)]))
    inv = pb(OFF, rs=OFF, rns=ON, ls=OFF, lns=ON)  # inverted
    out += [inv, pb(custom("RecordOnly", "replace"), rs=custom("RecordAndSample", "empty"),
                    rns=custom("RecordOnly", "inherit"), ls=custom("Drop", "replace"),
                    lns=custom("RecordAndSample", "inherit"))]
    if tier == "thorough":
        out += [pb(pb(ratio(4)), rs=pb(OFF, rs=ratio(4)), rns=pb(ON, rns=ratio(4))),
                pb(inv, rs=inv, rns=inv, ls=inv, lns=inv), pb(pb(pb(ratio(4))))]
    return out


ENV_NAMES = ["always_on", "always_off", "traceidratio", "parentbased_always_on", "parentbased_always_off",
             "parentbased_traceidratio", "unknown", "unset", "empty"]
ENV_ARGS = ["unset", "k0", "k4", "k8", "neg", "gt1", "junk", "empty", "nan"]


def configs(tier):
    th = tier == "thorough"
    cfgs = []
    # A: forests -- every shape of <= 3 (4) spans, ends interleaved, WithNewRoot, a few samplers
    rem_a = [rc(fl=0x03, ts="p", hi=3), rc(fl=0x00, ts="", hi=4), rc(valid=False, fl=0x81, ts="p", hi=0),
             rc(remote=False, fl=0x02, ts="p", hi=3)]
    samp_a = [{"k": "default"}, pb(ratio(4)), ON, custom("RecordOnly", "replace"),
              pb(OFF, rs=custom("RecordOnly", "inherit"), rns=ON, ls=ratio(4), lns=custom("RecordAndSample", "empty"))]
    cfgs.append(dict(name="forest", samplers=samp_a, remotes=rem_a, his=[3, 4], maxspans=3,
                     newroot=["local", "remote"] if th else ["local"], endmode="any", ctxuntil=3 if th else 2,
                     reps="0,1,2,3"))
    if th:
        cfgs.append(dict(name="forest4", samplers=[pb(ratio(4)), custom("RecordOnly", "inherit"),
                                                    pb(OFF, rs=ratio(4), rns=ON, ls=OFF, lns=ON)],
                         remotes=rem_a[:3], his=[3, 4], maxspans=4, newroot=["local"], endmode="any", ctxuntil=2))
    # B: sampler compositions x every parent context x every trace-ID class
    # quick: every (remote, sampled, tracestate, class) combination, the flags byte rotating through the
    # four sampled / four unsampled bytes (latin square); thorough: the full product with FlagDomain
    if th:
        rem_b = [rc(remote=r, fl=f, ts=t, hi=h) for r in (True, False) for f in FLAGS for t in ("", "p") for h in (3, 4)]
        rem_b += [rc(valid=False, remote=r, fl=f, ts=t, hi=0) for r in (True, False) for f in (0, 1, 2, 3, 0xFF)
                  for t in ("", "p")]
    else:
        rem_b = [rc(remote=r, fl=(FL_S if s else FL_U)[(2 * ti + hi_i + ri) % 4], ts=t, hi=h)
                 for ri, r in enumerate((True, False)) for s in (True, False)
                 for ti, t in enumerate(("", "p")) for hi_i, h in enumerate((3, 4))]
        rem_b += [rc(valid=False, remote=r, fl=(FL_S if s else FL_U)[(ti + 2 * ri) % 4], ts=t, hi=0)
                  for ri, r in enumerate((True, False)) for s in (True, False) for ti, t in enumerate(("", "p"))]
    cfgs.append(dict(name="samplers", samplers=sampler_family(tier), remotes=rem_b, his=list(range(8)), maxspans=2,
                     newroot=["local"], endmode="none", ctxuntil=1, reps="0,1,2,3" if th else "0,1,2"))
    # F: trace flags beyond {00,01}: every byte of FlagDomain on remote and non-remote (hand-built / wrapper)
    # parents, SDK children of such parents as local parents, spans ended (simple + batch processor), for the
    # parent-based family (each position distinguishable) and the flag-copying base samplers
    rem_f = [rc(remote=r, fl=f, ts="p" if (i + j) % 2 else "", hi=h) for i, r in enumerate((True, False))
             for j, f in enumerate(FLAGS) for h in (3, 4)]
    rem_f += [rc(valid=False, remote=True, fl=f, ts="p", hi=0) for f in (0x02, 0x03, 0x81, 0xFF)]
    samp_f = [{"k": "default"}, pb(ON), pb(OFF), pb(ratio(4)), pb(OFF, rs=OFF, rns=ON, ls=OFF, lns=ON),
              pb(custom("RecordOnly", "replace"), rs=custom("RecordAndSample", "empty"), rns=custom("RecordOnly", "inherit"),
                 ls=custom("Drop", "replace"), lns=custom("RecordAndSample", "inherit")),
              pb(ON, rs=ratio(4)), pb(ON, rns=ratio(4)), pb(OFF, ls=ratio(4)), pb(OFF, lns=ratio(4)),
              ON, OFF, ratio(4), custom("RecordOnly", "inherit"), custom("RecordAndSample", "replace"), custom("Drop", "empty"),
              env("parentbased_always_off", "unset"), env("parentbased_traceidratio", "k4")]
    cfgs.append(dict(name="flags", samplers=samp_f, remotes=rem_f, his=[3, 4], maxspans=3 if th else 2,
                     newroot=["local"], endmode="any", ctxuntil=1, reps="0,1,2,3"))
    # P: several providers in one process, created before / after / between the spans of the others; children
    # of another provider's span; uniqueness over the union (rep 3: the SDK's default generators)
    rem_p = [rc(fl=0x03, ts="p", hi=3), rc(valid=False, fl=0x01, hi=0)]
    cfgs.append(dict(name="providers", samplers=[{"k": "default"}, pb(ratio(4)), custom("RecordOnly", "replace")],
                     remotes=rem_p, his=[3, 4], maxspans=3, newroot=[], endmode="none", ctxuntil=4,
                     nprov=3 if th else 2, reps="0,1,2,3"))
    # C: sampler from OTEL_TRACES_SAMPLER / OTEL_TRACES_SAMPLER_ARG
    rem_c = [rc(sampled=True, ts="p", hi=3), rc(sampled=False, ts="p", hi=4), rc(valid=False, sampled=True, hi=0),
             rc(remote=False, sampled=True, hi=4), rc(remote=False, sampled=False, hi=3)]
    cfgs.append(dict(name="env", samplers=[env(n, a) for n in ENV_NAMES for a in ENV_ARGS], remotes=rem_c,
                     his=list(range(8)) if th else [0, 3, 4, 7], maxspans=2, newroot=[], endmode="none", ctxuntil=1,
                     reps="0,1,2,3"))
    return cfgs


def defines(c):
    s, n = tla_set(c["samplers"])
    c["nsamplers"] = n
    return {"SAMPLERS": s, "REMOTES": tla(c["remotes"]), "HIS": tla(set(c["his"])), "NEWROOTFOR": tla(set(c["newroot"])),
            "MAXSPANS": c["maxspans"], "ENDMODE": c["endmode"], "CTXUNTIL": c["ctxuntil"],
            "NPROV": c.get("nprov", 1), "GENMODE": c.get("genmode", "own")}


def exp_clause(field, want, got, span):
    """which clause of the statement a differing exporter count belongs to (classification only)"""
    try:
        w, g = want[span - 1][field], got[span - 1][field]
    except Exception:
        return field
    if g < w:
        return "sampled-not-exported"
    return "unsampled-exported" if w == 0 else "exported-more-than-once"


def clause_of(why, want, got, span):
    if why in ("expS", "expB"):
        return exp_clause(why, want, got, span)
    return {"tidOK": "ids", "sidOK": "ids", "tr": "ids", "hi": "ids", "parOK": "ids", "sampled": "flag", "flx": "flag",
            "rec": "recording", "onStart": "recording", "onEnd": "recording", "ts": "tracestate"}.get(why, why)


def dup_class(nprov, dups):
    """classification only: is the number of duplicated IDs what seeds of 31 bits predict for nprov generators
    (e = nprov^2 / 2^32 pairs with equal seeds, each pair duplicating a root trace ID and two span IDs here), or more"""
    e = nprov * nprov / 2.0 ** 32
    if e >= 0.001 and dups <= 2 * (3 * e + 6 * e ** 0.5 + 3):
        return "within-31-bit-seed-birthday-bound"
    return "systematic"


def add_counters(ctx, res):
    for k, v in res["counters"].items():
        ctx.extra.setdefault("counters", {}).setdefault(k, 0)
        ctx.extra["counters"][k] += v


def run(ctx):
    thorough = ctx.tier == "thorough"
    binp = ctx.go_build("c09")
    # ---- model-level: RatioBits against exact rational arithmetic, abstraction hi<n == bit-level oracle
    ctx.tlc(S, "MC_Ratio", "MC_Ratio.cfg", name="ratio-theorems")
    # ---- vacuity: every action of Sampling.tla fires (small instance, -coverage)
    cov = dict(name="coverage", samplers=[{"k": "default"}, custom("RecordOnly", "replace"), env("traceidratio", "k4")],
               remotes=[rc(ts="p", fl=0x03), rc(valid=False, ts="p", hi=0, fl=0x81)], his=[3, 4], maxspans=2, newroot=["local"],
               endmode="any", ctxuntil=2, nprov=2)
    r = ctx.tlc(S, "MC_Sampling", "MC_Sampling.cfg", defines=defines(cov), workers=1, coverage=True, name="coverage",
                count=False)
    ctx.extra["zero_coverage_actions"] = r["zero_cov"]
    if r["zero_cov"]:
        ctx.note_inconclusive("actions never taken in Sampling.tla: %s" % r["zero_cov"])
    # ---- model-level demonstration: generators that replay one shared stream (IDs <<0,k>> instead of <<p,k>>)
    # violate UniqueInProcess -- TLC must find it (the invariant is not vacuous for several providers)
    sh = dict(name="providers-shared-stream", samplers=[ON], remotes=[rc()], his=[3], maxspans=2, newroot=[], endmode="none",
              ctxuntil=2, nprov=2, genmode="shared")
    r = ctx.tlc(S, "MC_Sampling", "MC_Sampling.cfg", defines=defines(sh), workers=1, name=sh["name"], must_pass=False,
                count=False)
    ctx.extra["shared_stream_refuted_by"] = r["violated"]
    if r["violated"] != "Inv":
        ctx.note_inconclusive("TLC did not refute the shared-stream generator model (expected a violation of Inv): %s" % r["out"])
    # ---- spec -> code
    edges_total = 0
    for c in configs(ctx.tier):
        r = ctx.tlc(S, "MC_Sampling", "MC_Sampling.cfg", defines=defines(c), want_edges=True, name=c["name"], timeout=3000,
                    heap="4g")
        out = os.path.join(ctx.work, "replay-%s.json" % c["name"])
        ctx.run([binp, "replay", "-edges", r["edges_file"], "-reps", c.get("reps", "0,1,2"), "-par", str(max(2, min(8, (os.cpu_count() or 4) // 2))),
                 "-out", out], timeout=3000)
        res = json.load(open(out))
        edges_total += res["evaluations"]
        ctx.traces_validated += res["executed"]
        ctx.evaluations += res["executed"]
        add_counters(ctx, res)
        ctx.add_samples(res["samples"][:1])
        ctx.extra.setdefault("configs", {})[c["name"]] = {"samplers": c["nsamplers"], "edges": res["evaluations"],
                                                          "executions": res["executed"], "mismatches": res["n_mismatch"]}
        for m in res["mismatches"]:
            case = m.get("case") or {}
            sig = {"dir": "replay", "cfg": c["name"], "why": case.get("why"), "samplerKind": case.get("samplerKind"),
                   "parent": case.get("parent"),
                   "clause": clause_of(case.get("why"), m.get("want"), m.get("got"), case.get("span") or 0),
                   "idgen": "default" if (case.get("rep") or 0) >= 3 else "scripted"}
            ctx.violation(sig, replay={"acts": (m.get("path") or []) + ([m["act"]] if m.get("act") else []),
                                       "sampler": case.get("sampler"), "rep": case.get("rep"), "span": case.get("span"),
                                       "want": m.get("want"), "got": m.get("got"), "detail": m.get("detail")})
        for msg in res["inconclusive"]:
            ctx.note_inconclusive(msg)
    ctx.extra["edges_replayed"] = edges_total
    # ---- code -> spec
    nf, nr, nid, gor, share, nfl, npr = ((6000, 20000, 1000000, 16, 1 << 20, 400, 600) if thorough
                                         else (800, 2000, 200000, 8, 1 << 17, 30, 90))
    parts = []
    for sub, args in (("forest", ["-n", str(nf)]), ("ratio", ["-n", str(nr)]),
                      ("ids", ["-n", str(nid), "-g", str(gor), "-share", str(share)]),
                      ("flush", ["-n", str(nfl), "-procs", str(npr)])):
        tf = os.path.join(ctx.work, "trace-%s.ndjson" % sub)
        rf = os.path.join(ctx.work, "res-%s.json" % sub)
        ctx.run([binp, sub] + args + ["-out", tf, "-res", rf], timeout=3000)
        res = json.load(open(rf))
        add_counters(ctx, res)
        ctx.evaluations += res["evaluations"]
        ctx.traces_validated += res["executed"]
        ctx.add_samples(res["samples"][:1])
        for m in res["mismatches"]:
            ctx.violation({"dir": "trace", "kind": sub, "why": "panic"}, replay=m)
        parts.append(tf)
    trace = os.path.join(ctx.work, "trace.ndjson")
    with open(trace, "w") as out:
        for p in parts:
            out.write(open(p).read())
    viols, accepted = ctx.validate_trace(S, "Trace_Sampling", "Trace_Sampling.cfg", trace, timeout=3000)
    ctx.extra["trace_lines_validated"] = accepted
    lines = None
    for v in viols:
        if lines is None:
            lines = open(trace).read().splitlines()
        rec = json.loads(lines[v["line"] - 1])
        sig = {"dir": "trace", "kind": v.get("kind"), "why": v.get("why")}
        if v.get("kind") == "forest":
            sig["parent"] = v.get("par")
            sig["samplerKind"] = rec.get("sampler", {}).get("k")
            sig["clause"] = v.get("clause")
            pfl = v.get("pfl", -1)
            sig["parentFlags"] = ("local-span" if pfl == -2 else "none" if pfl < 0 else "00/01" if pfl <= 1
                                  else "sampled+other-bits" if pfl % 2 else "unsampled+other-bits")
            sig["providers"] = "one" if v.get("nprov", 1) == 1 else "several"
        if v.get("kind") == "ids":
            sig["src"] = v.get("src")
            if v.get("why") in ("span-id-not-unique", "root-trace-id-not-fresh"):
                sig["dupClass"] = dup_class(v.get("nprov", 1), v.get("n", 0) - v.get("distinct", 0))
        if v.get("kind") == "proc":
            sig["proc"] = v.get("proc")
            sig["flags"] = "00/01" if v.get("fl", 0) <= 1 else "other-bits"
        if v.get("kind") == "ratio":
            sig["class"] = v.get("class")
        ctx.violation(sig, replay={"viol": {k: x for k, x in v.items() if k not in ("want", "got")}, "line": rec,
                                   "want": v.get("want"), "got": v.get("got")})
    ctx.assumptions += [
        "trace-ID class hi = top 3 bits of the upper 63 bits of the trace ID's low half (bytes 8..15 big endian, >>1), "
        "as pinned by the property's anchor; a different hash needs a new concretization table",
        "tracestate labels p/q and env classes stand for the representatives in harness/c09 (tsReps, envName, envArg)",
        "exact ratio threshold is checked up to the rounding of r*2^63 (one trace-ID cell of width 2^-63 left open)",
        "share-tracks-ratio is a 6-sigma binomial bound (false alarm probability < 1e-8 per run)",
        "NaN ratio is unconstrained (not a ratio); invalid parent contexts carrying a tracestate may keep or drop it",
        "only the sampled bit of a started span's flags is constrained; its other bits may be any sub-mask of the other "
        "bits of the context it was started under (copied, partly or wholly cleared), never invented",
        "ID uniqueness over several providers is bound to the SDK's default generators by rep 3 of the edge replay "
        "(trace-ID class by rejection) and by the Ids/Forest recordings; 64-bit birthday collisions (< 1e-7 per run) ignored",
        "export under concurrent ForceFlush: only the end-to-end clause (set of exported spans == sampled spans ended before the "
        "final ForceFlush, queue cannot overflow, scenarios with drops or flush errors set aside); interleaving-exact "
        "exactly-once is C01",
    ]
    ctx.extra["rule"] = ("edges: every transition of Sampling.tla for the listed configs x 3 low-bit classes; "
                         "traces: seeded random forests / ratio matrices / ID runs; a case is distinct by "
                         "(sampler term, parent context, trace-ID class, field)")
