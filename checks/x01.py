"""X01 (specification growth) -- metric exemplars: filter, reservoirs, attribution (specs/Exemplar).

model       : ExemplarModel.tla -- the contract of one metric stream's exemplars as seen by one reader, transcribed
              from the godoc of sdk/metric/exemplar + sdkmetric (WithExemplarFilter, Stream,
              DefaultExemplarReservoirProviderSelector) and the OTel metrics SDK specification: every exemplar is an
              eligible measurement of its own attribute set (value, trace/span ID, FilteredAttributes = measurement
              attributes minus the kept ones, Time inside the call and inside the point's interval), filter semantics,
              FixedSize(k) / Histogram(bounds) / user reservoir capacity and retention, delta vs cumulative scope,
              default reservoir rule, drop aggregation.  Where several outcomes are allowed the contract is the
              operator AdmClauses / Admitted(history, point).
spec -> code: Exemplar.tla explores every history (<= MaxMeas measurements over a small alphabet, <= 2 collection
              points, a delta and a cumulative reader) of one configuration next to an implementation-shaped reservoir
              model (ReportsAdmitted: what that model reports is always admitted); every Collect edge is printed with
              its history; harness/x01 replays the history on a real MeterProvider through the public API.
code -> spec: harness/x01 runs seeded random worlds (all 7 instrument kinds, int64/float64, 1-3 readers of either
              temporality collecting independently, 1-2 views per instrument with attribute filters, aggregation
              overrides, FixedSize(0..8) / Histogram / user-supplied reservoirs, bursts beyond any capacity,
              concurrent batches between quiescent collections, NaN / Inf / negative values).
oracle      : the harness only executes and projects; Trace_Exemplar.tla evaluates every clause on both kinds of runs.
"""
import json
import os
from concurrent.futures import ThreadPoolExecutor

S = "Exemplar"
NCPU = os.cpu_count() or 1


# ---------------------------------------------------------------------------- TLA+ rendering
def tla(v):
    if isinstance(v, bool):
        return "TRUE" if v else "FALSE"
    if isinstance(v, int):
        return str(v)
    if isinstance(v, str):
        return '"%s"' % v
    if isinstance(v, (list, tuple)):
        return "<<" + ", ".join(tla(x) for x in v) + ">>"
    if isinstance(v, (set, frozenset)):
        return "{" + ", ".join(tla(x) for x in sorted(v, key=repr)) + "}"
    if isinstance(v, dict):
        return "[" + ", ".join("%s |-> %s" % (k, tla(x)) for k, x in v.items()) + "]"
    raise TypeError(v)


class AttrSet(frozenset):
    pass


def aset(**kv):
    return AttrSet(kv.items())


def tla_alpha(alpha):
    out = []
    for s, v, c in alpha:
        st = "{" + ", ".join('[k |-> "%s", v |-> "%s"]' % (k, x) for k, x in sorted(s)) + "}"
        out.append('[s |-> %s, v |-> %d, cls |-> "fin", c |-> "%s"]' % (st, v, c))
    return "{" + ", ".join(out) + "}"


S1 = aset(a="1")
S2 = aset(a="1", x="1")
S3 = aset(a="2", x="1")
S4 = aset(a="1", x="2")
ALL = {"all": True, "keys": []}
KA = {"all": False, "keys": ["a"]}
KNONE = {"all": False, "keys": []}
ASYNC = ("ObsCounter", "ObsUpDownCounter", "ObsGauge")
DEFAULT_AGG = {"Counter": "sum", "UpDownCounter": "sum", "Histogram": "hist", "Gauge": "last",
               "ObsCounter": "sum", "ObsUpDownCounter": "sum", "ObsGauge": "last"}


def res(kind="default", k=0, bounds=()):
    return {"kind": kind, "k": k, "bounds": list(bounds)}


def cfg(name, kind, alpha, filter="on", r=None, agg=None, hb=(), maxsize=0, keep=ALL, fl=False, keepmode="allow",
        advisory=False, mm=None):
    """one configuration of the exhaustive family: model record C + how the harness realises it"""
    aggview = agg is not None and not advisory
    model = {"filter": filter, "res": r or res(), "agg": agg or DEFAULT_AGG[kind], "hb": list(hb), "maxsize": maxsize,
             "ncpu": NCPU, "keep": keep, "async": kind in ASYNC, "limit": 0}
    plain = keep["all"] and model["res"]["kind"] == "default" and not aggview
    spec = {"model": model, "kind": kind, "float": fl, "aggview": aggview, "keepmode": "" if keep["all"] else keepmode,
            "advisory": advisory, "name": "" if plain else "s." + name}
    return {"name": name, "model": model, "spec": spec, "alpha": alpha, "mm": mm}


def configs(tier):
    n, u, s = "none", "unsampled", "sampled"
    A5 = [(S1, 1, n), (S1, 2, n), (S2, 1, s), (S3, 1, s), (S3, 2, n)]
    out = [
        # FixedSize(k) behind a view that keeps only key a: S1 and S2 share a point, exemplars differ in FilteredAttributes
        cfg("fixed1-on-keepA", "Counter", A5, r=res("fixed", 1), keep=KA),
        cfg("fixed2-on-keepA", "Counter", A5, r=res("fixed", 2), keep=KA, fl=True, keepmode="deny"),
        cfg("fixed0-on", "UpDownCounter", [(S1, 1, s), (S1, -1, n), (S3, 2, s)], r=res("fixed", 0)),
        cfg("fixed1-trace", "UpDownCounter", [(S1, 1, n), (S1, 1, u), (S1, 2, s), (S1, -1, s), (S3, 1, s)], filter="trace",
            r=res("fixed", 1), fl=True),
        cfg("fixed2-trace-keepNone", "Counter", [(S1, 1, u), (S2, 1, s), (S3, 1, s), (S4, 2, s), (S3, 2, n)], filter="trace",
            r=res("fixed", 2), keep=KNONE, keepmode="func"),
        cfg("fixed1-off", "Counter", [(S1, 1, s), (S1, 2, n), (S3, 1, s)], filter="off", r=res("fixed", 1)),
        # default reservoirs
        cfg("default-counter-trace", "Counter", [(S1, 1, s), (S1, 2, u), (S1, 3, n), (S3, 1, s)], filter="trace"),
        cfg("default-hist-on", "Histogram", [(S1, 1, s), (S1, 2, s), (S1, 3, s), (S2, 2, n), (S3, 3, s)], agg="hist", hb=(2,), keep=KA),
        cfg("default-hist-trace-f", "Histogram", [(S1, 4, s), (S1, 5, s), (S1, 8, u), (S1, 9, s), (S3, 4, s)], filter="trace",
            agg="hist", hb=(4, 8), fl=True),
        cfg("default-hist-advisory", "Histogram", [(S1, 0, s), (S1, 1, s), (S1, 2, n), (S3, 1, s)], agg="hist", hb=(0, 1), advisory=True),
        cfg("default-hist-no-bounds", "Histogram", [(S1, 1, s), (S1, 2, n), (S3, 1, s)], agg="hist", hb=()),
        cfg("default-expo-max2", "Histogram", [(S1, 4, s), (S1, 8, n), (S1, 5, s), (S3, 4, s)], agg="expo", maxsize=2, fl=True),
        cfg("default-gauge", "Gauge", [(S1, 1, s), (S1, -2, n), (S3, 1, s)]),
        # HistogramReservoir chosen by a selector for a non-histogram stream / with no boundaries
        cfg("histres-on-counter", "Counter", [(S1, 1, s), (S1, 2, n), (S1, 3, s), (S3, 3, s)], r=res("hist", 0, (2,))),
        cfg("histres-no-bounds", "Gauge", [(S1, 1, s), (S1, 5, n), (S3, 3, s)], r=res("hist", 0, ())),
        cfg("fixed1-gauge", "Gauge", [(S1, 1, s), (S1, 2, n), (S2, 3, s), (S3, 3, s)], r=res("fixed", 1), keep=KA, fl=True),
        # user-supplied reservoir: what the SDK offers is what the filter admits, with the dropped attributes
        cfg("keepall-on-keepA", "Counter", A5, r=res("keepall"), keep=KA),
        cfg("keepall-trace-keepNone", "Histogram", [(S1, 1, u), (S2, 1, s), (S3, 2, s), (S4, 2, n)], filter="trace",
            r=res("keepall"), keep=KNONE, fl=True),
        cfg("keepall-off", "Gauge", [(S1, 1, s), (S3, 2, n)], filter="off", r=res("keepall")),
        cfg("drop-keepall", "Counter", [(S1, 1, s), (S3, 2, n)], agg="drop", r=res("keepall")),
        # observable instruments: measurements are the observations of the callbacks (no span context)
        cfg("async-counter-default", "ObsCounter", [(S1, 1, n), (S2, 2, n), (S3, 3, n)], keep=KA),
        cfg("async-gauge-fixed1", "ObsGauge", [(S1, 1, n), (S2, 2, n), (S4, 3, n), (S3, 3, n)], r=res("fixed", 1), keep=KA, fl=True),
        cfg("async-updown-keepall", "ObsUpDownCounter", [(S1, -1, n), (S2, 2, n), (S3, 3, n)], r=res("keepall"), keep=KA),
        cfg("async-counter-hist-view", "ObsCounter", [(S1, 1, n), (S2, 2, n), (S4, 3, n), (S3, 3, n)], agg="hist", hb=(2,), keep=KA),
        cfg("async-counter-histres", "ObsCounter", [(S1, 1, n), (S2, 2, n), (S4, 3, n), (S3, 3, n)], r=res("hist", 0, (2,)), keep=KA),
        cfg("async-counter-trace", "ObsCounter", [(S1, 1, n), (S3, 3, n)], filter="trace", r=res("fixed", 2)),
    ]
    return out


def plan(c, tier):
    """(MaxMeas, K): bound on measurements per history and edge sampling (every K-th distinct history, offset by seed)"""
    a = len(c["alpha"])
    if tier == "thorough":
        return (4, 1) if a <= 4 else (4, 2)
    return (3, 1) if a <= 3 else (3, 2 if a == 4 else 3)


# ---------------------------------------------------------------------------- classification
def sig_of(direction, new, v):
    C = new["C"]
    meta = new.get("meta", {})
    r = C["res"]["kind"]
    if r == "default":
        r = "default-hist" if (C["agg"] == "hist" and C["hb"]) else "default-fixed"
    return {"dir": direction, "clause": v.get("clause"), "filter": C["filter"], "res": r, "agg": C["agg"], "temp": new["temp"],
            "async": bool(C["async"]), "kind": meta.get("kind"), "filtered_view": not C["keep"]["all"],
            "cardinality_limit": bool(C.get("limit")),
            "overflow_point": v.get("a") == [{"k": "otel.metric.overflow", "v": "BOOL:true"}]}


def split_trace(path, max_lines, out_prefix):
    chunks, cur, n = [], None, 0
    with open(path) as f:
        for line in f:
            if cur is None or (n >= max_lines and '"ev":"New"' in line):
                if cur:
                    cur.close()
                chunks.append("%s-%d.ndjson" % (out_prefix, len(chunks)))
                cur = open(chunks[-1], "w")
                n = 0
            cur.write(line)
            n += 1
    if cur:
        cur.close()
    return chunks


def validate_capped(ctx, trace_file, name, timeout=3000):
    """ctx.validate_trace with a heap cap (several trace JVMs run side by side on a shared machine)"""
    from vlib import Inconclusive
    r = ctx.tlc(S, "Trace_Exemplar", "Trace_Exemplar.cfg", workers=1, timeout=timeout, extra_files={"trace.ndjson": trace_file},
                name=name, must_pass=False, count=False, heap="2g")
    if r["timed_out"]:
        raise Inconclusive("trace validation timed out: " + r["out"])
    viols, accepted = [], None
    for p in r["prints"]:
        if isinstance(p, str) and p.startswith("VIOL "):
            try:
                viols.append(json.loads(p[5:]))
            except Exception:
                viols.append({"raw": p})
        elif isinstance(p, str) and p.startswith("ACCEPTED"):
            accepted = int(p.split()[1])
    if r["rc"] != 0 or r["error"] or r["violated"]:
        raise Inconclusive("trace validation TLC error (%s/%s): %s" % (r["error"], r["violated"], r["out"]))
    nlines = sum(1 for _ in open(trace_file))
    if accepted != nlines:
        raise Inconclusive("trace spec consumed %s of %d lines (spec/harness drift, not a verdict): %s" % (accepted, nlines, r["out"]))
    seen, out = set(), []
    for v in viols:
        k = json.dumps(v, sort_keys=True)
        if k not in seen:
            seen.add(k)
            out.append(v)
    return out, accepted


def run(ctx):
    thorough = ctx.tier == "thorough"
    binp = ctx.go_build("x01")
    counters = ctx.extra.setdefault("counters", {})
    par = max(2, min(6, (os.cpu_count() or 4) // 3))
    if os.environ.get("VERIF_TLC_WORKERS"):
        par = max(1, min(par, int(os.environ["VERIF_TLC_WORKERS"])))

    def add_counters(res, prefix):
        for k, v in res["counters"].items():
            counters[prefix + k] = counters.get(prefix + k, 0) + v

    cfgs = configs(ctx.tier)

    # ---- spec -> code: explore + replay, one configuration at a time
    def explore_and_replay(ic):
        i, c = ic
        mm, k = plan(c, ctx.tier)
        r = ctx.tlc(S, "MC_Exemplar", "MC_Exemplar.cfg", want_edges=True, name="E-" + c["name"], timeout=2400, heap="2g",
                    defines={"CFG": tla(c["model"]), "ALPHA": tla_alpha(c["alpha"]), "MAXMEAS": mm, "MAXCOLLECT": 2},
                    coverage=(i == 0), count=False)
        trace = os.path.join(ctx.work, "replay-%s.ndjson" % c["name"])
        resf = os.path.join(ctx.work, "replay-%s.json" % c["name"])
        ctx.run([binp, "replay", "-edges", r["edges_file"], "-cfg", json.dumps(c["spec"]), "-out", trace, "-res", resf,
                 "-sample", str(k), "-reps", "1"], timeout=2400)
        os.remove(r["edges_file"])
        return c, r, trace, json.load(open(resf)), k

    replay_traces = []
    per_cfg = {}
    edges_total = 0
    with ThreadPoolExecutor(par) as ex:
        for c, r, trace, res, k in ex.map(explore_and_replay, enumerate(cfgs)):
            ctx.states += r["distinct"]
            ctx.transitions += r["generated"]
            if r["zero_cov"]:
                ctx.note_inconclusive("TLC coverage: actions never taken in %s: %s" % (c["name"], sorted(set(r["zero_cov"]))))
            hist = res["counters"].get("distinct_histories", 0)
            want = sum(1 for e in range(1, hist + 1) if k <= 1 or (e + ctx.seed) % k == 0)
            if not res["executed"] or res["executed"] != want:
                ctx.note_inconclusive("replay of %s executed %s of %s sampled histories" % (c["name"], res["executed"], want))
            edges_total += res["executed"]
            ctx.traces_validated += res["executed"]
            ctx.evaluations += res["evaluations"]
            add_counters(res, "replay_")
            per_cfg[c["name"]] = {"distinct": r["distinct"], "generated": r["generated"], "edges": r.get("edges"),
                                  "histories": hist, "replayed": res["executed"], "tlc_s": r["wall_s"]}
            if len(ctx.samples) < 2:
                ctx.add_samples(res["samples"][:1])
            for m in res["mismatches"]:
                ctx.violation({"dir": "replay", "clause": "panic", "cfg": c["name"]}, replay=m)
            for s in res["inconclusive"]:
                ctx.note_inconclusive(s)
            replay_traces.append(trace)
    ctx.extra["edges_replayed"] = edges_total
    ctx.extra["configs"] = per_cfg

    # ---- code -> spec: seeded random worlds
    n = 400 if thorough else 30
    rtrace = os.path.join(ctx.work, "random.ndjson")
    resf = os.path.join(ctx.work, "random.json")
    ctx.run([binp, "random", "-n", str(n), "-out", rtrace, "-res", resf], timeout=2400)
    rres = json.load(open(resf))
    add_counters(rres, "random_")
    ctx.traces_validated += rres["counters"].get("stream_traces", 0)
    ctx.evaluations += rres["evaluations"]
    ctx.extra["random_worlds"] = n
    ctx.add_samples(rres["samples"][:1])
    for m in rres["mismatches"]:
        ctx.violation({"dir": "random", "clause": "panic", "case": (m.get("case") or {}).get("directed", "random-world")}, replay=m)
    for s in rres["inconclusive"]:
        ctx.note_inconclusive(s)

    # ---- TLC judges everything the real code reported (both directions), in parallel chunks
    allreplay = os.path.join(ctx.work, "replay-all.ndjson")
    with open(allreplay, "w") as out:
        for t in replay_traces:
            with open(t) as f:
                for line in f:
                    out.write(line)
            os.remove(t)
    jobs = [("replay", p) for p in split_trace(allreplay, 12000, os.path.join(ctx.work, "chunk-replay"))]
    os.remove(allreplay)
    jobs += [("random", p) for p in split_trace(rtrace, 500, os.path.join(ctx.work, "chunk-random"))]

    def validate(direction, chunk, idx):
        name = "trace-%s-%d" % (direction, idx)
        viols, accepted = validate_capped(ctx, chunk, name)
        try:
            os.remove(os.path.join(ctx.work, "tlc-" + name, "trace.ndjson"))
        except OSError:
            pass
        return direction, chunk, viols, accepted

    lines_validated = 0
    with ThreadPoolExecutor(par) as ex:
        results = list(ex.map(lambda t: validate(t[1][0], t[1][1], t[0]), enumerate(jobs)))
    for direction, chunk, viols, accepted in results:
        lines_validated += accepted
        if not viols:
            os.remove(chunk)
            continue
        lines = open(chunk).read().splitlines()
        seen = set()
        for v in sorted(viols, key=lambda x: x.get("line", 0)):
            k = (v.get("sc"), v.get("clause"))
            if k in seen:
                continue  # later cycles of the same (reader, stream) repeat the first deviation
            seen.add(k)
            scen = []
            i = v["line"] - 1
            while i >= 0:
                rec = json.loads(lines[i])
                scen.append(rec)
                if rec["ev"] == "New":
                    break
                i -= 1
            scen.reverse()
            ctx.violation(sig_of(direction, scen[0], v), replay={"scenario": scen, "viol": v})
    ctx.extra["trace_lines_validated"] = lines_validated

    # ---- the judge is alive: one recorded field corrupted (first exemplar value of the random trace + 1) must be rejected
    st = os.path.join(ctx.work, "selftest.ndjson")
    corrupted = False
    with open(rtrace) as f, open(st, "w") as out:
        for i, line in enumerate(f):
            if i >= 400:
                break
            if not corrupted and '"ev":"Cycle"' in line:
                rec = json.loads(line)
                for p in rec["pts"]:
                    if p["ex"]:
                        p["ex"][0]["v"] += 1
                        corrupted = True
                        line = json.dumps(rec, separators=(",", ":")) + "\n"
                        break
            out.write(line)
    sv, _ = validate_capped(ctx, st, "trace-selftest", timeout=600)
    ctx.extra["selftest_corrupted_value_rejected"] = bool(corrupted and any(v.get("clause") in ("exemplar-value", "one-measurement-exported-twice",
                                                                                               "exemplar-matches-no-measurement") for v in sv))
    if not ctx.extra["selftest_corrupted_value_rejected"]:
        ctx.note_inconclusive("self-test: a trace with a corrupted exemplar value was not rejected (corrupted=%s, viols=%s)" % (corrupted, sv[:3]))

    # ---- vacuity: the interesting regimes were reached on the real code
    need = ["replay_exemplars", "replay_exemplars_with_filtered_attributes", "replay_exemplars_with_span", "replay_points_delta",
            "replay_points_cumulative", "random_exemplars", "random_exemplars_with_filtered_attributes", "random_bursts",
            "random_concurrent_batches", "random_observations", "random_streams_res_fixed", "random_streams_res_hist",
            "random_streams_res_keepall", "random_streams_res_default", "random_streams_agg_expo", "random_streams_agg_hist",
            "random_streams_with_attribute_filter", "random_streams_fixed_k0", "random_worlds_filter_on",
            "random_worlds_filter_trace", "random_worlds_filter_off", "random_worlds_with_cardinality_limit",
            "random_directed_worlds"]
    for k in need:
        if not counters.get(k):
            ctx.note_inconclusive("vacuity: counter %s is zero" % k)
    for k in ("replay_otel_errors", "random_otel_errors", "replay_unknown_metrics", "random_unknown_metrics"):
        if counters.get(k):
            ctx.note_inconclusive("harness: %s = %d (the SDK reported errors / unknown metrics)" % (k, counters[k]))
    ctx.assumptions += [
        "an exemplar is identified with a measurement by value, by the order number the harness encoded in the span / trace ID "
        "of that measurement's context, by FilteredAttributes and by its Time lying inside the window of the Measure / Observe call "
        "(monotonic clock of the harness process); indistinguishable measurements are matched as a system of distinct representatives",
        "FixedSizeReservoir: the sampling count restarts at every collection (OTel: 'any stateful portion of sampling computation "
        "SHOULD be reset every collection cycle'): the first k offers of an interval are stored, later replacement is free but keeps k",
        "cumulative readers: any eligible measurement since the stream's start may be an exemplar (SHOULD lie inside the point's "
        "interval); observable streams may or may not carry a reservoir into the next collection",
        "IDs of an UNSAMPLED valid span context (AlwaysOn filter): present or empty both admitted (Exemplar godoc says empty, "
        "the OTel specification records the active span's IDs)",
        "values are multiples of 1/4 (exact in float64); NaN has no bucket: with an eligible NaN the histogram reservoir is only "
        "held to at-most-one-per-bucket",
        "collections happen at quiescent points; concurrent recorders only between them (their mutual order is unknown: group g)",
    ]
    ctx.extra["rule"] = ("edges: every distinct history (Collect edge) of Exemplar.tla per configuration, sampled 1/K in the quick "
                         "tier; random: one trace per (world, reader, stream); a case is distinct by (configuration, history)")
