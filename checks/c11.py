"""C11 -- baggage header round trip, W3C limits, immutability (specs/Baggage).

spec -> code : TLC enumerates (a) BaggageRT.tla: every header over a symbol alphabet up to a length
               bound plus boundary families at the real limits, and every constructor input of the
               configured families; (b) BaggageStore.tla: every edit sequence over handles, contexts
               and returned slices.  Each printed edge is replayed by harness/c11 on baggage.New /
               NewMemberRaw / Parse / String / SetMember / DeleteMember / ContextWithBaggage and
               propagation.Baggage and compared with the spec's successor state.
code -> spec : harness/c11 drives the real package with seeded random members (any UTF-8), raw byte
               headers, boundary families (179/180/181, 4095/6/7, 8191/2/3) and long edit sequences,
               logs ndjson; Trace_Baggage.tla re-computes every verdict with the same codec
               operators at the real constants and evaluates the statement's conditional clauses
               (valid UTF-8, stable under re-serialise/re-parse, limits) on every successful parse.
"""
import itertools
import json
import os

S = "Baggage"
REAL = {"MAXMEMBERS": 180, "MAXBYTES": 8192, "MAXMEMBERBYTES": 4096}


# ------------------------------------------------------------------ TLA+ text for symbols
def q(s):
    return '"%s"' % s


def sym(c, s="", n=1, d=""):
    return '[c |-> %s, s |-> %s, n |-> %d, d |-> %s]' % (q(c), q(s), n, q(d))


def seq(items):
    return "<<" + ", ".join(items) + ">>"


def tset(items):
    return "{" + ", ".join(items) + "}"


def vrun(c, n=1):
    return '[c |-> %s, n |-> %d, m |-> %d]' % (q(c), n, n)


def prop(ks, v=None):
    return '[ks |-> %s, v |-> %s, hv |-> %s]' % (seq(ks), seq(v or []), "TRUE" if v is not None else "FALSE")


def arg(ks, v, props=()):
    return '[ks |-> %s, v |-> %s, p |-> %s]' % (seq(ks), seq(v), seq(props))


TOK = lambda s: sym("tok", s, len(s))
EQ, COMMA, SEMI = sym("eq", "="), sym("comma", ","), sym("semi", ";")
SP = lambda n=1: sym("sp", "", n)
V = lambda n=1: sym("v", "", n)
PC = sym("pc", "%")
_ENC_TXT = {"safe": "%41", "eq": "%3D", "pct": "%25", "space": "%20", "comma": "%2C", "semi": "%3B",
            "dquote": "%22", "bslash": "%5C", "ctl": "%00", "x": "%FF", "u2": "%C3%A9", "u3": "%E2%82%AC",
            "u4": "%F0%9F%98%80", "ufffd": "%EF%BF%BD"}


def ENC(d, n=1):
    # literal text only matters in key position (n = 1 there); long runs carry no text
    return sym("enc", _ENC_TXT.get(d, "") if n == 1 else "", n, d)


HI = lambda d="x", s="\\\\xff": sym("hi", s, 1, d)   # raw byte >= 0x80 (s: ASCII-quoted text)
K_EMPTY = []
K_NONTOK = [sym("hi", "\\\\u00e9", 2, "u")]
K_BADUTF8 = [sym("hi", "\\\\xff", 1, "x")]
K_SPACE = [TOK("k"), sym("sp", " ", 1), TOK("k")]     # "k k": valid UTF-8, not a token


# ------------------------------------------------------------------ enumeration families
def h_alpha(tier):
    a = [TOK("k"), TOK("K"), EQ, COMMA, SEMI, SP(), V(), PC, ENC("safe"), ENC("x"), ENC("u2"), HI()]
    if tier == "thorough":
        a += [ENC("comma"), sym("dq", "", 1), sym("ctl", "", 1)]
    return a


def member_h(key, val, props=(), ows=False):
    """header symbols of one list-member; props = list of (key, val|None)"""
    o = [SP()] if ows else []
    out = o + [TOK(key)] + o + [EQ] + o + list(val) + o
    for pk, pv in props:
        out += [SEMI] + o + [TOK(pk)] + o
        if pv is not None:
            out += [EQ] + o + list(pv) + o
    return out


def join_h(members):
    out = []
    for i, m in enumerate(members):
        if i:
            out.append(COMMA)
        out += m
    return out


def fillers(n, start=0):
    return [member_h("f%d" % (start + i), []) for i in range(n)]


def h_extra(tier):
    """structured headers beyond the flat enumeration, incl. the boundaries of the real limits"""
    H = []
    # grammar shapes
    H.append(member_h("k", [V(2)], [("p", [V()]), ("r", None)], ows=True))
    H.append(join_h([member_h("k", [TOK("a")]), member_h("K", [TOK("b")]), member_h("k", [TOK("c")], [("p", None)])]))
    H.append(join_h([member_h("k", [TOK("a")], [("p", [ENC("x")])]), member_h("k", [], ows=True)]))
    H.append(member_h("k", [ENC("space"), TOK("a"), ENC("space"), EQ, ENC("pct"), ENC("u4"), ENC("u3"), ENC("ufffd")],
                      [("p", [ENC("semi"), ENC("comma"), ENC("dquote"), ENC("bslash"), ENC("ctl"), ENC("eq")])]))
    H.append(member_h("k", [TOK("a")]) + [SEMI])                      # empty property
    H.append(member_h("k", [TOK("a")]) + [SEMI, SEMI, TOK("p")])      # empty property in the middle
    H.append(member_h("k", [TOK("a")]) + [SEMI, SP(), SEMI, TOK("p")])
    H.append(member_h("k", [TOK("a")]) + [COMMA])                      # empty member
    H.append([ENC("safe"), EQ, TOK("a")])                              # key "%41" is a token, not decoded
    H.append([PC, TOK("k"), EQ, TOK("a")])
    # per-member boundary 4095/4096/4097, raw and with optional white space
    for n in (4093, 4094, 4095):
        H.append(member_h("k", [V(n)]))
        H.append([SP()] + member_h("k", [V(n)]))
        H.append(member_h("k", [TOK("a")], [("p", [V(n - 4)])]))
    for n in (1364, 1365):                      # 3n + 2 = 4094 / 4097 with escapes
        H.append(member_h("k", [ENC("pct", n)]))
        H.append(member_h("k", [ENC("pct", n), V(2)]))
    # total boundary 8191/8192/8193 (two members of 4095/4096 + comma)
    for a, b in ((4093, 4093), (4093, 4094), (4094, 4094), (4094, 4093)):
        H.append(join_h([member_h("k", [V(a)]), member_h("m", [V(b)])]))
        H.append(join_h([member_h("k", [V(a)]), [SP()] + member_h("m", [V(b)])]))
    H.append(join_h([member_h("k", [V(4000)]), member_h("m", [V(4000)]), member_h("n", [V(180)])]))
    H.append(join_h([member_h("k", [V(4000)]), member_h("m", [V(4000)]), member_h("n", [V(187)])]))
    H.append(join_h([member_h("k", [V(4000)]), member_h("m", [V(4000)]), member_h("n", [V(188)])]))
    # invalid UTF-8 that grows when repaired: 3 header bytes -> U+FFFD -> 9 bytes
    for n in (455, 456, 910, 911, 1300):
        H.append(member_h("k", [ENC("x", n)]))
    H.append(join_h([member_h("k", [ENC("x", 455)]), member_h("m", [ENC("x", 454)])]))   # 4094+1+4091 fits
    H.append(join_h([member_h("k", [ENC("x", 455)]), member_h("m", [ENC("x", 455)])]))   # 8189 fits: 2*4097? no
    H.append(member_h("k", [TOK("a")], [("p", [ENC("x", 500)])]))
    # member-count boundary 179/180/181 (+ duplicates collapsing to 180)
    for n in (179, 180, 181):
        H.append(join_h(fillers(n)))
    H.append(join_h(fillers(180) + [member_h("f0", [TOK("z")])]))      # 181 raw, 180 distinct, last wins
    H.append(join_h(fillers(179) + [member_h("k", [TOK("a")]), member_h("K", [TOK("b")])]))
    if tier == "thorough":
        H.append(join_h(fillers(180) + fillers(5)))                     # 185 raw, 180 distinct
        H.append(join_h(fillers(200)))
        for n in (2729, 2730, 2731):
            H.append(member_h("k", [ENC("x", n)]))                      # 3n+2 around 8192
    return H


V_RUNS = ["safe", "eq", "pct", "space", "nonascii2", "nonbmp4", "fffd", "bad"]


def arg_lists(tier):
    """constructor inputs: [[member,...],...] as TLA text"""
    L = []
    keys = [[TOK("k")], [TOK("K")], [ENC("safe")], K_EMPTY, K_NONTOK, K_BADUTF8, K_SPACE]
    runs = V_RUNS + (["comma", "semi", "dquote", "bslash", "ctl", "m3"] if tier == "thorough" else ["comma"])
    vals = [[]] + [[vrun(c)] for c in runs] + [[vrun(a), vrun(b)] for a in runs for b in runs if a != b]
    props = [[], [prop([TOK("p")])], [prop([TOK("p")], [vrun("pct")])], [prop([TOK("p")], [])],
             [prop(K_NONTOK, [vrun("safe")])], [prop([TOK("p")], [vrun("bad")])], [prop(K_EMPTY)],
             [prop([TOK("p")], [vrun("semi"), vrun("nonascii2")]), prop([TOK("p")])]]
    for k in keys:
        for v in vals:
            L.append([arg(k, v)])
    for p in props:
        for v in ([], [vrun("safe")], [vrun("comma"), vrun("eq")]):
            L.append([arg([TOK("k")], v, p)])
    # two and three members: duplicates (last wins), distinct keys
    small = [arg([TOK("k")], [vrun("safe")]), arg([TOK("k")], [vrun("pct")], [prop([TOK("p")])]),
             arg([TOK("K")], [vrun("nonascii2")]), arg([TOK("k")], []), arg(K_NONTOK, [vrun("safe")])]
    for a in small:
        for b in small:
            L.append([a, b])
    L.append([small[0], small[2], small[1]])
    # per-member boundary (canonical lengths: "k=" + n)
    for n in (4093, 4094, 4095, 5000):
        L.append([arg([TOK("k")], [vrun("safe", n)])])
    for n in (682, 683):                                    # 6n+2 = 4094 / 4100
        L.append([arg([TOK("k")], [vrun("nonascii2", n)])])
        L.append([arg([TOK("k")], [vrun("nonascii2", 682), vrun("safe", n - 680)])])   # 4096 / 4097
    L.append([arg([TOK("k")], [vrun("safe")], [prop([TOK("p")], [vrun("safe", 4090)])])])   # k=a;p=.. 4096
    L.append([arg([TOK("k")], [vrun("safe")], [prop([TOK("p")], [vrun("safe", 4091)])])])   # 4097
    L.append([arg([TOK("k")], [vrun("safe", 4095)]), arg([TOK("k")], [vrun("safe")])])     # oversize member overwritten
    # total boundary 8191/8192/8193
    for a, b in ((4093, 4093), (4093, 4094), (4094, 4094)):
        L.append([arg([TOK("k")], [vrun("safe", a)]), arg([TOK("m")], [vrun("safe", b)])])
    L.append([arg([TOK("k")], [vrun("nonbmp4", 341)]), arg([TOK("m")], [vrun("nonbmp4", 341)])])            # 4094*2+1
    L.append([arg([TOK("k")], [vrun("nonbmp4", 341), vrun("safe", 2)]), arg([TOK("m")], [vrun("nonbmp4", 341), vrun("safe", 2)])])
    # member-count boundary
    for n in (179, 180, 181):
        L.append([arg([TOK("f%d" % i)], []) for i in range(n)])
    L.append([arg([TOK("f%d" % i)], []) for i in range(180)] + [arg([TOK("f0")], [vrun("safe")])])
    return [seq(x) for x in L]


def rt_defines(tier, real=True, dev="{}", hmax=None):
    lim = REAL if real else {"MAXMEMBERS": 2, "MAXBYTES": 14, "MAXMEMBERBYTES": 8}
    d = dict(lim)
    d["HALPHA"] = tset(h_alpha(tier))
    d["HEXTRA"] = tset(seq(h) for h in h_extra(tier)) if real else "{}"
    d["ARGLISTS"] = tset(arg_lists(tier))
    d["DEV"] = dev
    d["HMAXLEN"] = hmax if hmax is not None else (4 if tier == "quick" else 5)
    return d


def store_defines(tier, steps):
    k, K, p = [TOK("k")], [TOK("K")], [TOK("p")]
    margs = [arg(k, [vrun("safe")]), arg(k, [vrun("pct"), vrun("nonascii2")], [prop(p, [vrun("semi")])]),
             arg(K, [], [prop(p)])]
    if tier == "thorough":
        margs.append(arg(k, [vrun("safe")], [prop(p), prop(p, [])]))
    d = dict(REAL)
    d["MEMBERARGS"] = tset(margs)
    d["NEWLISTS"] = tset([seq([margs[0], margs[2]]), seq([margs[1]])])
    d["DELKEYS"] = tset([q("k"), q("K")])
    d["HDRS"] = tset([seq(join_h([member_h("k", [ENC("x")], [("p", None)]), member_h("K", [V()])]))])
    d["MAXSTEPS"] = steps
    return d


def run(ctx):
    raise NotImplementedError
