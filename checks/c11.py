"""C11 -- baggage header round trip, W3C limits, immutability (specs/Baggage).

spec -> code : TLC enumerates (a) BaggageRT.tla: every header over a symbol alphabet up to a length
               bound plus boundary families at the real limits, and every constructor input of the
               configured families; (b) BaggageStore.tla: every edit sequence over handles, contexts
               and returned slices.  Each printed edge is replayed by harness/c11 on baggage.New /
               NewMemberRaw / Parse / String / SetMember / DeleteMember / ContextWithBaggage and
               propagation.Baggage and compared with the spec's successor state.
code -> spec : harness/c11 drives the real package with seeded random members (any UTF-8), raw byte
               headers, boundary families (179/180/181, 4095/6/7, 8191/2/3) and long edit sequences,
               logs ndjson; Trace_Baggage.tla re-computes every verdict with the same codec
               operators at the real constants and evaluates the statement's conditional clauses
               (valid UTF-8, stable under re-serialise/re-parse, limits) on every successful parse.
"""
import itertools
import json
import os
import re

S = "Baggage"
REAL = {"MAXMEMBERS": 180, "MAXBYTES": 8192, "MAXMEMBERBYTES": 4096}


# ------------------------------------------------------------------ TLA+ text for symbols
def q(s):
    return '"%s"' % s


def sym(c, s="", n=1, d=""):
    return '[c |-> %s, s |-> %s, n |-> %d, d |-> %s]' % (q(c), q(s), n, q(d))


def seq(items):
    return "<<" + ", ".join(items) + ">>"


def tset(items):
    return "{" + ", ".join(items) + "}"


def vrun(c, n=1):
    return '[c |-> %s, n |-> %d, m |-> %d]' % (q(c), n, n)


def prop(ks, v=None):
    return '[ks |-> %s, v |-> %s, hv |-> %s]' % (seq(ks), seq(v or []), "TRUE" if v is not None else "FALSE")


def arg(ks, v, props=()):
    return '[ks |-> %s, v |-> %s, p |-> %s]' % (seq(ks), seq(v), seq(props))


TOK = lambda s: sym("tok", s, len(s))
EQ, COMMA, SEMI = sym("eq", "="), sym("comma", ","), sym("semi", ";")
SP = lambda n=1: sym("sp", "", n)
V = lambda n=1: sym("v", "", n)
PC = sym("pc", "%")
_ENC_TXT = {"safe": "%41", "eq": "%3D", "pct": "%25", "space": "%20", "comma": "%2C", "semi": "%3B",
            "dquote": "%22", "bslash": "%5C", "ctl": "%00", "x": "%FF", "u2": "%C3%A9", "u3": "%E2%82%AC",
            "u4": "%F0%9F%98%80", "ufffd": "%EF%BF%BD"}


def ENC(d, n=1):
    # literal text only matters in key position (n = 1 there); long runs carry no text
    return sym("enc", _ENC_TXT.get(d, "") if n == 1 else "", n, d)


# text of symbols is quoted: token characters literally, every other byte as {xx} (see harness/c11 quote())
HI = lambda d="x", s="{ff}": sym("hi", s, 1, d)   # raw byte >= 0x80
K_EMPTY = []
K_NONTOK = [sym("hi", "{c3}{a9}", 2, "u")]
K_BADUTF8 = [sym("hi", "{ff}", 1, "x")]
K_SPACE = [TOK("k"), sym("sp", "{20}", 1), TOK("k")]     # "k k": valid UTF-8, not a token


# ------------------------------------------------------------------ enumeration families
def h_alpha(tier):
    a = [TOK("k"), TOK("K"), EQ, COMMA, SEMI, SP(), V(), PC, ENC("safe"), ENC("x"), ENC("u2"), HI()]
    if tier == "thorough":
        a += [ENC("comma"), sym("dq", "", 1), sym("ctl", "", 1)]
    return a


def member_h(key, val, props=(), ows=False):
    """header symbols of one list-member; props = list of (key, val|None)"""
    o = [SP()] if ows else []
    out = o + [TOK(key)] + o + [EQ] + o + list(val) + o
    for pk, pv in props:
        out += [SEMI] + o + [TOK(pk)] + o
        if pv is not None:
            out += [EQ] + o + list(pv) + o
    return out


def join_h(members):
    out = []
    for i, m in enumerate(members):
        if i:
            out.append(COMMA)
        out += m
    return out


def fillers(n, start=0):
    return [member_h("f%d" % (start + i), []) for i in range(n)]


def h_extra(tier):
    """structured headers beyond the flat enumeration, incl. the boundaries of the real limits"""
    H = []
    # grammar shapes
    H.append(member_h("k", [V(2)], [("p", [V()]), ("r", None)], ows=True))
    H.append(join_h([member_h("k", [TOK("a")]), member_h("K", [TOK("b")]), member_h("k", [TOK("c")], [("p", None)])]))
    H.append(join_h([member_h("k", [TOK("a")], [("p", [ENC("x")])]), member_h("k", [], ows=True)]))
    H.append(member_h("k", [ENC("space"), TOK("a"), ENC("space"), EQ, ENC("pct"), ENC("u4"), ENC("u3"), ENC("ufffd")],
                      [("p", [ENC("semi"), ENC("comma"), ENC("dquote"), ENC("bslash"), ENC("ctl"), ENC("eq")])]))
    H.append(member_h("k", [TOK("a")]) + [SEMI])                      # empty property
    H.append(member_h("k", [TOK("a")]) + [SEMI, SEMI, TOK("p")])      # empty property in the middle
    H.append(member_h("k", [TOK("a")]) + [SEMI, SP(), SEMI, TOK("p")])
    H.append(member_h("k", [TOK("a")]) + [COMMA])                      # empty member
    H.append([ENC("safe"), EQ, TOK("a")])                              # key "%41" is a token, not decoded
    H.append([PC, TOK("k"), EQ, TOK("a")])
    # per-member boundary 4095/4096/4097, raw and with optional white space
    for n in (4093, 4094, 4095):
        H.append(member_h("k", [V(n)]))
        H.append([SP()] + member_h("k", [V(n)]))
        H.append(member_h("k", [TOK("a")], [("p", [V(n - 4)])]))
    for n in (1364, 1365):                      # 3n + 2 = 4094 / 4097 with escapes
        H.append(member_h("k", [ENC("pct", n)]))
        H.append(member_h("k", [ENC("pct", n), V(2)]))
    # total boundary 8191/8192/8193 (two members of 4095/4096 + comma)
    for a, b in ((4093, 4093), (4093, 4094), (4094, 4094), (4094, 4093)):
        H.append(join_h([member_h("k", [V(a)]), member_h("m", [V(b)])]))
        H.append(join_h([member_h("k", [V(a)]), [SP()] + member_h("m", [V(b)])]))
    H.append(join_h([member_h("k", [V(4000)]), member_h("m", [V(4000)]), member_h("n", [V(180)])]))
    H.append(join_h([member_h("k", [V(4000)]), member_h("m", [V(4000)]), member_h("n", [V(187)])]))
    H.append(join_h([member_h("k", [V(4000)]), member_h("m", [V(4000)]), member_h("n", [V(188)])]))
    # invalid UTF-8 that grows when repaired: 3 header bytes -> U+FFFD -> 9 bytes
    for n in (455, 456, 910, 911, 1300):
        H.append(member_h("k", [ENC("x", n)]))
    H.append(join_h([member_h("k", [ENC("x", 455)]), member_h("m", [ENC("x", 454)])]))   # 4094+1+4091 fits
    H.append(join_h([member_h("k", [ENC("x", 455)]), member_h("m", [ENC("x", 455)])]))   # 8189 fits: 2*4097? no
    H.append(member_h("k", [TOK("a")], [("p", [ENC("x", 500)])]))
    # member-count boundary 179/180/181 (+ duplicates collapsing to 180)
    for n in (179, 180, 181):
        H.append(join_h(fillers(n)))
    H.append(join_h(fillers(180) + [member_h("f0", [TOK("z")])]))      # 181 raw, 180 distinct, last wins
    H.append(join_h(fillers(179) + [member_h("k", [TOK("a")]), member_h("K", [TOK("b")])]))
    if tier == "thorough":
        H.append(join_h(fillers(180) + fillers(5)))                     # 185 raw, 180 distinct
        H.append(join_h(fillers(200)))
        for n in (2729, 2730, 2731):
            H.append(member_h("k", [ENC("x", n)]))                      # 3n+2 around 8192
    return H


def h_grammar(tier, real=True):
    """grammar-directed enumeration (expanded by TLC, see Headers in BaggageRT.tla): every list-member built from a
    key shape, a value word over the value alphabet (length <= 2, thorough 3) and a property tail; every pair of a
    reduced member set (duplicate keys, empty members) with and without white space around the comma"""
    keys = [[TOK("k")], [TOK("K")], [ENC("safe")], [SP(), TOK("k"), SP(2)]]
    alpha = [TOK("a"), V(), EQ, ENC("x"), ENC("u2"), ENC("pct"), ENC("comma"), ENC("ufffd")]
    odd = [[TOK("a"), SP(), TOK("b")], [SP(), TOK("a"), SP()], [PC], [PC, TOK("a")], [HI()], [sym("dq", "", 1)],
           [ENC("u4"), ENC("u3")], [sym("bs", "", 1)], [sym("ctl", "", 1)], [ENC("space"), ENC("semi")]]
    tails = [[], [SEMI, TOK("p")], [SEMI, TOK("p"), EQ, TOK("a")], [SEMI, TOK("p"), EQ, ENC("x"), ENC("x")], [SEMI],
             [SEMI, TOK("p"), SEMI, TOK("q"), EQ, V()], [SEMI, SP(), TOK("p"), SP(), EQ, SP(), TOK("a"), SP()],
             [SEMI, TOK("p"), EQ, TOK("a"), SP(), TOK("b")], [SEMI, SEMI, TOK("p")], [SEMI, TOK("p"), EQ, EQ, ENC("u2")],
             [SEMI, ENC("safe"), EQ], [SEMI, TOK("p"), SP(), TOK("q")]]
    small = [[TOK("k"), EQ, TOK("a")], [TOK("k"), EQ, ENC("x")], [TOK("K"), EQ], [TOK("k"), EQ, TOK("b"), SEMI, TOK("p")],
             [SP(), TOK("k"), EQ, V(), SP()], [TOK("k")], [], [SP()], [TOK("m"), EQ, ENC("u2"), SEMI, TOK("p"), EQ, ENC("pct")],
             [ENC("safe"), EQ, TOK("a")], [TOK("k"), EQ, TOK("a"), SEMI]]
    seps = [[COMMA], [SP(), COMMA, SP()]]
    # a smaller alphabet for longer flat words
    alpha2 = [TOK("k"), EQ, COMMA, SEMI, SP(), ENC("x")]
    if not real:
        return {"HALPHA2": "{}", "HMAXLEN2": 0, "GKEYS": "{}", "GALPHA": "{}", "GMAXLEN": 0, "GODD": "{}", "GTAILS": "{}",
                "GSMALL": "{}", "GSEPS": "{}"}
    sets = lambda xs: tset(seq(x) for x in xs)
    return {"HALPHA2": tset(alpha2), "HMAXLEN2": 6 if tier == "thorough" else 5, "GKEYS": sets(keys), "GALPHA": tset(alpha),
            "GMAXLEN": 3 if tier == "thorough" else 2, "GODD": sets(odd), "GTAILS": sets(tails), "GSMALL": sets(small),
            "GSEPS": sets(seps)}


def h_triples():
    small = [[TOK("k"), EQ, TOK("a")], [TOK("k"), EQ, ENC("x")], [TOK("K"), EQ], [TOK("k"), EQ, TOK("b"), SEMI, TOK("p")],
             [SP(), TOK("k"), EQ, V(), SP()]]
    return [a + [COMMA] + b + [COMMA] + c for a in small for b in small for c in small]


V_RUNS = ["safe", "eq", "pct", "space", "nonascii2", "nonbmp4", "fffd", "bad"]


def arg_lists(tier):
    """constructor inputs: [[member,...],...] as TLA text"""
    L = []
    keys = [[TOK("k")], [TOK("K")], [ENC("safe")], K_EMPTY, K_NONTOK, K_BADUTF8, K_SPACE]
    runs = V_RUNS + (["comma", "semi", "dquote", "bslash", "ctl", "m3"] if tier == "thorough" else ["comma"])
    vals = [[]] + [[vrun(c)] for c in runs] + [[vrun(a), vrun(b)] for a in runs for b in runs if a != b]
    props = [[], [prop([TOK("p")])], [prop([TOK("p")], [vrun("pct")])], [prop([TOK("p")], [])],
             [prop(K_NONTOK, [vrun("safe")])], [prop([TOK("p")], [vrun("bad")])], [prop(K_EMPTY)],
             [prop([TOK("p")], [vrun("semi"), vrun("nonascii2")]), prop([TOK("p")])]]
    for k in keys:
        for v in vals:
            L.append([arg(k, v)])
    for p in props:
        for v in ([], [vrun("safe")], [vrun("comma"), vrun("eq")]):
            L.append([arg([TOK("k")], v, p)])
    # two and three members: duplicates (last wins), distinct keys
    small = [arg([TOK("k")], [vrun("safe")]), arg([TOK("k")], [vrun("pct")], [prop([TOK("p")])]),
             arg([TOK("K")], [vrun("nonascii2")]), arg([TOK("k")], []), arg(K_NONTOK, [vrun("safe")])]
    for a in small:
        for b in small:
            L.append([a, b])
    L.append([small[0], small[2], small[1]])
    # per-member boundary (canonical lengths: "k=" + n)
    for n in (4093, 4094, 4095, 5000):
        L.append([arg([TOK("k")], [vrun("safe", n)])])
    for n in (682, 683):                                    # 6n+2 = 4094 / 4100
        L.append([arg([TOK("k")], [vrun("nonascii2", n)])])
        L.append([arg([TOK("k")], [vrun("nonascii2", 682), vrun("safe", n - 680)])])   # 4096 / 4097
    L.append([arg([TOK("k")], [vrun("safe")], [prop([TOK("p")], [vrun("safe", 4090)])])])   # k=a;p=.. 4096
    L.append([arg([TOK("k")], [vrun("safe")], [prop([TOK("p")], [vrun("safe", 4091)])])])   # 4097
    L.append([arg([TOK("k")], [vrun("safe", 4095)]), arg([TOK("k")], [vrun("safe")])])     # oversize member overwritten
    # total boundary 8191/8192/8193
    for a, b in ((4093, 4093), (4093, 4094), (4094, 4094)):
        L.append([arg([TOK("k")], [vrun("safe", a)]), arg([TOK("m")], [vrun("safe", b)])])
    L.append([arg([TOK("k")], [vrun("nonbmp4", 341)]), arg([TOK("m")], [vrun("nonbmp4", 341)])])            # 4094*2+1
    L.append([arg([TOK("k")], [vrun("nonbmp4", 341), vrun("safe", 2)]), arg([TOK("m")], [vrun("nonbmp4", 341), vrun("safe", 2)])])
    # member-count boundary
    for n in (179, 180, 181):
        L.append([arg([TOK("f%d" % i)], []) for i in range(n)])
    L.append([arg([TOK("f%d" % i)], []) for i in range(180)] + [arg([TOK("f0")], [vrun("safe")])])
    return [seq(x) for x in L]


def rt_defines(tier, real=True, dev="{}", hmax=None):
    lim = REAL if real else {"MAXMEMBERS": 2, "MAXBYTES": 14, "MAXMEMBERBYTES": 8}
    d = dict(lim)
    d["HALPHA"] = tset(h_alpha(tier))
    d["HEXTRA"] = tset(seq(h) for h in h_extra(tier) + h_triples()) if real else "{}"
    d.update(h_grammar(tier, real))
    d["ARGLISTS"] = tset(arg_lists(tier))
    d["DEV"] = dev
    d["HMAXLEN"] = hmax if hmax is not None else 4    # thorough: same length over the larger alphabet (15 symbols)
    return d


ALL_OPS = ["New", "SetMember", "SetZero", "DeleteMember", "ToCtx", "Scribble", "Parse", "FromCtx", "ClearCtx", "Child", "Propagate"]
K_CYR = [sym("hi", "{d0}{ba}{d0}{bb}{d1}{8e}{d1}{87}", 8, "u")]      # "ключ": valid UTF-8, not a token
K_DELIM = [TOK("a"), sym("comma", "{2c}", 1), TOK("b"), sym("eq", "{3d}", 1), TOK("c")]   # "a,b=c": delimiters inside a key


def store_defines(tier, steps):
    k, K, p = [TOK("k")], [TOK("K")], [TOK("p")]
    margs = [arg(k, [vrun("safe")]), arg(k, [vrun("pct"), vrun("nonascii2")], [prop(p, [vrun("semi")])]),
             arg(K, [], [prop(p)])]
    if tier == "thorough":
        margs.append(arg(k, [vrun("safe")], [prop(p), prop(p, [])]))
    d = dict(REAL)
    d["MEMBERARGS"] = tset(margs)
    d["NEWLISTS"] = tset([seq([margs[0], margs[2]]), seq([margs[1]])])
    d["DELKEYS"] = tset([q("k"), q("K")])
    d["HDRS"] = tset([seq(join_h([member_h("k", [ENC("x")], [("p", None)]), member_h("K", [V()])]))])
    d["OPS"] = tset(q(o) for o in ALL_OPS)
    d["MAXSTEPS"] = steps
    return d


def key_text(ks):
    """the quoted key text the model uses for a key given as symbols (KeyStr)"""
    return "".join(re.findall(r's \|-> "([^"]*)"', x)[0] for x in ks)


def store_key_configs(tier):
    """key classes x (SetMember add / REPLACE with another value / other properties / another property value only /
    the identical member, DeleteMember present / absent): every key the constructors accept is a key of the map,
    whether or not it can travel in a header; the same for property keys"""
    k, p = [TOK("k")], [TOK("p")]
    v1, v2 = [vrun("safe")], [vrun("pct"), vrun("nonascii2")]
    x, y = [vrun("safe", 2)], [vrun("comma")]
    cfgs = []
    keys = [("nontoken", K_NONTOK), ("token", k)]
    if tier == "thorough":
        keys += [("space", K_SPACE), ("cyrillic", K_CYR), ("delims", K_DELIM)]
    ops = ["New", "SetMember", "DeleteMember", "ToCtx", "Propagate"]
    for name, key in keys:
        margs = [arg(key, v1), arg(key, v2), arg(key, v1, [prop(p)]), arg(key, v1, [prop(p, x)]), arg(key, v1, [prop(p, y)]),
                 arg(K_BADUTF8, v1)]
        other = k if key is not k else [TOK("K")]
        d = dict(REAL)
        d["MEMBERARGS"] = tset(margs)
        d["NEWLISTS"] = tset([seq([arg(other, v1), arg(key, v1, [prop(p, x)])])])
        d["DELKEYS"] = tset([q(key_text(key)), q(key_text(other)), q("absent")])
        d["HDRS"] = "{}"
        d["OPS"] = tset(q(o) for o in ops)
        d["MAXSTEPS"] = 3
        cfgs.append(("store-key-" + name, d))
    # property keys: the member key is a token, only a property (with a non-token / token key) changes
    pkeys = [("nontoken", K_NONTOK)] + ([("cyrillic", K_CYR), ("token", [TOK("q")])] if tier == "thorough" else [])
    for name, pk in pkeys:
        margs = [arg(k, v1), arg(k, v1, [prop(pk)]), arg(k, v1, [prop(pk, x)]), arg(k, v1, [prop(pk, y)]),
                 arg(k, v1, [prop(p, x), prop(pk, x)]), arg(k, v1, [prop(p, x), prop(pk, y)])]
        d = dict(REAL)
        d["MEMBERARGS"] = tset(margs)
        d["NEWLISTS"] = tset([seq([arg(k, v1, [prop(pk, x)])])])
        d["DELKEYS"] = tset([q("k"), q("absent")])
        d["HDRS"] = "{}"
        d["OPS"] = tset(q(o) for o in ops)
        d["MAXSTEPS"] = 3
        cfgs.append(("store-propkey-" + name, d))
    return cfgs


# ------------------------------------------------------------------ classification (known-finding matching)
def header_cause(h, verdict):
    """class of a header involved in a failing Parse case (h = lexed symbols)"""
    if verdict == "nostable":
        # grammatical and within the limits as received, but what it decodes to does not fit: the only
        # decoding that grows is the repair of invalid UTF-8 (3 header bytes -> U+FFFD -> 9 bytes)
        return "invalid-utf8-expansion" if any(x["c"] == "enc" and x["d"] == "x" for x in h) else "nostable-other"
    # an empty property: ";" followed (after optional white space) by ";" "," or the end
    for i, x in enumerate(h):
        if x["c"] == "semi":
            j = i + 1
            while j < len(h) and h[j]["c"] == "sp":
                j += 1
            if j == len(h) or h[j]["c"] in ("semi", "comma"):
                return "empty-property"
    return "other"


GO_KINDS = {("New", "accepted"): "new-accepted-over-limit", ("Parse", "accepted"): "parse-accepted-over-limit",
            ("New", "rejected"): "new-rejected-within-limits", ("Parse", "rejected"): "parse-rejected-wellformed",
            ("New", "members"): "new-members", ("Parse", "members"): "parse-members"}


def text_of(h):
    """readable rendering of lexed header symbols (for replay artefacts)"""
    out = []
    for x in h:
        out.append(x["s"] if x["s"] else "<%s%s x%d>" % (x["c"], "/" + x["d"] if x["d"] else "", x["n"]))
    return "".join(out)[:2000]


def run(ctx):
    thorough = ctx.tier == "thorough"
    binp = ctx.go_build("c11")
    counters = ctx.extra.setdefault("counters", {})

    def add_counters(res):
        for k, v in res["counters"].items():
            counters[k] = counters.get(k, 0) + v
        for m in res["inconclusive"]:
            ctx.note_inconclusive(m)

    # ---- model level: the statement's clauses as invariants of the codec model, exhaustively at scaled limits
    #      (2 members / 14 bytes / 8 bytes per member) ...
    #      (TLC's -coverage cannot be used on this spec: its CostModelCreator walk over the higher-order codec
    #      operators does not terminate in reasonable time; action coverage is taken from the printed edges, whose
    #      `act.op` names the action of every explored transition)
    ctx.tlc(S, "MC_BaggageRT", "MC_BaggageRT.cfg", defines=rt_defines(ctx.tier, real=False), name="codec-scaled",
            timeout=1800)
    # ... and TLC finds the two known deviations of the code when the model is given the code's behaviour
    for dev, inv in (("parse-no-refit", "Inv"), ("new-no-member-limit", "Inv")):
        d = ctx.tlc(S, "MC_BaggageRT", "MC_BaggageRT.cfg", defines=rt_defines(ctx.tier, real=False, dev='{"%s"}' % dev, hmax=3),
                    name="nodev-" + dev, must_pass=False, count=False, timeout=1800)
        ctx.extra.setdefault("deviation_demos", {})[dev] = d["violated"]
        if d["violated"] != inv:
            ctx.note_inconclusive("model with deviation %s does not violate %s (got %s): the model lost the clause" %
                                  (dev, inv, d["violated"] or d["error"]))

    traces = []

    # ---- spec -> code: codec edges at the REAL limits (every header over the alphabet + boundary families,
    #      every constructor input family)
    r = ctx.tlc(S, "MC_BaggageRT", "MC_BaggageRT.cfg", defines=rt_defines(ctx.tier, real=True), want_edges=True,
                name="codec-real", timeout=3000)
    out = os.path.join(ctx.work, "replay-codec.json")
    tr = os.path.join(ctx.work, "replay-codec.ndjson")
    ctx.run([binp, "codec", "-edges", r["edges_file"], "-trace", tr, "-out", out, "-rep", str(ctx.seed)], timeout=3000)
    res = json.load(open(out))
    add_counters(res)
    ctx.traces_validated += res["executed"]
    ctx.evaluations += res["evaluations"]
    ctx.add_samples(res["samples"][:1])
    ctx.extra["codec_edges"] = r["edges"]
    traces.append(tr)
    for m in res["mismatches"]:
        c = m.get("case") or {}
        line = m.get("act") or {}
        kind = "panic" if m["kind"] == "panic" else GO_KINDS.get((c.get("op"), m["kind"]), m["kind"])
        cause = header_cause(line.get("h", []), c.get("out")) if c.get("op") == "Parse" else ""
        ctx.violation({"dir": "replay", "op": c.get("op"), "kind": kind, "verdict": c.get("out"), "why": c.get("why", ""),
                       "cause": cause},
                      replay={"line": line, "want": m.get("want"), "got": m.get("got"), "detail": m.get("detail"),
                              "header_text": text_of(line.get("h", []))})

    # ---- spec -> code: the edit machine (handles, contexts, returned slices), every edit sequence
    steps = 4 if thorough else 3
    #      ... and the key-class family: every key the constructors accept (token / non-token UTF-8), as member key
    #      and as property key, x SetMember add / replace (value, properties, one property value, identical) / Delete
    ctx.extra["store_edges"] = {}
    for name, d in [("store", store_defines(ctx.tier, steps))] + store_key_configs(ctx.tier):
        r = ctx.tlc(S, "MC_BaggageStore", "MC_BaggageStore.cfg", defines=d, want_edges=True, name=name, timeout=3000)
        out = os.path.join(ctx.work, "replay-%s.json" % name)
        ctx.run([binp, "store", "-edges", r["edges_file"], "-out", out, "-rep", str(ctx.seed)], timeout=3000)
        res = json.load(open(out))
        add_counters(res)
        ctx.traces_validated += res["executed"]
        ctx.evaluations += res["evaluations"]
        ctx.add_samples(res["samples"][:1])
        ctx.extra["store_edges"][name] = r["edges"]
        for m in res["mismatches"]:
            c = m.get("case") or {}
            ctx.violation({"dir": "replay-store", "op": c.get("op"), "kind": m["kind"], "verdict": "", "why": "", "cause": "",
                           "cfg": name},
                          replay={"cfg": name, "path": m.get("path"), "act": m.get("act"), "want": m.get("want"),
                                  "got": m.get("got"), "detail": m.get("detail")})

    # ---- code -> spec: random members / headers / edit scenarios + boundary families at the real limits
    n = 3000 if thorough else 300
    rtrace = os.path.join(ctx.work, "random.ndjson")
    resf = os.path.join(ctx.work, "random.json")
    ctx.run([binp, "random", "-n", str(n), "-trace", rtrace, "-res", resf], timeout=3000)
    res = json.load(open(resf))
    add_counters(res)
    ctx.evaluations += res["executed"]
    ctx.add_samples(res["samples"][:1])
    for m in res["mismatches"]:
        c = m.get("case") or {}
        ctx.violation({"dir": "random", "op": c.get("op"), "kind": "panic", "verdict": "", "why": "", "cause": ""}, replay=m)
    traces.insert(0, rtrace)

    # ---- TLC validates every recorded line against the codec / edit model at the real limits
    lines = []
    for p in traces:
        lines += open(p).read().splitlines()
    chunks, cur = [], []
    budget = 0
    for ln in lines:
        # scenarios (Reset, Op*) stay together; big lines count more
        if (len(cur) >= 3000 or budget > 24_000_000) and '"ev":"Op"' not in ln[:200] and not ln.startswith('{"a":'):
            chunks.append(cur)
            cur, budget = [], 0
        cur.append(ln)
        budget += len(ln)
    if cur:
        chunks.append(cur)
    total = 0
    for ci, ch in enumerate(chunks):
        p = os.path.join(ctx.work, "trace-%d.ndjson" % ci)
        with open(p, "w") as f:
            f.write("\n".join(ch) + "\n")
        viols, accepted = ctx.validate_trace(S, "Trace_Baggage", "Trace_Baggage.cfg", p, timeout=3000, name="trace-%d" % ci,
                                             defines=dict(REAL))
        total += accepted
        for v in viols:
            rec = json.loads(ch[v["line"] - 1])
            ev = rec["ev"]
            if v["kind"] == "lexer-drift":
                ctx.note_inconclusive("lexer drift (harness bug, not a verdict) at %s line %d" % (p, v["line"]))
                continue
            if ev == "Op":
                sig = {"dir": "trace", "op": rec["a"]["op"], "kind": v["kind"], "verdict": "", "why": "", "cause": ""}
                # the scenario up to the failing line
                scen, i = [], v["line"] - 1
                while i >= 0:
                    r0 = json.loads(ch[i])
                    if r0["ev"] != "Op":
                        break
                    scen.append(r0["a"])
                    i -= 1
                replay = {"scenario": scen[::-1], "obs": rec["obs"], "viol": v}
            else:
                cause = header_cause(rec["h"], v["verdict"]) if ev == "Parse" else ""
                sig = {"dir": "trace", "op": ev, "kind": v["kind"], "verdict": v["verdict"], "why": v["why"], "cause": cause}
                replay = {"line": rec, "viol": v, "header_text": text_of(rec.get("h", []))}
            ctx.violation(sig, replay=replay)
    ctx.traces_validated += total
    ctx.extra["trace_lines_validated"] = total
    ctx.extra["random_iterations"] = n

    # ---- vacuity of the drivers: the interesting regimes must have been reached
    need = ["op_New", "op_Parse", "out_Parse_accept", "out_Parse_reject", "out_Parse_either", "out_Parse_nostable",
            "out_Parse_free", "out_New_accept", "out_New_reject", "out_New_badarg", "out_New_unjudged",
            "returned_New", "returned_Parse",
            "op_SetMember", "op_SetZero", "op_DeleteMember", "op_ToCtx", "op_FromCtx", "op_ClearCtx", "op_Child",
            "op_Propagate", "op_Scribble", "handles_reread",
            "gen_members_179", "gen_members_180", "gen_members_181", "gen_member_bytes_4095", "gen_member_bytes_4096",
            "gen_member_bytes_4097", "gen_total_bytes_8191", "gen_total_bytes_8192", "gen_total_bytes_8193",
            "gen_new_members_180", "gen_new_members_181", "gen_new_member_bytes_4096", "gen_new_member_bytes_4097",
            "gen_new_total_bytes_8192", "gen_new_total_bytes_8193", "gen_invalid_utf8_run", "gen_hdr_duplicate_key",
            "gen_value_invalid_utf8", "gen_key_nontoken", "obs_Parse_returned", "obs_Parse_refused", "obs_New_returned",
            "obs_New_refused", "obs_New_returned_large", "obs_Parse_returned_large", "scenarios", "scn_op_SetMember",
            "scn_op_DeleteMember", "scn_op_Propagate", "scn_op_Scribble", "scn_op_Parse", "scn_op_New", "scn_big_baggage",
            "scn_setmember_nontoken_key", "scn_replace_value", "scn_replace_properties", "scn_replace_property_value_only",
            "scn_replace_identical", "store_replace_nontoken_key", "store_replace_token_key", "store_delete_nontoken_present"]
    missing = [k for k in need if not counters.get(k)]
    if missing:
        ctx.note_inconclusive("vacuity: regimes never reached: %s" % missing)
    if counters.get("edge_not_faithful", 0) > 0.05 * max(1, ctx.extra["codec_edges"]):
        ctx.note_inconclusive("too many edges whose symbols do not denote their bytes: %d" % counters["edge_not_faithful"])
    ctx.assumptions += [
        "characters are compared by class (BaggageCodec.tla) and by count; byte identity is covered by the real-vs-real "
        "comparisons `exact` (re-parsed / extracted members byte-identical) recorded by the harness and required by the spec",
        "the per-member and total limits of the constructor are judged on the lengths of the implementation's own "
        "serialisation (any valid percent-encoding is admissible), whose validity is judged by the header grammar",
        "non-grammatical headers and OWS-dependent limit excess: either outcome admissible (verdicts free / either); "
        "a success is judged by the conditional clauses only",
        "non-token keys accepted by the Raw constructors are recorded, not judged",
        "invalid bytes -> U+FFFD: any count between one per maximal invalid run and one per byte is admissible",
    ]
    ctx.extra["rule"] = ("a case is distinct by (operation, symbol sequence of the header / argument list) for the codec and by "
                         "(edit sequence) for the edit machine")
