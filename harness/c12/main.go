// c12: conformance harness for Cardinality.tla / CardModel.tla (property C12).
//
//	c12 replay -edges F -keys a,b -rep N -out R [-sample K]   replay every TLC edge through the public metric API
//	c12 random -n N -out TRACE -res R                         random pipelines/streams -> ndjson trace for TLC
//	c12 conc   -storms N -out TRACE -res R                    concurrent scenarios (conc.go) -> ndjson trace for TLC
//	c12 probe  -cfg JSON -ops JSON -keys a,b -rep N           run one scenario, print the collections (debugging aid)
//
// The harness only executes and projects: it builds a MeterProvider (ManualReader, views) from an
// abstract configuration, performs abstract measurements / collections and projects every collected
// ResourceMetrics onto the model's observation space. All expectations come from the TLA+ side.
package main

import (
	"context"
	"encoding/json"
	"flag"
	"fmt"
	"math/rand"
	"os"
	"sort"
	"strconv"
	"strings"
	"sync"

	"go.opentelemetry.io/otel"
	"go.opentelemetry.io/otel/attribute"
	"go.opentelemetry.io/otel/metric"
	sdkmetric "go.opentelemetry.io/otel/sdk/metric"
	"go.opentelemetry.io/otel/sdk/metric/metricdata"
	"go.opentelemetry.io/otel/sdk/verifh/vh"
)

const envKey = "OTEL_GO_X_CARDINALITY_LIMIT"

// ------------------------------------------------------------------ abstract configuration / ops

type Filt struct {
	On   bool     `json:"on"`
	Keep []string `json:"keep"`
}

// ViewC: selection criteria (m*: name or wildcard pattern, kind, unit, description, scope name /
// version / schema URL; "" = not given) and stream mask (name, unit, desc, agg, filt; "" = keep).
type ViewC struct {
	MName string `json:"mname"`
	MKind string `json:"mkind"`
	MUnit string `json:"munit"`
	MDesc string `json:"mdesc"`
	MSN   string `json:"msn"`
	MSV   string `json:"msv"`
	MSU   string `json:"msu"`
	Name  string `json:"name"`
	Unit  string `json:"unit"`
	Desc  string `json:"desc"`
	Agg   string `json:"agg"`
	Filt  Filt   `json:"filt"`
}

// InstC: an instrument as requested from the Meter (sn, sv, su).
type InstC struct {
	Name string `json:"name"`
	Kind string `json:"kind"`
	Num  string `json:"num"`
	Unit string `json:"unit"`
	Desc string `json:"desc"`
	SN   string `json:"sn"`
	SV   string `json:"sv"`
	SU   string `json:"su"`
	CB   string `json:"cb"` // observables: "opt" = WithXCallback at creation, "reg" = Meter.RegisterCallback; "" for synchronous
}

// ReaderC: one ManualReader: its temporality and its aggregation selector (kind -> "" default | drop | sum | last | hist | expo).
type ReaderC struct {
	Temp string            `json:"temp"`
	Sel  map[string]string `json:"sel"`
}
type Cfg struct {
	Limit   int       `json:"limit"`
	Readers []ReaderC `json:"readers"`
	Insts   []InstC   `json:"insts"`
	Views   []ViewC   `json:"views"`
}
type Op struct {
	Op    string         `json:"op,omitempty"`
	Cfg   *Cfg           `json:"cfg,omitempty"`
	R     int            `json:"r"` // C: the collecting reader (1-based)
	I     int            `json:"i"`
	Attrs map[string]int `json:"attrs"`
	V     int            `json:"v"`
}

// observation space of the model
type Point struct {
	Ovf   bool           `json:"ovf"`
	Attrs map[string]int `json:"attrs"`
	N     int64          `json:"n"`
	S     int64          `json:"s"`
	L     int64          `json:"l"`
	Mn    int64          `json:"mn"`
	Mx    int64          `json:"mx"`
}
type Metric struct {
	Name string  `json:"name"` // lower-cased: names are case-insensitive
	Desc string  `json:"desc"`
	Unit string  `json:"unit"`
	SN   string  `json:"sn"`
	SV   string  `json:"sv"`
	SU   string  `json:"su"`
	Num  string  `json:"num"`
	Agg  string  `json:"agg"`
	Temp string  `json:"temp"`
	Mono bool    `json:"mono"`
	Pts  []Point `json:"pts"`
}

var kindOf = map[string]sdkmetric.InstrumentKind{
	"counter": sdkmetric.InstrumentKindCounter, "updown": sdkmetric.InstrumentKindUpDownCounter,
	"histogram": sdkmetric.InstrumentKindHistogram, "gauge": sdkmetric.InstrumentKindGauge,
	"ocounter": sdkmetric.InstrumentKindObservableCounter, "oupdown": sdkmetric.InstrumentKindObservableUpDownCounter,
	"ogauge": sdkmetric.InstrumentKindObservableGauge,
}

func isObs(kind string) bool { return strings.HasPrefix(kind, "o") }

// ------------------------------------------------------------------ concretization

// attribute value for abstract value n (>0) of key k under representation rep
func concreteKV(k string, n int, rep int) attribute.KeyValue {
	if isTyped(n) { // typed value: its type is part of the model value (typed.go)
		return concreteTyped(k, n)
	}
	r := rep % 5
	if r == 4 { // mixture: representation chosen per key
		r = int(k[0]) % 4
	}
	switch r {
	case 0:
		return attribute.Int(k, n)
	case 1:
		return attribute.String(k, "v"+strconv.Itoa(n))
	case 2:
		return attribute.Float64(k, float64(n)+0.5)
	default:
		return attribute.IntSlice(k, []int{n, n})
	}
}

func abstractVal(v attribute.Value) int {
	if n, ok := abstractTyped(v); ok {
		return n
	}
	switch v.Type() {
	case attribute.INT64:
		return int(v.AsInt64())
	case attribute.STRING:
		s := v.AsString()
		if strings.HasPrefix(s, "v") {
			if n, err := strconv.Atoi(s[1:]); err == nil {
				return n
			}
		}
	case attribute.FLOAT64:
		f := v.AsFloat64() - 0.5
		if f == float64(int(f)) {
			return int(f)
		}
	case attribute.INT64SLICE:
		s := v.AsInt64Slice()
		if len(s) == 2 && s[0] == s[1] {
			return int(s[0])
		}
	}
	return -1
}

func concreteAttrs(a map[string]int, keys []string, rep int, r *rand.Rand) []attribute.KeyValue {
	kvs := make([]attribute.KeyValue, 0, len(a))
	for _, k := range keys {
		if n := a[k]; n > 0 {
			kvs = append(kvs, concreteKV(k, n, rep))
		}
	}
	if r != nil { // caller order of the key/values is irrelevant for set identity
		r.Shuffle(len(kvs), func(i, j int) { kvs[i], kvs[j] = kvs[j], kvs[i] })
	}
	return kvs
}

// project a reported attribute set: exactly {otel.metric.overflow=true} is the overflow set;
// anything outside the key universe is kept under its own name so it shows up as a mismatch.
func abstractAttrs(set attribute.Set, keys []string) (bool, map[string]int) {
	out := make(map[string]int, len(keys))
	for _, k := range keys {
		out[k] = 0
	}
	if set.Len() == 1 {
		if v, ok := set.Value("otel.metric.overflow"); ok && v.Type() == attribute.BOOL && v.AsBool() {
			return true, out
		}
	}
	it := set.Iter()
	for it.Next() {
		kv := it.Attribute()
		out[string(kv.Key)] = abstractVal(kv.Value)
	}
	return false, out
}

// ------------------------------------------------------------------ the real pipeline

type obsRec struct {
	idx   int
	attrs []attribute.KeyValue
	v     int
}

type world struct {
	keys    []string
	rep     int
	rnd     *rand.Rand
	cfg     Cfg
	readers []*sdkmetric.ManualReader
	mp      *sdkmetric.MeterProvider
	rms     []*metricdata.ResourceMetrics // per reader, when the caller reuses its ResourceMetrics
	reuse   bool
	rec     []func(v int, kvs []attribute.KeyValue)                     // per instrument
	observe []func(ob metric.Observer, v int, kvs []attribute.KeyValue) // per observable instrument
	// observations the callbacks make at the next collection of each reader, in arrival order; the
	// harness knows which reader is collecting because it calls Collect itself
	pending [][]obsRec
	current int
}

var (
	errMu   sync.Mutex
	sdkErrs []string
)

type errHandler struct{}

func (errHandler) Handle(err error) {
	errMu.Lock()
	if len(sdkErrs) < 20 {
		sdkErrs = append(sdkErrs, err.Error())
	}
	errMu.Unlock()
}

// errors the SDK reports through the global handler are informational (e.g. a view without criteria)
func noteSDKErrors(res *vh.Result) {
	errMu.Lock()
	defer errMu.Unlock()
	res.Count("sdk_error_handler_calls", int64(len(sdkErrs)))
	if len(sdkErrs) > 0 {
		res.Sample(map[string]any{"sdk_errors": sdkErrs})
	}
}

func aggOf(a string) sdkmetric.Aggregation {
	switch a {
	case "":
		return nil
	case "default":
		return sdkmetric.AggregationDefault{}
	case "drop":
		return sdkmetric.AggregationDrop{}
	case "sum":
		return sdkmetric.AggregationSum{}
	case "last":
		return sdkmetric.AggregationLastValue{}
	case "hist":
		return sdkmetric.AggregationExplicitBucketHistogram{Boundaries: []float64{0, 1, 2, 5}}
	case "expo":
		return sdkmetric.AggregationBase2ExponentialHistogram{MaxSize: 160, MaxScale: 20}
	}
	panic("unknown aggregation " + a)
}

func filterOf(f Filt, keys []string, rep int) attribute.Filter {
	if !f.On {
		return nil
	}
	keep := map[string]bool{}
	ks := make([]attribute.Key, 0, len(f.Keep))
	for _, k := range f.Keep {
		keep[k] = true
		ks = append(ks, attribute.Key(k))
	}
	switch rep % 3 {
	case 0:
		return attribute.NewAllowKeysFilter(ks...)
	case 1: // the same predicate over the key universe, written as a deny list
		deny := []attribute.Key{}
		for _, k := range keys {
			if !keep[k] {
				deny = append(deny, attribute.Key(k))
			}
		}
		if len(deny) == 0 {
			return attribute.NewAllowKeysFilter(ks...)
		}
		return attribute.NewDenyKeysFilter(deny...)
	default:
		return func(kv attribute.KeyValue) bool { return keep[string(kv.Key)] }
	}
}

// setLimitEnv sets the experimental cardinality limit; "unlimited" has several spellings.
func setLimitEnv(limit, rep int) {
	if limit > 0 {
		os.Setenv(envKey, strconv.Itoa(limit))
		return
	}
	switch rep % 4 {
	case 0:
		os.Unsetenv(envKey)
	case 1:
		os.Setenv(envKey, "0")
	case 2:
		os.Setenv(envKey, "-3")
	default:
		os.Setenv(envKey, "")
	}
}

var kindName = map[sdkmetric.InstrumentKind]string{}

func init() {
	for n, k := range kindOf {
		kindName[k] = n
	}
}

// readerOf builds a ManualReader with the abstract reader's temporality and aggregation selector.
func readerOf(rc ReaderC, rep int) *sdkmetric.ManualReader {
	temp := metricdata.CumulativeTemporality
	if rc.Temp == "delta" {
		temp = metricdata.DeltaTemporality
	}
	ro := []sdkmetric.ManualReaderOption{sdkmetric.WithTemporalitySelector(func(sdkmetric.InstrumentKind) metricdata.Temporality { return temp })}
	custom := false
	for _, a := range rc.Sel {
		custom = custom || a != ""
	}
	if custom || rep%3 == 2 {
		sel := rc.Sel
		ro = append(ro, sdkmetric.WithAggregationSelector(func(k sdkmetric.InstrumentKind) sdkmetric.Aggregation {
			if a := sel[kindName[k]]; a != "" {
				return aggOf(a)
			}
			if rep%2 == 0 {
				return sdkmetric.AggregationDefault{}
			}
			return sdkmetric.DefaultAggregationSelector(k)
		}))
	}
	return sdkmetric.NewManualReader(ro...)
}

func newWorld(cfg Cfg, keys []string, rep int, seed int64) *world {
	w := &world{keys: keys, rep: rep, cfg: cfg, rnd: rand.New(rand.NewSource(seed))}
	w.reuse = rep%2 == 1
	opts := []sdkmetric.Option{}
	for _, rc := range cfg.Readers {
		rd := readerOf(rc, rep)
		w.readers = append(w.readers, rd)
		w.rms = append(w.rms, &metricdata.ResourceMetrics{})
		opts = append(opts, sdkmetric.WithReader(rd))
	}
	w.pending = make([][]obsRec, len(cfg.Readers))
	for _, v := range cfg.Views {
		opts = append(opts, sdkmetric.WithView(viewOf(v, keys, rep)))
	}
	// the limit is read from the environment when an aggregator is created, i.e. during instrument
	// creation; it is set before the provider is built and left alone for the whole scenario
	setLimitEnv(cfg.Limit, rep)
	w.mp = sdkmetric.NewMeterProvider(opts...)
	ctx := context.Background()
	w.rec = make([]func(int, []attribute.KeyValue), len(cfg.Insts))
	w.observe = make([]func(metric.Observer, int, []attribute.KeyValue), len(cfg.Insts))
	// one Meter per instrumentation scope; observables are registered with the Meter that made them
	type scopeK struct{ n, v, u string }
	meters := map[scopeK]metric.Meter{}
	var scopeOrder []scopeK
	observablesOf := map[scopeK][]metric.Observable{}
	obsIdx := map[scopeK]map[int]bool{}
	for idx, ic := range cfg.Insts {
		idx := idx
		var err error
		f := ic.Num == "f"
		sk := scopeK{ic.SN, ic.SV, ic.SU}
		m, ok := meters[sk]
		if !ok || rep%7 == 3 { // asking for the same scope again returns the same Meter
			mo := []metric.MeterOption{}
			if ic.SV != "" {
				mo = append(mo, metric.WithInstrumentationVersion(ic.SV))
			}
			if ic.SU != "" {
				mo = append(mo, metric.WithSchemaURL(ic.SU))
			}
			m = w.mp.Meter(ic.SN, mo...)
			if !ok {
				scopeOrder = append(scopeOrder, sk)
				obsIdx[sk] = map[int]bool{}
			}
			meters[sk] = m
		}
		var observables []metric.Observable
		ou, od := metric.WithUnit(ic.Unit), metric.WithDescription(ic.Desc)
		switch ic.Kind {
		case "counter":
			if f {
				var c metric.Float64Counter
				c, err = m.Float64Counter(ic.Name, ou, od)
				w.rec[idx] = func(v int, kvs []attribute.KeyValue) { c.Add(ctx, float64(v), metric.WithAttributes(kvs...)) }
			} else {
				var c metric.Int64Counter
				c, err = m.Int64Counter(ic.Name, ou, od)
				w.rec[idx] = func(v int, kvs []attribute.KeyValue) { c.Add(ctx, int64(v), metric.WithAttributes(kvs...)) }
			}
		case "updown":
			if f {
				var c metric.Float64UpDownCounter
				c, err = m.Float64UpDownCounter(ic.Name, ou, od)
				w.rec[idx] = func(v int, kvs []attribute.KeyValue) { c.Add(ctx, float64(v), metric.WithAttributes(kvs...)) }
			} else {
				var c metric.Int64UpDownCounter
				c, err = m.Int64UpDownCounter(ic.Name, ou, od)
				w.rec[idx] = func(v int, kvs []attribute.KeyValue) { c.Add(ctx, int64(v), metric.WithAttributes(kvs...)) }
			}
		case "histogram":
			if f {
				var c metric.Float64Histogram
				c, err = m.Float64Histogram(ic.Name, ou, od)
				w.rec[idx] = func(v int, kvs []attribute.KeyValue) {
					c.Record(ctx, float64(v), metric.WithAttributeSet(attribute.NewSet(kvs...)))
				}
			} else {
				var c metric.Int64Histogram
				c, err = m.Int64Histogram(ic.Name, ou, od)
				w.rec[idx] = func(v int, kvs []attribute.KeyValue) {
					c.Record(ctx, int64(v), metric.WithAttributeSet(attribute.NewSet(kvs...)))
				}
			}
		case "gauge":
			if f {
				var c metric.Float64Gauge
				c, err = m.Float64Gauge(ic.Name, ou, od)
				w.rec[idx] = func(v int, kvs []attribute.KeyValue) { c.Record(ctx, float64(v), metric.WithAttributes(kvs...)) }
			} else {
				var c metric.Int64Gauge
				c, err = m.Int64Gauge(ic.Name, ou, od)
				w.rec[idx] = func(v int, kvs []attribute.KeyValue) { c.Record(ctx, int64(v), metric.WithAttributes(kvs...)) }
			}
		case "ocounter", "oupdown", "ogauge":
			// observations are staged and made, in arrival order, by the instrument's callback during
			// the next collection of EACH reader
			w.rec[idx] = func(v int, kvs []attribute.KeyValue) {
				for r := range w.pending {
					w.pending[r] = append(w.pending[r], obsRec{idx, kvs, v})
				}
			}
			// "opt": the instrument brings its own callback (WithXCallback) that makes the staged
			// observations of this instrument; a repeated request for the same instrument passes no
			// callback (the SDK documents that only the first set of callbacks is used)
			ownCB := ic.CB == "opt"
			for j := 0; j < idx; j++ {
				if cfg.Insts[j] == ic {
					ownCB = false
				}
			}
			mine := func(p obsRec) bool { return cfg.Insts[p.idx] == ic }
			if f {
				var o metric.Float64Observable
				var cbs []metric.Float64Callback
				if ownCB {
					cbs = append(cbs, func(_ context.Context, ob metric.Float64Observer) error {
						for _, p := range w.pending[w.current] {
							if mine(p) {
								ob.Observe(float64(p.v), metric.WithAttributes(p.attrs...))
							}
						}
						return nil
					})
				}
				o, err = f64Observable(m, ic, cbs)
				observables = append(observables, o)
				w.observe[idx] = func(ob metric.Observer, v int, kvs []attribute.KeyValue) {
					ob.ObserveFloat64(o, float64(v), metric.WithAttributes(kvs...))
				}
			} else {
				var o metric.Int64Observable
				var cbs []metric.Int64Callback
				if ownCB {
					cbs = append(cbs, func(_ context.Context, ob metric.Int64Observer) error {
						for _, p := range w.pending[w.current] {
							if mine(p) {
								ob.Observe(int64(p.v), metric.WithAttributes(p.attrs...))
							}
						}
						return nil
					})
				}
				o, err = i64Observable(m, ic, cbs)
				observables = append(observables, o)
				w.observe[idx] = func(ob metric.Observer, v int, kvs []attribute.KeyValue) {
					ob.ObserveInt64(o, int64(v), metric.WithAttributes(kvs...))
				}
			}
		default:
			panic("unknown kind " + ic.Kind)
		}
		if err != nil {
			panic(fmt.Sprintf("instrument %v: %v", ic, err))
		}
		if len(observables) > 0 && ic.CB != "opt" {
			observablesOf[sk] = append(observablesOf[sk], observables...)
			obsIdx[sk][idx] = true
		}
	}
	for _, sk := range scopeOrder {
		if len(observablesOf[sk]) == 0 {
			continue
		}
		mine := obsIdx[sk]
		_, err := meters[sk].RegisterCallback(func(_ context.Context, ob metric.Observer) error {
			for _, p := range w.pending[w.current] {
				if mine[p.idx] {
					w.observe[p.idx](ob, p.v, p.attrs)
				}
			}
			return nil
		}, observablesOf[sk]...)
		if err != nil {
			panic(fmt.Sprintf("register callback: %v", err))
		}
	}
	return w
}

func f64Observable(m metric.Meter, ic InstC, cbs []metric.Float64Callback) (metric.Float64Observable, error) {
	ou, od := metric.WithUnit(ic.Unit), metric.WithDescription(ic.Desc)
	switch ic.Kind {
	case "ocounter":
		o := []metric.Float64ObservableCounterOption{ou, od}
		for _, c := range cbs {
			o = append(o, metric.WithFloat64Callback(c))
		}
		return m.Float64ObservableCounter(ic.Name, o...)
	case "oupdown":
		o := []metric.Float64ObservableUpDownCounterOption{ou, od}
		for _, c := range cbs {
			o = append(o, metric.WithFloat64Callback(c))
		}
		return m.Float64ObservableUpDownCounter(ic.Name, o...)
	}
	o := []metric.Float64ObservableGaugeOption{ou, od}
	for _, c := range cbs {
		o = append(o, metric.WithFloat64Callback(c))
	}
	return m.Float64ObservableGauge(ic.Name, o...)
}

func i64Observable(m metric.Meter, ic InstC, cbs []metric.Int64Callback) (metric.Int64Observable, error) {
	ou, od := metric.WithUnit(ic.Unit), metric.WithDescription(ic.Desc)
	switch ic.Kind {
	case "ocounter":
		o := []metric.Int64ObservableCounterOption{ou, od}
		for _, c := range cbs {
			o = append(o, metric.WithInt64Callback(c))
		}
		return m.Int64ObservableCounter(ic.Name, o...)
	case "oupdown":
		o := []metric.Int64ObservableUpDownCounterOption{ou, od}
		for _, c := range cbs {
			o = append(o, metric.WithInt64Callback(c))
		}
		return m.Int64ObservableUpDownCounter(ic.Name, o...)
	}
	o := []metric.Int64ObservableGaugeOption{ou, od}
	for _, c := range cbs {
		o = append(o, metric.WithInt64Callback(c))
	}
	return m.Int64ObservableGauge(ic.Name, o...)
}

// viewOf builds the real view from the abstract criteria and mask. Zero-valued abstract fields stay
// zero-valued in the real criteria / mask.
func viewOf(v ViewC, keys []string, rep int) sdkmetric.View {
	crit := sdkmetric.Instrument{Name: v.MName, Unit: v.MUnit, Description: v.MDesc}
	if v.MKind != "" {
		crit.Kind = kindOf[v.MKind]
	}
	crit.Scope.Name, crit.Scope.Version, crit.Scope.SchemaURL = v.MSN, v.MSV, v.MSU
	return sdkmetric.NewView(crit, sdkmetric.Stream{Name: v.Name, Unit: v.Unit, Description: v.Desc,
		Aggregation: aggOf(v.Agg), AttributeFilter: filterOf(v.Filt, keys, rep), ExemplarReservoirProviderSelector: resSelHook})
}

func (w *world) measure(op Op) {
	w.rec[op.I-1](op.V, concreteAttrs(op.Attrs, w.keys, w.rep, w.rnd))
}

// collect runs one collection of reader r (0-based): its callbacks make the observations staged for it.
func (w *world) collect(r int) []Metric {
	rm := w.rms[r]
	if !w.reuse {
		rm = &metricdata.ResourceMetrics{}
	}
	w.current = r
	if err := w.readers[r].Collect(context.Background(), rm); err != nil {
		panic(fmt.Sprintf("collect: %v", err))
	}
	w.pending[r] = nil
	return project(rm, w.keys)
}

func sumU(xs []uint64) uint64 {
	var t uint64
	for _, x := range xs {
		t += x
	}
	return t
}

func tempName(t metricdata.Temporality) string {
	switch t {
	case metricdata.DeltaTemporality:
		return "delta"
	case metricdata.CumulativeTemporality:
		return "cumulative"
	}
	return "?"
}

func projSum[N int64 | float64](name, num string, d metricdata.Sum[N], keys []string) Metric {
	m := Metric{Name: name, Num: num, Agg: "sum", Temp: tempName(d.Temporality), Mono: d.IsMonotonic, Pts: []Point{}}
	for _, p := range d.DataPoints {
		ovf, a := abstractAttrs(p.Attributes, keys)
		m.Pts = append(m.Pts, Point{Ovf: ovf, Attrs: a, S: exact(float64(p.Value))})
	}
	return m
}

func projGauge[N int64 | float64](name, num string, d metricdata.Gauge[N], keys []string) Metric {
	m := Metric{Name: name, Num: num, Agg: "last", Temp: "", Pts: []Point{}}
	for _, p := range d.DataPoints {
		ovf, a := abstractAttrs(p.Attributes, keys)
		m.Pts = append(m.Pts, Point{Ovf: ovf, Attrs: a, L: exact(float64(p.Value))})
	}
	return m
}

// exact converts a reported number to the model's integers; a non-integral value (never recorded
// by the drivers) is mapped to a value no model state contains.
func exact(f float64) int64 {
	if f != float64(int64(f)) {
		return -999999
	}
	return int64(f)
}

func ext[N int64 | float64](e metricdata.Extrema[N]) int64 {
	v, ok := e.Value()
	if !ok {
		return -999998
	}
	return exact(float64(v))
}

func projHist[N int64 | float64](name, num string, d metricdata.Histogram[N], keys []string) Metric {
	m := Metric{Name: name, Num: num, Agg: "hist", Temp: tempName(d.Temporality), Pts: []Point{}}
	for _, p := range d.DataPoints {
		ovf, a := abstractAttrs(p.Attributes, keys)
		n := int64(p.Count)
		if sumU(p.BucketCounts) != p.Count { // bucket population must equal the count
			n = -int64(sumU(p.BucketCounts)) - 1000000
		}
		m.Pts = append(m.Pts, Point{Ovf: ovf, Attrs: a, N: n, S: exact(float64(p.Sum)), Mn: ext(p.Min), Mx: ext(p.Max)})
	}
	return m
}

func projExpo[N int64 | float64](name, num string, d metricdata.ExponentialHistogram[N], keys []string) Metric {
	m := Metric{Name: name, Num: num, Agg: "expo", Temp: tempName(d.Temporality), Pts: []Point{}}
	for _, p := range d.DataPoints {
		ovf, a := abstractAttrs(p.Attributes, keys)
		n := int64(p.Count)
		if b := p.ZeroCount + sumU(p.PositiveBucket.Counts) + sumU(p.NegativeBucket.Counts); b != p.Count {
			n = -int64(b) - 1000000
		}
		m.Pts = append(m.Pts, Point{Ovf: ovf, Attrs: a, N: n, S: exact(float64(p.Sum)), Mn: ext(p.Min), Mx: ext(p.Max)})
	}
	return m
}

func project(rm *metricdata.ResourceMetrics, keys []string) []Metric {
	out := []Metric{}
	for _, sm := range rm.ScopeMetrics {
		for _, m := range sm.Metrics {
			var pm Metric
			switch d := m.Data.(type) {
			case metricdata.Sum[int64]:
				pm = projSum(m.Name, "i", d, keys)
			case metricdata.Sum[float64]:
				pm = projSum(m.Name, "f", d, keys)
			case metricdata.Gauge[int64]:
				pm = projGauge(m.Name, "i", d, keys)
			case metricdata.Gauge[float64]:
				pm = projGauge(m.Name, "f", d, keys)
			case metricdata.Histogram[int64]:
				pm = projHist(m.Name, "i", d, keys)
			case metricdata.Histogram[float64]:
				pm = projHist(m.Name, "f", d, keys)
			case metricdata.ExponentialHistogram[int64]:
				pm = projExpo(m.Name, "i", d, keys)
			case metricdata.ExponentialHistogram[float64]:
				pm = projExpo(m.Name, "f", d, keys)
			default:
				pm = Metric{Name: m.Name, Num: "?", Agg: fmt.Sprintf("%T", m.Data), Pts: []Point{}}
			}
			if len(pm.Pts) == 0 {
				continue // a stream without data points carries no information the statement constrains
			}
			// instrument / stream names are case-insensitive: the projection compares them lower-cased
			pm.Name = strings.ToLower(m.Name)
			pm.Desc, pm.Unit = m.Description, m.Unit
			pm.SN, pm.SV, pm.SU = sm.Scope.Name, sm.Scope.Version, sm.Scope.SchemaURL
			out = append(out, pm)
		}
	}
	return out
}

// canonical form of a collection: metrics and points as sorted multisets
func canonMetrics(ms []Metric) []string {
	out := make([]string, 0, len(ms))
	for _, m := range ms {
		pts := make([]string, 0, len(m.Pts))
		for _, p := range m.Pts {
			b, _ := json.Marshal(p)
			pts = append(pts, string(b))
		}
		sort.Strings(pts)
		out = append(out, fmt.Sprintf("%q/%q/%q/%q/%q/%q/%s/%s/%s/%v %s", m.SN, m.SV, m.SU, m.Name, m.Desc, m.Unit, m.Num, m.Agg, m.Temp, m.Mono,
			strings.Join(pts, " ")))
	}
	sort.Strings(out)
	return out
}

func sameMetrics(a, b []Metric) bool {
	x, y := canonMetrics(a), canonMetrics(b)
	if len(x) != len(y) {
		return false
	}
	for i := range x {
		if x[i] != y[i] {
			return false
		}
	}
	return true
}

// ------------------------------------------------------------------ spec -> code: edge replay

type stateJ struct {
	C    int        `json:"c"`
	Peek [][]Metric `json:"peek"` // per reader
}

// runOps executes ops (first one is the Setup) and returns every collection made plus a final probing
// collection (the `peek` of the reached state).
func runOps(ops []Op, keys []string, rep int, seed int64) (colls [][]Metric, peek [][]Metric, order []int, panicked any) {
	defer func() {
		if r := recover(); r != nil {
			panicked = r
		}
	}()
	if len(ops) == 0 || ops[0].Op != "S" {
		return nil, [][]Metric{}, nil, nil
	}
	w := newWorld(*ops[0].Cfg, keys, rep, seed)
	for _, op := range ops[1:] {
		switch op.Op {
		case "M":
			w.measure(op)
		case "C":
			colls = append(colls, w.collect(op.R-1))
		default:
			panic("unknown op " + op.Op)
		}
	}
	// probe every reader, starting with a varying one (readers are independent of each other)
	nr := len(w.readers)
	peek = make([][]Metric, nr)
	for k := 0; k < nr; k++ {
		r := (k + int(seed%int64(nr)) + nr) % nr
		order = append(order, r+1)
		peek[r] = w.collect(r)
	}
	return colls, peek, order, nil
}

// viewSig names the class of a view: action and which kinds of criteria it uses.
func viewSig(v ViewC) string {
	s := "agg=" + v.Agg
	if v.Filt.On {
		s += ",filter"
	}
	if v.Name != "" {
		s += ",rename"
	}
	if v.Unit != "" || v.Desc != "" {
		s += ",mask"
	}
	if strings.ContainsAny(v.MName, "*?") {
		s += ",wild"
	}
	if v.MUnit != "" {
		s += ",unit"
	}
	if v.MKind != "" {
		s += ",kind"
	}
	if v.MDesc != "" {
		s += ",desc"
	}
	if v.MSN != "" || v.MSV != "" || v.MSU != "" {
		s += ",scope"
	}
	return s
}

// readersSig: temporality of every reader, "+sel" when it has its own aggregation selector.
func readersSig(rs []ReaderC) string {
	out := []string{}
	for _, r := range rs {
		t := r.Temp
		for _, k := range allKinds {
			if r.Sel[k] != "" {
				t += "+sel"
				break
			}
		}
		out = append(out, t)
	}
	return strings.Join(out, ",")
}

func cfgSig(c *Cfg) map[string]any {
	if c == nil {
		return map[string]any{}
	}
	kinds := []string{}
	for _, i := range c.Insts {
		kinds = append(kinds, i.Kind)
	}
	vs := []string{}
	for _, v := range c.Views {
		vs = append(vs, viewSig(v))
	}
	return map[string]any{"limit": c.Limit, "temp": readersSig(c.Readers), "kinds": strings.Join(kinds, ","), "views": strings.Join(vs, ";")}
}

func replay(args []string) {
	fs := flag.NewFlagSet("replay", flag.ExitOnError)
	edges := fs.String("edges", "", "")
	keysF := fs.String("keys", "a,b", "")
	rep := fs.Int("rep", 0, "")
	out := fs.String("out", "result.json", "")
	sample := fs.Int("sample", 0, "replay only every k-th edge offset by seed (0 = all)")
	fs.Parse(args)
	keys := strings.Split(*keysF, ",")
	g, err := vh.LoadEdges(*edges)
	vh.Must(err)
	res := vh.NewResult()
	for i, e := range g.Edges {
		res.Evaluations++
		if *sample > 1 && (int64(i)+vh.Seed())%int64(*sample) != 0 {
			continue
		}
		pathRaw, ok := g.Path(i)
		if !ok {
			res.Inconcl(fmt.Sprintf("edge %d: source not reachable in BFS tree", i))
			continue
		}
		var ops []Op
		for _, r := range append(pathRaw, e.Act) {
			var op Op
			vh.Must(json.Unmarshal(r, &op))
			ops = append(ops, op)
		}
		var from, to stateJ
		vh.Must(json.Unmarshal(e.From, &from))
		vh.Must(json.Unmarshal(e.To, &to))
		colls, peek, order, p := runOps(ops, keys, *rep, vh.Seed()+int64(i))
		res.Executed++
		countTyped(res, ops)
		sig := cfgSig(ops[0].Cfg)
		if p != nil {
			sig["why"] = "panic"
			res.AddMismatch(vh.Mismatch{Kind: "panic", Case: sig, Path: ops, Detail: fmt.Sprint(p)})
			continue
		}
		act := ops[len(ops)-1]
		if len(to.Peek) != len(peek) {
			res.Inconcl(fmt.Sprintf("edge %d: %d readers in the model state, %d in the harness", i, len(to.Peek), len(peek)))
			continue
		}
		if act.Op == "C" && len(colls) > 0 {
			// the collection of this edge must return what the source state promised for that reader
			if got := colls[len(colls)-1]; !sameMetrics(got, from.Peek[act.R-1]) {
				sig["why"] = "collect"
				res.AddMismatch(vh.Mismatch{Kind: "collect", Case: sig, Path: ops[:len(ops)-1], Act: act, Want: from.Peek[act.R-1], Got: got,
					Detail: fmt.Sprintf("reader %d", act.R)})
				continue
			}
		}
		for _, r1 := range order {
			if !sameMetrics(peek[r1-1], to.Peek[r1-1]) {
				sig["why"] = "state"
				res.AddMismatch(vh.Mismatch{Kind: "state", Case: sig, Path: ops[:len(ops)-1], Act: act, Want: to.Peek[r1-1], Got: peek[r1-1],
					Detail: fmt.Sprintf("reader %d, probing order %v", r1, order)})
				break
			}
		}
		if len(peek) > 1 {
			res.Count("edges_with_several_readers", 1)
		}
	ovf:
		for _, pk := range to.Peek {
			for _, m := range pk {
				for _, pt := range m.Pts {
					if pt.Ovf {
						res.Count("edges_with_overflow_point", 1)
						break ovf
					}
				}
			}
		}
		if len(ops[0].Cfg.Views) > 0 {
			res.Count("edges_with_views", 1)
		}
		if i%1499 == 0 {
			res.Sample(map[string]any{"ops": ops, "peek": to.Peek})
		}
	}
	noteSDKErrors(res)
	vh.Must(res.Write(*out))
}

// ------------------------------------------------------------------ code -> spec: random scenarios

var allKinds = []string{"counter", "updown", "histogram", "gauge", "ocounter", "oupdown", "ogauge"}

func compatAggs(kind string) []string {
	switch kind {
	case "gauge", "ogauge":
		return []string{"", "default", "last", "hist", "expo", "drop"}
	}
	return []string{"", "default", "sum", "hist", "expo", "drop"}
}

func defaultAgg(kind string) string {
	switch kind {
	case "histogram":
		return "hist"
	case "gauge", "ogauge":
		return "last"
	}
	return "sum"
}

// ---- generator-side domain filter (advisory): the random driver avoids configurations outside the
// modelled domain (conflicting stream identities, incompatible aggregations, ...). It decides nothing:
// Trace_Cardinality.tla re-evaluates InDomain on every Setup and skips what lies outside.

type streamG struct{ id, rkey, agg, filt string }

// wild is a plain recursive wildcard matcher (* = any run of characters, ? = one character).
func wild(p, s string) bool {
	if p == "" {
		return s == ""
	}
	if p[0] == '*' {
		return wild(p[1:], s) || (s != "" && wild(p, s[1:]))
	}
	return s != "" && (p[0] == '?' || p[0] == s[0]) && wild(p[1:], s[1:])
}

func selects(v ViewC, ic InstC) bool {
	if v.MName == "" && v.MKind == "" && v.MUnit == "" && v.MDesc == "" && v.MSN == "" && v.MSV == "" && v.MSU == "" {
		return false
	}
	return (v.MName == "" || wild(v.MName, ic.Name)) && (v.MKind == "" || v.MKind == ic.Kind) &&
		(v.MUnit == "" || v.MUnit == ic.Unit) && (v.MDesc == "" || v.MDesc == ic.Desc) &&
		(v.MSN == "" || v.MSN == ic.SN) && (v.MSV == "" || v.MSV == ic.SV) && (v.MSU == "" || v.MSU == ic.SU)
}

func nz(a, b string) string {
	if a != "" {
		return a
	}
	return b
}

func streamsOf(c Cfg, rd ReaderC, ic InstC) []streamG {
	var out []streamG
	mk := func(name, desc, unit, agg, filt string) streamG {
		if agg == "" && rd.Sel[ic.Kind] != "" {
			agg = rd.Sel[ic.Kind] // the reader's selection, unless the view names an aggregation
		}
		if agg == "" || agg == "default" {
			agg = defaultAgg(ic.Kind)
		}
		scope := ic.SN + "|" + ic.SV + "|" + ic.SU
		return streamG{
			id:   strings.Join([]string{strings.ToLower(name), desc, unit, ic.Kind, ic.Num, scope}, "\x00"),
			rkey: strings.Join([]string{strings.ToLower(name), desc, unit, agg, ic.Num, scope}, "\x00"),
			agg:  agg, filt: filt,
		}
	}
	for _, v := range c.Views {
		if !selects(v, ic) {
			continue
		}
		filt := ""
		if v.Filt.On {
			k := append([]string{}, v.Filt.Keep...)
			sort.Strings(k)
			filt = "on:" + strings.Join(k, ",")
		}
		out = append(out, mk(nz(v.Name, ic.Name), nz(v.Desc, ic.Desc), nz(v.Unit, ic.Unit), v.Agg, filt))
	}
	if len(out) == 0 {
		out = []streamG{mk(ic.Name, ic.Desc, ic.Unit, "", "")}
	}
	return out
}

func inDomain(c Cfg) bool {
	for _, rd := range c.Readers {
		byID := map[string]streamG{}
		byRKey := map[string]string{}
		owner := map[string]InstC{}
		for _, ic := range c.Insts {
			for _, s := range streamsOf(c, rd, ic) {
				if p, ok := byID[s.id]; ok && (p.agg != s.agg || p.filt != s.filt) {
					return false
				}
				byID[s.id] = s
				if o, ok := byRKey[s.rkey]; ok && o != s.id {
					return false
				}
				byRKey[s.rkey] = s.id
				fits := false
				for _, a := range compatAggs(ic.Kind) {
					fits = fits || a == s.agg
				}
				if !fits {
					return false
				}
				// different observables sharing an aggregator must use one registered callback
				if isObs(ic.Kind) {
					if o, ok := owner[s.id]; ok && o != ic && (o.CB != "reg" || ic.CB != "reg") {
						return false
					}
					owner[s.id] = ic
				}
			}
		}
	}
	for _, v := range c.Views {
		if strings.ContainsAny(v.MName, "*?") && v.Name != "" {
			return false
		}
		for _, ic := range c.Insts {
			if v.MName != "" && wild(strings.ToLower(v.MName), strings.ToLower(ic.Name)) && !wild(v.MName, ic.Name) {
				return false
			}
		}
	}
	return true
}

func noSel() map[string]string {
	m := map[string]string{}
	for _, k := range allKinds {
		m[k] = ""
	}
	return m
}

// randReaders: 1-3 readers (mostly one), each with its own temporality; some carry an aggregation
// selector: drop for some kinds, histogram flavours, sums of histograms, explicit defaults.
func randReaders(r *rand.Rand) []ReaderC {
	n := 1
	switch r.Intn(5) {
	case 0, 1:
		n = 2
	case 2:
		n = 3
	}
	out := []ReaderC{}
	for i := 0; i < n; i++ {
		rd := ReaderC{Temp: []string{"delta", "cumulative"}[r.Intn(2)], Sel: noSel()}
		if n > 1 && r.Intn(2) == 0 || r.Intn(8) == 0 {
			for _, k := range allKinds {
				if r.Intn(3) > 0 {
					continue
				}
				switch r.Intn(5) {
				case 0, 1:
					rd.Sel[k] = "drop"
				case 2:
					rd.Sel[k] = "expo"
				case 3:
					rd.Sel[k] = "hist"
				default:
					ca := compatAggs(k)
					rd.Sel[k] = ca[r.Intn(len(ca))]
				}
			}
		}
		out = append(out, rd)
	}
	return out
}

var (
	namePool  = []string{"req", "Req", "rex", "reqs", "REQS", "rq", "lat", "Lat", "q", "i1", "i2", "i.x"}
	unitPool  = []string{"", "", "ms", "ms", "s", "By"}
	descPool  = []string{"", "", "", "d1", "d2"}
	scopePool = [][3]string{{"sA", "", ""}, {"sA", "", ""}, {"sA", "v1", ""}, {"sB", "v2", "u2"}, {"sB", "v2", ""}}
)

func pick(r *rand.Rand, xs []string) string { return xs[r.Intn(len(xs))] }

// caseVariant flips the letter case of some characters (at least one letter if there is one).
func caseVariant(r *rand.Rand, s string) string {
	b := []byte(s)
	flip := func(i int) {
		switch {
		case b[i] >= 'a' && b[i] <= 'z':
			b[i] -= 32
		case b[i] >= 'A' && b[i] <= 'Z':
			b[i] += 32
		}
	}
	flip(r.Intn(len(b)))
	for i := range b {
		if r.Intn(3) == 0 {
			flip(i)
		}
	}
	return string(b)
}

// patternFor derives a name criterion from an instrument name: exact, everything, prefix / suffix /
// infix wildcards, one-character wildcards, and near misses.
func patternFor(r *rand.Rand, name string) string {
	n := len(name)
	switch r.Intn(12) {
	case 0, 1, 2:
		return name
	case 3:
		return "*"
	case 4:
		return name[:1+r.Intn(n)] + "*"
	case 5:
		return "*" + name[r.Intn(n):]
	case 6:
		i := r.Intn(n)
		return name[:i] + "?" + name[i+1:]
	case 7:
		return strings.Repeat("?", n)
	case 8:
		return name + "?" // one character too many
	case 9:
		i := r.Intn(n)
		return name[:i] + "*" + name[i:] // * matching the empty string
	case 10:
		return name[:1] + "*" + name[n-1:]
	default:
		return name[:r.Intn(n)] + "?*"
	}
}

func randCfg(r *rand.Rand, keys []string) Cfg {
	for {
		c := Cfg{Readers: randReaders(r), Insts: []InstC{}, Views: []ViewC{}}
		switch r.Intn(10) {
		case 0, 1:
			c.Limit = 0
		case 2, 3, 4:
			c.Limit = 1 + r.Intn(4)
		default:
			c.Limit = 1 + r.Intn(16)
		}
		ni := 1 + r.Intn(3)
		plain := r.Intn(3) == 0 // a third of the scenarios: distinct plain instruments (the old regime)
		for i := 0; i < ni; i++ {
			ic := InstC{Name: fmt.Sprintf("i%d", i+1), Kind: allKinds[r.Intn(len(allKinds))], Num: []string{"i", "f"}[r.Intn(2)], SN: "c12"}
			if !plain {
				sc := scopePool[r.Intn(len(scopePool))]
				ic.Name, ic.Unit, ic.Desc = pick(r, namePool), pick(r, unitPool), pick(r, descPool)
				ic.SN, ic.SV, ic.SU = sc[0], sc[1], sc[2]
				if i > 0 && r.Intn(3) == 0 { // a sibling: same instrument except for one identifying field
					ic = c.Insts[r.Intn(i)]
					switch r.Intn(5) {
					case 0:
						ic.Name = caseVariant(r, ic.Name)
					case 1:
						ic.Unit = pick(r, unitPool)
					case 2:
						ic.Desc = pick(r, descPool)
					case 3:
						sc := scopePool[r.Intn(len(scopePool))]
						ic.SN, ic.SV, ic.SU = sc[0], sc[1], sc[2]
					default:
						ic.Num = []string{"i", "f"}[r.Intn(2)]
					}
				}
			}
			if isObs(ic.Kind) && ic.CB == "" {
				ic.CB = []string{"opt", "reg"}[r.Intn(2)]
			}
			if i > 0 && r.Intn(6) == 0 { // the same instrument requested twice
				ic = c.Insts[r.Intn(i)]
			}
			c.Insts = append(c.Insts, ic)
		}
		nv := 0
		if r.Intn(5) > 0 {
			nv = 1 + r.Intn(3)
		}
		for j := 0; j < nv; j++ {
			v := ViewC{Filt: Filt{Keep: []string{}}}
			target := c.Insts[r.Intn(len(c.Insts))]
			// ---- selection criteria
			switch r.Intn(8) {
			case 0:
				v.MName = "*"
			case 1:
				v.MKind = target.Kind
			case 2:
				v.MName, v.MKind = target.Name, target.Kind
			case 3, 4:
				v.MName = target.Name
			default:
				v.MName = patternFor(r, target.Name)
			}
			if r.Intn(3) == 0 { // unit criterion: the target's or another one
				v.MUnit = target.Unit
				if r.Intn(3) == 0 {
					v.MUnit = pick(r, unitPool)
				}
			}
			if v.MKind == "" && r.Intn(4) == 0 {
				v.MKind = target.Kind
				if r.Intn(3) == 0 {
					v.MKind = allKinds[r.Intn(len(allKinds))]
				}
			}
			if r.Intn(6) == 0 {
				v.MDesc = nz(target.Desc, pick(r, descPool))
			}
			if r.Intn(4) == 0 { // scope criteria
				sc := [3]string{target.SN, target.SV, target.SU}
				if r.Intn(3) == 0 {
					sc = scopePool[r.Intn(len(scopePool))]
				}
				switch r.Intn(4) {
				case 0:
					v.MSN = sc[0]
				case 1:
					v.MSV = sc[1]
				case 2:
					v.MSU = sc[2]
				default:
					v.MSN, v.MSV, v.MSU = sc[0], sc[1], sc[2]
				}
			}
			// ---- stream mask
			if !strings.ContainsAny(v.MName, "*?") && r.Intn(3) == 0 {
				switch r.Intn(4) {
				case 0:
					v.Name = target.Name // renamed to its own name
				case 1:
					v.Name = caseVariant(r, target.Name)
				default:
					v.Name = fmt.Sprintf("r%d", 1+r.Intn(2))
				}
			}
			if r.Intn(6) == 0 {
				v.Unit = pick(r, unitPool)
			}
			if r.Intn(8) == 0 {
				v.Desc = pick(r, descPool)
			}
			if strings.ContainsAny(v.MName, "*?") || v.MName == "" {
				// may match instruments of several kinds: mostly aggregations every kind accepts
				if r.Intn(2) == 0 {
					v.Agg = []string{"", "default", "hist", "expo", "drop"}[r.Intn(5)]
				}
			} else if r.Intn(2) == 0 {
				ca := compatAggs(target.Kind)
				v.Agg = ca[r.Intn(len(ca))]
			}
			if r.Intn(3) > 0 {
				v.Filt.On = true
				for _, k := range keys {
					if r.Intn(2) == 0 {
						v.Filt.Keep = append(v.Filt.Keep, k)
					}
				}
			}
			if j > 0 && r.Intn(5) == 0 { // the same view again, possibly producing a case variant of its stream name
				v = c.Views[r.Intn(j)]
				if v.Name != "" && r.Intn(2) == 0 {
					v.Name = caseVariant(r, v.Name)
				}
			}
			c.Views = append(c.Views, v)
		}
		if nv > 0 && nv < 3 && r.Intn(4) == 0 {
			// a twin: another view that reaches the stream of an existing view for one instrument by a
			// different route (exact name criterion, stream renamed to a case variant of that stream's name)
			v := c.Views[r.Intn(nv)]
			var sel []InstC
			for _, ic := range c.Insts {
				if selects(v, ic) {
					sel = append(sel, ic)
				}
			}
			if len(sel) > 0 {
				ic := sel[r.Intn(len(sel))]
				tw := v
				tw.MName, tw.MKind, tw.MUnit, tw.MDesc, tw.MSN, tw.MSV, tw.MSU = ic.Name, "", "", "", "", "", ""
				tw.Name = nz(v.Name, ic.Name)
				if r.Intn(4) > 0 {
					tw.Name = caseVariant(r, tw.Name)
				}
				if r.Intn(2) == 0 {
					tw.MUnit = ic.Unit
				}
				if r.Intn(2) == 0 {
					c.Views = append(c.Views, tw)
				} else {
					c.Views = append([]ViewC{tw}, c.Views...)
				}
			}
		}
		if inDomain(c) {
			return c
		}
	}
}

// countRegimes records which view regimes a random scenario reaches (vacuity counters only).
func countRegimes(res *vh.Result, c Cfg) {
	once := map[string]bool{}
	hit := func(k string) {
		if !once[k] {
			once[k] = true
			res.Count(k, 1)
		}
	}
	if len(c.Readers) > 1 {
		hit("scenarios_several_readers")
		temps := map[string]bool{}
		for _, rd := range c.Readers {
			temps[rd.Temp] = true
		}
		if len(temps) > 1 {
			hit("scenarios_readers_differ_in_temporality")
		}
		for _, ic := range c.Insts {
			dropped, kept := 0, 0
			for _, rd := range c.Readers {
				live := false
				for _, st := range streamsOf(c, rd, ic) {
					live = live || st.agg != "drop"
				}
				if live {
					kept++
				} else {
					dropped++
				}
			}
			if dropped > 0 && kept > 0 {
				hit("scenarios_instrument_dropped_by_some_reader_only")
				if isObs(ic.Kind) {
					hit("scenarios_observable_dropped_by_some_reader_only_" + ic.CB)
				}
			}
			if isObs(ic.Kind) {
				hit("scenarios_several_readers_observable_" + ic.CB + "_" + ic.Num)
			}
		}
	}
	for _, rd := range c.Readers {
		for _, k := range allKinds {
			if rd.Sel[k] != "" {
				hit("scenarios_reader_aggregation_selector")
			}
		}
	}
	for _, v := range c.Views {
		wildc := strings.ContainsAny(v.MName, "*?")
		sel, rej := 0, 0
		for _, ic := range c.Insts {
			if selects(v, ic) {
				sel++
			} else if v.MName == "" || wild(v.MName, ic.Name) {
				rej++ // the name fits, another criterion rejects
			}
		}
		if wildc {
			hit("scenarios_wildcard_view")
		}
		if wildc && (v.MUnit != "" || v.MKind != "" || v.MSN != "" || v.MSV != "" || v.MSU != "" || v.MDesc != "") {
			hit("scenarios_wildcard_and_other_criterion")
			if rej > 0 {
				hit("scenarios_wildcard_name_fits_other_criterion_rejects")
			}
		}
		if !wildc && rej > 0 {
			hit("scenarios_exact_name_fits_other_criterion_rejects")
		}
		if v.MUnit != "" {
			hit("scenarios_unit_criterion")
		}
		if v.MSN != "" || v.MSV != "" || v.MSU != "" {
			hit("scenarios_scope_criterion")
		}
		if sel > 1 {
			hit("scenarios_view_selects_several")
		}
	}
	names := map[string]map[string]bool{}
	for _, ic := range c.Insts {
		n, ids, raw := 0, map[string]bool{}, map[string]bool{}
		for _, v := range c.Views {
			if selects(v, ic) {
				n++
				raw[nz(v.Name, ic.Name)] = true
			}
		}
		for _, st := range streamsOf(c, c.Readers[0], ic) {
			ids[st.id] = true
			nm := strings.SplitN(st.id, "\x00", 2)[0] + "|" + ic.SN + "|" + ic.SV + "|" + ic.SU
			if names[nm] == nil {
				names[nm] = map[string]bool{}
			}
			names[nm][st.id] = true
		}
		if n >= 2 {
			hit("scenarios_instrument_selected_by_several_views")
			if len(ids) < n {
				hit("scenarios_views_with_identical_streams")
			}
			if len(ids) >= 2 {
				hit("scenarios_views_with_distinct_streams")
			}
			if len(raw) > len(ids) {
				hit("scenarios_case_variant_stream_names_one_identity")
			}
		}
	}
	for _, ids := range names {
		if len(ids) > 1 {
			hit("scenarios_same_name_distinct_streams")
		}
	}
	for x, a := range c.Insts {
		for y, b := range c.Insts {
			if x < y && a != b && strings.EqualFold(a.Name, b.Name) {
				hit("scenarios_sibling_instruments")
			}
		}
	}
}

func randVal(r *rand.Rand, kind string) int {
	switch kind {
	case "updown", "oupdown":
		return r.Intn(7) - 3
	case "gauge", "ogauge":
		return r.Intn(9) - 3
	}
	if r.Intn(12) == 0 {
		return 0
	}
	return 1 + r.Intn(5)
}

func random(args []string) {
	fs := flag.NewFlagSet("random", flag.ExitOnError)
	n := fs.Int("n", 200, "")
	out := fs.String("out", "trace.ndjson", "")
	resF := fs.String("res", "result.json", "")
	cycles := fs.Int("cycles", 5, "")
	fs.Parse(args)
	keys := []string{"a", "b", "c"}
	r := rand.New(rand.NewSource(vh.Seed()))
	tw, err := vh.NewTraceWriter(*out)
	vh.Must(err)
	res := vh.NewResult()
	for sc := 0; sc < *n; sc++ {
		cfg := randCfg(r, keys)
		rep := r.Intn(60)
		// pool of 20..200 distinct attribute sets over three keys
		np := 20 + r.Intn(181)
		if r.Intn(4) == 0 {
			np = 20 + r.Intn(20)
		}
		dom := 3
		for (dom+1)*(dom+1)*(dom+1) < np+8 {
			dom++
		}
		seenSet := map[[3]int]bool{}
		pool := make([]map[string]int, 0, np)
		for len(pool) < np {
			t := [3]int{r.Intn(dom + 1), r.Intn(dom + 1), r.Intn(dom + 1)}
			if seenSet[t] {
				continue
			}
			seenSet[t] = true
			pool = append(pool, map[string]int{"a": t[0], "b": t[1], "c": t[2]})
		}
		retypePool(r, pool, res)
		var panicked any
		func() {
			defer func() {
				if p := recover(); p != nil {
					panicked = p
				}
			}()
			w := newWorld(cfg, keys, rep, vh.Seed()*1000003+int64(sc))
			tw.Emit(map[string]any{"ev": "Setup", "sc": sc, "cfg": cfg, "rep": rep})
			revealed := 1 + r.Intn(np) // sets arrive progressively; later cycles reorder and revisit
			used := map[int]bool{}
			for cy := 0; cy < *cycles; cy++ {
				ops := []Op{}
				var m int
				switch r.Intn(6) {
				case 0:
					m = 0
				case 1:
					m = 1 + r.Intn(5)
				default:
					m = 10 + r.Intn(2*np/(*cycles)+30)
				}
				if cy == *cycles-1 {
					revealed = np
				} else if revealed < np {
					revealed += r.Intn(np - revealed + 1)
				}
				hot := r.Perm(revealed)
				obsSeen := map[[2]int]bool{}
				for k := 0; k < m; k++ {
					var si int
					switch r.Intn(4) {
					case 0:
						si = hot[r.Intn(1+len(hot)/8)] // a few hot sets
					case 1:
						si = hot[k%len(hot)] // a sweep in this cycle's order
					default:
						si = r.Intn(revealed)
					}
					ii := r.Intn(len(cfg.Insts))
					if isObs(cfg.Insts[ii].Kind) {
						// a callback reports each attribute set at most once per cycle; instruments that
						// share an aggregator (same identity) count as one
						id := ii
						for j := 0; j < ii; j++ {
							if cfg.Insts[j] == cfg.Insts[ii] {
								id = j
								break
							}
						}
						if obsSeen[[2]int{id, si}] {
							continue
						}
						obsSeen[[2]int{id, si}] = true
					}
					used[si] = true
					op := Op{I: ii + 1, Attrs: pool[si], V: randVal(r, cfg.Insts[ii].Kind)}
					w.measure(op)
					ops = append(ops, op)
				}
				// which readers collect now: usually one, sometimes two in a row; at the end all of them
				nr := len(cfg.Readers)
				who := []int{r.Intn(nr)}
				if cy == *cycles-1 {
					who = r.Perm(nr)
				} else if nr > 1 && r.Intn(4) == 0 {
					who = append(who, r.Intn(nr))
				}
				for k, rd := range who {
					obs := w.collect(rd)
					if k > 0 {
						ops = []Op{}
					}
					tw.Emit(map[string]any{"ev": "Cycle", "sc": sc, "r": rd + 1, "ops": ops, "obs": obs})
					if nr > 1 {
						res.Count("collections_of_one_of_several_readers", 1)
					}
					for _, mm := range obs {
						for _, pt := range mm.Pts {
							if pt.Ovf {
								res.Count("collections_with_overflow_point", 1)
								break
							}
						}
						if cfg.Limit > 0 && len(mm.Pts) == cfg.Limit {
							res.Count("metrics_at_limit", 1)
						}
					}
				}
			}
			res.Count("distinct_sets_used", int64(len(used)))
		}()
		res.Executed++
		res.Evaluations++
		sig := cfgSig(&cfg)
		if panicked != nil {
			sig["why"] = "panic"
			res.AddMismatch(vh.Mismatch{Kind: "panic", Case: sig, Detail: fmt.Sprint(panicked)})
		}
		if cfg.Limit > 0 {
			res.Count("scenarios_limited", 1)
		}
		if len(cfg.Views) > 0 {
			res.Count("scenarios_with_views", 1)
		}
		for _, v := range cfg.Views {
			if v.Filt.On {
				res.Count("scenarios_with_filter", 1)
				break
			}
		}
		countRegimes(res, cfg)
		if sc < 2 {
			res.Sample(map[string]any{"cfg": cfg, "sets": np})
		}
	}
	vh.Must(tw.Close())
	res.Count("trace_lines", tw.N)
	noteSDKErrors(res)
	vh.Must(res.Write(*resF))
}

func probe(args []string) {
	fs := flag.NewFlagSet("probe", flag.ExitOnError)
	cfgJ := fs.String("cfg", "", "")
	opsJ := fs.String("ops", "[]", "")
	keysF := fs.String("keys", "a,b,c", "")
	rep := fs.Int("rep", 0, "")
	fs.Parse(args)
	var cfg Cfg
	vh.Must(json.Unmarshal([]byte(*cfgJ), &cfg))
	for i := range cfg.Insts {
		if cfg.Insts[i].SN == "" {
			cfg.Insts[i].SN = "c12"
		}
	}
	if len(cfg.Readers) == 0 {
		cfg.Readers = []ReaderC{{Temp: "cumulative", Sel: noSel()}}
	}
	for i := range cfg.Readers {
		if cfg.Readers[i].Sel == nil {
			cfg.Readers[i].Sel = noSel()
		}
	}
	var ops []Op
	vh.Must(json.Unmarshal([]byte(*opsJ), &ops))
	for i := range ops {
		if ops[i].Op == "C" && ops[i].R == 0 {
			ops[i].R = 1
		}
	}
	all := append([]Op{{Op: "S", Cfg: &cfg}}, ops...)
	colls, peek, order, p := runOps(all, strings.Split(*keysF, ","), *rep, 0)
	b, _ := json.MarshalIndent(map[string]any{"collections": colls, "final_per_reader": peek, "probing_order": order, "panic": fmt.Sprint(p), "sdk_errors": sdkErrs}, "", " ")
	fmt.Println(string(b))
}

func main() {
	otel.SetErrorHandler(errHandler{})
	if len(os.Args) < 2 {
		fmt.Println("usage: c12 replay|random|probe ...")
		os.Exit(3)
	}
	switch os.Args[1] {
	case "replay":
		replay(os.Args[2:])
	case "random":
		random(os.Args[2:])
	case "probe":
		probe(os.Args[2:])
	case "conc":
		conc(os.Args[2:])
	default:
		os.Exit(3)
	}
}
