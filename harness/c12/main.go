// c12: conformance harness for Cardinality.tla / CardModel.tla (property C12).
//
//	c12 replay -edges F -keys a,b -rep N -out R [-sample K]   replay every TLC edge through the public metric API
//	c12 random -n N -out TRACE -res R                         random pipelines/streams -> ndjson trace for TLC
//	c12 probe  -cfg JSON -ops JSON -keys a,b -rep N           run one scenario, print the collections (debugging aid)
//
// The harness only executes and projects: it builds a MeterProvider (ManualReader, views) from an
// abstract configuration, performs abstract measurements / collections and projects every collected
// ResourceMetrics onto the model's observation space. All expectations come from the TLA+ side.
package main

import (
	"context"
	"encoding/json"
	"flag"
	"fmt"
	"math/rand"
	"os"
	"sort"
	"strconv"
	"strings"
	"sync"

	"go.opentelemetry.io/otel"
	"go.opentelemetry.io/otel/attribute"
	"go.opentelemetry.io/otel/metric"
	sdkmetric "go.opentelemetry.io/otel/sdk/metric"
	"go.opentelemetry.io/otel/sdk/metric/metricdata"
	"go.opentelemetry.io/otel/sdk/verifh/vh"
)

const envKey = "OTEL_GO_X_CARDINALITY_LIMIT"

// ------------------------------------------------------------------ abstract configuration / ops

type Filt struct {
	On   bool     `json:"on"`
	Keep []string `json:"keep"`
}

// ViewC: selection criteria (m*: name or wildcard pattern, kind, unit, description, scope name /
// version / schema URL; "" = not given) and stream mask (name, unit, desc, agg, filt; "" = keep).
type ViewC struct {
	MName string `json:"mname"`
	MKind string `json:"mkind"`
	MUnit string `json:"munit"`
	MDesc string `json:"mdesc"`
	MSN   string `json:"msn"`
	MSV   string `json:"msv"`
	MSU   string `json:"msu"`
	Name  string `json:"name"`
	Unit  string `json:"unit"`
	Desc  string `json:"desc"`
	Agg   string `json:"agg"`
	Filt  Filt   `json:"filt"`
}

// InstC: an instrument as requested from the Meter (sn, sv, su).
type InstC struct {
	Name string `json:"name"`
	Kind string `json:"kind"`
	Num  string `json:"num"`
	Unit string `json:"unit"`
	Desc string `json:"desc"`
	SN   string `json:"sn"`
	SV   string `json:"sv"`
	SU   string `json:"su"`
}
type Cfg struct {
	Limit int     `json:"limit"`
	Temp  string  `json:"temp"`
	Insts []InstC `json:"insts"`
	Views []ViewC `json:"views"`
}
type Op struct {
	Op    string         `json:"op,omitempty"`
	Cfg   *Cfg           `json:"cfg,omitempty"`
	I     int            `json:"i"`
	Attrs map[string]int `json:"attrs"`
	V     int            `json:"v"`
}

// observation space of the model
type Point struct {
	Ovf   bool           `json:"ovf"`
	Attrs map[string]int `json:"attrs"`
	N     int64          `json:"n"`
	S     int64          `json:"s"`
	L     int64          `json:"l"`
	Mn    int64          `json:"mn"`
	Mx    int64          `json:"mx"`
}
type Metric struct {
	Name string  `json:"name"` // lower-cased: names are case-insensitive
	Desc string  `json:"desc"`
	Unit string  `json:"unit"`
	SN   string  `json:"sn"`
	SV   string  `json:"sv"`
	SU   string  `json:"su"`
	Num  string  `json:"num"`
	Agg  string  `json:"agg"`
	Temp string  `json:"temp"`
	Mono bool    `json:"mono"`
	Pts  []Point `json:"pts"`
}

var kindOf = map[string]sdkmetric.InstrumentKind{
	"counter": sdkmetric.InstrumentKindCounter, "updown": sdkmetric.InstrumentKindUpDownCounter,
	"histogram": sdkmetric.InstrumentKindHistogram, "gauge": sdkmetric.InstrumentKindGauge,
	"ocounter": sdkmetric.InstrumentKindObservableCounter, "oupdown": sdkmetric.InstrumentKindObservableUpDownCounter,
	"ogauge": sdkmetric.InstrumentKindObservableGauge,
}

func isObs(kind string) bool { return strings.HasPrefix(kind, "o") }

// ------------------------------------------------------------------ concretization

// attribute value for abstract value n (>0) of key k under representation rep
func concreteKV(k string, n int, rep int) attribute.KeyValue {
	r := rep % 5
	if r == 4 { // mixture: representation chosen per key
		r = int(k[0]) % 4
	}
	switch r {
	case 0:
		return attribute.Int(k, n)
	case 1:
		return attribute.String(k, "v"+strconv.Itoa(n))
	case 2:
		return attribute.Float64(k, float64(n)+0.5)
	default:
		return attribute.IntSlice(k, []int{n, n})
	}
}

func abstractVal(v attribute.Value) int {
	switch v.Type() {
	case attribute.INT64:
		return int(v.AsInt64())
	case attribute.STRING:
		s := v.AsString()
		if strings.HasPrefix(s, "v") {
			if n, err := strconv.Atoi(s[1:]); err == nil {
				return n
			}
		}
	case attribute.FLOAT64:
		f := v.AsFloat64() - 0.5
		if f == float64(int(f)) {
			return int(f)
		}
	case attribute.INT64SLICE:
		s := v.AsInt64Slice()
		if len(s) == 2 && s[0] == s[1] {
			return int(s[0])
		}
	}
	return -1
}

func concreteAttrs(a map[string]int, keys []string, rep int, r *rand.Rand) []attribute.KeyValue {
	kvs := make([]attribute.KeyValue, 0, len(a))
	for _, k := range keys {
		if n := a[k]; n > 0 {
			kvs = append(kvs, concreteKV(k, n, rep))
		}
	}
	if r != nil { // caller order of the key/values is irrelevant for set identity
		r.Shuffle(len(kvs), func(i, j int) { kvs[i], kvs[j] = kvs[j], kvs[i] })
	}
	return kvs
}

// project a reported attribute set: exactly {otel.metric.overflow=true} is the overflow set;
// anything outside the key universe is kept under its own name so it shows up as a mismatch.
func abstractAttrs(set attribute.Set, keys []string) (bool, map[string]int) {
	out := make(map[string]int, len(keys))
	for _, k := range keys {
		out[k] = 0
	}
	if set.Len() == 1 {
		if v, ok := set.Value("otel.metric.overflow"); ok && v.Type() == attribute.BOOL && v.AsBool() {
			return true, out
		}
	}
	it := set.Iter()
	for it.Next() {
		kv := it.Attribute()
		out[string(kv.Key)] = abstractVal(kv.Value)
	}
	return false, out
}

// ------------------------------------------------------------------ the real pipeline

type obsRec struct {
	idx   int
	attrs []attribute.KeyValue
	v     int
}

type world struct {
	keys    []string
	rep     int
	rnd     *rand.Rand
	cfg     Cfg
	reader  *sdkmetric.ManualReader
	mp      *sdkmetric.MeterProvider
	rm      *metricdata.ResourceMetrics
	reuse   bool
	rec     []func(v int, kvs []attribute.KeyValue)                      // per instrument
	observe []func(ob metric.Observer, v int, kvs []attribute.KeyValue) // per observable instrument
	pending []obsRec                                                    // observations of the next cycle, in arrival order
}

var (
	errMu   sync.Mutex
	sdkErrs []string
)

type errHandler struct{}

func (errHandler) Handle(err error) {
	errMu.Lock()
	if len(sdkErrs) < 20 {
		sdkErrs = append(sdkErrs, err.Error())
	}
	errMu.Unlock()
}

// errors the SDK reports through the global handler are informational (e.g. a view without criteria)
func noteSDKErrors(res *vh.Result) {
	errMu.Lock()
	defer errMu.Unlock()
	res.Count("sdk_error_handler_calls", int64(len(sdkErrs)))
	if len(sdkErrs) > 0 {
		res.Sample(map[string]any{"sdk_errors": sdkErrs})
	}
}

func aggOf(a string) sdkmetric.Aggregation {
	switch a {
	case "":
		return nil
	case "default":
		return sdkmetric.AggregationDefault{}
	case "drop":
		return sdkmetric.AggregationDrop{}
	case "sum":
		return sdkmetric.AggregationSum{}
	case "last":
		return sdkmetric.AggregationLastValue{}
	case "hist":
		return sdkmetric.AggregationExplicitBucketHistogram{Boundaries: []float64{0, 1, 2, 5}}
	case "expo":
		return sdkmetric.AggregationBase2ExponentialHistogram{MaxSize: 160, MaxScale: 20}
	}
	panic("unknown aggregation " + a)
}

func filterOf(f Filt, keys []string, rep int) attribute.Filter {
	if !f.On {
		return nil
	}
	keep := map[string]bool{}
	ks := make([]attribute.Key, 0, len(f.Keep))
	for _, k := range f.Keep {
		keep[k] = true
		ks = append(ks, attribute.Key(k))
	}
	switch rep % 3 {
	case 0:
		return attribute.NewAllowKeysFilter(ks...)
	case 1: // the same predicate over the key universe, written as a deny list
		deny := []attribute.Key{}
		for _, k := range keys {
			if !keep[k] {
				deny = append(deny, attribute.Key(k))
			}
		}
		if len(deny) == 0 {
			return attribute.NewAllowKeysFilter(ks...)
		}
		return attribute.NewDenyKeysFilter(deny...)
	default:
		return func(kv attribute.KeyValue) bool { return keep[string(kv.Key)] }
	}
}

// setLimitEnv sets the experimental cardinality limit; "unlimited" has several spellings.
func setLimitEnv(limit, rep int) {
	if limit > 0 {
		os.Setenv(envKey, strconv.Itoa(limit))
		return
	}
	switch rep % 4 {
	case 0:
		os.Unsetenv(envKey)
	case 1:
		os.Setenv(envKey, "0")
	case 2:
		os.Setenv(envKey, "-3")
	default:
		os.Setenv(envKey, "")
	}
}

func newWorld(cfg Cfg, keys []string, rep int, seed int64) *world {
	w := &world{keys: keys, rep: rep, cfg: cfg, rnd: rand.New(rand.NewSource(seed)), rm: &metricdata.ResourceMetrics{}}
	w.reuse = rep%2 == 1
	temp := metricdata.CumulativeTemporality
	if cfg.Temp == "delta" {
		temp = metricdata.DeltaTemporality
	}
	w.reader = sdkmetric.NewManualReader(sdkmetric.WithTemporalitySelector(func(sdkmetric.InstrumentKind) metricdata.Temporality { return temp }))
	opts := []sdkmetric.Option{sdkmetric.WithReader(w.reader)}
	for _, v := range cfg.Views {
		opts = append(opts, sdkmetric.WithView(viewOf(v, keys, rep)))
	}
	// the limit is read from the environment when an aggregator is created, i.e. during instrument
	// creation; it is set before the provider is built and left alone for the whole scenario
	setLimitEnv(cfg.Limit, rep)
	w.mp = sdkmetric.NewMeterProvider(opts...)
	ctx := context.Background()
	w.rec = make([]func(int, []attribute.KeyValue), len(cfg.Insts))
	w.observe = make([]func(metric.Observer, int, []attribute.KeyValue), len(cfg.Insts))
	// one Meter per instrumentation scope; observables are registered with the Meter that made them
	type scopeK struct{ n, v, u string }
	meters := map[scopeK]metric.Meter{}
	var scopeOrder []scopeK
	observablesOf := map[scopeK][]metric.Observable{}
	obsIdx := map[scopeK]map[int]bool{}
	for idx, ic := range cfg.Insts {
		idx := idx
		var err error
		f := ic.Num == "f"
		sk := scopeK{ic.SN, ic.SV, ic.SU}
		m, ok := meters[sk]
		if !ok || rep%7 == 3 { // asking for the same scope again returns the same Meter
			mo := []metric.MeterOption{}
			if ic.SV != "" {
				mo = append(mo, metric.WithInstrumentationVersion(ic.SV))
			}
			if ic.SU != "" {
				mo = append(mo, metric.WithSchemaURL(ic.SU))
			}
			m = w.mp.Meter(ic.SN, mo...)
			if !ok {
				scopeOrder = append(scopeOrder, sk)
				obsIdx[sk] = map[int]bool{}
			}
			meters[sk] = m
		}
		var observables []metric.Observable
		ou, od := metric.WithUnit(ic.Unit), metric.WithDescription(ic.Desc)
		switch ic.Kind {
		case "counter":
			if f {
				var c metric.Float64Counter
				c, err = m.Float64Counter(ic.Name, ou, od)
				w.rec[idx] = func(v int, kvs []attribute.KeyValue) { c.Add(ctx, float64(v), metric.WithAttributes(kvs...)) }
			} else {
				var c metric.Int64Counter
				c, err = m.Int64Counter(ic.Name, ou, od)
				w.rec[idx] = func(v int, kvs []attribute.KeyValue) { c.Add(ctx, int64(v), metric.WithAttributes(kvs...)) }
			}
		case "updown":
			if f {
				var c metric.Float64UpDownCounter
				c, err = m.Float64UpDownCounter(ic.Name, ou, od)
				w.rec[idx] = func(v int, kvs []attribute.KeyValue) { c.Add(ctx, float64(v), metric.WithAttributes(kvs...)) }
			} else {
				var c metric.Int64UpDownCounter
				c, err = m.Int64UpDownCounter(ic.Name, ou, od)
				w.rec[idx] = func(v int, kvs []attribute.KeyValue) { c.Add(ctx, int64(v), metric.WithAttributes(kvs...)) }
			}
		case "histogram":
			if f {
				var c metric.Float64Histogram
				c, err = m.Float64Histogram(ic.Name, ou, od)
				w.rec[idx] = func(v int, kvs []attribute.KeyValue) {
					c.Record(ctx, float64(v), metric.WithAttributeSet(attribute.NewSet(kvs...)))
				}
			} else {
				var c metric.Int64Histogram
				c, err = m.Int64Histogram(ic.Name, ou, od)
				w.rec[idx] = func(v int, kvs []attribute.KeyValue) {
					c.Record(ctx, int64(v), metric.WithAttributeSet(attribute.NewSet(kvs...)))
				}
			}
		case "gauge":
			if f {
				var c metric.Float64Gauge
				c, err = m.Float64Gauge(ic.Name, ou, od)
				w.rec[idx] = func(v int, kvs []attribute.KeyValue) { c.Record(ctx, float64(v), metric.WithAttributes(kvs...)) }
			} else {
				var c metric.Int64Gauge
				c, err = m.Int64Gauge(ic.Name, ou, od)
				w.rec[idx] = func(v int, kvs []attribute.KeyValue) { c.Record(ctx, int64(v), metric.WithAttributes(kvs...)) }
			}
		case "ocounter", "oupdown", "ogauge":
			// observations are staged and made, in arrival order, by one registered callback during
			// the next collection
			w.rec[idx] = func(v int, kvs []attribute.KeyValue) { w.pending = append(w.pending, obsRec{idx, kvs, v}) }
			if f {
				var o metric.Float64Observable
				switch ic.Kind {
				case "ocounter":
					o, err = m.Float64ObservableCounter(ic.Name, ou, od)
				case "oupdown":
					o, err = m.Float64ObservableUpDownCounter(ic.Name, ou, od)
				default:
					o, err = m.Float64ObservableGauge(ic.Name, ou, od)
				}
				observables = append(observables, o)
				w.observe[idx] = func(ob metric.Observer, v int, kvs []attribute.KeyValue) {
					ob.ObserveFloat64(o, float64(v), metric.WithAttributes(kvs...))
				}
			} else {
				var o metric.Int64Observable
				switch ic.Kind {
				case "ocounter":
					o, err = m.Int64ObservableCounter(ic.Name, ou, od)
				case "oupdown":
					o, err = m.Int64ObservableUpDownCounter(ic.Name, ou, od)
				default:
					o, err = m.Int64ObservableGauge(ic.Name, ou, od)
				}
				observables = append(observables, o)
				w.observe[idx] = func(ob metric.Observer, v int, kvs []attribute.KeyValue) {
					ob.ObserveInt64(o, int64(v), metric.WithAttributes(kvs...))
				}
			}
		default:
			panic("unknown kind " + ic.Kind)
		}
		if err != nil {
			panic(fmt.Sprintf("instrument %v: %v", ic, err))
		}
		if len(observables) > 0 {
			observablesOf[sk] = append(observablesOf[sk], observables...)
			obsIdx[sk][idx] = true
		}
	}
	for _, sk := range scopeOrder {
		if len(observablesOf[sk]) == 0 {
			continue
		}
		mine := obsIdx[sk]
		_, err := meters[sk].RegisterCallback(func(_ context.Context, ob metric.Observer) error {
			for _, p := range w.pending {
				if mine[p.idx] {
					w.observe[p.idx](ob, p.v, p.attrs)
				}
			}
			return nil
		}, observablesOf[sk]...)
		if err != nil {
			panic(fmt.Sprintf("register callback: %v", err))
		}
	}
	return w
}

// viewOf builds the real view from the abstract criteria and mask. Zero-valued abstract fields stay
// zero-valued in the real criteria / mask.
func viewOf(v ViewC, keys []string, rep int) sdkmetric.View {
	crit := sdkmetric.Instrument{Name: v.MName, Unit: v.MUnit, Description: v.MDesc}
	if v.MKind != "" {
		crit.Kind = kindOf[v.MKind]
	}
	crit.Scope.Name, crit.Scope.Version, crit.Scope.SchemaURL = v.MSN, v.MSV, v.MSU
	return sdkmetric.NewView(crit, sdkmetric.Stream{Name: v.Name, Unit: v.Unit, Description: v.Desc,
		Aggregation: aggOf(v.Agg), AttributeFilter: filterOf(v.Filt, keys, rep)})
}

func (w *world) measure(op Op) {
	w.rec[op.I-1](op.V, concreteAttrs(op.Attrs, w.keys, w.rep, w.rnd))
}

func (w *world) collect() []Metric {
	rm := w.rm
	if !w.reuse {
		rm = &metricdata.ResourceMetrics{}
	}
	if err := w.reader.Collect(context.Background(), rm); err != nil {
		panic(fmt.Sprintf("collect: %v", err))
	}
	w.pending = nil
	return project(rm, w.keys)
}

func sumU(xs []uint64) uint64 {
	var t uint64
	for _, x := range xs {
		t += x
	}
	return t
}

func tempName(t metricdata.Temporality) string {
	switch t {
	case metricdata.DeltaTemporality:
		return "delta"
	case metricdata.CumulativeTemporality:
		return "cumulative"
	}
	return "?"
}

func projSum[N int64 | float64](name, num string, d metricdata.Sum[N], keys []string) Metric {
	m := Metric{Name: name, Num: num, Agg: "sum", Temp: tempName(d.Temporality), Mono: d.IsMonotonic, Pts: []Point{}}
	for _, p := range d.DataPoints {
		ovf, a := abstractAttrs(p.Attributes, keys)
		m.Pts = append(m.Pts, Point{Ovf: ovf, Attrs: a, S: exact(float64(p.Value))})
	}
	return m
}

func projGauge[N int64 | float64](name, num string, d metricdata.Gauge[N], keys []string) Metric {
	m := Metric{Name: name, Num: num, Agg: "last", Temp: "", Pts: []Point{}}
	for _, p := range d.DataPoints {
		ovf, a := abstractAttrs(p.Attributes, keys)
		m.Pts = append(m.Pts, Point{Ovf: ovf, Attrs: a, L: exact(float64(p.Value))})
	}
	return m
}

// exact converts a reported number to the model's integers; a non-integral value (never recorded
// by the drivers) is mapped to a value no model state contains.
func exact(f float64) int64 {
	if f != float64(int64(f)) {
		return -999999
	}
	return int64(f)
}

func ext[N int64 | float64](e metricdata.Extrema[N]) int64 {
	v, ok := e.Value()
	if !ok {
		return -999998
	}
	return exact(float64(v))
}

func projHist[N int64 | float64](name, num string, d metricdata.Histogram[N], keys []string) Metric {
	m := Metric{Name: name, Num: num, Agg: "hist", Temp: tempName(d.Temporality), Pts: []Point{}}
	for _, p := range d.DataPoints {
		ovf, a := abstractAttrs(p.Attributes, keys)
		n := int64(p.Count)
		if sumU(p.BucketCounts) != p.Count { // bucket population must equal the count
			n = -int64(sumU(p.BucketCounts)) - 1000000
		}
		m.Pts = append(m.Pts, Point{Ovf: ovf, Attrs: a, N: n, S: exact(float64(p.Sum)), Mn: ext(p.Min), Mx: ext(p.Max)})
	}
	return m
}

func projExpo[N int64 | float64](name, num string, d metricdata.ExponentialHistogram[N], keys []string) Metric {
	m := Metric{Name: name, Num: num, Agg: "expo", Temp: tempName(d.Temporality), Pts: []Point{}}
	for _, p := range d.DataPoints {
		ovf, a := abstractAttrs(p.Attributes, keys)
		n := int64(p.Count)
		if b := p.ZeroCount + sumU(p.PositiveBucket.Counts) + sumU(p.NegativeBucket.Counts); b != p.Count {
			n = -int64(b) - 1000000
		}
		m.Pts = append(m.Pts, Point{Ovf: ovf, Attrs: a, N: n, S: exact(float64(p.Sum)), Mn: ext(p.Min), Mx: ext(p.Max)})
	}
	return m
}

func project(rm *metricdata.ResourceMetrics, keys []string) []Metric {
	out := []Metric{}
	for _, sm := range rm.ScopeMetrics {
		for _, m := range sm.Metrics {
			var pm Metric
			switch d := m.Data.(type) {
			case metricdata.Sum[int64]:
				pm = projSum(m.Name, "i", d, keys)
			case metricdata.Sum[float64]:
				pm = projSum(m.Name, "f", d, keys)
			case metricdata.Gauge[int64]:
				pm = projGauge(m.Name, "i", d, keys)
			case metricdata.Gauge[float64]:
				pm = projGauge(m.Name, "f", d, keys)
			case metricdata.Histogram[int64]:
				pm = projHist(m.Name, "i", d, keys)
			case metricdata.Histogram[float64]:
				pm = projHist(m.Name, "f", d, keys)
			case metricdata.ExponentialHistogram[int64]:
				pm = projExpo(m.Name, "i", d, keys)
			case metricdata.ExponentialHistogram[float64]:
				pm = projExpo(m.Name, "f", d, keys)
			default:
				pm = Metric{Name: m.Name, Num: "?", Agg: fmt.Sprintf("%T", m.Data), Pts: []Point{}}
			}
			if len(pm.Pts) == 0 {
				continue // a stream without data points carries no information the statement constrains
			}
			// instrument / stream names are case-insensitive: the projection compares them lower-cased
			pm.Name = strings.ToLower(m.Name)
			pm.Desc, pm.Unit = m.Description, m.Unit
			pm.SN, pm.SV, pm.SU = sm.Scope.Name, sm.Scope.Version, sm.Scope.SchemaURL
			out = append(out, pm)
		}
	}
	return out
}

// canonical form of a collection: metrics and points as sorted multisets
func canonMetrics(ms []Metric) []string {
	out := make([]string, 0, len(ms))
	for _, m := range ms {
		pts := make([]string, 0, len(m.Pts))
		for _, p := range m.Pts {
			b, _ := json.Marshal(p)
			pts = append(pts, string(b))
		}
		sort.Strings(pts)
		out = append(out, fmt.Sprintf("%q/%q/%q/%q/%q/%q/%s/%s/%s/%v %s", m.SN, m.SV, m.SU, m.Name, m.Desc, m.Unit, m.Num, m.Agg, m.Temp, m.Mono,
			strings.Join(pts, " ")))
	}
	sort.Strings(out)
	return out
}

func sameMetrics(a, b []Metric) bool {
	x, y := canonMetrics(a), canonMetrics(b)
	if len(x) != len(y) {
		return false
	}
	for i := range x {
		if x[i] != y[i] {
			return false
		}
	}
	return true
}

// ------------------------------------------------------------------ spec -> code: edge replay

type stateJ struct {
	C    int      `json:"c"`
	Peek []Metric `json:"peek"`
}

// runOps executes ops (first one is the Setup) and returns every collection made plus a final probing
// collection (the `peek` of the reached state).
func runOps(ops []Op, keys []string, rep int, seed int64) (colls [][]Metric, peek []Metric, panicked any) {
	defer func() {
		if r := recover(); r != nil {
			panicked = r
		}
	}()
	if len(ops) == 0 || ops[0].Op != "S" {
		return nil, []Metric{}, nil
	}
	w := newWorld(*ops[0].Cfg, keys, rep, seed)
	for _, op := range ops[1:] {
		switch op.Op {
		case "M":
			w.measure(op)
		case "C":
			colls = append(colls, w.collect())
		default:
			panic("unknown op " + op.Op)
		}
	}
	peek = w.collect()
	return colls, peek, nil
}

func cfgSig(c *Cfg) map[string]any {
	if c == nil {
		return map[string]any{}
	}
	kinds := []string{}
	for _, i := range c.Insts {
		kinds = append(kinds, i.Kind)
	}
	vs := []string{}
	for _, v := range c.Views {
		s := "agg=" + v.Agg
		if v.Filt.On {
			s += ",filter"
		}
		if v.Name != "" {
			s += ",rename"
		}
		vs = append(vs, s)
	}
	return map[string]any{"limit": c.Limit, "temp": c.Temp, "kinds": strings.Join(kinds, ","), "views": strings.Join(vs, ";")}
}

func replay(args []string) {
	fs := flag.NewFlagSet("replay", flag.ExitOnError)
	edges := fs.String("edges", "", "")
	keysF := fs.String("keys", "a,b", "")
	rep := fs.Int("rep", 0, "")
	out := fs.String("out", "result.json", "")
	sample := fs.Int("sample", 0, "replay only every k-th edge offset by seed (0 = all)")
	fs.Parse(args)
	keys := strings.Split(*keysF, ",")
	g, err := vh.LoadEdges(*edges)
	vh.Must(err)
	res := vh.NewResult()
	for i, e := range g.Edges {
		res.Evaluations++
		if *sample > 1 && (int64(i)+vh.Seed())%int64(*sample) != 0 {
			continue
		}
		pathRaw, ok := g.Path(i)
		if !ok {
			res.Inconcl(fmt.Sprintf("edge %d: source not reachable in BFS tree", i))
			continue
		}
		var ops []Op
		for _, r := range append(pathRaw, e.Act) {
			var op Op
			vh.Must(json.Unmarshal(r, &op))
			ops = append(ops, op)
		}
		var from, to stateJ
		vh.Must(json.Unmarshal(e.From, &from))
		vh.Must(json.Unmarshal(e.To, &to))
		colls, peek, p := runOps(ops, keys, *rep, vh.Seed()+int64(i))
		res.Executed++
		sig := cfgSig(ops[0].Cfg)
		if p != nil {
			sig["why"] = "panic"
			res.AddMismatch(vh.Mismatch{Kind: "panic", Case: sig, Path: ops, Detail: fmt.Sprint(p)})
			continue
		}
		act := ops[len(ops)-1]
		if act.Op == "C" && len(colls) > 0 {
			// the collection of this edge must return what the source state promised
			if got := colls[len(colls)-1]; !sameMetrics(got, from.Peek) {
				sig["why"] = "collect"
				res.AddMismatch(vh.Mismatch{Kind: "collect", Case: sig, Path: ops[:len(ops)-1], Act: act, Want: from.Peek, Got: got})
				continue
			}
		}
		if !sameMetrics(peek, to.Peek) {
			sig["why"] = "state"
			res.AddMismatch(vh.Mismatch{Kind: "state", Case: sig, Path: ops[:len(ops)-1], Act: act, Want: to.Peek, Got: peek})
		}
		for _, m := range to.Peek {
			for _, pt := range m.Pts {
				if pt.Ovf {
					res.Count("edges_with_overflow_point", 1)
					break
				}
			}
		}
		if len(ops[0].Cfg.Views) > 0 {
			res.Count("edges_with_views", 1)
		}
		if i%1499 == 0 {
			res.Sample(map[string]any{"ops": ops, "peek": to.Peek})
		}
	}
	noteSDKErrors(res)
	vh.Must(res.Write(*out))
}

// ------------------------------------------------------------------ code -> spec: random scenarios

var allKinds = []string{"counter", "updown", "histogram", "gauge", "ocounter", "oupdown", "ogauge"}

func compatAggs(kind string) []string {
	switch kind {
	case "gauge", "ogauge":
		return []string{"", "default", "last", "hist", "expo", "drop"}
	}
	return []string{"", "default", "sum", "hist", "expo", "drop"}
}

func defaultAgg(kind string) string {
	switch kind {
	case "histogram":
		return "hist"
	case "gauge", "ogauge":
		return "last"
	}
	return "sum"
}

type streamG struct{ name, kind, num, agg, filt string }

// streams an instrument resolves to (input-domain restriction only: used to discard configurations
// with conflicting stream identities, on which the statement is silent; Trace_Cardinality re-checks)
func streamsOf(c Cfg, ic InstC) []streamG {
	var out []streamG
	for _, v := range c.Views {
		if v.MName == "" && v.MKind == "" {
			continue
		}
		if (v.MName == "" || v.MName == "*" || v.MName == ic.Name) && (v.MKind == "" || v.MKind == ic.Kind) {
			s := streamG{name: ic.Name, kind: ic.Kind, num: ic.Num, agg: v.Agg}
			if v.Name != "" {
				s.name = v.Name
			}
			if s.agg == "" || s.agg == "default" {
				s.agg = defaultAgg(ic.Kind)
			}
			if v.Filt.On {
				k := append([]string{}, v.Filt.Keep...)
				sort.Strings(k)
				s.filt = "on:" + strings.Join(k, ",")
			}
			out = append(out, s)
		}
	}
	if len(out) == 0 {
		out = []streamG{{name: ic.Name, kind: ic.Kind, num: ic.Num, agg: defaultAgg(ic.Kind)}}
	}
	return out
}

func conflictFree(c Cfg) bool {
	seen := map[string]streamG{}
	for x, a := range c.Insts {
		for y, b := range c.Insts {
			if x != y && a.Name == b.Name && (a.Kind != b.Kind || a.Num != b.Num) {
				return false
			}
		}
	}
	for _, ic := range c.Insts {
		for _, s := range streamsOf(c, ic) {
			id := strings.ToLower(s.name) + "/" + s.kind + "/" + s.num
			if p, ok := seen[id]; ok && (p.agg != s.agg || p.filt != s.filt) {
				return false
			}
			seen[id] = s
		}
	}
	// distinct identities sharing a name would be two metrics with one name: keep names unambiguous
	names := map[string]string{}
	for id, s := range seen {
		if o, ok := names[s.name+"/"+s.num]; ok && o != id {
			return false
		}
		names[s.name+"/"+s.num] = id
	}
	return true
}

func randCfg(r *rand.Rand, keys []string) Cfg {
	for {
		c := Cfg{Temp: []string{"delta", "cumulative"}[r.Intn(2)], Insts: []InstC{}, Views: []ViewC{}}
		switch r.Intn(10) {
		case 0, 1:
			c.Limit = 0
		case 2, 3, 4:
			c.Limit = 1 + r.Intn(4)
		default:
			c.Limit = 1 + r.Intn(16)
		}
		ni := 1 + r.Intn(3)
		for i := 0; i < ni; i++ {
			ic := InstC{Name: fmt.Sprintf("i%d", i+1), Kind: allKinds[r.Intn(len(allKinds))], Num: []string{"i", "f"}[r.Intn(2)]}
			if i > 0 && r.Intn(6) == 0 { // the same instrument requested twice
				ic = c.Insts[r.Intn(i)]
			}
			c.Insts = append(c.Insts, ic)
		}
		nv := 0
		if r.Intn(4) > 0 {
			nv = 1 + r.Intn(3)
		}
		for j := 0; j < nv; j++ {
			v := ViewC{Filt: Filt{Keep: []string{}}}
			target := c.Insts[r.Intn(len(c.Insts))]
			switch r.Intn(5) {
			case 0:
				v.MName = "*"
			case 1:
				v.MKind = target.Kind
			case 2:
				v.MName, v.MKind = target.Name, target.Kind
			default:
				v.MName = target.Name
			}
			if v.MName != "*" && v.MName != "" && r.Intn(3) == 0 {
				v.Name = fmt.Sprintf("r%d", 1+r.Intn(2))
			}
			if v.MName == "*" || v.MName == "" {
				// may match instruments of several kinds: only aggregations every kind accepts
				v.Agg = []string{"", "default", "hist", "expo", "drop"}[r.Intn(5)]
				if r.Intn(2) == 0 {
					v.Agg = ""
				}
			} else if r.Intn(2) == 0 {
				ca := compatAggs(target.Kind)
				v.Agg = ca[r.Intn(len(ca))]
			}
			if r.Intn(3) > 0 {
				v.Filt.On = true
				for _, k := range keys {
					if r.Intn(2) == 0 {
						v.Filt.Keep = append(v.Filt.Keep, k)
					}
				}
			}
			if j > 0 && r.Intn(6) == 0 { // the same view registered twice
				v = c.Views[r.Intn(j)]
			}
			c.Views = append(c.Views, v)
		}
		// kind-criteria views can hit kinds their aggregation does not fit
		ok := true
		for _, ic := range c.Insts {
			for _, s := range streamsOf(c, ic) {
				fits := false
				for _, a := range compatAggs(ic.Kind) {
					if a == s.agg {
						fits = true
					}
				}
				if !fits {
					ok = false
				}
			}
		}
		if ok && conflictFree(c) {
			return c
		}
	}
}

func randVal(r *rand.Rand, kind string) int {
	switch kind {
	case "updown", "oupdown":
		return r.Intn(7) - 3
	case "gauge", "ogauge":
		return r.Intn(9) - 3
	}
	if r.Intn(12) == 0 {
		return 0
	}
	return 1 + r.Intn(5)
}

func random(args []string) {
	fs := flag.NewFlagSet("random", flag.ExitOnError)
	n := fs.Int("n", 200, "")
	out := fs.String("out", "trace.ndjson", "")
	resF := fs.String("res", "result.json", "")
	cycles := fs.Int("cycles", 5, "")
	fs.Parse(args)
	keys := []string{"a", "b", "c"}
	r := rand.New(rand.NewSource(vh.Seed()))
	tw, err := vh.NewTraceWriter(*out)
	vh.Must(err)
	res := vh.NewResult()
	for sc := 0; sc < *n; sc++ {
		cfg := randCfg(r, keys)
		rep := r.Intn(60)
		// pool of 20..200 distinct attribute sets over three keys
		np := 20 + r.Intn(181)
		if r.Intn(4) == 0 {
			np = 20 + r.Intn(20)
		}
		dom := 3
		for (dom+1)*(dom+1)*(dom+1) < np+8 {
			dom++
		}
		seenSet := map[[3]int]bool{}
		pool := make([]map[string]int, 0, np)
		for len(pool) < np {
			t := [3]int{r.Intn(dom + 1), r.Intn(dom + 1), r.Intn(dom + 1)}
			if seenSet[t] {
				continue
			}
			seenSet[t] = true
			pool = append(pool, map[string]int{"a": t[0], "b": t[1], "c": t[2]})
		}
		var panicked any
		func() {
			defer func() {
				if p := recover(); p != nil {
					panicked = p
				}
			}()
			w := newWorld(cfg, keys, rep, vh.Seed()*1000003+int64(sc))
			tw.Emit(map[string]any{"ev": "Setup", "sc": sc, "cfg": cfg, "rep": rep})
			revealed := 1 + r.Intn(np) // sets arrive progressively; later cycles reorder and revisit
			used := map[int]bool{}
			for cy := 0; cy < *cycles; cy++ {
				ops := []Op{}
				var m int
				switch r.Intn(6) {
				case 0:
					m = 0
				case 1:
					m = 1 + r.Intn(5)
				default:
					m = 10 + r.Intn(2*np/(*cycles)+30)
				}
				if cy == *cycles-1 {
					revealed = np
				} else if revealed < np {
					revealed += r.Intn(np - revealed + 1)
				}
				hot := r.Perm(revealed)
				obsSeen := map[[2]int]bool{}
				for k := 0; k < m; k++ {
					var si int
					switch r.Intn(4) {
					case 0:
						si = hot[r.Intn(1+len(hot)/8)] // a few hot sets
					case 1:
						si = hot[k%len(hot)] // a sweep in this cycle's order
					default:
						si = r.Intn(revealed)
					}
					ii := r.Intn(len(cfg.Insts))
					if isObs(cfg.Insts[ii].Kind) {
						// a callback reports each attribute set at most once per cycle; instruments that
						// share an aggregator (same identity) count as one
						id := ii
						for j := 0; j < ii; j++ {
							if cfg.Insts[j] == cfg.Insts[ii] {
								id = j
								break
							}
						}
						if obsSeen[[2]int{id, si}] {
							continue
						}
						obsSeen[[2]int{id, si}] = true
					}
					used[si] = true
					op := Op{I: ii + 1, Attrs: pool[si], V: randVal(r, cfg.Insts[ii].Kind)}
					w.measure(op)
					ops = append(ops, op)
				}
				obs := w.collect()
				tw.Emit(map[string]any{"ev": "Cycle", "sc": sc, "ops": ops, "obs": obs})
				for _, mm := range obs {
					for _, pt := range mm.Pts {
						if pt.Ovf {
							res.Count("collections_with_overflow_point", 1)
							break
						}
					}
					if cfg.Limit > 0 && len(mm.Pts) == cfg.Limit {
						res.Count("metrics_at_limit", 1)
					}
				}
			}
			res.Count("distinct_sets_used", int64(len(used)))
		}()
		res.Executed++
		res.Evaluations++
		sig := cfgSig(&cfg)
		if panicked != nil {
			sig["why"] = "panic"
			res.AddMismatch(vh.Mismatch{Kind: "panic", Case: sig, Detail: fmt.Sprint(panicked)})
		}
		if cfg.Limit > 0 {
			res.Count("scenarios_limited", 1)
		}
		if len(cfg.Views) > 0 {
			res.Count("scenarios_with_views", 1)
		}
		for _, v := range cfg.Views {
			if v.Filt.On {
				res.Count("scenarios_with_filter", 1)
				break
			}
		}
		if sc < 2 {
			res.Sample(map[string]any{"cfg": cfg, "sets": np})
		}
	}
	vh.Must(tw.Close())
	res.Count("trace_lines", tw.N)
	noteSDKErrors(res)
	vh.Must(res.Write(*resF))
}

func probe(args []string) {
	fs := flag.NewFlagSet("probe", flag.ExitOnError)
	cfgJ := fs.String("cfg", "", "")
	opsJ := fs.String("ops", "[]", "")
	keysF := fs.String("keys", "a,b,c", "")
	rep := fs.Int("rep", 0, "")
	fs.Parse(args)
	var cfg Cfg
	vh.Must(json.Unmarshal([]byte(*cfgJ), &cfg))
	var ops []Op
	vh.Must(json.Unmarshal([]byte(*opsJ), &ops))
	all := append([]Op{{Op: "S", Cfg: &cfg}}, ops...)
	colls, peek, p := runOps(all, strings.Split(*keysF, ","), *rep, 1)
	b, _ := json.MarshalIndent(map[string]any{"collections": colls, "final": peek, "panic": fmt.Sprint(p), "sdk_errors": sdkErrs}, "", " ")
	fmt.Println(string(b))
}

func main() {
	otel.SetErrorHandler(errHandler{})
	if len(os.Args) < 2 {
		fmt.Println("usage: c12 replay|random|probe ...")
		os.Exit(3)
	}
	switch os.Args[1] {
	case "replay":
		replay(os.Args[2:])
	case "random":
		random(os.Args[2:])
	case "probe":
		probe(os.Args[2:])
	default:
		os.Exit(3)
	}
}
