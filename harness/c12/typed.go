package main

// Typed attribute values (CardModel.tla: Typed / VType / VText).  A model value v >= 1000 is the pair
// (type v/1000, n = v%1000); the Go values of types 1-3, 4-5 and 6-7 have the same textual form (fmt,
// attribute.DefaultEncoder, Value.Emit) and differ only in their attribute.Type, so sets built from them are
// text twins.  The projection is by attribute.Type AND value: a twin reported under the other type comes
// back as another model value.

import (
	"math/rand"
	"strconv"

	"go.opentelemetry.io/otel/attribute"
	"go.opentelemetry.io/otel/sdk/verifh/vh"
)

const typedBase = 1000

func isTyped(v int) bool { return v >= typedBase }

// concreteTyped: the Go value for typed model value v under key k; the number printed is typedBase+n so no
// typed value collides with the representatives of the untyped tokens.
func concreteTyped(k string, v int) attribute.KeyValue {
	t, n := v/typedBase, v%typedBase
	x := typedBase + n
	switch t {
	case 1:
		return attribute.Int(k, x)
	case 2:
		return attribute.String(k, strconv.Itoa(x))
	case 3:
		return attribute.Float64(k, float64(x))
	case 4:
		return attribute.IntSlice(k, []int{x})
	case 5:
		return attribute.String(k, "["+strconv.Itoa(x)+"]")
	case 6:
		return attribute.Bool(k, n == 1)
	case 7:
		return attribute.String(k, strconv.FormatBool(n == 1))
	}
	panic("unknown value type " + strconv.Itoa(t))
}

// abstractTyped: the typed model value of a reported attribute value, ok=false when it is not one.
func abstractTyped(v attribute.Value) (int, bool) {
	num := func(t int, x int64) (int, bool) {
		if x >= typedBase && x < 2*typedBase {
			return t*typedBase + int(x-typedBase), true
		}
		return 0, false
	}
	switch v.Type() {
	case attribute.INT64:
		return num(1, v.AsInt64())
	case attribute.FLOAT64:
		f := v.AsFloat64()
		if f == float64(int64(f)) {
			return num(3, int64(f))
		}
	case attribute.INT64SLICE:
		if s := v.AsInt64Slice(); len(s) == 1 {
			return num(4, s[0])
		}
	case attribute.BOOL:
		if v.AsBool() {
			return 6*typedBase + 1, true
		}
		return 6*typedBase + 2, true
	case attribute.STRING:
		s := v.AsString()
		switch s {
		case "true":
			return 7*typedBase + 1, true
		case "false":
			return 7*typedBase + 2, true
		}
		if len(s) > 2 && s[0] == '[' && s[len(s)-1] == ']' {
			if x, err := strconv.ParseInt(s[1:len(s)-1], 10, 64); err == nil {
				return num(5, x)
			}
		}
		if x, err := strconv.ParseInt(s, 10, 64); err == nil {
			return num(2, x)
		}
	}
	return 0, false
}

// retypePool (random driver): in one scenario of three the pool is rebuilt from typed values: every set takes
// the numbers n of its own or (half of the time) of an earlier set and gives each present value a random type,
// so the pool holds many text twins (same numbers under every key, other types).  Sets stay pairwise distinct.
func retypePool(r *rand.Rand, pool []map[string]int, res *vh.Result) {
	if r.Intn(3) != 0 {
		return
	}
	types := []int{1, 2, 3}
	if r.Intn(3) == 0 {
		types = []int{1, 2, 3, 4, 5}
	}
	ks := []string{"a", "b", "c"}
	base := make([][3]int, len(pool))
	for i, a := range pool {
		base[i] = [3]int{a["a"], a["b"], a["c"]}
	}
	seen := map[[3]int]bool{}
	texts := map[[3]int]bool{}
	for i, a := range pool {
		var typ, txt [3]int
		for try := 0; ; try++ {
			src := base[i]
			if i > 0 && try < 4 && r.Intn(2) == 0 {
				src = base[r.Intn(i)]
			}
			for j := range ks {
				typ[j], txt[j] = 0, 0
				if src[j] > 0 {
					t := types[r.Intn(len(types))]
					typ[j] = t*typedBase + src[j]
					txt[j] = src[j]
					if t >= 4 {
						txt[j] += 500
					}
				}
			}
			if !seen[typ] {
				break
			}
		}
		seen[typ] = true
		if texts[txt] {
			res.Count("random_text_twin_sets", 1)
		}
		texts[txt] = true
		for j, k := range ks {
			a[k] = typ[j]
		}
	}
	res.Count("scenarios_typed_values", 1)
}

// countTyped (replay driver): vacuity counters of the typed family.
func countTyped(res *vh.Result, ops []Op) {
	var sets []map[string]int
	for _, op := range ops {
		if op.Op != "M" {
			continue
		}
		for _, v := range op.Attrs {
			if isTyped(v) {
				sets = append(sets, op.Attrs)
				break
			}
		}
	}
	if len(sets) == 0 {
		return
	}
	res.Count("edges_with_typed_values", 1)
	txt := func(v int) [2]int {
		if !isTyped(v) {
			return [2]int{0, v}
		}
		c := map[int]int{1: 1, 2: 1, 3: 1, 4: 2, 5: 2, 6: 3, 7: 3}[v/typedBase]
		return [2]int{c, v % typedBase}
	}
	for i := range sets {
		for j := 0; j < i; j++ {
			same, eq := true, true
			for k, v := range sets[i] {
				if sets[j][k] != v {
					eq = false
				}
				if txt(sets[j][k]) != txt(v) {
					same = false
				}
			}
			if same && !eq {
				res.Count("edges_with_text_twin_sets", 1)
				return
			}
		}
	}
}
