// conc.go: concurrent scenarios for C12 (cardinality limit under concurrent first-seen attribute sets,
// overlapping collections of one reader). The harness only drives real goroutines through the public
// API and records what the reader collected at quiescent points; Trace_Cardinality.tla judges:
//
//	Par{sc,pre,par,post,obs}  pre = sequential measurements, par = measurements made CONCURRENTLY (one per
//	                          goroutine, every one a different fresh attribute set), post = sequential again,
//	                          then one collection. Some serial order of par must explain obs.
//	Pair{sc,pre,ops,obs1,obs2} pre = synchronous measurements made once before; two goroutines collect the SAME reader while the observables' callbacks make
//	                          the observations ops at every invocation; one of the two serial orders of the
//	                          collections must explain (obs1, obs2).
//
// Gates (never a verdict from timing: a gate only decides how long a goroutine is parked):
//   - a view's ExemplarReservoirProviderSelector whose provider parks the goroutine that FIRST records a
//     new attribute set (inside the aggregator's critical section in this SDK) until the twin goroutine
//     has finished or a bounded wait elapsed;
//   - an observable created last whose callback parks the first collection (inside pipeline.produce)
//     until the second collection has finished or a bounded wait elapsed.
package main

import (
	"context"
	"flag"
	"fmt"
	"math/rand"
	"runtime"
	"sync"
	"sync/atomic"
	"time"

	"go.opentelemetry.io/otel/attribute"
	"go.opentelemetry.io/otel/metric"
	sdkmetric "go.opentelemetry.io/otel/sdk/metric"
	"go.opentelemetry.io/otel/sdk/metric/exemplar"
	"go.opentelemetry.io/otel/sdk/metric/metricdata"
	"go.opentelemetry.io/otel/sdk/verifh/vh"
)

const parkFor = 120 * time.Millisecond

// gate parks the first goroutine that reaches it while armed.
type gate struct {
	armed   atomic.Bool
	entered chan struct{}
	release chan struct{}
	parked  atomic.Int64
}

func newGate() *gate { return &gate{entered: make(chan struct{}), release: make(chan struct{})} }

func (g *gate) arm() { g.armed.Store(true) }

// pass is called at the instrumentation point.
func (g *gate) pass() {
	if g.armed.CompareAndSwap(true, false) {
		g.parked.Add(1)
		close(g.entered)
		select {
		case <-g.release:
		case <-time.After(parkFor):
		}
	}
}

// resSelHook, when set, is installed as ExemplarReservoirProviderSelector of every view newWorld builds.
var resSelHook sdkmetric.ExemplarReservoirProviderSelector

func gatedSelector(g *gate) sdkmetric.ExemplarReservoirProviderSelector {
	return func(agg sdkmetric.Aggregation) exemplar.ReservoirProvider {
		def := sdkmetric.DefaultExemplarReservoirProviderSelector(agg)
		return func(attrs attribute.Set) exemplar.Reservoir {
			g.pass()
			return def(attrs)
		}
	}
}

type concCase struct {
	kind, agg, num string
}

var concAggs = []concCase{
	{"counter", "", "i"}, {"updown", "", "f"}, {"gauge", "", "i"}, {"histogram", "", "f"},
	{"histogram", "expo", "i"}, {"counter", "hist", "f"}, {"gauge", "expo", "f"}, {"histogram", "sum", "i"},
}

func freshSets(n int) []map[string]int {
	out := make([]map[string]int, n)
	for i := range out {
		out[i] = map[string]int{"a": i + 1, "b": 0, "c": 0}
	}
	return out
}

func singleCfg(limit int, temp string, cc concCase) Cfg {
	return Cfg{Limit: limit, Readers: []ReaderC{{Temp: temp, Sel: noSel()}},
		Insts: []InstC{{Name: "cx", Kind: cc.kind, Num: cc.num, SN: "c12"}},
		Views: []ViewC{{MName: "cx", Agg: cc.agg, Filt: Filt{Keep: []string{}}}}}
}

// parScenario: L-2 sets held, then `g` goroutines first-record g different fresh sets at once (gated twin when
// gated, spin barrier otherwise), then one more fresh set sequentially, then a collection.
// Under delta temporality a collection empties the aggregator, so the boundary can be approached again:
// ungated storms repeat the round `rounds` times on the same provider (one Par line per round).
func parScenario(tw *vh.TraceWriter, res *vh.Result, sc int, cfg Cfg, keys []string, rep, g int, gated bool, rounds int) {
	var gt *gate
	if gated {
		gt = newGate()
		resSelHook = gatedSelector(gt)
	}
	w := newWorld(cfg, keys, rep, int64(sc))
	resSelHook = nil
	tw.Emit(map[string]any{"ev": "Setup", "sc": sc, "cfg": cfg, "rep": rep})
	held := cfg.Limit - 2
	if held < 0 {
		held = 0
	}
	sets := freshSets(held + g + 1)
	if gated || cfg.Readers[0].Temp != "delta" {
		rounds = 1
	}
	for round := 0; round < rounds; round++ {
		parRound(tw, res, sc, cfg, keys, rep, g, gt, w, held, sets)
	}
	_ = w.mp.Shutdown(context.Background())
}

func parRound(tw *vh.TraceWriter, res *vh.Result, sc int, cfg Cfg, keys []string, rep, g int, gt *gate, w *world, held int, sets []map[string]int) {
	gated := gt != nil
	pre, par, post := []Op{}, []Op{}, []Op{}
	for i := 0; i < held; i++ {
		op := Op{I: 1, Attrs: sets[i], V: 1 + i%3}
		w.measure(op)
		pre = append(pre, op)
	}
	for i := 0; i < g; i++ {
		par = append(par, Op{I: 1, Attrs: sets[held+i], V: 2})
	}
	// concrete attributes are prepared up front: the goroutines only record
	kvs := make([][]attribute.KeyValue, g)
	for i := range par {
		kvs[i] = concreteAttrs(par[i].Attrs, keys, rep, nil)
	}
	var wg sync.WaitGroup
	if gated {
		gt.arm()
		done2 := make(chan struct{})
		wg.Add(1)
		go func() { defer wg.Done(); w.rec[0](par[0].V, kvs[0]) }()
		select {
		case <-gt.entered: // goroutine 1 is parked where it first sees its set
		case <-time.After(10 * time.Second):
			res.Count("conc_gate_not_reached", 1)
		}
		for i := 1; i < g; i++ {
			i := i
			wg.Add(1)
			go func() {
				defer wg.Done()
				w.rec[0](par[i].V, kvs[i])
				if i == 1 {
					close(done2)
				}
			}()
		}
		select {
		case <-done2: // the twin got through while goroutine 1 was parked: release it
			res.Count("conc_twin_passed_parked_goroutine", 1)
		case <-time.After(parkFor * 2 / 3): // shorter than the gate's own bound: the counter above is not a timing artefact
		}
		close(gt.release)
	} else {
		var ready, start atomic.Int64
		for i := 0; i < g; i++ {
			i := i
			wg.Add(1)
			go func() {
				defer wg.Done()
				ready.Add(1)
				for start.Load() == 0 {
					runtime.Gosched()
				}
				w.rec[0](par[i].V, kvs[i])
			}()
		}
		for ready.Load() < int64(g) {
			runtime.Gosched()
		}
		start.Store(1)
	}
	wg.Wait()
	op := Op{I: 1, Attrs: sets[held+g], V: 3}
	w.measure(op)
	post = append(post, op)
	obs := w.collect(0)
	tw.Emit(map[string]any{"ev": "Par", "sc": sc, "pre": pre, "par": par, "post": post, "obs": obs})
	if gated {
		res.Count("conc_gated_twins", 1)
		res.Count("conc_gate_parked", gt.parked.Load())
	} else {
		res.Count("conc_storm_rounds", 1)
	}
	for _, m := range obs {
		if cfg.Limit > 0 && len(m.Pts) == cfg.Limit {
			res.Count("conc_metrics_at_limit", 1)
		}
	}
}

// pairScenario: observables whose callbacks make the staged observations at every invocation, a gate
// observable registered last; two goroutines collect the same reader, the first parked in its last callback.
func pairScenario(tw *vh.TraceWriter, res *vh.Result, sc int, cfg Cfg, keys []string, rep int, r *rand.Rand) {
	w := newWorld(cfg, keys, rep, int64(sc))
	gt := newGate()
	gm := w.mp.Meter("c12gate")
	gobs, err := gm.Int64ObservableGauge("gate")
	vh.Must(err)
	_, err = gm.RegisterCallback(func(context.Context, metric.Observer) error { gt.pass(); return nil }, gobs)
	vh.Must(err)
	tw.Emit(map[string]any{"ev": "Setup", "sc": sc, "cfg": cfg, "rep": rep})
	ops, pre := []Op{}, []Op{}
	nsets := 3 + r.Intn(3)
	sets := freshSets(nsets)
	for ii := range cfg.Insts {
		for _, s := range sets {
			s2 := map[string]int{"a": s["a"], "b": 1 + r.Intn(2), "c": 0}
			op := Op{I: ii + 1, Attrs: s2, V: 10 + r.Intn(5)}
			w.measure(op) // staged; observables only, or recorded once for a synchronous instrument
			if isObs(cfg.Insts[ii].Kind) {
				ops = append(ops, op)
			} else {
				pre = append(pre, op)
			}
		}
	}
	collectRaw := func() []Metric {
		rm := &metricdata.ResourceMetrics{}
		if err := w.readers[0].Collect(context.Background(), rm); err != nil {
			panic(fmt.Sprintf("collect: %v", err))
		}
		return project(rm, keys)
	}
	var obs1, obs2 []Metric
	var wg sync.WaitGroup
	done2 := make(chan struct{})
	gt.arm()
	wg.Add(1)
	go func() { defer wg.Done(); obs1 = collectRaw() }()
	select {
	case <-gt.entered:
	case <-time.After(10 * time.Second):
		res.Count("conc_gate_not_reached", 1)
	}
	wg.Add(1)
	go func() { defer wg.Done(); obs2 = collectRaw(); close(done2) }()
	select {
	case <-done2:
		res.Count("conc_second_collection_passed_parked_one", 1)
	case <-time.After(parkFor * 2 / 3):
	}
	close(gt.release)
	wg.Wait()
	w.pending[0] = nil
	tw.Emit(map[string]any{"ev": "Pair", "sc": sc, "pre": pre, "ops": ops, "obs1": obs1, "obs2": obs2})
	res.Count("conc_overlapped_collection_pairs", 1)
	res.Count("conc_gate_parked", gt.parked.Load())
	_ = w.mp.Shutdown(context.Background())
}

func conc(args []string) {
	fs := flag.NewFlagSet("conc", flag.ExitOnError)
	storms := fs.Int("storms", 200, "")
	rounds := fs.Int("rounds", 15, "rounds per ungated delta storm")
	out := fs.String("out", "conc.ndjson", "")
	resF := fs.String("res", "conc.json", "")
	fs.Parse(args)
	keys := []string{"a", "b", "c"}
	r := rand.New(rand.NewSource(vh.Seed()*7919 + 17))
	tw, err := vh.NewTraceWriter(*out)
	vh.Must(err)
	res := vh.NewResult()
	sc := 0
	run := func(f func()) {
		defer func() {
			if p := recover(); p != nil {
				res.AddMismatch(vh.Mismatch{Kind: "panic", Case: map[string]any{"why": "panic", "dir": "conc"}, Detail: fmt.Sprint(p)})
			}
		}()
		f()
		sc++
		res.Executed++
		res.Evaluations++
	}
	temps := []string{"delta", "cumulative"}
	// gated twins: two different fresh sets at the limit boundary, every aggregation kind
	for ci, cc := range concAggs {
		for li, L := range []int{2, 3, 4 + r.Intn(4)} {
			cfg := singleCfg(L, temps[(ci+li)%2], cc)
			run(func() { parScenario(tw, res, sc, cfg, keys, r.Intn(60), 2+(ci+li)%2, true, 1) })
		}
	}
	// volume storms: 4-8 goroutines x fresh distinct sets at the boundary
	for k := 0; k < *storms; k++ {
		cc := concAggs[r.Intn(len(concAggs))]
		cfg := singleCfg(2+r.Intn(5), temps[r.Intn(3)%2], cc) // two thirds delta: repeated rounds
		run(func() { parScenario(tw, res, sc, cfg, keys, r.Intn(60), 4+r.Intn(5), false, *rounds) })
	}
	// overlapping collections of one reader
	for _, kind := range []string{"ocounter", "oupdown", "ogauge"} {
		for ci, cb := range []string{"opt", "reg"} {
			for li, L := range []int{0, 2, 3} {
				cfg := Cfg{Limit: L, Readers: []ReaderC{{Temp: temps[(ci+li)%2], Sel: noSel()}},
					Insts: []InstC{{Name: "ob", Kind: kind, Num: []string{"i", "f"}[(ci+li)%2], SN: "c12", CB: cb}}, Views: []ViewC{}}
				if li == 1 {
					cfg.Views = append(cfg.Views, ViewC{MName: "ob", Filt: Filt{On: true, Keep: []string{"a"}}})
				}
				if li == 2 {
					cfg.Views = append(cfg.Views, ViewC{MName: "ob", Filt: Filt{On: true, Keep: []string{"b"}}})
					cfg.Insts = append(cfg.Insts, InstC{Name: "sy", Kind: "counter", Num: "i", SN: "c12"})
				}
				run(func() { pairScenario(tw, res, sc, cfg, keys, r.Intn(60), r) })
			}
		}
	}
	vh.Must(tw.Close())
	res.Count("conc_trace_lines", tw.N)
	noteSDKErrors(res)
	vh.Must(res.Write(*resF))
}
