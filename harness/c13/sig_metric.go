package main

// Metrics: abstract item = one Metric ("m<id>") with its data points.  The batch is turned into
// real metricdata.ResourceMetrics (one per resource index: a metric export carries one resource;
// one ScopeMetrics per scope index), exported, and the decoded OTLP projected back.

import (
	"fmt"
	"math/rand"
	"strconv"
	"strings"

	"go.opentelemetry.io/otel/attribute"
	"go.opentelemetry.io/otel/sdk/metric/metricdata"
	metricpb "go.opentelemetry.io/proto/otlp/metrics/v1"
)

type ExFV struct {
	Fa   string `json:"fa"`
	Time string `json:"time"`
	Val  string `json:"val"`
	Ids  string `json:"ids"`
}
type DPFV struct {
	Da    string `json:"da"`
	Start string `json:"start"`
	Time  string `json:"time"`
	Val   string `json:"val"`
	Cnt   string `json:"cnt"`
	Lay   string `json:"lay"`
	Mm    string `json:"mm"`
	Q     string `json:"q"`
	Ex    []ExFV `json:"ex"`
}
type MetricFV struct {
	Desc string `json:"desc"`
	Unit string `json:"unit"`
	Agg  string `json:"agg"`
	Num  string `json:"num"`
	Temp string `json:"temp"`
	Mono string `json:"mono"`
	Dps  []DPFV `json:"dps"`
}

// projected shapes (exactly the fields of OtlpModel!ExpMetric / ExpDP / ExpEx)
type ExOut struct {
	Fa   string `json:"fa"`
	Time string `json:"time"`
	Val  string `json:"val"`
	Ids  string `json:"ids"`
	Num  string `json:"num"`
}
type DPOut struct {
	Da    string  `json:"da"`
	Start string  `json:"start"`
	Time  string  `json:"time"`
	Val   string  `json:"val"`
	Num   string  `json:"num"`
	Cnt   string  `json:"cnt"`
	Lay   string  `json:"lay"`
	Mm    string  `json:"mm"`
	Q     string  `json:"q"`
	Ex    []ExOut `json:"ex"`
}
type MetricOut struct {
	Desc string  `json:"desc"`
	Unit string  `json:"unit"`
	Agg  string  `json:"agg"`
	Temp string  `json:"temp"`
	Mono string  `json:"mono"`
	Dps  []DPOut `json:"dps"`
}

const na = "-"

// ---------------------------------------------------------------- build

func tempOf(c string) metricdata.Temporality {
	switch c {
	case "delta":
		return metricdata.DeltaTemporality
	case "cumulative":
		return metricdata.CumulativeTemporality
	}
	harnessBug("temporality class %q", c)
	return 0
}

func numVal[N int64 | float64](r *rand.Rand, class string) N {
	var z N
	switch any(z).(type) {
	case int64:
		return N(pick(r, intVals[class], "int value", class))
	default:
		v := pick(r, floatVals[class], "float value", class)
		return any(v).(N)
	}
}

func exemplars[N int64 | float64](r *rand.Rand, xs []ExFV) []metricdata.Exemplar[N] {
	if len(xs) == 0 {
		if r.Intn(2) == 0 {
			return nil
		}
		return []metricdata.Exemplar[N]{}
	}
	out := make([]metricdata.Exemplar[N], len(xs))
	for i, x := range xs {
		e := metricdata.Exemplar[N]{FilteredAttributes: concAttrs(r, "list", x.Fa), Time: concTime(r, x.Time), Value: numVal[N](r, x.Val)}
		switch x.Ids {
		case "ids":
			e.SpanID = append([]byte{}, exSpanID...)
			e.TraceID = append([]byte{}, exTraceID...)
		case "noids":
		default:
			harnessBug("exemplar ids class %q", x.Ids)
		}
		out[i] = e
	}
	return out
}

func dpSet(r *rand.Rand, class string) attribute.Set {
	kvs := concAttrs(r, "dp", class)
	if len(kvs) == 0 {
		if r.Intn(2) == 0 {
			return attribute.Set{}
		}
		return *attribute.EmptySet()
	}
	return attribute.NewSet(kvs...)
}

func extrema[N int64 | float64](class string) (mn, mx metricdata.Extrema[N]) {
	m, ok := mmReps[class]
	if !ok {
		harnessBug("min/max class %q", class)
	}
	var z N
	_, isInt := any(z).(int64)
	if m.hasMin {
		if isInt {
			mn = metricdata.NewExtrema(N(m.imin))
		} else {
			mn = metricdata.NewExtrema(any(m.fmin).(N))
		}
	}
	if m.hasMax {
		if isInt {
			mx = metricdata.NewExtrema(N(m.imax))
		} else {
			mx = metricdata.NewExtrema(any(m.fmax).(N))
		}
	}
	return
}

func cp64(s []uint64) []uint64 {
	if s == nil {
		return nil
	}
	return append([]uint64{}, s...)
}

func buildAgg[N int64 | float64](r *rand.Rand, fv MetricFV) metricdata.Aggregation {
	switch fv.Agg {
	case "gauge", "sum":
		dps := make([]metricdata.DataPoint[N], len(fv.Dps))
		for i, d := range fv.Dps {
			dps[i] = metricdata.DataPoint[N]{Attributes: dpSet(r, d.Da), StartTime: concTime(r, d.Start), Time: concTime(r, d.Time),
				Value: numVal[N](r, d.Val), Exemplars: exemplars[N](r, d.Ex)}
		}
		if fv.Agg == "gauge" {
			return metricdata.Gauge[N]{DataPoints: dps}
		}
		return metricdata.Sum[N]{DataPoints: dps, Temporality: tempOf(fv.Temp), IsMonotonic: fv.Mono == "t"}
	case "hist":
		dps := make([]metricdata.HistogramDataPoint[N], len(fv.Dps))
		for i, d := range fv.Dps {
			l, ok := histLays[d.Lay]
			if !ok {
				harnessBug("histogram layout class %q", d.Lay)
			}
			mn, mx := extrema[N](d.Mm)
			dps[i] = metricdata.HistogramDataPoint[N]{Attributes: dpSet(r, d.Da), StartTime: concTime(r, d.Start), Time: concTime(r, d.Time),
				Count: pick(r, cntReps[d.Cnt], "count", d.Cnt), Bounds: append([]float64(nil), l.bounds...), BucketCounts: cp64(l.counts),
				Min: mn, Max: mx, Sum: numVal[N](r, d.Val), Exemplars: exemplars[N](r, d.Ex)}
		}
		return metricdata.Histogram[N]{DataPoints: dps, Temporality: tempOf(fv.Temp)}
	case "exphist":
		dps := make([]metricdata.ExponentialHistogramDataPoint[N], len(fv.Dps))
		for i, d := range fv.Dps {
			l, ok := expLays[d.Lay]
			if !ok {
				harnessBug("exponential layout class %q", d.Lay)
			}
			mn, mx := extrema[N](d.Mm)
			dps[i] = metricdata.ExponentialHistogramDataPoint[N]{Attributes: dpSet(r, d.Da), StartTime: concTime(r, d.Start), Time: concTime(r, d.Time),
				Count: pick(r, cntReps[d.Cnt], "count", d.Cnt), Min: mn, Max: mx, Sum: numVal[N](r, d.Val),
				Scale: l.scale, ZeroCount: l.zc, ZeroThreshold: l.zth,
				PositiveBucket: metricdata.ExponentialBucket{Offset: l.poff, Counts: cp64(l.pos)},
				NegativeBucket: metricdata.ExponentialBucket{Offset: l.noff, Counts: cp64(l.neg)},
				Exemplars:      exemplars[N](r, d.Ex)}
		}
		return metricdata.ExponentialHistogram[N]{DataPoints: dps, Temporality: tempOf(fv.Temp)}
	}
	harnessBug("aggregation class %q", fv.Agg)
	return nil
}

func buildMetric(r *rand.Rand, it Item) metricdata.Metrics {
	var fv MetricFV
	mustJSON(it.FV, &fv)
	m := metricdata.Metrics{Name: fmt.Sprintf("m%d", it.ID), Description: concStr("desc", fv.Desc), Unit: concStr("unit", fv.Unit)}
	switch {
	case fv.Agg == "summary":
		dps := make([]metricdata.SummaryDataPoint, len(fv.Dps))
		for i, d := range fv.Dps {
			var qs []metricdata.QuantileValue
			for _, q := range qReps[d.Q] {
				qs = append(qs, metricdata.QuantileValue{Quantile: q.q, Value: q.v})
			}
			if _, ok := qReps[d.Q]; !ok {
				harnessBug("quantile class %q", d.Q)
			}
			dps[i] = metricdata.SummaryDataPoint{Attributes: dpSet(r, d.Da), StartTime: concTime(r, d.Start), Time: concTime(r, d.Time),
				Count: pick(r, cntReps[d.Cnt], "count", d.Cnt), Sum: numVal[float64](r, d.Val), QuantileValues: qs}
		}
		m.Data = metricdata.Summary{DataPoints: dps}
	case fv.Num == "int":
		m.Data = buildAgg[int64](r, fv)
	case fv.Num == "float":
		m.Data = buildAgg[float64](r, fv)
	default:
		harnessBug("number class %q", fv.Num)
	}
	return m
}

// buildMetrics: one ResourceMetrics per resource index (order of first appearance), inside it one
// ScopeMetrics per scope index (order of first appearance), metrics in batch order.
func buildMetrics(w *World, batch []Item, emptyScopes bool) []*metricdata.ResourceMetrics {
	var out []*metricdata.ResourceMetrics
	ridx := map[string]int{}
	sidx := map[string]int{}
	for _, it := range batch {
		ri, ok := ridx[it.R]
		if !ok {
			ri = len(out)
			ridx[it.R] = ri
			out = append(out, &metricdata.ResourceMetrics{Resource: w.resourceOf(it.R, true)})
			if emptyScopes && w.rng.Intn(3) == 0 { // a scope without metrics: must not disturb anything
				out[ri].ScopeMetrics = append(out[ri].ScopeMetrics, metricdata.ScopeMetrics{Scope: w.scopeOf("S6")})
			}
		}
		rm := out[ri]
		si, ok := sidx[it.R+"/"+it.S]
		if !ok {
			si = len(rm.ScopeMetrics)
			sidx[it.R+"/"+it.S] = si
			rm.ScopeMetrics = append(rm.ScopeMetrics, metricdata.ScopeMetrics{Scope: w.scopeOf(it.S)})
		}
		rm.ScopeMetrics[si].Metrics = append(rm.ScopeMetrics[si].Metrics, buildMetric(w.rng, it))
	}
	return out
}

// ---------------------------------------------------------------- project

func absTemp(t metricpb.AggregationTemporality) string {
	switch t {
	case metricpb.AggregationTemporality_AGGREGATION_TEMPORALITY_DELTA:
		return "delta"
	case metricpb.AggregationTemporality_AGGREGATION_TEMPORALITY_CUMULATIVE:
		return "cumulative"
	}
	return unk(t.String())
}

func absSum(f float64) string {
	if numMode {
		return numStr(f)
	}
	if c, ok := sumRev[mathBits(f)]; ok {
		return c
	}
	return unk(fbits(f))
}

func absCnt(u uint64) string {
	if numMode {
		return strconv.FormatUint(u, 10)
	}
	if c, ok := cntRev[u]; ok {
		return c
	}
	return unk(fmt.Sprint(u))
}

func absExemplars(xs []*metricpb.Exemplar) []ExOut {
	out := []ExOut{}
	for _, x := range xs {
		e := ExOut{Fa: absAttrs("list", x.GetFilteredAttributes()), Time: absTime(x.GetTimeUnixNano())}
		switch v := x.GetValue().(type) {
		case *metricpb.Exemplar_AsInt:
			e.Num = "int"
			if c, ok := intRev[v.AsInt]; ok {
				e.Val = c
			} else {
				e.Val = unk(fmt.Sprint(v.AsInt))
			}
		case *metricpb.Exemplar_AsDouble:
			e.Num = "float"
			if c, ok := floatRev[mathBits(v.AsDouble)]; ok {
				e.Val = c
			} else {
				e.Val = unk(fbits(v.AsDouble))
			}
		default:
			e.Num, e.Val = unk("novalue"), unk("novalue")
		}
		switch {
		case len(x.GetSpanId()) == 0 && len(x.GetTraceId()) == 0:
			e.Ids = "noids"
		case string(x.GetSpanId()) == string(exSpanID) && string(x.GetTraceId()) == string(exTraceID):
			e.Ids = "ids"
		default:
			e.Ids = unk(fmt.Sprintf("%x/%x", x.GetTraceId(), x.GetSpanId()))
		}
		out = append(out, e)
	}
	return out
}

func absNumber(dp *metricpb.NumberDataPoint) (num, val string) {
	if numMode {
		switch v := dp.GetValue().(type) {
		case *metricpb.NumberDataPoint_AsInt:
			return "int", strconv.FormatInt(v.AsInt, 10)
		case *metricpb.NumberDataPoint_AsDouble:
			return "float", numStr(v.AsDouble)
		}
		return unk("novalue"), unk("novalue")
	}
	switch v := dp.GetValue().(type) {
	case *metricpb.NumberDataPoint_AsInt:
		if c, ok := intRev[v.AsInt]; ok {
			return "int", c
		}
		return "int", unk(fmt.Sprint(v.AsInt))
	case *metricpb.NumberDataPoint_AsDouble:
		if c, ok := floatRev[mathBits(v.AsDouble)]; ok {
			return "float", c
		}
		return "float", unk(fbits(v.AsDouble))
	}
	return unk("novalue"), unk("novalue")
}

func numberPoints(dps []*metricpb.NumberDataPoint) []DPOut {
	out := []DPOut{}
	for _, dp := range dps {
		num, val := absNumber(dp)
		out = append(out, DPOut{Da: absAttrs("dp", dp.GetAttributes()), Start: dpStart(dp.GetStartTimeUnixNano(), dp.GetTimeUnixNano()), Time: dpTime(dp.GetStartTimeUnixNano(), dp.GetTimeUnixNano()),
			Val: val, Num: num, Cnt: na, Lay: na, Mm: na, Q: na, Ex: absExemplars(dp.GetExemplars())})
	}
	return out
}

func absMM(min, max *float64) string {
	if numMode {
		return numMM(min, max)
	}
	if c, ok := mmRev[renderMM(min, max)]; ok {
		return c
	}
	return unk(renderMM(min, max))
}

func projectMetric(m *metricpb.Metric) OutItem {
	id := -1
	if strings.HasPrefix(m.GetName(), "m") {
		if n, err := strconv.Atoi(m.GetName()[1:]); err == nil {
			id = n
		}
	}
	fv := MetricOut{Desc: absStr("desc", m.GetDescription()), Unit: absStr("unit", m.GetUnit()), Temp: na, Mono: na, Dps: []DPOut{}}
	switch d := m.GetData().(type) {
	case *metricpb.Metric_Gauge:
		fv.Agg = "gauge"
		fv.Dps = numberPoints(d.Gauge.GetDataPoints())
	case *metricpb.Metric_Sum:
		fv.Agg = "sum"
		fv.Temp = absTemp(d.Sum.GetAggregationTemporality())
		fv.Mono = "f"
		if d.Sum.GetIsMonotonic() {
			fv.Mono = "t"
		}
		fv.Dps = numberPoints(d.Sum.GetDataPoints())
	case *metricpb.Metric_Histogram:
		fv.Agg = "hist"
		fv.Temp = absTemp(d.Histogram.GetAggregationTemporality())
		for _, dp := range d.Histogram.GetDataPoints() {
			o := DPOut{Da: absAttrs("dp", dp.GetAttributes()), Start: dpStart(dp.GetStartTimeUnixNano(), dp.GetTimeUnixNano()), Time: dpTime(dp.GetStartTimeUnixNano(), dp.GetTimeUnixNano()),
				Num: na, Cnt: absCnt(dp.GetCount()), Q: na, Ex: absExemplars(dp.GetExemplars()), Mm: absMM(dp.Min, dp.Max)}
			if dp.Sum == nil {
				o.Val = unk("nosum")
			} else {
				o.Val = absSum(*dp.Sum)
			}
			lr := renderHistLay(dp.GetExplicitBounds(), dp.GetBucketCounts())
			if c, ok := histLayRev[lr]; ok {
				o.Lay = c
			} else {
				o.Lay = unk(lr)
			}
			if numMode {
				o.Lay = numHistLay(dp.GetExplicitBounds(), dp.GetBucketCounts())
			}
			fv.Dps = append(fv.Dps, o)
		}
	case *metricpb.Metric_ExponentialHistogram:
		fv.Agg = "exphist"
		fv.Temp = absTemp(d.ExponentialHistogram.GetAggregationTemporality())
		for _, dp := range d.ExponentialHistogram.GetDataPoints() {
			o := DPOut{Da: absAttrs("dp", dp.GetAttributes()), Start: dpStart(dp.GetStartTimeUnixNano(), dp.GetTimeUnixNano()), Time: dpTime(dp.GetStartTimeUnixNano(), dp.GetTimeUnixNano()),
				Num: na, Cnt: absCnt(dp.GetCount()), Q: na, Ex: absExemplars(dp.GetExemplars()), Mm: absMM(dp.Min, dp.Max)}
			if dp.Sum == nil {
				o.Val = unk("nosum")
			} else {
				o.Val = absSum(*dp.Sum)
			}
			lr := renderExpLay(dp.GetScale(), dp.GetZeroCount(), dp.GetPositive().GetOffset(), dp.GetPositive().GetBucketCounts(),
				dp.GetNegative().GetOffset(), dp.GetNegative().GetBucketCounts(), dp.GetZeroThreshold())
			if c, ok := expLayRev[lr]; ok {
				o.Lay = c
			} else {
				o.Lay = unk(lr)
			}
			if numMode {
				o.Lay = "c07" // the exponential layout is C07's subject
			}
			fv.Dps = append(fv.Dps, o)
		}
	case *metricpb.Metric_Summary:
		fv.Agg = "summary"
		for _, dp := range d.Summary.GetDataPoints() {
			var qs []quant
			for _, q := range dp.GetQuantileValues() {
				qs = append(qs, quant{q.GetQuantile(), q.GetValue()})
			}
			o := DPOut{Da: absAttrs("dp", dp.GetAttributes()), Start: dpStart(dp.GetStartTimeUnixNano(), dp.GetTimeUnixNano()), Time: dpTime(dp.GetStartTimeUnixNano(), dp.GetTimeUnixNano()),
				Val: absSum(dp.GetSum()), Num: na, Cnt: absCnt(dp.GetCount()), Lay: na, Mm: na, Ex: []ExOut{}}
			if c, ok := qRev[renderQ(qs)]; ok {
				o.Q = c
			} else {
				o.Q = unk(renderQ(qs))
			}
			fv.Dps = append(fv.Dps, o)
		}
	default:
		fv.Agg = unk("nodata")
	}
	return OutItem{ID: id, FV: fv}
}

func projectMetrics(rms []*metricpb.ResourceMetrics) []ResGroup {
	out := []ResGroup{}
	for _, rm := range rms {
		g := ResGroup{RK: absResource(rm.GetResource(), rm.GetSchemaUrl()), Scopes: []ScopeGroup{}}
		for _, sm := range rm.GetScopeMetrics() {
			sg := ScopeGroup{SK: absScope(sm.GetScope(), sm.GetSchemaUrl()), Items: []OutItem{}}
			for _, m := range sm.GetMetrics() {
				sg.Items = append(sg.Items, projectMetric(m))
			}
			g.Scopes = append(g.Scopes, sg)
		}
		out = append(out, g)
	}
	return out
}

func dpStart(start, now uint64) string {
	if numMode {
		s, _ := numTimes(start, now)
		return s
	}
	return absTime(start)
}

func dpTime(start, now uint64) string {
	if numMode {
		_, t := numTimes(start, now)
		return t
	}
	return absTime(now)
}
