package main

// End-to-end direction (specs/OtelSDK): the abstract program is what the harness DOES through the
// public API on REAL providers (one per resource index: equal-but-distinct resources; tracers / meters
// / loggers per scope index), behind real processors / readers and the real exporters, flushed at a
// quiescent point.  Everything the loopback collector received (possibly several requests) is united,
// projected and judged by OtelSDK!E2EViolations in TLC.

import (
	"context"
	"fmt"
	"math"
	"math/rand"
	"strconv"
	"strings"
	"time"

	"go.opentelemetry.io/otel/attribute"
	"go.opentelemetry.io/otel/metric"
	sdklog "go.opentelemetry.io/otel/sdk/log"
	sdkmetric "go.opentelemetry.io/otel/sdk/metric"
	"go.opentelemetry.io/otel/sdk/metric/metricdata"
	sdktrace "go.opentelemetry.io/otel/sdk/trace"
	"go.opentelemetry.io/otel/trace"
	collogpb "go.opentelemetry.io/proto/otlp/collector/logs/v1"
	colmetricpb "go.opentelemetry.io/proto/otlp/collector/metrics/v1"
	coltracepb "go.opentelemetry.io/proto/otlp/collector/trace/v1"
	logpb "go.opentelemetry.io/proto/otlp/logs/v1"
	metricpb "go.opentelemetry.io/proto/otlp/metrics/v1"
	tracepb "go.opentelemetry.io/proto/otlp/trace/v1"
	"google.golang.org/protobuf/proto"
)

type ApiEv struct {
	Name  string `json:"name"`
	Time  string `json:"time"`
	Attrs string `json:"attrs"`
}
type ApiLk struct {
	Idc    string `json:"idc"`
	N      string `json:"n"`
	Attrs  string `json:"attrs"`
	Remote string `json:"remote"`
	Ts     string `json:"ts"`
}
type SpanApi struct {
	Idc    string  `json:"idc"`
	Name   string  `json:"name"`
	Kind   string  `json:"kind"`
	Code   string  `json:"code"`
	Msg    string  `json:"msg"`
	Start  string  `json:"start"`
	End    string  `json:"end"`
	Parent string  `json:"parent"`
	Ts     string  `json:"ts"`
	Attrs  string  `json:"attrs"`
	Events []ApiEv `json:"events"`
	Links  []ApiLk `json:"links"`
}
type LogApi struct {
	Ts      string `json:"ts"`
	Obs     string `json:"obs"`
	Sev     string `json:"sev"`
	Sevtext string `json:"sevtext"`
	Event   string `json:"event"`
	Body    string `json:"body"`
	Attrs   string `json:"attrs"`
	Ids     string `json:"ids"`
	Flags   string `json:"flags"`
}
type Meas struct {
	Da string `json:"da"`
	V  int    `json:"v"`
}
type MetricApi struct {
	Kind string `json:"kind"`
	Num  string `json:"num"`
	Desc string `json:"desc"`
	Unit string `json:"unit"`
	View string `json:"view"`
	Temp string `json:"temp"`
	Meas []Meas `json:"meas"`
}

// pipelines per signal: <processor or reader>-<transport>
var Pipes = map[string][]string{
	"trace":  {"bsp-grpc", "ssp-http", "bsp-stdout", "ssp-grpc", "bsp-http", "ssp-stdout"},
	"metric": {"periodic-grpc", "manual-http", "periodic-stdout", "manual-grpc", "periodic-http", "manual-stdout"},
	"log":    {"batch-grpc", "simple-http", "batch-stdout", "simple-grpc", "batch-http", "simple-stdout"},
}

func transportIdx(pipe string) int { // index into the exporter lists of Loop, -1 = stdout
	switch {
	case strings.HasSuffix(pipe, "-grpc"):
		return 0
	case strings.HasSuffix(pipe, "-http"):
		return 1
	}
	return -1
}

// ---- user-side wrappers: the providers may shut their exporter down, the loop keeps it

// refused: the exporter returned an error for a batch (a stdout exporter cannot print NaN / Inf)
type keepSpanExp struct {
	sdktrace.SpanExporter
	refused *bool
}

func (keepSpanExp) Shutdown(context.Context) error { return nil }
func (k keepSpanExp) ExportSpans(ctx context.Context, s []sdktrace.ReadOnlySpan) error {
	err := k.SpanExporter.ExportSpans(ctx, s)
	if err != nil {
		*k.refused = true
	}
	return err
}

type keepLogExp struct {
	sdklog.Exporter
	refused *bool
}

func (keepLogExp) Shutdown(context.Context) error { return nil }
func (k keepLogExp) Export(ctx context.Context, r []sdklog.Record) error {
	err := k.Exporter.Export(ctx, r)
	if err != nil {
		*k.refused = true
	}
	return err
}

type keepMetricExp struct {
	exp     sdkmetric.Exporter
	temp    metricdata.Temporality
	refused *bool
}

// errRefused: the stdout exporter could not print the program's data (no observation, not a verdict)
type errRefused struct{}

func (errRefused) Error() string { return "stdout exporter refused the batch" }

func (k keepMetricExp) Temporality(sdkmetric.InstrumentKind) metricdata.Temporality { return k.temp }
func (k keepMetricExp) Aggregation(ik sdkmetric.InstrumentKind) sdkmetric.Aggregation {
	return sdkmetric.DefaultAggregationSelector(ik)
}
func (k keepMetricExp) Export(ctx context.Context, rm *metricdata.ResourceMetrics) error {
	err := k.exp.Export(ctx, rm)
	if err != nil {
		*k.refused = true
	}
	return err
}
func (k keepMetricExp) ForceFlush(ctx context.Context) error { return k.exp.ForceFlush(ctx) }
func (keepMetricExp) Shutdown(context.Context) error         { return nil }

// ---- ids of the spans come from the item (public API: WithIDGenerator)

type itemKey struct{}
type itemInfo struct {
	idc string
	id  int
}
type itemIDs struct{}

func (itemIDs) NewIDs(ctx context.Context) (trace.TraceID, trace.SpanID) {
	k := ctx.Value(itemKey{}).(itemInfo)
	return mkTID(k.idc, k.id), mkSID(k.idc, k.id)
}
func (itemIDs) NewSpanID(ctx context.Context, _ trace.TraceID) trace.SpanID {
	k := ctx.Value(itemKey{}).(itemInfo)
	return mkSID(k.idc, k.id)
}

// ---- what the collector holds right now (non-blocking: the flush has returned)

func (l *Loop) takeHTTP(path string) ([][]byte, error) {
	var out [][]byte
	for {
		select {
		case b := <-l.httpc:
			if b.err != nil {
				return nil, errLoopback{"reading http body: " + b.err.Error()}
			}
			if b.path != path {
				return nil, errLoopback{"unexpected path " + b.path}
			}
			out = append(out, b.body)
		default:
			return out, nil
		}
	}
}

func (l *Loop) takeTrace(t int) ([]*tracepb.ResourceSpans, error) {
	var out []*tracepb.ResourceSpans
	if t == 0 {
		for {
			select {
			case q := <-l.tsvc.ch:
				out = append(out, q.GetResourceSpans()...)
			default:
				return out, nil
			}
		}
	}
	bodies, err := l.takeHTTP("/v1/traces")
	for _, b := range bodies {
		q := &coltracepb.ExportTraceServiceRequest{}
		if e := proto.Unmarshal(b, q); e != nil {
			return nil, fmt.Errorf("http trace request does not unmarshal: %w", e)
		}
		out = append(out, q.GetResourceSpans()...)
	}
	return out, err
}

func (l *Loop) takeMetric(t int) ([]*metricpb.ResourceMetrics, error) {
	var out []*metricpb.ResourceMetrics
	if t == 0 {
		for {
			select {
			case q := <-l.msvc.ch:
				out = append(out, q.GetResourceMetrics()...)
			default:
				return out, nil
			}
		}
	}
	bodies, err := l.takeHTTP("/v1/metrics")
	for _, b := range bodies {
		q := &colmetricpb.ExportMetricsServiceRequest{}
		if e := proto.Unmarshal(b, q); e != nil {
			return nil, fmt.Errorf("http metric request does not unmarshal: %w", e)
		}
		out = append(out, q.GetResourceMetrics()...)
	}
	return out, err
}

func (l *Loop) takeLog(t int) ([]*logpb.ResourceLogs, error) {
	var out []*logpb.ResourceLogs
	if t == 0 {
		for {
			select {
			case q := <-l.lsvc.ch:
				out = append(out, q.GetResourceLogs()...)
			default:
				return out, nil
			}
		}
	}
	bodies, err := l.takeHTTP("/v1/logs")
	for _, b := range bodies {
		q := &collogpb.ExportLogsServiceRequest{}
		if e := proto.Unmarshal(b, q); e != nil {
			return nil, fmt.Errorf("http log request does not unmarshal: %w", e)
		}
		out = append(out, q.GetResourceLogs()...)
	}
	return out, err
}

func flushCtx() (context.Context, context.CancelFunc) {
	return context.WithTimeout(context.Background(), exportTimeout)
}

func protoOf(pipe string) string { return pipe[strings.LastIndexByte(pipe, '-')+1:] }

// ---------------------------------------------------------------- traces

func e2eTrace(l *Loop, w *World, prog []Item, pipe string) (Out, error) {
	l.drain()
	l.soBuf.Reset()
	t := transportIdx(pipe)
	var exp sdktrace.SpanExporter = l.soTrace
	if t >= 0 {
		exp = l.traceExps[t]
	}
	refused := false
	var provs []*sdktrace.TracerProvider
	byRes := map[string]*sdktrace.TracerProvider{}
	r := w.rng
	for _, it := range prog {
		var fv SpanApi
		mustJSON(it.FV, &fv)
		tp, ok := byRes[it.R]
		if !ok {
			var sp sdktrace.SpanProcessor
			if strings.HasPrefix(pipe, "bsp-") {
				sp = sdktrace.NewBatchSpanProcessor(keepSpanExp{exp, &refused}, sdktrace.WithBatchTimeout(time.Hour))
			} else {
				sp = sdktrace.NewSimpleSpanProcessor(keepSpanExp{exp, &refused})
			}
			tp = sdktrace.NewTracerProvider(sdktrace.WithResource(w.resourceOf(it.R, true)), sdktrace.WithIDGenerator(itemIDs{}),
				sdktrace.WithSampler(sdktrace.AlwaysSample()), sdktrace.WithSpanProcessor(sp))
			byRes[it.R] = tp
			provs = append(provs, tp)
		}
		sc := w.scopeOf(it.S)
		topts := []trace.TracerOption{}
		if sc.Version != "" {
			topts = append(topts, trace.WithInstrumentationVersion(sc.Version))
		}
		if sc.SchemaURL != "" {
			topts = append(topts, trace.WithSchemaURL(sc.SchemaURL))
		}
		if sc.Attributes.Len() > 0 {
			topts = append(topts, trace.WithInstrumentationAttributes(sc.Attributes.ToSlice()...))
		}
		tracer := tp.Tracer(sc.Name, topts...)

		ctx := context.WithValue(context.Background(), itemKey{}, itemInfo{fv.Idc, it.ID})
		switch fv.Parent {
		case "local":
			ctx = trace.ContextWithSpanContext(ctx, parentOf("local", it.ID, fv.Idc, traceState(fv.Ts)))
		case "remote":
			ctx = trace.ContextWithRemoteSpanContext(ctx, parentOf("remote", it.ID, fv.Idc, traceState(fv.Ts)))
		case "none":
		default:
			harnessBug("parent class %q", fv.Parent)
		}
		var links []trace.Link
		for _, lk := range fv.Links {
			n := linkNum[lk.N]
			links = append(links, trace.Link{SpanContext: trace.NewSpanContext(trace.SpanContextConfig{TraceID: mkTID(lk.Idc, n), SpanID: mkSID(lk.Idc, n),
				TraceState: traceState(lk.Ts), Remote: lk.Remote == "t"}), Attributes: concAttrs(r, "list", lk.Attrs)})
		}
		sopts := []trace.SpanStartOption{trace.WithSpanKind(kindOf(fv.Kind)), trace.WithTimestamp(concTime(r, fv.Start)),
			trace.WithAttributes(concAttrs(r, "list", fv.Attrs)...)}
		// links at start or afterwards: both are the public API
		late := len(links) > 0 && r.Intn(2) == 0
		if !late {
			sopts = append(sopts, trace.WithLinks(links...))
		}
		_, span := tracer.Start(ctx, concStr("name", fv.Name), sopts...)
		if late {
			for _, lk := range links {
				span.AddLink(lk)
			}
		}
		for _, e := range fv.Events {
			span.AddEvent(concStr("ename", e.Name), trace.WithTimestamp(concTime(r, e.Time)), trace.WithAttributes(concAttrs(r, "list", e.Attrs)...))
		}
		span.SetStatus(codeOf(fv.Code), concStr("msg", fv.Msg))
		span.End(trace.WithTimestamp(concTime(r, fv.End)))
	}
	ctx, cancel := flushCtx()
	defer cancel()
	for _, tp := range provs {
		if err := tp.ForceFlush(ctx); err != nil && !(t < 0 && refused) {
			return Out{}, errLoopback{"TracerProvider.ForceFlush: " + err.Error()}
		}
	}
	var got []*tracepb.ResourceSpans
	var err error
	if t >= 0 {
		if got, err = l.takeTrace(t); err != nil {
			return Out{}, err
		}
	}
	for _, tp := range provs {
		if err := tp.Shutdown(ctx); err != nil {
			return Out{}, errLoopback{"TracerProvider.Shutdown: " + err.Error()}
		}
	}
	if t < 0 {
		if refused {
			return Out{}, errRefused{}
		}
		g, err := projectStdoutTrace(l.soBuf.Bytes())
		return Out{"stdout", g}, err
	}
	if refused {
		return Out{}, errLoopback{"an OTLP trace export failed"}
	}
	// nothing may arrive after the flush; if it does it is part of what the collector holds
	more, err := l.takeTrace(t)
	if err != nil {
		return Out{}, err
	}
	return Out{protoOf(pipe), projectTrace(append(got, more...))}, nil
}

// ---------------------------------------------------------------- logs

func e2eLog(l *Loop, w *World, prog []Item, pipe string) (Out, error) {
	l.drain()
	l.soBuf.Reset()
	t := transportIdx(pipe)
	var exp sdklog.Exporter = l.soLog
	if t >= 0 {
		exp = l.logExps[t].(sdklog.Exporter)
	}
	refused := false
	var provs []*sdklog.LoggerProvider
	byRes := map[string]*sdklog.LoggerProvider{}
	for _, it := range prog {
		var a LogApi
		mustJSON(it.FV, &a)
		fv := LogFV{Ts: a.Ts, Obs: a.Obs, Sev: a.Sev, Sevtext: a.Sevtext, Event: a.Event, Body: a.Body, Attrs: a.Attrs, Dropped: "c0", Ids: a.Ids, Flags: a.Flags}
		lp, ok := byRes[it.R]
		if !ok {
			var p sdklog.Processor
			if strings.HasPrefix(pipe, "batch-") {
				p = sdklog.NewBatchProcessor(keepLogExp{exp, &refused}, sdklog.WithExportInterval(time.Hour))
			} else {
				p = sdklog.NewSimpleProcessor(keepLogExp{exp, &refused})
			}
			lp = sdklog.NewLoggerProvider(sdklog.WithResource(w.resourceOf(it.R, false)), sdklog.WithProcessor(p))
			byRes[it.R] = lp
			provs = append(provs, lp)
		}
		rec, ctx, _, _, _, _ := apiRecord(w.rng, it.ID, fv)
		loggerOf(lp, w.scopeOf(it.S)).Emit(ctx, rec)
	}
	ctx, cancel := flushCtx()
	defer cancel()
	for _, lp := range provs {
		if err := lp.ForceFlush(ctx); err != nil && !(t < 0 && refused) {
			return Out{}, errLoopback{"LoggerProvider.ForceFlush: " + err.Error()}
		}
	}
	var got []*logpb.ResourceLogs
	var err error
	if t >= 0 {
		if got, err = l.takeLog(t); err != nil {
			return Out{}, err
		}
	}
	for _, lp := range provs {
		if err := lp.Shutdown(ctx); err != nil {
			return Out{}, errLoopback{"LoggerProvider.Shutdown: " + err.Error()}
		}
	}
	if t < 0 {
		if refused {
			return Out{}, errRefused{}
		}
		g, err := projectStdoutLogs(l.soBuf.Bytes())
		return Out{"stdout", g}, err
	}
	if refused {
		return Out{}, errLoopback{"an OTLP log export failed"}
	}
	more, err := l.takeLog(t)
	if err != nil {
		return Out{}, err
	}
	return Out{protoOf(pipe), projectLogs(append(got, more...))}, nil
}

// ---------------------------------------------------------------- metrics

type meterProv struct {
	mp     *sdkmetric.MeterProvider
	manual *sdkmetric.ManualReader
	exp    keepMetricExp
}

func instOpts[O any](desc, unit string, d func(string) O, u func(string) O) []O {
	var o []O
	if desc != "" {
		o = append(o, d(desc))
	}
	if unit != "" {
		o = append(o, u(unit))
	}
	return o
}

func record(m metric.Meter, name string, a MetricApi, sets []attribute.Set) error {
	desc, unit := concStr("desc", a.Desc), concStr("unit", a.Unit)
	ctx := context.Background()
	isInt := a.Num == "int"
	switch a.Kind {
	case "counter":
		if isInt {
			c, err := m.Int64Counter(name, metric.WithDescription(desc), metric.WithUnit(unit))
			for i, x := range a.Meas {
				c.Add(ctx, int64(x.V), metric.WithAttributeSet(sets[i]))
			}
			return err
		}
		c, err := m.Float64Counter(name, metric.WithDescription(desc), metric.WithUnit(unit))
		for i, x := range a.Meas {
			c.Add(ctx, float64(x.V), metric.WithAttributeSet(sets[i]))
		}
		return err
	case "updown":
		if isInt {
			c, err := m.Int64UpDownCounter(name, metric.WithDescription(desc), metric.WithUnit(unit))
			for i, x := range a.Meas {
				c.Add(ctx, int64(x.V), metric.WithAttributeSet(sets[i]))
			}
			return err
		}
		c, err := m.Float64UpDownCounter(name, metric.WithDescription(desc), metric.WithUnit(unit))
		for i, x := range a.Meas {
			c.Add(ctx, float64(x.V), metric.WithAttributeSet(sets[i]))
		}
		return err
	case "hist":
		if isInt {
			c, err := m.Int64Histogram(name, metric.WithDescription(desc), metric.WithUnit(unit))
			for i, x := range a.Meas {
				c.Record(ctx, int64(x.V), metric.WithAttributeSet(sets[i]))
			}
			return err
		}
		c, err := m.Float64Histogram(name, metric.WithDescription(desc), metric.WithUnit(unit))
		for i, x := range a.Meas {
			c.Record(ctx, float64(x.V), metric.WithAttributeSet(sets[i]))
		}
		return err
	case "gauge":
		if isInt {
			c, err := m.Int64Gauge(name, metric.WithDescription(desc), metric.WithUnit(unit))
			for i, x := range a.Meas {
				c.Record(ctx, int64(x.V), metric.WithAttributeSet(sets[i]))
			}
			return err
		}
		c, err := m.Float64Gauge(name, metric.WithDescription(desc), metric.WithUnit(unit))
		for i, x := range a.Meas {
			c.Record(ctx, float64(x.V), metric.WithAttributeSet(sets[i]))
		}
		return err
	}
	icb := metric.WithInt64Callback(func(_ context.Context, o metric.Int64Observer) error {
		for i, x := range a.Meas {
			o.Observe(int64(x.V), metric.WithAttributeSet(sets[i]))
		}
		return nil
	})
	fcb := metric.WithFloat64Callback(func(_ context.Context, o metric.Float64Observer) error {
		for i, x := range a.Meas {
			o.Observe(float64(x.V), metric.WithAttributeSet(sets[i]))
		}
		return nil
	})
	var err error
	switch {
	case a.Kind == "ocounter" && isInt:
		_, err = m.Int64ObservableCounter(name, metric.WithDescription(desc), metric.WithUnit(unit), icb)
	case a.Kind == "ocounter":
		_, err = m.Float64ObservableCounter(name, metric.WithDescription(desc), metric.WithUnit(unit), fcb)
	case a.Kind == "oupdown" && isInt:
		_, err = m.Int64ObservableUpDownCounter(name, metric.WithDescription(desc), metric.WithUnit(unit), icb)
	case a.Kind == "oupdown":
		_, err = m.Float64ObservableUpDownCounter(name, metric.WithDescription(desc), metric.WithUnit(unit), fcb)
	case a.Kind == "ogauge" && isInt:
		_, err = m.Int64ObservableGauge(name, metric.WithDescription(desc), metric.WithUnit(unit), icb)
	case a.Kind == "ogauge":
		_, err = m.Float64ObservableGauge(name, metric.WithDescription(desc), metric.WithUnit(unit), fcb)
	default:
		harnessBug("instrument kind %q", a.Kind)
	}
	return err
}

func e2eMetric(l *Loop, w *World, prog []Item, pipe string) (Out, error) {
	l.drain()
	l.soBuf.Reset()
	t := transportIdx(pipe)
	var exp sdkmetric.Exporter = l.soMetric
	if t >= 0 {
		exp = l.metricExps[t].(sdkmetric.Exporter)
	}
	apis := make([]MetricApi, len(prog))
	// views are fixed when a provider is built: collect them per provider first.  A reader has one
	// temporality preference, so a provider is identified by (resource index, temporality).
	views := map[string][]sdkmetric.View{}
	pkey := func(i int) string { return prog[i].R + "/" + apis[i].Temp }
	for i, it := range prog {
		mustJSON(it.FV, &apis[i])
		name := fmt.Sprintf("m%d", it.ID)
		switch apis[i].View {
		case "default":
		case "expo":
			views[pkey(i)] = append(views[pkey(i)], sdkmetric.NewView(sdkmetric.Instrument{Name: name},
				sdkmetric.Stream{Aggregation: sdkmetric.AggregationBase2ExponentialHistogram{MaxSize: 160, MaxScale: 20}}))
		case "bounds":
			views[pkey(i)] = append(views[pkey(i)], sdkmetric.NewView(sdkmetric.Instrument{Name: name},
				sdkmetric.Stream{Aggregation: sdkmetric.AggregationExplicitBucketHistogram{Boundaries: []float64{2, 4}}}))
		default:
			harnessBug("view class %q", apis[i].View)
		}
	}
	refused := false
	var provs []*meterProv
	byKey := map[string]*meterProv{}
	for i, it := range prog {
		a := apis[i]
		p, ok := byKey[pkey(i)]
		if !ok {
			p = &meterProv{exp: keepMetricExp{exp: exp, temp: tempOf(a.Temp), refused: &refused}}
			var rd sdkmetric.Reader
			if strings.HasPrefix(pipe, "periodic-") {
				rd = sdkmetric.NewPeriodicReader(p.exp, sdkmetric.WithInterval(time.Hour))
			} else {
				tmp := tempOf(a.Temp)
				p.manual = sdkmetric.NewManualReader(sdkmetric.WithTemporalitySelector(func(sdkmetric.InstrumentKind) metricdata.Temporality { return tmp }))
				rd = p.manual
			}
			opts := []sdkmetric.Option{sdkmetric.WithResource(w.resourceOf(it.R, true)), sdkmetric.WithReader(rd)}
			if vs := views[pkey(i)]; len(vs) > 0 {
				opts = append(opts, sdkmetric.WithView(vs...))
			}
			p.mp = sdkmetric.NewMeterProvider(opts...)
			byKey[pkey(i)] = p
			provs = append(provs, p)
		}
		sc := w.scopeOf(it.S)
		mopts := []metric.MeterOption{}
		if sc.Version != "" {
			mopts = append(mopts, metric.WithInstrumentationVersion(sc.Version))
		}
		if sc.SchemaURL != "" {
			mopts = append(mopts, metric.WithSchemaURL(sc.SchemaURL))
		}
		if sc.Attributes.Len() > 0 {
			mopts = append(mopts, metric.WithInstrumentationAttributes(sc.Attributes.ToSlice()...))
		}
		sets := make([]attribute.Set, len(a.Meas))
		for j, x := range a.Meas {
			sets[j] = attribute.NewSet(concAttrs(w.rng, "dp", x.Da)...)
		}
		if err := record(p.mp.Meter(sc.Name, mopts...), fmt.Sprintf("m%d", it.ID), a, sets); err != nil {
			harnessBug("instrument m%d: %v", it.ID, err)
		}
	}
	ctx, cancel := flushCtx()
	defer cancel()
	for _, p := range provs {
		if p.manual == nil {
			if err := p.mp.ForceFlush(ctx); err != nil && !(t < 0 && refused) {
				return Out{}, errLoopback{"MeterProvider.ForceFlush: " + err.Error()}
			}
			continue
		}
		var rm metricdata.ResourceMetrics
		if err := p.manual.Collect(ctx, &rm); err != nil {
			return Out{}, errLoopback{"ManualReader.Collect: " + err.Error()}
		}
		if err := p.exp.Export(ctx, &rm); err != nil && !(t < 0 && refused) {
			return Out{}, errLoopback{"metric exporter: " + err.Error()}
		}
	}
	var got []*metricpb.ResourceMetrics
	var err error
	var so []byte
	if t >= 0 {
		if got, err = l.takeMetric(t); err != nil {
			return Out{}, err
		}
	} else {
		so = append(so, l.soBuf.Bytes()...)
	}
	// Shutdown of a periodic reader collects and exports once more by design: not part of the flush point
	for _, p := range provs {
		if err := p.mp.Shutdown(ctx); err != nil {
			return Out{}, errLoopback{"MeterProvider.Shutdown: " + err.Error()}
		}
	}
	l.drain()
	numMode = true
	defer func() { numMode = false }()
	if t < 0 {
		if refused {
			return Out{}, errRefused{}
		}
		g, err := projectStdoutMetrics(so)
		return Out{"stdout", g}, err
	}
	if refused {
		return Out{}, errLoopback{"an OTLP metric export failed"}
	}
	return Out{protoOf(pipe), projectMetrics(got)}, nil
}

// ---------------------------------------------------------------- numeric projection of metric points
// (end-to-end: values are what the SDK aggregated from natural-number measurements)

var numMode bool

func numStr(f float64) string {
	if f == math.Trunc(f) && math.Abs(f) < 1e15 {
		return strconv.FormatInt(int64(f), 10)
	}
	return unk(fbits(f))
}

func numTimes(start, now uint64) (string, string) {
	s, t := "tnow", "tnow"
	if start == 0 {
		s = unk("0")
	}
	if now == 0 || now < start {
		t = unk(fmt.Sprint(now))
	}
	return s, t
}

func numMM(min, max *float64) string {
	if min == nil || max == nil {
		return unk(renderMM(min, max))
	}
	return numStr(*min) + ".." + numStr(*max)
}

func numHistLay(bounds []float64, counts []uint64) string {
	b := make([]string, len(bounds))
	for i, x := range bounds {
		b[i] = numStr(x)
	}
	c := make([]string, len(counts))
	for i, x := range counts {
		c[i] = strconv.FormatUint(x, 10)
	}
	return strings.Join(b, ",") + "|" + strings.Join(c, ",")
}

// ---------------------------------------------------------------- driver

func runE2E(loop *Loop, tab *Tables, rng *rand.Rand, sig, pipe string, prog []Item) (out Out, err error, rp *realPanic) {
	defer func() {
		if p := recover(); p != nil {
			if s, ok := p.(string); ok && strings.HasPrefix(s, "harness:") {
				panic(p)
			}
			rp = &realPanic{val: p, stack: stackOf()}
		}
	}()
	w := newWorld(tab, rng)
	switch sig {
	case "trace":
		out, err = e2eTrace(loop, w, prog, pipe)
	case "log":
		out, err = e2eLog(loop, w, prog, pipe)
	case "metric":
		out, err = e2eMetric(loop, w, prog, pipe)
	default:
		harnessBug("no end-to-end pipeline for signal %q", sig)
	}
	return
}
