// c13: conformance harness for OtlpGrouping.tla / OtlpModel.tla (property C13).
//
//	c13 replay -tables T -edges F [-sample k] [-rep n] -out TRACE -res R
//	      every TLC edge (= one abstract batch) is built as REAL spans / ResourceMetrics / log
//	      records, pushed through the REAL OTLP gRPC+HTTP (or Zipkin) exporters into a loopback
//	      collector, the decoded requests are projected back to the abstract vocabulary and
//	      written as one ndjson line; Trace_OtlpGrouping.tla is the comparator.
//	c13 random -tables T -n N -out TRACE -res R
//	      seeded random batches (up to 60 items, 6 resources, 6 scopes, boundary representatives)
//	      through the same path.
//
// The harness only executes and projects; it never decides what is expected.
package main

import (
	"encoding/json"
	"errors"
	"flag"
	"fmt"
	"math"
	"math/rand"
	"os"
	"runtime/debug"
	"strings"

	"go.opentelemetry.io/otel"
	"go.opentelemetry.io/otel/sdk/verifh/vh"
	logpb "go.opentelemetry.io/proto/otlp/logs/v1"
	metricpb "go.opentelemetry.io/proto/otlp/metrics/v1"
)

type ResKey struct {
	A string `json:"a"`
	U string `json:"u"`
}
type ScopeKey struct {
	N string `json:"n"`
	V string `json:"v"`
	U string `json:"u"`
	A string `json:"a"`
}

// Tables is the vocabulary printed by specs/OtlpGrouping/OtlpTables.tla
type Tables struct {
	Res    map[string]ResKey                       `json:"res"`
	Scopes map[string]ScopeKey                     `json:"scopes"`
	Dom    map[string]map[string][]json.RawMessage `json:"dom"`
	SevAll []string                                `json:"sevall"`
}

type Item struct {
	R  string          `json:"r"`
	S  string          `json:"s"`
	ID int             `json:"id"`
	FV json.RawMessage `json:"fv"`
}
type OutItem struct {
	ID int `json:"id"`
	FV any `json:"fv"`
}
type ScopeGroup struct {
	SK    ScopeKey  `json:"sk"`
	Items []OutItem `json:"items"`
}
type ResGroup struct {
	RK     ResKey       `json:"rk"`
	Scopes []ScopeGroup `json:"scopes"`
}
type Out struct {
	Proto  string     `json:"proto"`
	Groups []ResGroup `json:"groups"`
}
type EdgeRec struct {
	Sig   string `json:"sig"`
	Mode  string `json:"mode"`
	Batch []Item `json:"batch"`
}

func mathBits(f float64) uint64 { return math.Float64bits(f) }

func mustJSON(raw json.RawMessage, v any) {
	d := json.NewDecoder(strings.NewReader(string(raw)))
	d.DisallowUnknownFields()
	if err := d.Decode(v); err != nil {
		harnessBug("field vector %s: %v", string(raw), err)
	}
}

func loadTables(path string) *Tables {
	b, err := os.ReadFile(path)
	vh.Must(err)
	var t Tables
	vh.Must(json.Unmarshal(b, &t))
	if len(t.Res) == 0 || len(t.Scopes) == 0 {
		vh.Must(errors.New("tables: no resources/scopes"))
	}
	return &t
}

// realPanic is a panic raised by the code under test (not by the harness itself)
type realPanic struct {
	val   any
	stack string
}

// runCase pushes one abstract batch of one signal through the real exporters.
func runCase(loop *Loop, tab *Tables, rng *rand.Rand, sig string, batch []Item, random bool) (outs []Out, same bool, err error, rp *realPanic) {
	defer func() {
		if p := recover(); p != nil {
			if s, ok := p.(string); ok && strings.HasPrefix(s, "harness:") {
				panic(p)
			}
			rp = &realPanic{val: p, stack: string(debug.Stack())}
		}
	}()
	w := newWorld(tab, rng)
	switch sig {
	case "trace":
		spans := buildSpans(w, batch)
		reqs, e := loop.ExportTrace(spans, random)
		if e != nil {
			return nil, false, e, nil
		}
		same = true
		for i, q := range reqs {
			outs = append(outs, Out{ProtoNames[i], projectTrace(q.GetResourceSpans())})
			same = same && sameTrace(reqs[0].GetResourceSpans(), q.GetResourceSpans())
		}
		if b, ok := loop.StdoutTrace(spans); ok {
			g, e := projectStdoutTrace(b)
			if e != nil {
				return nil, false, e, nil
			}
			outs = append(outs, Out{"stdout", g})
		}
		return outs, same, nil, nil
	case "log":
		recs := buildLogs(w, batch)
		reqs, e := loop.ExportLog(recs, random)
		if e != nil {
			return nil, false, e, nil
		}
		same = true
		for i, q := range reqs {
			outs = append(outs, Out{ProtoNames[i], projectLogs(q.GetResourceLogs())})
			same = same && sameLog(reqs[0].GetResourceLogs(), q.GetResourceLogs())
		}
		if b, ok := loop.StdoutLog(recs); ok {
			g, e := projectStdoutLogs(b)
			if e != nil {
				return nil, false, e, nil
			}
			outs = append(outs, Out{"stdout", g})
		}
		return outs, same, nil, nil
	case "metric":
		all := make([][]*metricpb.ResourceMetrics, nvariants(random))
		var so []ResGroup
		soOK := true
		for _, rm := range buildMetrics(w, batch, random) {
			reqs, e := loop.ExportMetric(rm, random)
			if e != nil {
				return nil, false, e, nil
			}
			for i, q := range reqs {
				all[i] = append(all[i], q.GetResourceMetrics()...)
			}
			if b, ok := loop.StdoutMetric(rm); ok && soOK {
				g, e := projectStdoutMetrics(b)
				if e != nil {
					return nil, false, e, nil
				}
				so = append(so, g...)
			} else {
				soOK = false
			}
		}
		same = true
		for i, rms := range all {
			outs = append(outs, Out{ProtoNames[i], projectMetrics(rms)})
			same = same && sameMetric(all[0], rms)
		}
		if soOK {
			outs = append(outs, Out{"stdout", so})
		}
		return outs, same, nil, nil
	case "zipkin":
		body, e := loop.ExportZipkin(buildZipkinSpans(w, batch))
		if e != nil {
			return nil, false, e, nil
		}
		groups, e := projectZipkin(body)
		if e != nil {
			return nil, false, e, nil
		}
		return []Out{{"zipkin", groups}}, true, nil, nil
	}
	harnessBug("unknown signal %q", sig)
	return
}

type runner struct {
	cfg   string
	loop  *Loop
	tab   *Tables
	tw    *vh.TraceWriter
	res   *vh.Result
	ncase int
}

// do executes one case and writes its trace line; loopback trouble is retried once on a fresh
// loop and then reported as inconclusive (never a verdict).
func (rn *runner) do(seed int64, sig, mode string, batch []Item, random bool) {
	rn.ncase++
	rn.res.Evaluations++
	var outs []Out
	var same bool
	var err error
	var rp *realPanic
	for attempt := 0; attempt < 2; attempt++ {
		outs, same, err, rp = runCase(rn.loop, rn.tab, rand.New(rand.NewSource(seed)), sig, batch, random)
		var lb errLoopback
		if err == nil || !errors.As(err, &lb) {
			break
		}
		// fresh collector + exporters, try once more
		rn.loop.Close()
		l, e := NewLoop()
		vh.Must(e)
		rn.loop = l
	}
	cs := map[string]any{"sig": sig, "mode": mode, "case": rn.ncase, "seed": seed}
	if rp != nil {
		rn.res.AddMismatch(vh.Mismatch{Kind: "panic", Case: cs, Path: batch, Detail: fmt.Sprintf("%v\n%s", rp.val, rp.stack)})
		return
	}
	if err != nil {
		var lb errLoopback
		if errors.As(err, &lb) {
			rn.res.Inconcl(fmt.Sprintf("case %d (%s): %v", rn.ncase, sig, err))
			return
		}
		// the exporter put something on the wire that does not decode
		rn.res.AddMismatch(vh.Mismatch{Kind: "undecodable", Case: cs, Path: batch, Detail: err.Error()})
		return
	}
	rn.res.Executed++
	rn.count(sig, batch)
	if sig != "zipkin" {
		if outs[len(outs)-1].Proto == "stdout" {
			rn.res.Count("stdout_observed_"+sig, 1)
		} else {
			rn.res.Count("stdout_refused_"+sig, 1) // the JSON encoder cannot print the batch (NaN / Inf)
		}
	}
	rn.tw.Emit(map[string]any{"ev": "Batch", "cfg": rn.cfg, "case": rn.ncase, "sig": sig, "mode": mode, "rseed": seed,
		"batch": batch, "outs": outs, "same": same})
	if rn.ncase%401 == 1 {
		rn.res.Sample(map[string]any{"sig": sig, "mode": mode, "batch": batch, "outs": outs, "same": same})
	}
}

// counters for the vacuity check
func (rn *runner) count(sig string, batch []Item) {
	res := rn.res
	res.Count("cases_"+sig, 1)
	res.Count("items", int64(len(batch)))
	keysR := map[ResKey]map[string]bool{}
	keysS := map[ScopeKey]map[string]bool{}
	groups := map[string]bool{}
	for _, it := range batch {
		rk, sk := rn.tab.Res[it.R], rn.tab.Scopes[it.S]
		if keysR[rk] == nil {
			keysR[rk] = map[string]bool{}
		}
		if keysS[sk] == nil {
			keysS[sk] = map[string]bool{}
		}
		keysR[rk][it.R] = true
		keysS[sk][it.S] = true
		groups[fmt.Sprint(rk, sk)] = true
		if it.S == "S0" {
			res.Count("items_empty_scope", 1)
		}
		if sk.N == "sn0" && it.S != "S0" {
			res.Count("items_partially_empty_scope", 1)
		}
		s := string(it.FV)
		for _, c := range []string{"cbig", "cmax32", "tpre", "tzero", "tfar", "kmax", "vnan", "vmax", "bdeep", "bempty", "abound", "L3", "L4", "L5", "L6", "L7", "L8", "mmx", "dsub"} {
			if strings.Contains(s, `"`+c+`"`) {
				res.Count("class_"+c, 1)
			}
		}
	}
	for _, idx := range keysR {
		if len(idx) > 1 {
			res.Count("batches_equal_distinct_resources", 1)
			break
		}
	}
	for _, idx := range keysS {
		if len(idx) > 1 {
			res.Count("batches_equal_distinct_scopes", 1)
			break
		}
	}
	if len(groups) > 1 {
		res.Count("batches_multi_group", 1)
	}
	if len(batch) > 30 {
		res.Count("batches_over_30_items", 1)
	}
}

func stackOf() string { return string(debug.Stack()) }

// doE2E executes one end-to-end program through one pipeline and writes its trace line
func (rn *runner) doE2E(seed int64, sig, mode, pipe string, prog []Item) {
	rn.ncase++
	rn.res.Evaluations++
	var out Out
	var err error
	var rp *realPanic
	for attempt := 0; attempt < 2; attempt++ {
		out, err, rp = runE2E(rn.loop, rn.tab, rand.New(rand.NewSource(seed)), sig, pipe, prog)
		var lb errLoopback
		if err == nil || !errors.As(err, &lb) {
			break
		}
		rn.loop.Close()
		l, e := NewLoop()
		vh.Must(e)
		rn.loop = l
	}
	cs := map[string]any{"sig": sig, "mode": mode, "pipe": pipe, "case": rn.ncase, "seed": seed}
	if rp != nil {
		rn.res.AddMismatch(vh.Mismatch{Kind: "panic", Case: cs, Path: prog, Detail: fmt.Sprintf("%v\n%s", rp.val, rp.stack)})
		return
	}
	if err != nil {
		var lb errLoopback
		if errors.As(err, &lb) {
			rn.res.Inconcl(fmt.Sprintf("case %d (%s %s): %v", rn.ncase, sig, pipe, err))
			return
		}
		if errors.As(err, &errRefused{}) {
			rn.res.Count("stdout_refused_e2e_"+sig, 1)
			return
		}
		rn.res.AddMismatch(vh.Mismatch{Kind: "undecodable", Case: cs, Path: prog, Detail: err.Error()})
		return
	}
	rn.res.Executed++
	rn.count(sig, prog)
	rn.res.Count("pipe_"+pipe, 1)
	rn.tw.Emit(map[string]any{"ev": "E2E", "cfg": rn.cfg, "case": rn.ncase, "sig": sig, "mode": mode, "pipe": pipe, "rseed": seed,
		"batch": prog, "outs": []Out{out}})
	if rn.ncase%301 == 1 {
		rn.res.Sample(map[string]any{"sig": sig, "mode": mode, "pipe": pipe, "program": prog, "outs": []Out{out}})
	}
}

func e2e(args []string) {
	fs := flag.NewFlagSet("e2e", flag.ExitOnError)
	tables := fs.String("tables", "", "")
	edges := fs.String("edges", "", "TLC edge dump of MC_OtelSDK (empty: seeded random programs)")
	n := fs.Int("n", 30, "random programs per signal (without -edges)")
	pipes := fs.Int("pipes", 1, "pipelines per program (rotating; 6 = all)")
	name := fs.String("name", "e2e-random", "")
	out := fs.String("out", "trace.ndjson", "")
	resF := fs.String("res", "result.json", "")
	fs.Parse(args)
	tab := loadTables(*tables)
	loop, err := NewLoop()
	vh.Must(err)
	tw, err := vh.NewTraceWriter(*out)
	vh.Must(err)
	rn := &runner{cfg: *name, loop: loop, tab: tab, tw: tw, res: vh.NewResult()}
	run := func(i int, seed int64, sig, mode string, prog []Item) {
		ps := Pipes[sig]
		for k := 0; k < *pipes && k < len(ps); k++ {
			rn.doE2E(seed+int64(k), sig, mode, ps[(i+k+int(vh.Seed()))%len(ps)], prog)
		}
	}
	if *edges != "" {
		recs, err := readNDJSON[EdgeRec](*edges)
		vh.Must(err)
		for i, e := range recs {
			run(i, vh.Seed()*1000033+int64(i)*7, e.Sig, e.Mode, e.Batch)
		}
	} else {
		r := rand.New(rand.NewSource(vh.Seed()*6029 + 5))
		for i := 0; i < *n; i++ {
			for _, sig := range []string{"trace", "metric", "log"} {
				run(i, r.Int63(), sig, "random", randomProgram(r, tab, sig))
			}
		}
	}
	rn.loop.Close()
	vh.Must(tw.Close())
	rn.res.Count("trace_lines", tw.N)
	vh.Must(rn.res.Write(*resF))
}

func replay(args []string) {
	fs := flag.NewFlagSet("replay", flag.ExitOnError)
	tables := fs.String("tables", "", "")
	edges := fs.String("edges", "", "")
	sample := fs.Int("sample", 0, "replay only every k-th edge, offset by the seed (0 = all)")
	rep := fs.Int("rep", 0, "representative round (mixed into the concretization seed)")
	name := fs.String("name", "", "configuration name recorded in every trace line")
	out := fs.String("out", "trace.ndjson", "")
	resF := fs.String("res", "result.json", "")
	fs.Parse(args)
	tab := loadTables(*tables)
	loop, err := NewLoop()
	vh.Must(err)
	tw, err := vh.NewTraceWriter(*out)
	vh.Must(err)
	rn := &runner{cfg: *name, loop: loop, tab: tab, tw: tw, res: vh.NewResult()}
	recs, err := readNDJSON[EdgeRec](*edges)
	vh.Must(err)
	for i, e := range recs {
		if *sample > 1 && (int64(i)+vh.Seed())%int64(*sample) != 0 {
			rn.res.Evaluations++
			continue
		}
		rn.do(vh.Seed()*1000003+int64(*rep)*7919+int64(i), e.Sig, e.Mode, e.Batch, false)
	}
	rn.loop.Close()
	vh.Must(tw.Close())
	rn.res.Count("trace_lines", tw.N)
	vh.Must(rn.res.Write(*resF))
}

func random(args []string) {
	fs := flag.NewFlagSet("random", flag.ExitOnError)
	tables := fs.String("tables", "", "")
	n := fs.Int("n", 50, "batches per signal")
	out := fs.String("out", "trace.ndjson", "")
	resF := fs.String("res", "result.json", "")
	fs.Parse(args)
	tab := loadTables(*tables)
	loop, err := NewLoop()
	vh.Must(err)
	tw, err := vh.NewTraceWriter(*out)
	vh.Must(err)
	rn := &runner{cfg: "random", loop: loop, tab: tab, tw: tw, res: vh.NewResult()}
	r := rand.New(rand.NewSource(vh.Seed()*7907 + 13))
	for i := 0; i < *n; i++ {
		for _, sig := range []string{"trace", "metric", "log", "zipkin"} {
			batch := randomBatch(r, tab, sig)
			rn.do(r.Int63(), sig, "random", batch, true)
		}
	}
	rn.loop.Close()
	vh.Must(tw.Close())
	rn.res.Count("trace_lines", tw.N)
	vh.Must(rn.res.Write(*resF))
}

func readNDJSON[T any](path string) ([]T, error) {
	b, err := os.ReadFile(path)
	if err != nil {
		return nil, err
	}
	var out []T
	for _, line := range strings.Split(string(b), "\n") {
		if strings.TrimSpace(line) == "" {
			continue
		}
		var v T
		if err := json.Unmarshal([]byte(line), &v); err != nil {
			return nil, err
		}
		out = append(out, v)
	}
	return out, nil
}

func main() {
	if len(os.Args) < 2 {
		fmt.Println("usage: c13 replay|random ...")
		os.Exit(3)
	}
	clearOtelEnv()
	// errors reported through the global handler (e.g. partial-success) must not pollute stderr
	otel.SetErrorHandler(otel.ErrorHandlerFunc(func(error) {}))
	defer func() {
		if p := recover(); p != nil {
			fmt.Fprintln(os.Stderr, "harness failure:", p)
			os.Exit(3)
		}
	}()
	switch os.Args[1] {
	case "replay":
		replay(os.Args[2:])
	case "random":
		random(os.Args[2:])
	case "e2e":
		e2e(os.Args[2:])
	case "probe":
		probe(os.Args[2:])
	case "interleave":
		interleave(os.Args[2:])
	default:
		os.Exit(3)
	}
}

var _ = logpb.SeverityNumber_SEVERITY_NUMBER_UNSPECIFIED
