package main

// The stdout exporters as a third "protocol": their JSON output is decoded and projected to the
// same vocabulary as far as the JSON carries the field.  Not carried (masked in OtlpModel!StdoutMask
// / StdoutKeysNotCarried): the resource schema URL (all three), int64 vs float64 of metric numbers.
// Values the JSON cannot express (NaN, +-Inf) make the exporter return an error: such a case has no
// stdout observation (counted, never a verdict).

import (
	"bytes"
	"encoding/base64"
	"encoding/hex"
	"encoding/json"
	"fmt"
	"math"
	"sort"
	"strconv"
	"strings"
	"time"
)

type soAttr struct {
	Key   string
	Value struct {
		Type  string
		Value json.RawMessage
	}
}

func soNumber(raw json.RawMessage) (json.Number, bool) {
	var n json.Number
	d := json.NewDecoder(bytes.NewReader(raw))
	d.UseNumber()
	if err := d.Decode(&n); err != nil {
		return "", false
	}
	return n, true
}

func soFloat(raw json.RawMessage) string {
	n, ok := soNumber(raw)
	if !ok {
		return "badfloat"
	}
	f, err := strconv.ParseFloat(string(n), 64)
	if err != nil {
		return "badfloat"
	}
	return fbits(f)
}

func soInt(raw json.RawMessage) string {
	n, ok := soNumber(raw)
	if !ok {
		return "badint"
	}
	i, err := strconv.ParseInt(string(n), 10, 64)
	if err != nil {
		return "badint"
	}
	return fmt.Sprintf("i:%d", i)
}

// attribute.Value JSON ({"Type":"INT64","Value":1}) -> neutral rendering
func renderSOAttrValue(typ string, raw json.RawMessage) string {
	elems := func(f func(json.RawMessage) string) string {
		var xs []json.RawMessage
		if err := json.Unmarshal(raw, &xs); err != nil {
			return "badslice"
		}
		p := make([]string, len(xs))
		for i, x := range xs {
			p[i] = f(x)
		}
		return "[" + strings.Join(p, ",") + "]"
	}
	str := func(x json.RawMessage) string {
		var s string
		if json.Unmarshal(x, &s) != nil {
			return "badstring"
		}
		return fmt.Sprintf("s:%q", s)
	}
	boolean := func(x json.RawMessage) string {
		var b bool
		if json.Unmarshal(x, &b) != nil {
			return "badbool"
		}
		return fmt.Sprintf("b:%v", b)
	}
	switch typ {
	case "BOOL":
		return boolean(raw)
	case "INT64":
		return soInt(raw)
	case "FLOAT64":
		return soFloat(raw)
	case "STRING":
		return str(raw)
	case "BOOLSLICE":
		return elems(boolean)
	case "INT64SLICE":
		return elems(soInt)
	case "FLOAT64SLICE":
		return elems(soFloat)
	case "STRINGSLICE":
		return elems(str)
	}
	return "type:" + typ
}

func renderSOAttrs(kvs []soAttr) string {
	p := make([]string, len(kvs))
	for i, kv := range kvs {
		p[i] = fmt.Sprintf("%q=%s", kv.Key, renderSOAttrValue(kv.Value.Type, kv.Value.Value))
	}
	sort.Strings(p)
	return strings.Join(p, ";")
}

func absSOAttrs(fam string, kvs []soAttr) string {
	r := renderSOAttrs(kvs)
	if c, ok := attrRev[fam][r]; ok {
		return c
	}
	return unk(r)
}

// an attribute list that may be printed as an array, null, or (stdoutlog scope) an empty object
func soAttrList(raw json.RawMessage) ([]soAttr, bool) {
	s := strings.TrimSpace(string(raw))
	if s == "" || s == "null" || s == "{}" {
		return nil, true
	}
	var kvs []soAttr
	if err := json.Unmarshal(raw, &kvs); err != nil {
		return nil, false
	}
	return kvs, true
}

func absSOAttrsRaw(fam string, raw json.RawMessage) string {
	kvs, ok := soAttrList(raw)
	if !ok {
		return unk(string(raw))
	}
	return absSOAttrs(fam, kvs)
}

// the instant as the OTLP vocabulary names it (not representable -> unknown)
func absSOTime(t time.Time) string {
	if t.Year() < 1678 || t.Year() > 2262 || t.UnixNano() <= 0 {
		return "unix0"
	}
	return absTime(uint64(t.UnixNano()))
}

func absSOCount(n int) string {
	if n < 0 {
		return unk(fmt.Sprint(n))
	}
	if n > math.MaxUint32 {
		n = math.MaxUint32
	}
	return absCount(uint32(n))
}

type soScope struct {
	Name, Version, SchemaURL string
	Attributes               json.RawMessage
}

func absSOScope(s soScope) ScopeKey {
	return ScopeKey{N: absStr("sn", s.Name), V: absStr("sv", s.Version), U: absStr("su", s.SchemaURL), A: absSOAttrsRaw("sa", s.Attributes)}
}

func decodeLines[T any](b []byte) ([]T, error) {
	d := json.NewDecoder(bytes.NewReader(b))
	var out []T
	for d.More() {
		var v T
		if err := d.Decode(&v); err != nil {
			return nil, fmt.Errorf("stdout exporter output is not JSON: %w", err)
		}
		out = append(out, v)
	}
	return out, nil
}

// ---------------------------------------------------------------- spans

type soSC struct {
	TraceID, SpanID, TraceFlags, TraceState string
	Remote                                  bool
}
type soSpan struct {
	Name                string
	SpanContext, Parent soSC
	SpanKind            int
	StartTime, EndTime  time.Time
	Attributes          []soAttr
	Events              []struct {
		Name                  string
		Attributes            []soAttr
		DroppedAttributeCount int
		Time                  time.Time
	}
	Links []struct {
		SpanContext           soSC
		Attributes            []soAttr
		DroppedAttributeCount int
	}
	Status                                         struct{ Code, Description string }
	DroppedAttributes, DroppedEvents, DroppedLinks int
	Resource                                       []soAttr
	InstrumentationScope                           soScope
}

func hexIDs(tid, sid string) (string, int) {
	t, e1 := hex.DecodeString(tid)
	s, e2 := hex.DecodeString(sid)
	if e1 != nil || e2 != nil {
		return unk(tid + "/" + sid), -1
	}
	return absIDs(t, s)
}

func remoteStr(b bool) string {
	if b {
		return "t"
	}
	return "f"
}

func projectStdoutTrace(b []byte) ([]ResGroup, error) {
	spans, err := decodeLines[soSpan](b)
	if err != nil {
		return nil, err
	}
	out := []ResGroup{}
	for _, s := range spans {
		idc, n := hexIDs(s.SpanContext.TraceID, s.SpanContext.SpanID)
		fv := SpanFV{Idc: idc, Name: absStr("name", s.Name), Msg: absStr("msg", s.Status.Description),
			Start: absSOTime(s.StartTime), End: absSOTime(s.EndTime), Ts: absStr("ts", s.SpanContext.TraceState),
			Attrs: absSOAttrs("list", s.Attributes), Da: absSOCount(s.DroppedAttributes), De: absSOCount(s.DroppedEvents),
			Dl: absSOCount(s.DroppedLinks), Events: []EvFV{}, Links: []LkFV{}}
		if s.SpanKind >= 0 && s.SpanKind < len(kindNames) {
			fv.Kind = kindNames[s.SpanKind]
		} else {
			fv.Kind = unk(fmt.Sprint(s.SpanKind))
		}
		switch s.Status.Code {
		case "Unset", "Error", "Ok":
			fv.Code = strings.ToLower(s.Status.Code)
		default:
			fv.Code = unk(s.Status.Code)
		}
		want := mkParent(n)
		switch p := s.Parent.SpanID; {
		case p == "0000000000000000":
			fv.Parent = "none"
		case n >= 0 && p == hex.EncodeToString(want[:]):
			fv.Parent = map[bool]string{true: "remote", false: "local"}[s.Parent.Remote]
		default:
			fv.Parent = unk(p)
		}
		for _, e := range s.Events {
			fv.Events = append(fv.Events, EvFV{Name: absStr("ename", e.Name), Time: absSOTime(e.Time),
				Attrs: absSOAttrs("list", e.Attributes), D: absSOCount(e.DroppedAttributeCount)})
		}
		for _, l := range s.Links {
			lc, ln := hexIDs(l.SpanContext.TraceID, l.SpanContext.SpanID)
			nn := unk(fmt.Sprint(ln))
			if lc == "zero" {
				nn = "k0"
			}
			for k, v := range linkNum {
				if v == ln {
					nn = k
				}
			}
			fv.Links = append(fv.Links, LkFV{Idc: lc, N: nn, Attrs: absSOAttrs("list", l.Attributes),
				D: absSOCount(l.DroppedAttributeCount), Remote: remoteStr(l.SpanContext.Remote), Ts: absStr("ts", l.SpanContext.TraceState)})
		}
		out = append(out, ResGroup{RK: ResKey{A: absSOAttrs("ra", s.Resource), U: na},
			Scopes: []ScopeGroup{{SK: absSOScope(s.InstrumentationScope), Items: []OutItem{{ID: n, FV: fv}}}}})
	}
	return out, nil
}

// ---------------------------------------------------------------- log records

type soLogValue struct {
	Type  string
	Value json.RawMessage
}
type soLogKV struct {
	Key   string
	Value soLogValue
}

func renderSOLogValue(v soLogValue) string {
	switch v.Type {
	case "Empty":
		return "_"
	case "Bool":
		var b bool
		if json.Unmarshal(v.Value, &b) != nil {
			return "badbool"
		}
		return fmt.Sprintf("b:%v", b)
	case "Int64":
		return soInt(v.Value)
	case "Float64":
		return soFloat(v.Value)
	case "String":
		var s string
		if json.Unmarshal(v.Value, &s) != nil {
			return "badstring"
		}
		return fmt.Sprintf("s:%q", s)
	case "Bytes":
		var s *string
		if json.Unmarshal(v.Value, &s) != nil {
			return "badbytes"
		}
		if s == nil {
			return "y:"
		}
		raw, err := base64.StdEncoding.DecodeString(*s)
		if err != nil {
			return "badbytes"
		}
		return "y:" + hex.EncodeToString(raw)
	case "Slice":
		var xs []soLogValue
		if json.Unmarshal(v.Value, &xs) != nil {
			return "badslice"
		}
		p := make([]string, len(xs))
		for i, x := range xs {
			p[i] = renderSOLogValue(x)
		}
		return "[" + strings.Join(p, ",") + "]"
	case "Map":
		var kvs []soLogKV
		if json.Unmarshal(v.Value, &kvs) != nil {
			return "badmap"
		}
		return "{" + renderSOLogKVs(kvs) + "}"
	}
	return "type:" + v.Type
}

func renderSOLogKVs(kvs []soLogKV) string {
	p := make([]string, len(kvs))
	for i, kv := range kvs {
		p[i] = fmt.Sprintf("%q=%s", kv.Key, renderSOLogValue(kv.Value))
	}
	sort.Strings(p)
	return strings.Join(p, ";")
}

type soLog struct {
	Timestamp, ObservedTimestamp time.Time
	EventName                    string
	Severity                     int
	SeverityText                 string
	Body                         soLogValue
	Attributes                   []soLogKV
	TraceID, SpanID, TraceFlags  string
	Resource                     []soAttr
	Scope                        soScope
	DroppedAttributes            int
}

func absSev(n int) string {
	if n >= 0 && n <= 24 {
		return fmt.Sprintf("sev%d", n)
	}
	return "sevout"
}

// idsClass: the ids class of a log record from its trace / span id bytes (empty = absent)
func idsClass(tid, sid []byte, id int) string {
	allZero := func(b []byte) bool { return len(bytes.Trim(b, "\x00")) == 0 }
	switch {
	case allZero(tid) && allZero(sid):
		return "noids"
	case allZero(sid):
		if c, n := absTID(tid); c == "plain" && n == id {
			return "tidonly"
		}
		return unk(fmt.Sprintf("%x/-", tid))
	case allZero(tid):
		if c, n := absSID(sid); c == "plain" && n == id {
			return "sidonly"
		}
		return unk(fmt.Sprintf("-/%x", sid))
	}
	switch c, n := absIDs(tid, sid); {
	case c == "plain" && n == id:
		return "ids"
	case c == "hibit" && n == id:
		return "hibit"
	}
	return unk(fmt.Sprintf("%x/%x", tid, sid))
}

func projectStdoutLogs(b []byte) ([]ResGroup, error) {
	recs, err := decodeLines[soLog](b)
	if err != nil {
		return nil, err
	}
	out := []ResGroup{}
	for _, r := range recs {
		fv := LogFV{Ts: absSOTime(r.Timestamp), Obs: absSOTime(r.ObservedTimestamp), Sev: absSev(r.Severity),
			Event: absStr("event", r.EventName), Dropped: absSOCount(r.DroppedAttributes)}
		id := -1
		if st := r.SeverityText; st == "" {
			fv.Sevtext = "st0"
		} else if i := strings.LastIndexByte(st, '#'); i >= 0 {
			fv.Sevtext = absStr("sevtext", st[:i])
			if n, err := strconv.Atoi(st[i+1:]); err == nil {
				id = n
			}
		} else {
			fv.Sevtext = unk(st)
		}
		var rest []soLogKV
		pre := ""
		for _, kv := range r.Attributes {
			switch kv.Key {
			case idAttr:
				pre = "id;"
				n, err := strconv.Atoi(strings.TrimPrefix(renderSOLogValue(kv.Value), "i:"))
				switch {
				case err != nil || (id >= 0 && id != n):
					id = -2
				case id != -2:
					id = n
				}
			case dupAttr:
			default:
				rest = append(rest, kv)
			}
		}
		if c, ok := logAttrRev[pre+renderSOLogKVs(rest)]; ok {
			fv.Attrs = c
		} else {
			fv.Attrs = unk(pre + renderSOLogKVs(rest))
		}
		if c, ok := bodyRev[renderSOLogValue(r.Body)]; ok {
			fv.Body = c
		} else {
			fv.Body = unk(renderSOLogValue(r.Body))
		}
		tid, _ := hex.DecodeString(r.TraceID)
		sid, _ := hex.DecodeString(r.SpanID)
		fv.Ids = idsClass(tid, sid, id)
		switch r.TraceFlags {
		case "00":
			fv.Flags = "f0"
		case "01":
			fv.Flags = "f1"
		default:
			fv.Flags = unk(r.TraceFlags)
		}
		out = append(out, ResGroup{RK: ResKey{A: absSOAttrs("ra", r.Resource), U: na},
			Scopes: []ScopeGroup{{SK: absSOScope(r.Scope), Items: []OutItem{{ID: id, FV: fv}}}}})
	}
	return out, nil
}

// ---------------------------------------------------------------- metrics

type soExemplar struct {
	FilteredAttributes []soAttr
	Time               time.Time
	Value              json.RawMessage
	SpanID, TraceID    []byte
}
type soBucket struct {
	Offset int32
	Counts []uint64
}
type soDP struct {
	Attributes      []soAttr
	StartTime, Time time.Time
	Value           json.RawMessage
	Exemplars       []soExemplar
	Count           uint64
	Bounds          *[]float64
	BucketCounts    []uint64
	Min, Max        *float64
	Sum             json.RawMessage
	Scale           *int32
	ZeroCount       uint64
	PositiveBucket  soBucket
	NegativeBucket  soBucket
	ZeroThreshold   float64
	QuantileValues  *[]struct{ Quantile, Value float64 }
}
type soMetric struct {
	Name, Description, Unit string
	Data                    struct {
		DataPoints  []soDP
		Temporality *string
		IsMonotonic *bool
	}
}
type soRM struct {
	Resource     []soAttr
	ScopeMetrics []struct {
		Scope   soScope
		Metrics []soMetric
	}
}

// a JSON number of unknown number type: the class of the int64 or of the float64 table
func absSONumber(raw json.RawMessage) string {
	n, ok := soNumber(raw)
	if !ok {
		return unk(string(raw))
	}
	if numMode {
		f, err := strconv.ParseFloat(string(n), 64)
		if err != nil {
			return unk(string(n))
		}
		return numStr(f)
	}
	if i, err := strconv.ParseInt(string(n), 10, 64); err == nil && string(n) != "-0" {
		if c, ok := intRev[i]; ok {
			return c
		}
	}
	if f, err := strconv.ParseFloat(string(n), 64); err == nil {
		if c, ok := sumRev[mathBits(f)]; ok {
			return c
		}
	}
	return unk(string(n))
}

func absSOExemplars(xs []soExemplar) []ExOut {
	out := []ExOut{}
	for _, x := range xs {
		e := ExOut{Fa: absSOAttrs("list", x.FilteredAttributes), Time: absSOTime(x.Time), Val: absSONumber(x.Value), Num: na}
		switch {
		case len(x.SpanID) == 0 && len(x.TraceID) == 0:
			e.Ids = "noids"
		case string(x.SpanID) == string(exSpanID) && string(x.TraceID) == string(exTraceID):
			e.Ids = "ids"
		default:
			e.Ids = unk(fmt.Sprintf("%x/%x", x.TraceID, x.SpanID))
		}
		out = append(out, e)
	}
	return out
}

func tempClass(t *string) string {
	if t == nil {
		return na
	}
	switch *t {
	case "DeltaTemporality":
		return "delta"
	case "CumulativeTemporality":
		return "cumulative"
	}
	return unk(*t)
}

func projectStdoutMetrics(b []byte) ([]ResGroup, error) {
	rms, err := decodeLines[soRM](b)
	if err != nil {
		return nil, err
	}
	out := []ResGroup{}
	for _, rm := range rms {
		g := ResGroup{RK: ResKey{A: absSOAttrs("ra", rm.Resource), U: na}, Scopes: []ScopeGroup{}}
		for _, sm := range rm.ScopeMetrics {
			sg := ScopeGroup{SK: absSOScope(sm.Scope), Items: []OutItem{}}
			for _, m := range sm.Metrics {
				id := -1
				if strings.HasPrefix(m.Name, "m") {
					if n, err := strconv.Atoi(m.Name[1:]); err == nil {
						id = n
					}
				}
				fv := MetricOut{Desc: absStr("desc", m.Description), Unit: absStr("unit", m.Unit), Temp: na, Mono: na, Dps: []DPOut{}}
				dps := m.Data.DataPoints
				// the JSON does not tag the aggregation: it is recognised by its shape
				switch {
				case m.Data.IsMonotonic != nil:
					fv.Agg, fv.Temp, fv.Mono = "sum", tempClass(m.Data.Temporality), map[bool]string{true: "t", false: "f"}[*m.Data.IsMonotonic]
				case m.Data.Temporality != nil && len(dps) == 0:
					fv.Agg, fv.Temp = "histlike", tempClass(m.Data.Temporality)
				case m.Data.Temporality != nil && dps[0].Scale != nil:
					fv.Agg, fv.Temp = "exphist", tempClass(m.Data.Temporality)
				case m.Data.Temporality != nil:
					fv.Agg, fv.Temp = "hist", tempClass(m.Data.Temporality)
				case len(dps) == 0:
					fv.Agg = "gauge-or-summary"
				case dps[0].Value == nil:
					fv.Agg = "summary"
				default:
					fv.Agg = "gauge"
				}
				for _, dp := range dps {
					o := DPOut{Da: absSOAttrs("dp", dp.Attributes), Start: soDPStart(dp.StartTime, dp.Time), Time: soDPTime(dp.StartTime, dp.Time),
						Num: na, Cnt: na, Lay: na, Mm: na, Q: na, Ex: absSOExemplars(dp.Exemplars)}
					switch fv.Agg {
					case "sum", "gauge":
						o.Val = absSONumber(dp.Value)
					case "hist":
						o.Val, o.Cnt, o.Mm = absSONumber(dp.Sum), absCnt(dp.Count), absMM(dp.Min, dp.Max)
						var bounds []float64
						if dp.Bounds != nil {
							bounds = *dp.Bounds
						}
						lr := renderHistLay(bounds, dp.BucketCounts)
						if c, ok := histLayRev[lr]; ok {
							o.Lay = c
						} else {
							o.Lay = unk(lr)
						}
						if numMode {
							o.Lay = numHistLay(bounds, dp.BucketCounts)
						}
					case "exphist":
						o.Val, o.Cnt, o.Mm = absSONumber(dp.Sum), absCnt(dp.Count), absMM(dp.Min, dp.Max)
						lr := renderExpLay(*dp.Scale, dp.ZeroCount, dp.PositiveBucket.Offset, dp.PositiveBucket.Counts,
							dp.NegativeBucket.Offset, dp.NegativeBucket.Counts, dp.ZeroThreshold)
						if c, ok := expLayRev[lr]; ok {
							o.Lay = c
						} else {
							o.Lay = unk(lr)
						}
						if numMode {
							o.Lay = "c07"
						}
					case "summary":
						o.Val, o.Cnt, o.Ex = absSONumber(dp.Sum), absCnt(dp.Count), []ExOut{}
						var qs []quant
						if dp.QuantileValues != nil {
							for _, q := range *dp.QuantileValues {
								qs = append(qs, quant{q.Quantile, q.Value})
							}
						}
						if c, ok := qRev[renderQ(qs)]; ok {
							o.Q = c
						} else {
							o.Q = unk(renderQ(qs))
						}
					}
					fv.Dps = append(fv.Dps, o)
				}
				sg.Items = append(sg.Items, OutItem{ID: id, FV: fv})
			}
			g.Scopes = append(g.Scopes, sg)
		}
		out = append(out, g)
	}
	return out, nil
}

func soNano(t time.Time) uint64 {
	if t.Year() < 1971 || t.Year() > 2262 {
		return 0
	}
	return uint64(t.UnixNano())
}

func soDPStart(start, now time.Time) string {
	if numMode {
		s, _ := numTimes(soNano(start), soNano(now))
		return s
	}
	return absSOTime(start)
}

func soDPTime(start, now time.Time) string {
	if numMode {
		_, t := numTimes(soNano(start), soNano(now))
		return t
	}
	return absSOTime(now)
}
