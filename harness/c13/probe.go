package main

// Observations outside the verdict: what the OTLP exporters do with strings that are not valid UTF-8
// (protobuf `string` fields must be valid UTF-8; the attribute / log APIs do not validate).

import (
	"context"
	"encoding/json"
	"flag"
	"fmt"
	"os"
	"time"

	"go.opentelemetry.io/otel/attribute"
	"go.opentelemetry.io/otel/log"
	"go.opentelemetry.io/otel/sdk/instrumentation"
	sdklog "go.opentelemetry.io/otel/sdk/log"
	"go.opentelemetry.io/otel/sdk/metric/metricdata"
	"go.opentelemetry.io/otel/sdk/resource"
	sdktrace "go.opentelemetry.io/otel/sdk/trace"
	"go.opentelemetry.io/otel/sdk/trace/tracetest"
	"go.opentelemetry.io/otel/sdk/verifh/vh"
	"go.opentelemetry.io/otel/trace"
)

const badUTF8 = "ok\xff\xfeend"

func outcome(err error, received int) string {
	if err != nil {
		s := err.Error()
		if len(s) > 160 {
			s = s[:160] + "..."
		}
		return "export error, nothing received: " + s
	}
	return fmt.Sprintf("export ok, %d request(s) received", received)
}

func probe(args []string) {
	fs := flag.NewFlagSet("probe", flag.ExitOnError)
	out := fs.String("out", "probe.json", "")
	fs.Parse(args)
	l, err := NewLoop()
	vh.Must(err)
	defer l.Close()
	obs := map[string]string{}
	res := resource.NewSchemaless(attribute.String("service.name", "svc-a"))
	ctx, cancel := context.WithTimeout(context.Background(), 60*time.Second)
	defer cancel()

	good := tracetest.SpanStub{Name: "good", SpanContext: trace.NewSpanContext(trace.SpanContextConfig{TraceID: mkTID("plain", 1), SpanID: mkSID("plain", 1)}),
		Resource: res, InstrumentationScope: instrumentation.Scope{Name: "s"}}
	bad := good
	bad.SpanContext = trace.NewSpanContext(trace.SpanContextConfig{TraceID: mkTID("plain", 2), SpanID: mkSID("plain", 2)})
	bad.Attributes = []attribute.KeyValue{attribute.String("k", badUTF8)}
	for i, name := range []string{"grpc", "http"} {
		l.drain()
		err := l.traceExps[i].ExportSpans(ctx, []sdktrace.ReadOnlySpan{good.Snapshot(), bad.Snapshot()})
		n := len(l.tsvc.ch) + len(l.httpc)
		obs["trace/"+name+": batch [valid span, span with an invalid-UTF-8 string attribute]"] = outcome(err, n)
	}

	cap := &capProc{}
	lp := sdklog.NewLoggerProvider(sdklog.WithResource(res), sdklog.WithProcessor(cap))
	var r1, r2 log.Record
	r1.SetBody(log.StringValue("good"))
	r2.SetBody(log.StringValue(badUTF8))
	lp.Logger("s").Emit(ctx, r1)
	lp.Logger("s").Emit(ctx, r2)
	for i, name := range []string{"grpc", "http"} {
		l.drain()
		err := l.logExps[i].Export(ctx, []sdklog.Record{cap.recs[0].Clone(), cap.recs[1].Clone()})
		n := len(l.lsvc.ch) + len(l.httpc)
		obs["log/"+name+": batch [valid record, record whose body is an invalid-UTF-8 string]"] = outcome(err, n)
	}

	rm := &metricdata.ResourceMetrics{Resource: res, ScopeMetrics: []metricdata.ScopeMetrics{{Scope: instrumentation.Scope{Name: "s"}, Metrics: []metricdata.Metrics{
		{Name: "good", Data: metricdata.Gauge[int64]{DataPoints: []metricdata.DataPoint[int64]{{Value: 1}}}},
		{Name: "bad", Data: metricdata.Gauge[int64]{DataPoints: []metricdata.DataPoint[int64]{{Value: 1, Attributes: attribute.NewSet(attribute.String("k", badUTF8))}}}},
	}}}}
	for i, name := range []string{"grpc", "http"} {
		l.drain()
		err := l.metricExps[i].Export(ctx, rm)
		n := len(l.msvc.ch) + len(l.httpc)
		obs["metric/"+name+": [valid metric, metric with an invalid-UTF-8 attribute value]"] = outcome(err, n)
	}
	b, _ := json.MarshalIndent(obs, "", " ")
	vh.Must(os.WriteFile(*out, b, 0o644))
}
